#!/bin/bash
# Full .vo build of the development (never -vos). Serialised by a lock so that
# concurrent checks do not race on the same Makefile.
set -e
cd "$(dirname "$0")"
exec 9>.build.lock
flock 9
{ cat _CoqProject.in; find theories -name '*.v' | sort; } > _CoqProject
coq_makefile -f _CoqProject -o Makefile >/dev/null
timeout 1500 make -k -j16 "$@"
