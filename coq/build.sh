#!/bin/bash
# Translate the kernel of the repository (VERIF_REPO, default /repo) and do a full .vo build of
# the development (never -vos). Serialised by a lock so that concurrent checks do not race.
# exit status: 3 = translator refused the sources, otherwise make's status.
cd "$(dirname "$0")"
exec 9>.build.lock
flock 9
REPO="${VERIF_REPO:-/repo}"
/venv/bin/python ../translator/py2gallina.py "$REPO" theories/Gen || exit 3
{ cat _CoqProject.in; find theories -name '*.v' | sort; } > _CoqProject
coq_makefile -f _CoqProject -o Makefile >/dev/null || exit 4
timeout 900 make -k -j16 "$@"
