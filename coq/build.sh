#!/bin/bash
# usage: build.sh [make targets]
# Translate the kernel and the cache decisions of the repository (VERIF_REPO, default /repo) into
# theories/Gen/, then do a full .vo build (never -vos) of the given targets, or of the whole
# development when none is given (setup mode: exit 0 once make has run; the per-property builds
# decide). Serialised by a lock so that concurrent checks do not race.
cd "$(dirname "$0")"
exec 9>.build.lock
flock 9
REPO="${VERIF_REPO:-/repo}"
mkdir -p theories/Gen
/venv/bin/python ../translator/py2gallina.py "$REPO" theories/Gen > theories/Gen/kernel.status 2>&1; echo "exit $?" >> theories/Gen/kernel.status
/venv/bin/python ../translator/py2gallina_cache.py "$REPO" theories/Gen > theories/Gen/cache.status 2>&1; echo "exit $?" >> theories/Gen/cache.status
/venv/bin/python ../translator/py2gallina_revise.py "$REPO" theories/Gen > /dev/null 2>&1   # writes theories/Gen/revise.status theories/Gen/guards.status theories/Gen/reader.status theories/Gen/writers.status theories/Gen/store.status itself
/venv/bin/python ../translator/py2gallina_guards.py "$REPO" theories/Gen > /dev/null 2>&1   # writes theories/Gen/guards.status theories/Gen/reader.status theories/Gen/writers.status theories/Gen/store.status itself
/venv/bin/python ../translator/py2gallina_reader.py "$REPO" theories/Gen > /dev/null 2>&1   # writes theories/Gen/reader.status theories/Gen/writers.status theories/Gen/store.status itself
/venv/bin/python ../translator/py2gallina_writers.py "$REPO" theories/Gen > /dev/null 2>&1   # writes theories/Gen/writers.status theories/Gen/store.status itself
/venv/bin/python ../translator/py2gallina_store.py "$REPO" theories/Gen > /dev/null 2>&1   # writes theories/Gen/store.status itself
/venv/bin/python ../translator/py2gallina_overlap.py "$REPO" theories/Gen > /dev/null 2>&1   # writes theories/Gen/overlap.status itself
/venv/bin/python ../translator/py2gallina_merge.py "$REPO" theories/Gen > /dev/null 2>&1   # writes theories/Gen/merge.status itself
/venv/bin/python ../translator/py2gallina_lookup.py "$REPO" theories/Gen > /dev/null 2>&1   # writes theories/Gen/lookup.status itself
/venv/bin/python ../translator/py2gallina_jobs.py "$REPO" theories/Gen > /dev/null 2>&1   # writes theories/Gen/jobs.status itself
/venv/bin/python ../translator/py2gallina_pair.py "$REPO" theories/Gen > /dev/null 2>&1   # writes theories/Gen/pair.status itself
/venv/bin/python ../translator/py2gallina_flow.py "$REPO" theories/Gen > /dev/null 2>&1   # writes theories/Gen/flow.status itself
/venv/bin/python ../translator/py2gallina_cf.py "$REPO" theories/Gen > /dev/null 2>&1   # writes theories/Gen/cf_<fragment>.status itself
{ cat _CoqProject.in; find theories -name '*.v' | sort; } > _CoqProject.new
cmp -s _CoqProject.new _CoqProject || { mv _CoqProject.new _CoqProject; coq_makefile -f _CoqProject -o Makefile >/dev/null || exit 4; }
rm -f _CoqProject.new
[ -f Makefile ] || coq_makefile -f _CoqProject -o Makefile >/dev/null || exit 4
if [ $# -eq 0 ]; then
  timeout 1500 make -k -j16
  rc=$?
  grep -h . theories/Gen/kernel.status theories/Gen/cache.status theories/Gen/cf_worker_run.status theories/Gen/cf_handle_chrome.status theories/Gen/revise.status theories/Gen/guards.status theories/Gen/reader.status theories/Gen/writers.status theories/Gen/store.status theories/Gen/overlap.status theories/Gen/merge.status theories/Gen/lookup.status theories/Gen/jobs.status theories/Gen/pair.status theories/Gen/flow.status | grep -E "UNSUPPORTED|Traceback|^exit [1-9]" | head -5
  [ $rc -ne 0 ] && echo "build.sh: some files did not build (make status $rc); the checks of the properties resting on them will say so"
  exit 0
fi
timeout 900 make -k -j16 "$@"
