#!/bin/bash
# usage: goal.sh <file.v> <line>  -- show the goal just before <line>
f=$1; n=$2
head -n $((n-1)) "$f" > /tmp/_goal.v
echo "Show. " >> /tmp/_goal.v
cd /verif/coq && timeout 120 coqc -R theories TEV /tmp/_goal.v 2>&1 | tail -${3:-40}
