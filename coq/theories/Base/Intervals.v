(* Intervals: coverage, the seed-and-absorb merge, and its correctness.
   Closed intervals over Z, as in the annotation files (start <= p <= stop). *)
From Coq Require Import ZArith List Bool Lia ZifyBool Permutation Sorted.
Import ListNotations. Open Scope Z_scope.

Definition iv := (Z * Z)%type.
Definition inb (p : Z) (i : iv) : bool := (fst i <=? p) && (p <=? snd i).
Definition covered (l : list iv) (p : Z) : bool := existsb (inb p) l.
Definition wfi (i : iv) := fst i <= snd i.

Definition hit (s e : Z) (i : iv) : bool := (s <=? fst i) && (fst i <=? e).
Definition maxstop (e : Z) (hs : list iv) : Z := fold_left (fun a i => Z.max a (snd i)) hs e.

Fixpoint absorb (fuel : nat) (s e : Z) (search : list iv) : Z * list iv :=
  match fuel with
  | O => (e, search)
  | S f =>
    match filter (hit s e) search with
    | [] => (e, search)
    | h :: hs => absorb f s (maxstop e (h :: hs)) (filter (fun i => negb (hit s e i)) search)
    end
  end.

Fixpoint merge_all (fuel : nat) (l : list iv) : list iv :=
  match fuel with
  | O => []
  | S f =>
    match l with
    | [] => []
    | (s, e) :: rest =>
      let '(e', rest') := absorb (length rest) s e rest in
      (s, e') :: merge_all f rest'
    end
  end.

(* ---------- basic facts ---------- *)
Lemma maxstop_ge e hs : e <= maxstop e hs.
Proof. unfold maxstop; revert e; induction hs as [|h hs IH]; intro e; cbn [fold_left]; [lia|]. specialize (IH (Z.max e (snd h))). lia. Qed.

Lemma maxstop_in e hs i : In i hs -> snd i <= maxstop e hs.
Proof.
  unfold maxstop; revert e; induction hs as [|h hs IH]; intros e Hin; [inversion Hin|].
  cbn [fold_left]. destruct Hin as [->|Hin].
  - pose proof (maxstop_ge (Z.max e (snd i)) hs) as H. unfold maxstop in H. lia.
  - apply IH; exact Hin.
Qed.

Lemma maxstop_witness e hs : maxstop e hs = e \/ exists i, In i hs /\ maxstop e hs = snd i.
Proof.
  unfold maxstop; revert e; induction hs as [|h hs IH]; intro e; cbn [fold_left]; [left; reflexivity|].
  destruct (IH (Z.max e (snd h))) as [H|[i [Hi H]]].
  - destruct (Z.max_spec e (snd h)) as [[_ Hm]|[_ Hm]].
    + right; exists h; split; [left; reflexivity|]. rewrite H. exact Hm.
    + left. rewrite H. exact Hm.
  - right; exists i; split; [right; exact Hi|exact H].
Qed.

Lemma filter_length_le {A} (f : A -> bool) l : (length (filter f l) <= length l)%nat.
Proof. induction l as [|a l IH]; cbn; [lia|]. destruct (f a); cbn; lia. Qed.

Lemma filter_split_length {A} (f : A -> bool) l :
  (length (filter f l) + length (filter (fun x => negb (f x)) l) = length l)%nat.
Proof. induction l as [|a l IH]; cbn; [lia|]. destruct (f a); cbn; lia. Qed.

(* covered of the union: seed [s,e] plus search  *)
Definition cov1 (s e : Z) (l : list iv) (p : Z) : bool := inb p (s, e) || covered l p.

Lemma covered_filter_split f l p :
  covered l p = covered (filter f l) p || covered (filter (fun x => negb (f x)) l) p.
Proof.
  unfold covered. induction l as [|a l IH]; cbn [filter existsb]; [reflexivity|].
  rewrite IH. destruct (f a); cbn [negb existsb];
  destruct (inb p a), (existsb (inb p) (filter f l)), (existsb (inb p) (filter (fun x => negb (f x)) l)); reflexivity.
Qed.

(* key step: absorbing hits of a wf seed keeps coverage *)
Lemma absorb_step_cover s e hs p :
  s <= e -> Forall wfi hs -> Forall (fun i => hit s e i = true) hs ->
  inb p (s, maxstop e hs) = inb p (s, e) || covered hs p.
Proof.
  intros Hse Hwf Hhit.
  destruct (inb p (s, e) || covered hs p) eqn:E.
  - apply orb_true_iff in E. destruct E as [E|E].
    + unfold inb in *; cbn [fst snd] in *. pose proof (maxstop_ge e hs). lia.
    + unfold covered in E. apply existsb_exists in E. destruct E as [i [Hi Hp]].
      rewrite Forall_forall in Hhit. specialize (Hhit i Hi). unfold hit in Hhit.
      pose proof (maxstop_in e hs i Hi). unfold inb in *; cbn [fst snd] in *. lia.
  - apply orb_false_iff in E. destruct E as [E1 E2].
    destruct (maxstop_witness e hs) as [H|[i [Hi H]]].
    + rewrite H. exact E1.
    + unfold covered in E2.
      assert (Hn : inb p i = false).
      { destruct (inb p i) eqn:Ei; [|reflexivity].
        assert (existsb (inb p) hs = true) by (apply existsb_exists; exists i; auto). congruence. }
      rewrite Forall_forall in Hhit, Hwf. specialize (Hhit i Hi). specialize (Hwf i Hi).
      unfold hit, inb, wfi in *; cbn [fst snd] in *. rewrite H. lia.
Qed.

Lemma Forall_filter {A} (P : A -> Prop) f l : Forall P l -> Forall P (filter f l).
Proof. intro H; induction H as [|a l Ha Hl IH]; cbn; [constructor|]. destruct (f a); [constructor|]; assumption. Qed.

Lemma Forall_filter_true {A} (f : A -> bool) l : Forall (fun x => f x = true) (filter f l).
Proof. induction l as [|a l IH]; cbn; [constructor|]. destruct (f a) eqn:E; [constructor|]; assumption. Qed.

Lemma absorb_cover fuel : forall s e search p,
  s <= e -> Forall wfi search ->
  let '(e', rest) := absorb fuel s e search in
  cov1 s e' rest p = cov1 s e search p /\ e <= e' /\ Forall wfi rest
  /\ (length rest <= length search)%nat.
Proof.
  induction fuel as [|f IH]; intros s e search p Hse Hwf; cbn [absorb].
  - repeat split; try lia; assumption.
  - destruct (filter (hit s e) search) as [|h hs] eqn:Ef.
    + repeat split; try lia; assumption.
    + set (H := h :: hs) in *.
      assert (HwfH : Forall wfi H) by (rewrite <- Ef; apply Forall_filter; exact Hwf).
      assert (HhitH : Forall (fun i => hit s e i = true) H) by (rewrite <- Ef; apply Forall_filter_true).
      pose proof (maxstop_ge e H) as Hge.
      specialize (IH s (maxstop e H) (filter (fun i => negb (hit s e i)) search) p
                     ltac:(lia) (Forall_filter _ _ _ Hwf)).
      destruct (absorb f s (maxstop e H) (filter (fun i => negb (hit s e i)) search)) as [e' rest].
      destruct IH as [Hc [Hle [Hw Hlen]]].
      repeat split; try lia; try assumption.
      * rewrite Hc. unfold cov1.
        rewrite (absorb_step_cover s e H p Hse HwfH HhitH).
        rewrite (covered_filter_split (hit s e) search p). rewrite Ef. fold H.
        now rewrite orb_assoc.
      * pose proof (filter_length_le (fun i => negb (hit s e i)) search). lia.
Qed.

(* ---------- fuel adequacy: no hit remains ---------- *)
Lemma filter_nil_neg {A} (f : A -> bool) l : filter f l = [] -> filter (fun x => negb (f x)) l = l.
Proof.
  induction l as [|a l IH]; cbn [filter]; [reflexivity|].
  destruct (f a) eqn:E; [discriminate|]. cbn [negb]. intro H. rewrite (IH H). reflexivity.
Qed.

Lemma filter_cons_shrinks {A} (f : A -> bool) l h hs :
  filter f l = h :: hs -> (length (filter (fun x => negb (f x)) l) < length l)%nat.
Proof.
  intro H. pose proof (filter_split_length f l) as Hs. rewrite H in Hs. cbn [length] in Hs. lia.
Qed.

Lemma absorb_nohit fuel : forall s e search,
  (length search <= fuel)%nat ->
  let '(e', rest) := absorb fuel s e search in filter (hit s e') rest = [].
Proof.
  induction fuel as [|f IH]; intros s e search Hlen; cbn [absorb].
  - destruct search; [reflexivity|cbn [length] in Hlen; lia].
  - destruct (filter (hit s e) search) as [|h hs] eqn:Ef; [exact Ef|].
    apply IH. pose proof (filter_cons_shrinks _ _ _ _ Ef). lia.
Qed.

(* ---------- sortedness by start ---------- *)
Definition ge_start (s : Z) (l : list iv) := Forall (fun i => s <= fst i) l.
Inductive sorted_start : list iv -> Prop :=
| ss_nil : sorted_start []
| ss_cons i l : ge_start (fst i) l -> sorted_start l -> sorted_start (i :: l).

Lemma sorted_filter f l : sorted_start l -> sorted_start (filter f l).
Proof.
  intro H; induction H as [|i l Hge Hs IH]; cbn [filter]; [constructor|].
  destruct (f i); [constructor; [apply Forall_filter; exact Hge|exact IH]|exact IH].
Qed.

Lemma absorb_rest_sub fuel : forall s e search,
  let '(e', rest) := absorb fuel s e search in
  (forall P, Forall P search -> Forall P rest) /\ (sorted_start search -> sorted_start rest).
Proof.
  induction fuel as [|f IH]; intros s e search; cbn [absorb]; [split; auto|].
  destruct (filter (hit s e) search) as [|h hs] eqn:Ef; [split; auto|].
  specialize (IH s (maxstop e (h :: hs)) (filter (fun i => negb (hit s e i)) search)).
  destruct (absorb f s (maxstop e (h :: hs)) (filter (fun i => negb (hit s e i)) search)) as [e' rest].
  destruct IH as [IH1 IH2]. split.
  - intros P HP. apply IH1. apply Forall_filter. exact HP.
  - intro Hs. apply IH2. apply sorted_filter. exact Hs.
Qed.

(* after absorb: everything left starts strictly after e' *)
Lemma nohit_gt s e' rest : ge_start s rest -> filter (hit s e') rest = [] ->
  Forall (fun i => e' < fst i) rest.
Proof.
  intros Hge Hf. induction Hge as [|i l Hi Hl IH]; [constructor|].
  cbn [filter] in Hf. destruct (hit s e' i) eqn:E; [discriminate|].
  constructor; [unfold hit in E; lia|apply IH; exact Hf].
Qed.

(* ---------- the output: disjoint, sorted with gaps ---------- *)
Inductive separated : list iv -> Prop :=
| sep_nil : separated []
| sep_cons i l : wfi i -> Forall (fun j => snd i < fst j) l -> separated l -> separated (i :: l).

Definition covs (l : list iv) (p : Z) := covered l p.

Lemma merge_all_spec fuel : forall l p,
  (length l <= fuel)%nat -> sorted_start l -> Forall wfi l ->
  covered (merge_all fuel l) p = covered l p
  /\ separated (merge_all fuel l)
  /\ (forall s, ge_start s l -> ge_start s (merge_all fuel l)).
Proof.
  induction fuel as [|f IH]; intros l p Hlen Hs Hwf.
  - destruct l; [|cbn [length] in Hlen; lia]. cbn. repeat split; [constructor|auto].
  - destruct l as [|[s e] rest]; [cbn; repeat split; [constructor|auto]|].
    cbn [merge_all]. inversion Hs as [|i l' Hge Hs' Heq]; subst. inversion Hwf as [|i l' Hw Hwf' Heq]; subst.
    cbn [fst] in Hge. unfold wfi in Hw; cbn [fst snd] in Hw.
    pose proof (absorb_cover (length rest) s e rest p Hw Hwf') as Hc.
    pose proof (absorb_nohit (length rest) s e rest (le_n _)) as Hn.
    pose proof (absorb_rest_sub (length rest) s e rest) as Hsub.
    destruct (absorb (length rest) s e rest) as [e' rest'].
    destruct Hc as [Hc [Hle [Hw' Hlen']]]. destruct Hsub as [Hsub1 Hsub2].
    assert (Hge' : ge_start s rest') by (apply Hsub1; exact Hge).
    pose proof (nohit_gt s e' rest' Hge' Hn) as Hgt.
    cbn [length] in Hlen.
    destruct (IH rest' p ltac:(lia) (Hsub2 Hs') Hw') as [IHc [IHs IHg]].
    split; [|split].
    + unfold cov1 in Hc. change (covered ((s, e') :: merge_all f rest') p) with (inb p (s, e') || covered (merge_all f rest') p).
      change (covered ((s, e) :: rest) p) with (inb p (s, e) || covered rest p).
      rewrite IHc. exact Hc.
    + constructor; [unfold wfi; cbn [fst snd]; lia| |exact IHs].
      cbn [snd].
      (* every emitted interval starts at the start of some element of rest' ; use ge_start transfer with s := e'+1 *)
      assert (Hg1 : ge_start (e' + 1) rest') by (eapply Forall_impl; [|exact Hgt]; cbn; intros; lia).
      destruct (IH rest' p ltac:(lia) (Hsub2 Hs') Hw') as [_ [_ IHg']].
      specialize (IHg' (e' + 1) Hg1). eapply Forall_impl; [|exact IHg']. cbn; intros; lia.
    + intros s0 Hs0. inversion Hs0 as [|i l' Hi Hl Heq]; subst. cbn [fst] in Hi.
      constructor; [cbn [fst]; exact Hi|]. apply IHg. apply Hsub1. exact Hl.
Qed.

(* separated => pairwise disjoint positions *)
Lemma separated_disjoint l : separated l -> forall p,
  (length (filter (inb p) l) <= 1)%nat.
Proof.
  intro H; induction H as [|i l Hw Hgt Hsep IH]; intro p; cbn [filter length]; [lia|].
  destruct (inb p i) eqn:E; [|apply IH].
  cbn [length]. enough (filter (inb p) l = []) as -> by (cbn; lia).
  clear IH. induction l as [|j l IHl]; [reflexivity|].
  inversion Hgt as [|j' l' Hj Hl Heq]; subst. inversion Hsep as [|j' l' Hwj Hgtj Hsepj Heq]; subst.
  cbn [filter]. destruct (inb p j) eqn:Ej.
  - unfold inb, wfi in *. lia.
  - apply IHl; assumption.
Qed.
