(* Counting positions: cnt P lo hi = #{p in [lo,hi] | P p}; sum of clipped overlaps of
   a separated interval list = number of covered positions. *)
From Coq Require Import ZArith List Bool Lia ZifyBool.
From TEV Require Import Base.Intervals.
Import ListNotations. Open Scope Z_scope.

Fixpoint zrange (lo : Z) (n : nat) : list Z :=
  match n with O => [] | S k => lo :: zrange (lo + 1) k end.
Definition cntn (P : Z -> bool) (lo : Z) (n : nat) : Z := Z.of_nat (length (filter P (zrange lo n))).
Definition cnt (P : Z -> bool) (lo hi : Z) : Z := cntn P lo (Z.to_nat (hi - lo + 1)).

Lemma cntn_S P lo k : cntn P lo (S k) = (if P lo then 1 else 0) + cntn P (lo + 1) k.
Proof. unfold cntn; cbn [zrange filter]. destruct (P lo); cbn [length]; lia. Qed.

Lemma cntn_interval a b : forall n lo,
  cntn (fun p => inb p (a, b)) lo n = Z.max 0 (Z.min (lo + Z.of_nat n - 1) b - Z.max lo a + 1).
Proof.
  induction n as [|k IH]; intro lo.
  - unfold cntn; cbn [zrange filter length]. lia.
  - rewrite cntn_S, IH. unfold inb; cbn [fst snd].
    destruct ((a <=? lo) && (lo <=? b)) eqn:E; lia.
Qed.

Lemma cnt_interval a b lo hi : lo <= hi + 1 ->
  cnt (fun p => inb p (a, b)) lo hi = Z.max 0 (Z.min hi b - Z.max lo a + 1).
Proof. intro H. unfold cnt. rewrite cntn_interval. lia. Qed.

Lemma cntn_or P Q : forall n lo, (forall p, P p && Q p = false) ->
  cntn (fun p => P p || Q p) lo n = cntn P lo n + cntn Q lo n.
Proof.
  induction n as [|k IH]; intros lo Hd; [unfold cntn; cbn; lia|].
  rewrite !cntn_S, IH by exact Hd. specialize (Hd lo). destruct (P lo), (Q lo); cbn [andb orb] in *; try discriminate; lia.
Qed.

Lemma cntn_ext P Q : (forall p, P p = Q p) -> forall n lo, cntn P lo n = cntn Q lo n.
Proof. intros H n; induction n as [|k IH]; intro lo; [reflexivity|]. rewrite !cntn_S, IH, H. reflexivity. Qed.

Lemma cntn_false : forall n lo, cntn (fun _ => false) lo n = 0.
Proof. induction n as [|k IH]; intro lo; [reflexivity|]. rewrite cntn_S, IH. reflexivity. Qed.

Definition ovl (lo hi : Z) (i : iv) : Z := Z.max 0 (Z.min hi (snd i) - Z.max lo (fst i) + 1).
Definition sum_ovl lo hi (l : list iv) : Z := fold_right (fun i a => ovl lo hi i + a) 0 l.

Lemma sep_head_disjoint i l : separated (i :: l) -> forall p, inb p i && covered l p = false.
Proof.
  intros H p. inversion H as [|i' l' Hw Hgt Hsep Heq]; subst.
  destruct (inb p i) eqn:Ei; [|reflexivity]. cbn [andb].
  unfold covered. destruct (existsb (inb p) l) eqn:Ee; [|reflexivity].
  apply existsb_exists in Ee. destruct Ee as [j [Hj Hpj]].
  rewrite Forall_forall in Hgt. specialize (Hgt j Hj).
  assert (Hsj : separated l) by exact Hsep.
  (* need wfi j? not needed: inb p j gives fst j <= p *)
  unfold inb in *. lia.
Qed.

Theorem sum_ovl_separated l : separated l -> forall lo hi, lo <= hi + 1 ->
  sum_ovl lo hi l = cnt (covered l) lo hi.
Proof.
  intro H; induction H as [|i l Hw Hgt Hsep IH]; intros lo hi Hlh.
  - unfold sum_ovl, cnt; cbn [fold_right].
    rewrite (cntn_ext (covered []) (fun _ => false)) by (intro p; reflexivity).
    symmetry; apply cntn_false.
  - unfold sum_ovl; cbn [fold_right]. fold (sum_ovl lo hi l). rewrite IH by exact Hlh.
    unfold cnt.
    rewrite (cntn_ext (covered (i :: l)) (fun p => inb p i || covered l p)) by (intro p; reflexivity).
    rewrite cntn_or by (apply sep_head_disjoint; constructor; assumption).
    f_equal. destruct i as [a b]. pose proof (cnt_interval a b lo hi Hlh) as Hc. unfold cnt in Hc. rewrite Hc. reflexivity.
Qed.
Print Assumptions sum_ovl_separated.
