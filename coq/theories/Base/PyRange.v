(* Python's range(a, b, c) for c > 0, and its closed form. *)
From Coq Require Import ZArith List Lia.
Import ListNotations. Open Scope Z_scope.
Ltac Zify.zify_post_hook ::= Z.to_euclidean_division_equations.

Fixpoint range_fuel (fuel : nat) (a b c : Z) : list Z :=
  match fuel with
  | O => []
  | S f => if a <? b then a :: range_fuel f (a + c) b c else []
  end.

(* number of elements of range(a,b,c), c > 0 *)
Definition range_len (a b c : Z) : nat := Z.to_nat ((b - a + c - 1) / c).

(* None models Python's ValueError for a zero step; a negative step gives the empty
   list whenever a < b, which is the only case the pipeline can meet (see C01). *)
Definition py_range (a b c : Z) : option (list Z) :=
  if c =? 0 then None
  else if c <? 0 then Some (if a <=? b then [] else [a]) (* not used for a <= b *)
  else Some (range_fuel (range_len a b c) a b c).

Lemma range_fuel_spec : forall fuel a b c, 0 < c -> (range_len a b c <= fuel)%nat ->
  forall x, In x (range_fuel fuel a b c) <-> exists k, 0 <= k /\ x = a + k * c /\ x < b.
Proof.
  induction fuel as [|f IH]; intros a b c Hc Hlen x.
  - cbn [range_fuel]. split; [intros []|]. intros [k [Hk [-> Hlt]]].
    unfold range_len in Hlen.
    assert (Hq : (b - a + c - 1) / c <= 0) by lia.
    assert (b - a + c - 1 < c) by nia.
    nia.
  - cbn [range_fuel]. destruct (a <? b) eqn:E.
    + apply Z.ltb_lt in E. cbn [In]. rewrite IH; [| exact Hc |].
      * split.
        -- intros [<-|[k [Hk [-> Hlt]]]]; [exists 0; lia|]. exists (k + 1). lia.
        -- intros [k [Hk [-> Hlt]]]. destruct (Z.eq_dec k 0) as [->|Hn]; [left; lia|].
           right. exists (k - 1). lia.
      * unfold range_len in *.
        replace (b - (a + c) + c - 1) with ((b - a + c - 1) + (-1) * c) by lia.
        rewrite Z.div_add by lia.
        assert (0 < (b - a + c - 1) / c) by (apply Z.div_str_pos; lia).
        revert Hlen. generalize ((b - a + c - 1) / c). intros q Hlen. lia.
    + apply Z.ltb_ge in E. split; [intros []|]. intros [k [Hk [-> Hlt]]]. nia.
Qed.

Lemma range_fuel_sorted : forall fuel a b c, 0 < c ->
  forall i j, (i < j < length (range_fuel fuel a b c))%nat ->
  nth i (range_fuel fuel a b c) 0 < nth j (range_fuel fuel a b c) 0.
Proof.
  assert (Hlb : forall fuel a b c, 0 < c -> forall j, (j < length (range_fuel fuel a b c))%nat ->
                a <= nth j (range_fuel fuel a b c) 0).
  { induction fuel as [|f IH]; intros a b c Hc j Hj; cbn [range_fuel] in *; [cbn in Hj; lia|].
    destruct (a <? b); [|cbn in Hj; lia]. destruct j as [|j]; cbn [nth]; [lia|].
    cbn [length] in Hj. specialize (IH (a + c) b c Hc j ltac:(lia)). lia. }
  induction fuel as [|f IH]; intros a b c Hc i j Hij; cbn [range_fuel] in *; [cbn in Hij; lia|].
  destruct (a <? b); [|cbn in Hij; lia]. cbn [length] in Hij.
  destruct j as [|j]; [lia|]. destruct i as [|i]; cbn [nth].
  - specialize (Hlb f (a + c) b c Hc j ltac:(lia)). lia.
  - apply IH; [exact Hc|lia].
Qed.
