(* Model of transposon/density_data.py (DensityData) and the lookup helpers of density_utils.py:
   the strand-aware view (C09), the load / sense-swapped-copy state machine (C15), the pairing of result
   files with gene annotations (C16) and lookups by label (C08). *)
From Coq Require Import List Bool Arith NArith ZArith.
Import ListNotations.

(* ------------------------------------------------------------------ C09: the swapped view *)
(* one gene column of a result file: the contents (every group and window, both TE levels) of the left,
   right and intragenic arrays at that gene's index, abstracted to content identifiers *)
Record colv := mkCol { c_left : nat; c_right : nat; c_intra : nat }.
Definition h5 := list (N * colv).                 (* GENE_NAMES with their columns, in file order *)
Definition swap_col (c : colv) : colv := mkCol (c_right c) (c_left c) (c_intra c).

(* _swap_strand_vals for one name: the first occurrence in GENE_NAMES (list.index); None = IndexError *)
Fixpoint swap_first (n : N) (f : h5) : option h5 :=
  match f with
  | [] => None
  | (m, c) :: r => if N.eqb m n then Some ((m, swap_col c) :: r)
                   else match swap_first n r with Some r' => Some ((m, c) :: r') | None => None end
  end.
Fixpoint swap_all (names : list N) (f : h5) : option h5 :=
  match names with
  | [] => Some f
  | n :: r => match swap_first n f with Some f' => swap_all r f' | None => None end
  end.

(* gene annotation rows: (name, strand code) with 0 '+', 1 '-', 2 '.' *)
Definition minus_names (genes : list (N * N)) : list N := map fst (filter (fun g => N.eqb (snd g) 1) genes).
Definition swapped_copy (genes : list (N * N)) (raw : h5) : option h5 := swap_all (minus_names genes) raw.
Definition memN (x : N) (l : list N) : bool := existsb (N.eqb x) l.

(* ------------------------------------------------------------------ C15: loads and crashes *)
(* the directory: the raw result file, a temporary copy being built, the trusted sense-swapped copy *)
Record disk := mkD { d_raw : h5; d_tmp : option h5; d_final : option h5 }.

Section Load.
Variable fixed : bool.    (* true: the code after the D4 / D15 repairs; false: the legacy behaviour *)
Variable genes : list (N * N).

Inductive how := ByCtor | ByVerify.          (* DensityData(...) / DensityData.verify_h5_cache(...); the
                                                directory-level constructors go through one of the two *)
(* a completed load: new disk, and the values served (None = exception) *)
Definition load (w : how) (d : disk) : disk * option h5 :=
  match d_final d with
  | Some c => match w with
              | ByCtor => (d, Some c)
              | ByVerify => if fixed then (d, Some c) else (d, Some (d_raw d))   (* legacy: opens the raw file *)
              end
  | None => match swapped_copy genes (d_raw d) with
            | Some c => (mkD (d_raw d) None (Some c), Some c)
            | None => (mkD (d_raw d) (if fixed then Some (d_raw d) else None) (if fixed then None else Some (d_raw d)), None)
            end
  end.

(* a load interrupted after k elementary steps: 0 = nothing done, 1 = raw copied,
   1 + j = j genes swapped in the copy (j <= number of minus genes), one more = about to publish *)
Definition partial_copy (k : nat) (raw : h5) : option h5 :=
  match k with
  | O => None
  | S j => match swap_all (firstn j (minus_names genes)) raw with Some c => Some c | None => Some raw end
  end.
Definition crash (k : nat) (d : disk) : disk :=
  match d_final d with
  | Some _ => d                                   (* nothing is written when the copy exists *)
  | None => if fixed then mkD (d_raw d) (partial_copy k (d_raw d)) None        (* built under a temporary name *)
            else mkD (d_raw d) None (partial_copy k (d_raw d))                 (* legacy: built under the final name *)
  end.

Inductive lop := Load (w : how) | Crash (k : nat).
Definition do_lop (d : disk) (o : lop) : disk := match o with Load w => fst (load w d) | Crash k => crash k d end.
Definition served (d : disk) (o : lop) : option (option h5) :=
  match o with Load w => Some (snd (load w d)) | Crash _ => None end.
(* all values served along a history *)
Fixpoint history (ops : list lop) (d : disk) : list (option h5) :=
  match ops with
  | [] => []
  | o :: r => match served d o with Some v => v :: history r (do_lop d o) | None => history r (do_lop d o) end
  end.
End Load.

(* ------------------------------------------------------------------ C16: pairing files with gene annotations *)
(* chromosome identifiers as numbers; the repaired pairing: by the identifier stored in each file *)
Fixpoint has_dupN (l : list N) : bool := match l with [] => false | x :: r => memN x r || has_dupN r end.
Fixpoint pair_by_id (h5s gds : list N) : option (list (N * N)) :=
  if has_dupN gds then None else
  (fix go (hs : list N) : option (list (N * N)) :=
     match hs with
     | [] => Some []
     | h :: r => if memN h gds then match go r with Some ps => Some ((h, h) :: ps) | None => None end else None
     end) h5s.

(* the legacy pairing: file names sorted lexicographically, zipped position by position.
   Strings are lists of code points. *)
Fixpoint lex_leb (a b : list N) : bool :=
  match a, b with
  | [], _ => true
  | _ :: _, [] => false
  | x :: a', y :: b' => if N.ltb x y then true else if N.eqb x y then lex_leb a' b' else false
  end.
Fixpoint lex_insert (x : list N * N) (l : list (list N * N)) : list (list N * N) :=
  match l with
  | [] => [x]
  | y :: r => if lex_leb (fst x) (fst y) then x :: l else y :: lex_insert x r
  end.
Definition lex_sort (l : list (list N * N)) : list (list N * N) := fold_right lex_insert [] l.
(* file names <genome>_<chrom>.h5 and <genome>_<chrom>_GeneData.tsv; chromosomes given as (spelling, id) *)
Definition us : N := 95.   Definition dot : N := 46.
Definition h5_name (genome : list N) (c : list N * N) : list N * N := (genome ++ [us] ++ fst c ++ [dot; 104; 53], snd c)%N.
Definition gd_name (genome : list N) (c : list N * N) : list N * N :=
  (genome ++ [us] ++ fst c ++ [us; 71; 101; 110; 101; 68; 97; 116; 97; dot; 116; 115; 118], snd c)%N.
Definition legacy_pairs (genome : list N) (chroms : list (list N * N)) : list (N * N) :=
  combine (map snd (lex_sort (map (h5_name genome) chroms))) (map snd (lex_sort (map (gd_name genome) chroms))).

(* ------------------------------------------------------------------ C08: lookups by label *)
Fixpoint first_index (x : N) (l : list N) : option nat :=     (* list.index *)
  match l with [] => None | y :: r => if N.eqb y x then Some O else option_map S (first_index x r) end.
Fixpoint last_index (x : N) (l : list N) : option nat :=      (* dict built by a loop: the last occurrence wins *)
  match l with
  | [] => None
  | y :: r => match last_index x r with Some i => Some (S i) | None => if N.eqb y x then Some O else None end
  end.
Fixpoint last_indexZ (x : Z) (l : list Z) : option nat :=
  match l with
  | [] => None
  | y :: r => match last_indexZ x r with Some i => Some (S i) | None => if Z.eqb y x then Some O else None end
  end.

Section Layout.
Variable V : Type.
Variable dflt : V.
(* what MergeData writes: array[group index][window index][gene index] = the cell of those labels *)
Variables (genes names : list N) (windows : list Z).
Variable cellf : N -> Z -> N -> V.       (* group name, window, gene name *)
Definition arr (i j k : nat) : V := cellf (nth i names 0%N) (nth j windows 0%Z) (nth k genes 0%N).

(* DensityData._index_of_gene + get_specific_slice(...)[gene index] *)
Definition lookup (name : N) (w : Z) (gene : N) : option V :=
  match first_index gene genes, last_index name names, last_indexZ w windows with
  | Some k, Some i, Some j => Some (arr i j k)
  | _, _, _ => None
  end.
(* add_te_vals_to_gene_info_pandas: a TE name absent from the file gives a column of 0 (dflt) *)
Definition table_value (name : N) (w : Z) (gene : N) : option V :=
  if memN name names then lookup name w gene
  else match first_index gene genes with Some _ => Some dflt | None => None end.
End Layout.

(* ------------------------------------------------------------------ flat outputs for the harness *)
Definition flat_cols (o : option h5) : list Z :=
  match o with
  | None => [(-1)%Z]
  | Some f => 0%Z :: flat_map (fun nc => [Z.of_N (fst nc); Z.of_nat (c_left (snd nc)); Z.of_nat (c_right (snd nc)); Z.of_nat (c_intra (snd nc))]) f
  end.
Definition flat_history (genes : list (N * N)) (ops : list lop) (raw : h5) : list Z :=
  flat_map (fun v => (-9)%Z :: flat_cols v) (history true genes ops (mkD raw None None)).
