(* Hand-written model of the arithmetic kernel of TE_Density:
   gene_datum.py (window bounds, divisors), overlap.py (clipped overlaps),
   revise_annotation.py (hit test, stop update, length).
   Tie to the code: the translator regenerates Gen/Gen.v from the Python sources on
   every run and Gen/GenEquiv.v proves gen_X = Kernel.X for all integers. *)
From Coq Require Import ZArith Bool.
Open Scope Z_scope.

(* gene_datum.py *)
Definition lws (gs : Z) : Z := gs - 1.                       (* left_win_stop  *)
Definition rws (ge : Z) : Z := ge + 1.                       (* right_win_start *)
Definition winlen (w : Z) : Z := w + 1.
Definition lwstart (gs w : Z) : Z := Z.max 0 (lws gs - w).   (* clipped at 0 *)
Definition rwstop (ge w : Z) : Z := rws ge + w.
Definition div_left (gs w : Z) : Z :=
  if lwstart gs w =? 0 then lws gs - 0 + 1 else winlen w.
Definition div_intra (glen : Z) : Z := glen.
Definition div_right (w : Z) : Z := winlen w.

(* overlap.py : number of positions shared by [lo,hi] and the TE [ts,te] *)
Definition ovl (lo hi ts te : Z) : Z := Z.max 0 (Z.min hi te - Z.max lo ts + 1).
Definition ovl_left (gs w ts te : Z) : Z := ovl (lwstart gs w) (lws gs) ts te.
Definition ovl_intra (gs ge ts te : Z) : Z := ovl gs ge ts te.
Definition ovl_right (ge w ts te : Z) : Z := ovl (rws ge) (rwstop ge w) ts te.

(* revise_annotation.py *)
Definition hitb (s e ts : Z) : bool := (s <=? ts) && (ts <=? e).
Definition stop_step (acc stop : Z) : Z := if stop >? acc then stop else acc.
Definition te_length (s e : Z) : Z := e - s + 1.
