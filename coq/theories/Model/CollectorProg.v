(* The environment of the translated _ProgressBars.handle_chrome (Gen/GenCF_handle_chrome.v): the labelled
   transition system of Model/Collector.v (k worker puts, the main thread setting the stop flag once every
   put has happened, the collector thread) in which the collector thread's state is the interaction
   program itself.  One collector step answers the program's pending query from the shared state (the
   stop flag; the head of the result queue, or queue.Empty when it is empty) and runs the thread-local
   appends that follow, as Model/Collector.v does in one step. *)
From Coq Require Import List Bool Arith ZArith.
From TEV Require Import Model.PyProg Model.Collector.
Import ListNotations.

Record pst := mkp { p_unput : list nat; p_q : list nat; p_col : list nat; p_prog : prog; p_stop : bool }.

(* self.results.append(r): appending anything but a queue item is not a behaviour of the model *)
Fixpoint cnorm (p : prog) (col : list nat) : prog * list nat :=
  match p with
  | Act (AAppend (VItem r)) k => cnorm k (col ++ [r])
  | Act _ _ => (Crash, col)
  | _ => (p, col)
  end.

Definition resume (s : pst) (q' : list nat) (p : prog) : pst :=
  let '(p', col') := cnorm p (p_col s) in mkp (p_unput s) q' col' p' (p_stop s).

Definition pstep (s : pst) (a : actor) : pst :=
  match a with
  | W i => match take_nth i (p_unput s) with
           | Some (r, rest) => mkp rest (p_q s ++ [r]) (p_col s) (p_prog s) (p_stop s)
           | None => s end
  | M => match p_unput s with [] => mkp [] (p_q s) (p_col s) (p_prog s) true | _ => s end
  | C => match p_prog s with
         | Vis _ QStop k => resume s (p_q s) (k (RVal (VBool (p_stop s))))
         | Vis _ (QGet | QGetNow) k =>
             match p_q s with
             | [] => resume s [] (k (RRaise EEmpty))
             | r :: q' => resume s q' (k (RVal (VItem r)))
             end
         | _ => s
         end
  end.

Definition prun (sched : list actor) (s : pst) : pst := fold_left pstep sched s.
Definition pinit (p : prog) (all : list nat) : pst := resume (mkp all [] [] Crash false) [] p.

Definition prog_code (p : prog) : Z :=
  match p with
  | Vis _ QStop _ => 0 | Vis _ QGet _ => 1 | Vis _ QGetNow _ => 2 | Done _ => 3
  | Vis _ (QPut _) _ => 96 | Act _ _ => 97 | Fuel => 98 | Crash => 99
  end%Z.
Definition pobs (s : pst) : list Z :=
  [prog_code (p_prog s); if p_stop s then 1%Z else 0%Z; Z.of_nat (length (p_unput s)); Z.of_nat (length (p_q s));
   Z.of_nat (length (p_col s))] ++ map Z.of_nat (p_col s).
