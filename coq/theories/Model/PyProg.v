(* Interaction programs: the target of the control-flow translator (translator/py2gallina_cf.py).

   A Python method whose behaviour is a loop of calls on queues / events (WorkerProcess.run,
   _ProgressBars.handle_chrome) is translated, statement by statement, into a term of type [prog]:
   every call that the environment answers (stop_event.is_set, queue.get, queue.put ...) becomes a
   [Vis] node whose continuation receives the answer (a value or a raised exception), every call that
   only records something (list.append, put_nowait of the sentinel) an [Act] node.  Loops are
   structural recursion on an explicit fuel; [Fuel] is the out-of-fuel value, which no theorem accepts.
   Python values are the small universe [val]; local variables start as [VNone].

   The environments (a script of answers for the worker, the shared state of the collector LTS) and the
   equivalence with the hand-written models are in Model/WorkerProg.v, Model/CollectorProg.v and
   Gen/GenCFEquiv.v. *)
From Coq Require Import List Bool Arith.
Import ListNotations.

Inductive val := VNone | VBool (b : bool) | VItem (n : nat) | VSentinel.

Definition truthy (v : val) : bool := match v with VNone => false | VBool b => b | _ => true end.
Definition is_none (v : val) : bool := match v with VNone => true | _ => false end.
Definition is_sentinel (v : val) : bool := match v with VSentinel => true | _ => false end.
Definition is_item (v : val) : bool := match v with VItem _ => true | _ => false end.
Definition val_eqb (a b : val) : bool :=
  match a, b with
  | VNone, VNone => true | VSentinel, VSentinel => true
  | VBool x, VBool y => Bool.eqb x y | VItem x, VItem y => Nat.eqb x y
  | _, _ => false
  end.
(* execute_job applied to a value: only a job has a result *)
Definition exec_val (exec : nat -> nat) (v : val) : val :=
  match v with VItem j => VItem (exec j) | _ => VNone end.

Inductive exn := EEmpty | EFull.
Inductive answer := RVal (v : val) | RRaise (e : exn).

(* what the environment is asked *)
Inductive query :=
| QStop                 (* <event>.is_set()                      -> RVal (VBool b) *)
| QGet                  (* <input queue>.get(timeout=..)         -> RVal item | RRaise EEmpty *)
| QGetNow               (* <queue>.get_nowait()                  -> RVal item | RRaise EEmpty *)
| QPut (v : val).       (* <output queue>.put(v, timeout=..)     -> RVal VNone | RRaise EFull *)

(* what is only recorded *)
Inductive action :=
| APutBack (v : val)    (* <input queue>.put_nowait(v) *)
| AAppend (v : val).    (* <list>.append(v) *)

Inductive prog :=
| Done (ls : list val)                               (* the method returned; its locals *)
| Vis (ls : list val) (q : query) (k : answer -> prog)
| Act (a : action) (k : prog)
| Fuel                                               (* loop fuel exhausted *)
| Crash.                                             (* uncaught exception / ill-typed answer *)
