(* The fragment of the file system the cache decisions of TE_Density read and write, as the
   translator reads it: os.path.exists / os.path.isfile, os.path.getmtime, X.write(path).
   Paths of one chromosome: the gene cache, the TE cache, their sources (the gene annotation and
   the revised TE annotation).  A write makes the path exist and stamps it with the next value of
   an arbitrary clock [clk] (no monotonicity is assumed here: ties and skew are possible).
   Used by the generated Gen/GenCache.v; the equivalence with Model/Cache.v is Gen/GenCacheEquiv.v. *)
From Coq Require Import ZArith Bool List.
From TEV Require Import Model.Cache.
Import ListNotations. Open Scope Z_scope.

Inductive path := PG | PT | PGin | PTin.
Definition path_eqb (a b : path) : bool :=
  match a, b with PG, PG | PT, PT | PGin, PGin | PTin, PTin => true | _, _ => false end.

Record vst := mkV {
  v_ex : path -> bool;          (* os.path.exists *)
  v_mt : path -> Z;             (* os.path.getmtime *)
  v_trace : list path;          (* writes performed, in order *)
  v_n : nat }.                  (* number of writes so far = index into the clock *)

Definition fexists (p : path) (s : vst) : bool := v_ex s p.
Definition getmtime (p : path) (s : vst) : Z := v_mt s p.
Definition do_write (clk : nat -> Z) (p : path) (s : vst) : vst :=
  mkV (fun q => if path_eqb q p then true else v_ex s q)
      (fun q => if path_eqb q p then clk (v_n s) else v_mt s q)
      (v_trace s ++ [p]) (S (v_n s)).

Definition start (eg et : bool) (mg mt mgin mtin : Z) : vst :=
  mkV (fun q => match q with PG => eg | PT => et | _ => true end)
      (fun q => match q with PG => mg | PT => mt | PGin => mgin | PTin => mtin end) [] O.

(* the chromosome of Model/Cache.v this file-system state stands for (contents are irrelevant to
   the decisions: version 0 everywhere; the overlap file is not part of this function) *)
Definition abs_chrom (s : vst) : chrom :=
  mkC (if v_ex s PG then Some O else None) (if v_ex s PT then Some O else None) None
      (v_ex s PG && (v_mt s PG >? v_mt s PGin)) (v_ex s PT && (v_mt s PT >? v_mt s PTin)) false false false.
Definition write_code (p : path) : nat := match p with PG => 1%nat | PT => 2%nat | _ => 0%nat end.

(* the ties the clock produces: a cache written at [clk k] is NOT newer than its source *)
Definition tie_at (clk : nat -> Z) (k : nat) (src : Z) : bool := negb (clk k >? src).
Definition ties_of (clk : nat -> Z) (reset : bool) (mgin mtin : Z) : ties :=
  let k := if reset then 2%nat else 0%nat in
  mkT (tie_at clk 0 mgin) (tie_at clk 1 mtin) (tie_at clk k mgin) (tie_at clk (S k) mtin) false false.

(* overlap file against the two caches: OverlapManager._is_current *)
Definition abs_overlap (eo : bool) (mo mg mt : Z) : chrom :=
  mkC (Some O) (Some O) (if eo then Some (O, O, O) else None) false false false (mo >? mg) (mo >? mt).
