(* Executable model of the data path of TE_Density:
   import checks -> three relabelled revision passes (ReviseAnno) -> split by chromosome
   (PreProcessor) -> per gene / window / TE clipped overlaps (OverlapWorker) -> masked sums
   and divisors (MergeData) -> name-labelled result file per chromosome.
   Names (chromosome, gene, order, superfamily) are natural numbers: the harness sends the
   rank of each string in code-point order, so that "sorted" means the same on both sides. *)
From Coq Require Import ZArith NArith List Bool.
From TEV Require Import Base.Intervals Base.PyRange Model.Kernel Model.Revise.
Import ListNotations. Open Scope Z_scope.

Record te := mkTE { t_chr : N; t_start : Z; t_stop : Z; t_ord : N; t_sup : N }.
(* strand: 0 '+', 1 '-', 2 '.', anything else is not a GFF strand symbol *)
Record gene := mkG { g_chr : N; g_name : N; g_start : Z; g_stop : Z; g_len : Z; g_strand : N }.

(* sorted, duplicate-free list of names: sorted(set(...)) / groupby key order *)
Fixpoint ninsert (x : N) (l : list N) : list N :=
  match l with
  | [] => [x]
  | y :: r => if (x <? y)%N then x :: l else if (x =? y)%N then l else y :: ninsert x r
  end.
Definition nsortu (l : list N) : list N := fold_right ninsert [] l.

Definition ivs_of (rows : list te) : list iv := map (fun t => (t_start t, t_stop t)) rows.
Definition keyed (key : te -> N) (k : N) (rows : list te) : list te :=
  filter (fun t => (key t =? k)%N) rows.
Definition on_chr (c : N) (rows : list te) : list te := keyed t_chr c rows.

Section Pipe.
(* the three reserved labels: "S_Revision", "O_Revision", "Total_TE_Density" *)
Variables rS rO rT : N.

(* one revision pass over the rows of one chromosome, grouped by [key];
   [lab k] = (Order, SuperFamily) written on the rows of group k *)
Definition pass (c : N) (key : te -> N) (lab : N -> N * N) (rows : list te) : list te :=
  flat_map (fun k => map (fun i => mkTE c (fst i) (snd i) (fst (lab k)) (snd (lab k)))
                         (revise (ivs_of (keyed key k rows))))
           (nsortu (map key rows)).

Definition pass_sup c rows := pass c t_sup (fun k => (rS, k)) rows.
Definition pass_ord c rows := pass c t_ord (fun k => (k, rO)) rows.
Definition pass_all c rows := pass c (fun _ => rT) (fun _ => (rT, rT)) rows.
Definition revise3 (c : N) (rows : list te) : list te :=
  pass_sup c rows ++ pass_ord c rows ++ pass_all c rows.

(* the whole revised annotation, chromosome by chromosome *)
Definition revised (tes : list te) : list te :=
  flat_map (fun c => revise3 c (on_chr c tes)) (nsortu (map t_chr tes)).

Inductive side := SL | SI | SR.
Inductive level := LOrd | LSup.
Definition col (lv : level) : te -> N := match lv with LOrd => t_ord | LSup => t_sup end.

Definition ovl_side (sd : side) (g : gene) (w : Z) (t : te) : Z :=
  match sd with
  | SL => ovl_left (g_start g) w (t_start t) (t_stop t)
  | SI => ovl_intra (g_start g) (g_stop g) (t_start t) (t_stop t)
  | SR => ovl_right (g_stop g) w (t_start t) (t_stop t)
  end.
Definition div_side (sd : side) (g : gene) (w : Z) : Z :=
  match sd with SL => div_left (g_start g) w | SI => div_intra (g_len g) | SR => div_right w end.

(* MergeData._process_sum: sum of the overlaps of the rows whose column equals the name *)
Definition cell_num (rows : list te) (lv : level) (name : N) (sd : side) (g : gene) (w : Z) : Z :=
  fold_right (fun t a => ovl_side sd g w t + a) 0 (keyed (col lv) name rows).
Definition cell (rows : list te) lv name sd g w : Z * Z :=
  (cell_num rows lv name sd g w, div_side sd g w).

(* result file of one chromosome, as the data that determines every labelled cell *)
Record dfile := mkF { f_chr : N; f_genes : list gene; f_windows : list Z; f_rows : list te }.
Definition f_names (f : dfile) (lv : level) : list N := nsortu (map (col lv) (f_rows f)).

Definition find_gene (n : N) (gs : list gene) : option gene :=
  find (fun g => (g_name g =? n)%N) gs.
Definition memN (x : N) (l : list N) : bool := existsb (N.eqb x) l.
Definition memZ (x : Z) (l : list Z) : bool := existsb (Z.eqb x) l.

(* lookup by labels; intragenic cells ignore the window argument *)
Definition f_cell (f : dfile) (lv : level) (name : N) (sd : side) (w : Z) (gname : N) : option (Z * Z) :=
  match find_gene gname (f_genes f) with
  | None => None
  | Some g =>
    if memN name (f_names f lv) && (match sd with SI => true | _ => memZ w (f_windows f) end)
    then Some (cell (f_rows f) lv name sd g w) else None
  end.

Inductive err := BadWindows | DupGene | BadStrand | ChromMismatch.

Fixpoint has_dup (l : list N) : bool :=
  match l with [] => false | x :: r => memN x r || has_dup r end.
Definition strand_ok (g : gene) : bool := (g_strand g <=? 2)%N.

Fixpoint zip_all_eq (a b : list N) : bool :=
  match a, b with
  | x :: a', y :: b' => (x =? y)%N && zip_all_eq a' b'
  | _, _ => true          (* zip stops at the shorter list; lengths are compared before *)
  end.

(* PreProcessor._validate_split as coded: lengths, then pairwise along the two sorted key lists *)
Definition validate_split (gc tc : list N) : bool :=
  Nat.eqb (length gc) (length tc) && zip_all_eq gc tc.

Fixpoint insert_gene (g : gene) (l : list gene) : list gene :=
  match l with
  | [] => [g]
  | h :: r => if g_start g <=? g_start h then g :: l else h :: insert_gene g r
  end.
Definition sort_genes (l : list gene) : list gene := fold_right insert_gene [] l.
Definition genes_on (c : N) (genes : list gene) : list gene :=
  sort_genes (filter (fun g => (g_chr g =? c)%N) genes).

Definition windows_of (first delta last : Z) : option (list Z) := py_range first (last + 1) delta.

Definition run (first delta last : Z) (genes : list gene) (tes : list te) : err + list dfile :=
  match windows_of first delta last with
  | None => inl BadWindows
  | Some ws =>
    if has_dup (map g_name genes) then inl DupGene
    else if negb (forallb strand_ok genes) then inl BadStrand
    else
      let gc := nsortu (map g_chr genes) in
      let tc := nsortu (map t_chr tes) in
      if negb (validate_split gc tc) then inl ChromMismatch
      else inr (map (fun c => mkF c (genes_on c genes) ws (revise3 c (on_chr c tes))) gc)
  end.

(* ---- flat outputs for the correspondence harness ---- *)
Definition side_code (sd : side) : Z := match sd with SL => 0 | SI => 1 | SR => 2 end.
Definition level_code (lv : level) : Z := match lv with LOrd => 0 | LSup => 1 end.

(* compact encoding: -100 chrom | -101 level name | -102 side window | (gene N D)* *)
Definition flat_file (f : dfile) : list Z :=
  (-100) :: Z.of_N (f_chr f) ::
  flat_map (fun lv =>
    flat_map (fun name =>
      (-101) :: level_code lv :: Z.of_N name ::
      flat_map (fun sd =>
        flat_map (fun w =>
          (-102) :: side_code sd :: w ::
          flat_map (fun g =>
            let '(n, d) := cell (f_rows f) lv name sd g w in [Z.of_N (g_name g); n; d])
            (f_genes f))
          (match sd with SI => [-1] | _ => f_windows f end))
        [SL; SI; SR])
      (f_names f lv))
    [LOrd; LSup].

Definition err_code (e : err) : Z :=
  match e with BadWindows => -1 | DupGene => -2 | BadStrand => -3 | ChromMismatch => -4 end.

Definition flat_run first delta last genes tes : list Z :=
  match run first delta last genes tes with
  | inl e => [err_code e]
  | inr fs => 0 :: flat_map flat_file fs
  end.

Definition flat_revised (tes : list te) : list Z :=
  flat_map (fun t => [Z.of_N (t_chr t); t_start t; t_stop t; Z.of_N (t_ord t); Z.of_N (t_sup t);
                      te_length (t_start t) (t_stop t)])
           (revised tes).
End Pipe.
