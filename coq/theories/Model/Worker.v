(* Model of transposon/worker.py WorkerProcess.run(): a step function over a script of environment
   answers (stop flag tests, input-queue gets, output-queue puts). [fixed = true] is the code after the
   D13 repair (_send_result reports queue.Full); [fixed = false] is the legacy behaviour. *)
From Coq Require Import List Bool Arith ZArith.
Import ListNotations.

Inductive getans := GJob (j : nat) | GEmpty | GSentinel.
Inductive ans := AStop (b : bool) | APut (ok : bool) | AGet (g : getans).
Inductive wpc := PTop | PSend | PGet | PExit (by_sentinel : bool).

Record wst := mkw { pc : wpc; pending : option nat; taken : list nat; accepted : list nat; sentinel_back : nat }.

Section W.
Variable exec : nat -> nat.
Variable fixed : bool.   (* false = code as it is: _send_result always reports success *)

Definition step (s : wst) (a : ans) : wst :=
  match pc s, a with
  | PTop, AStop true  => mkw (PExit false) (pending s) (taken s) (accepted s) (sentinel_back s)
  | PTop, AStop false => mkw (match pending s with Some _ => PSend | None => PGet end)
                             (pending s) (taken s) (accepted s) (sentinel_back s)
  | PSend, APut true  => mkw PGet None (taken s)
                             (accepted s ++ match pending s with Some r => [r] | None => [] end) (sentinel_back s)
  | PSend, APut false => if fixed then mkw PTop (pending s) (taken s) (accepted s) (sentinel_back s)
                         else mkw PGet None (taken s) (accepted s) (sentinel_back s)
  | PGet, AGet GEmpty => mkw PTop (pending s) (taken s) (accepted s) (sentinel_back s)
  | PGet, AGet GSentinel => mkw (PExit true) (pending s) (taken s) (accepted s) (S (sentinel_back s))
  | PGet, AGet (GJob j) => mkw PTop (Some (exec j)) (taken s ++ [j]) (accepted s) (sentinel_back s)
  | _, _ => s    (* an answer of the wrong kind is not consumed *)
  end.
Definition run (script : list ans) : wst := fold_left step script (mkw PTop None [] [] 0).
End W.


(* flat output for the correspondence harness *)
Definition pc_code (p : wpc) : Z := match p with PTop => 0 | PSend => 1 | PGet => 2 | PExit false => 3 | PExit true => 4 end%Z.
Definition flat_state (s : wst) : list Z :=
  [pc_code (pc s); Z.of_nat (sentinel_back s); match pending s with Some r => Z.of_nat r | None => (-1)%Z end;
   Z.of_nat (length (taken s))] ++ map Z.of_nat (taken s) ++ [Z.of_nat (length (accepted s))] ++ map Z.of_nat (accepted s).
