(* Data frames as the revision recursion of ReviseAnno sees them: rows (index label, Start, Stop); the
   operations that call_merge / merge_by_like and their helpers perform on them, each with the condition
   under which pandas would raise instead (KeyError of drop / loc on a missing label, IndexError of iloc[0]
   on an empty frame).  Target of translator/py2gallina_revise.py. *)
From Coq Require Import ZArith List Bool.
Import ListNotations. Open Scope Z_scope.

Definition row := (Z * (Z * Z))%type.
Definition row_label (r : row) : Z := fst r.
Definition row_start (r : row) : Z := fst (snd r).
Definition row_stop (r : row) : Z := snd (snd r).
Definition set_stop (r : row) (e : Z) : row := (fst r, (fst (snd r), e)).

Definition frame := list row.
Definition memZ (x : Z) (l : list Z) : bool := existsb (Z.eqb x) l.
Definition labels (f : frame) : list Z := map row_label f.
Definition frame_empty (f : frame) : bool := match f with [] => true | _ => false end.
Definition iloc0 (f : frame) : row := match f with r :: _ => r | [] => (0, (0, 0)) end.      (* guard: negb (frame_empty f) *)
Definition has_label (f : frame) (l : Z) : bool := memZ l (labels f).
Definition has_labels (f : frame) (ls : list Z) : bool := forallb (has_label f) ls.
Definition drop_labels (f : frame) (ls : list Z) : frame :=                                    (* guard: has_labels f ls *)
  filter (fun r => negb (memZ (row_label r) ls)) f.
Definition labels_where (P : row -> bool) (f : frame) : list Z := map row_label (filter P f).
Definition loc (f : frame) (l : Z) : row :=                                                    (* guard: has_label f l *)
  match find (fun r => row_label r =? l) f with Some r => r | None => (0, (0, 0)) end.

(* the part of a ReviseAnno object that the recursion reads and writes: seed frame, search frame, and the
   frame of merged elements of the current group (chrom_specific_frame_dict[current_te_identity]) *)
Record rst := mkR { seed : frame; search : frame; out : frame }.
Definition set_seed (f : frame) (s : rst) : rst := mkR f (search s) (out s).
Definition set_search (f : frame) (s : rst) : rst := mkR (seed s) f (out s).
Definition set_out (f : frame) (s : rst) : rst := mkR (seed s) (search s) f.

Inductive res := Ok (st : rst) | Raised | OutOfFuel.
