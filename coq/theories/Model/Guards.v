(* Small library for the translated guard functions (translator/py2gallina_guards.py): equality tests on the
   values the guards compare, and the element-wise test over two lists that `for a, b in zip(x, y)` gives. *)
From Coq Require Import ZArith NArith List Bool.
Import ListNotations.

Definition is_none {A} (o : option A) : bool := match o with None => true | Some _ => false end.
Definition opt_eqb {A} (eqb : A -> A -> bool) (a b : option A) : bool :=
  match a, b with Some x, Some y => eqb x y | None, None => true | _, _ => false end.
Fixpoint list_eqb {A} (eqb : A -> A -> bool) (a b : list A) : bool :=
  match a, b with
  | [], [] => true
  | x :: a', y :: b' => eqb x y && list_eqb eqb a' b'
  | _, _ => false
  end.
(* zip stops at the shorter list *)
Fixpoint forallb2 {A B} (f : A -> B -> bool) (a : list A) (b : list B) : bool :=
  match a, b with
  | x :: a', y :: b' => f x y && forallb2 f a' b'
  | _, _ => true
  end.
