(* The density arrays of transposon/merge_data.py (RHO_<axis>_<side>, shape groups x windows x genes) as the list of the
   cell assignments made to them, oldest first, and the parameter sets of MergeData._list_sum_input_outputs.
   Tie to the code: translator/py2gallina_merge.py regenerates Gen/GenMerge.v from merge_data.py on every run and
   Props/C01merge.v proves what the generated summation leaves in the arrays. *)
From Coq Require Import ZArith NArith List Bool.
From TEV Require Import Model.Pipeline Model.OverlapArr.
Import ListNotations.

Definition side_arr (sd : side) : oarr := match sd with SL => OLeft | SI => OIntra | SR => ORight end.
Definition side_eqb (a b : side) : bool := match a, b with SL, SL | SI, SI | SR, SR => true | _, _ => false end.
Definition level_eqb (a b : level) : bool := match a, b with LOrd, LOrd | LSup, LSup => true | _, _ => false end.

(* numpy.sum(row, where = mask) *)
Definition masked_sum (mask : list bool) (row : list Z) : Z :=
  fold_right (fun (bx : bool * Z) (a : Z) => if fst bx then (snd bx + a)%Z else a) 0%Z (combine mask row).

(* one assignment  array[axis][side][group index, window index, gene index] = numerator / divisor *)
Definition dentry := (level * side * nat * nat * nat * Z * Z)%type.
Definition dlog := list dentry.
Inductive dstate := DFailed | DRunning (a : dlog).
Definition dassign (lv : level) (sd : side) (t w g : nat) (num div : Z) (a : dlog) : dlog := a ++ [(lv, sd, t, w, g, num, div)].
Definition dkey (lv : level) (sd : side) (t w g : nat) (e : dentry) : bool :=
  match e with (lv', sd', t', w', g', _, _) => level_eqb lv lv' && side_eqb sd sd' && Nat.eqb t t' && Nat.eqb w w' && Nat.eqb g g' end.
Definition dval (e : dentry) : Z * Z := match e with (_, _, _, _, _, n, d) => (n, d) end.
(* the cell an array holds: the latest assignment; None = never assigned *)
Definition dread (lv : level) (sd : side) (t w g : nat) (a : dlog) : option (Z * Z) :=
  fold_left (fun cur e => if dkey lv sd t w g e then Some (dval e) else cur) a None.

Fixpoint all_some {A} (l : list (option A)) : option (list A) :=
  match l with
  | [] => Some []
  | None :: _ => None
  | Some x :: r => match all_some r with Some r' => Some (x :: r') | None => None end
  end.

(* one _SummationArgs: which arrays, which windows, how (window index, gene index[, group index]) become array positions,
   which divisor; None = the Python expression raises / is not modelled *)
Record sumargs := mkSA {
  sa_side : side;
  sa_windows : list (option Z);
  sa_slice_in : option nat -> nat -> option (nat * nat);              (* -> (gene index, window index) of the overlap array *)
  sa_slice_out : option nat -> nat -> nat -> option (nat * nat * nat); (* window, gene, group -> (group, window, gene) of the density array *)
  sa_div : gene -> option Z -> option Z
}.

(* the density arrays as the file holds them (created zero-filled), flattened [group][window][gene] as numerator, divisor pairs
   (0, 0 = never assigned); used by the correspondence check *)
Definition dflat (lv : level) (sd : side) (G W nG : nat) (st : dstate) : list Z :=
  match st with
  | DFailed => [(-1)%Z]
  | DRunning a =>
    flat_map (fun t => flat_map (fun w => flat_map (fun g =>
      match dread lv sd t w g a with Some (n, d) => [n; d] | None => [0%Z; 0%Z] end) (seq 0 nG)) (seq 0 W)) (seq 0 G)
  end.
