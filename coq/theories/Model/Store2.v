(* Model of transposon/density2.py _DensitySubset: opening a per-group density store on an HDF5 file.
   Names are natural numbers, 0 standing for the empty string (h5py's fill value of a fresh string
   dataset, which the code takes to mean "not initialised yet").  The arrays (left, intra, right, bitmap)
   are abstracted to a content identifier and their shape. *)
From Coq Require Import List Bool Arith ZArith NArith.
Import ListNotations.

Record cfg := mkC { c_genes : list N; c_tes : list N; c_windows : list Z }.
Record grp := mkGp { s_genes : option (list N); s_tes : option (list N); s_windows : option (list Z);
                     s_data : option (nat * (nat * nat * nat)) }.
Inductive oerr := TypeErr | ValueErr.

Fixpoint eqbN (a b : list N) : bool :=
  match a, b with [], [] => true | x :: a', y :: b' => N.eqb x y && eqbN a' b' | _, _ => false end.
Fixpoint eqbZ (a b : list Z) : bool :=
  match a, b with [], [] => true | x :: a', y :: b' => Z.eqb x y && eqbZ a' b' | _, _ => false end.
Definition has_empty (l : list N) : bool := existsb (N.eqb 0) l.

(* _read_dataset + _init_strings: require the dataset with the expected length, then initialise it
   when it looks uninitialised, otherwise compare *)
Definition init_strings (stored : option (list N)) (want : list N) : oerr + list N :=
  match stored with
  | None => inr want                       (* created with |want| empty strings, then written (|want| >= 1) *)
  | Some l => if negb (Nat.eqb (length l) (length want)) then inl TypeErr
              else if has_empty l then inr want
              else if eqbN l want then inr l else inl ValueErr
  end.

(* _init_array for the windows: exact shape, then element-wise comparison *)
Definition init_windows (stored : option (list Z)) (want : list Z) : oerr + list Z :=
  match stored with
  | None => inr want
  | Some l => if negb (Nat.eqb (length l) (length want)) then inl TypeErr
              else if eqbZ l want then inr l else inl ValueErr
  end.

Definition shape_eqb (a b : nat * nat * nat) : bool :=
  let '(a1, a2, a3) := a in let '(b1, b2, b3) := b in Nat.eqb a1 b1 && Nat.eqb a2 b2 && Nat.eqb a3 b3.

(* _init_densities: shape taken from the STORED label datasets *)
Definition init_data (stored : option (nat * (nat * nat * nat))) (shape : nat * nat * nat)
  : oerr + (nat * (nat * nat * nat)) :=
  match stored with
  | None => inr (0, shape)                 (* created, zero-filled: content id 0 *)
  | Some (v, sh) => if shape_eqb sh shape then inr (v, sh) else inl TypeErr
  end.

(* the constructor: genes, TE names, windows, densities, in this order; every step's effect on the file
   is kept even if a later step raises *)
Definition open (c : cfg) (g : grp) : option oerr * grp :=
  match init_strings (s_genes g) (c_genes c) with
  | inl e => (Some e, g)
  | inr ge =>
    let g1 := mkGp (Some ge) (s_tes g) (s_windows g) (s_data g) in
    match init_strings (s_tes g1) (c_tes c) with
    | inl e => (Some e, g1)
    | inr te =>
      let g2 := mkGp (Some ge) (Some te) (s_windows g1) (s_data g1) in
      match init_windows (s_windows g2) (c_windows c) with
      | inl e => (Some e, g2)
      | inr wi =>
        let g3 := mkGp (Some ge) (Some te) (Some wi) (s_data g2) in
        match init_data (s_data g3) (length te, length wi, length ge) with
        | inl e => (Some e, g3)
        | inr d => (None, mkGp (Some ge) (Some te) (Some wi) (Some d))
        end
      end
    end
  end.

Definition empty_grp : grp := mkGp None None None None.

(* writing densities through an open store: only the array content changes *)
Definition write (v : nat) (g : grp) : grp :=
  match s_data g with
  | Some (_, sh) => mkGp (s_genes g) (s_tes g) (s_windows g) (Some (v, sh))
  | None => g
  end.

(* a file: one group per prefix; a history of opens and writes *)
Inductive op := OOpen (p : N) (c : cfg) | OWrite (p : N) (v : nat).
Definition file := N -> grp.
Definition upd (f : file) (p : N) (g : grp) : file := fun q => if N.eqb q p then g else f q.
Definition do_op (f : file) (o : op) : file :=
  match o with
  | OOpen p c => upd f p (snd (open c (f p)))
  | OWrite p v => upd f p (write v (f p))
  end.
Definition run (ops : list op) (f : file) : file := fold_left do_op ops f.
Definition outcomes (ops : list op) (f : file) : list (option oerr) :=
  (* the outcome of every open along the history *)
  (fix go ops f := match ops with
                   | [] => []
                   | OOpen p c :: r => fst (open c (f p)) :: go r (do_op f (OOpen p c))
                   | o :: r => go r (do_op f o)
                   end) ops f.

(* flat output for the correspondence harness: outcome codes of all opens, then per prefix the content id *)
Definition err_code (e : option oerr) : Z := match e with None => 0 | Some TypeErr => 1 | Some ValueErr => 2 end%Z.
Definition flat_history (ops : list op) (prefixes : list N) : list Z :=
  map err_code (outcomes ops (fun _ => empty_grp)) ++ [(-7)%Z] ++
  map (fun p => match s_data (run ops (fun _ => empty_grp) p) with Some (v, _) => Z.of_nat v | None => (-1)%Z end) prefixes.
