(* Model of the collection of overlap results (transposon/overlap_manager.py):
   k worker jobs each [put] one result on the result queue; the collector thread (_ProgressBars.handle_chrome)
   loops { test the stop flag; pop with timeout; append }, and the main thread sets the stop flag after
   pool.map has returned, i.e. after every put.  Results are identified by natural numbers.
   A collector step is one observable operation: the flag test, or a pop together with the (thread-local)
   append of the popped result.  [fixed = true]: after seeing the flag the collector drains the queue
   (the D12 repair); [fixed = false]: the legacy loop, which simply ends. *)
From Coq Require Import List Bool Arith ZArith.
Import ListNotations.

Inductive cpc := CCheck | CPop | CDrain | CDone.
Record st := mk { unput : list nat; q : list nat; col : list nat; pc : cpc; stop : bool }.
Inductive actor := W (i : nat) | C | M.

(* remove the i-th element *)
Fixpoint take_nth (i : nat) (l : list nat) : option (nat * list nat) :=
  match l, i with
  | [], _ => None
  | x :: t, O => Some (x, t)
  | x :: t, S j => match take_nth j t with Some (y, t') => Some (y, x :: t') | None => None end
  end.

Section Sem.
Variable fixed : bool.

Definition step (s : st) (a : actor) : st :=
  match a with
  | W i => match take_nth i (unput s) with
           | Some (r, rest) => mk rest (q s ++ [r]) (col s) (pc s) (stop s)
           | None => s end
  | M => match unput s with [] => mk [] (q s) (col s) (pc s) true | _ => s end   (* pool.map has returned *)
  | C => match pc s with
         | CCheck => if stop s then mk (unput s) (q s) (col s) (if fixed then CDrain else CDone) (stop s)
                     else mk (unput s) (q s) (col s) CPop (stop s)
         | CPop => match q s with
                   | [] => mk (unput s) [] (col s) CCheck (stop s)                 (* timeout: queue.Empty *)
                   | r :: q' => mk (unput s) q' (col s ++ [r]) CCheck (stop s) end
         | CDrain => match q s with
                     | [] => mk (unput s) [] (col s) CDone (stop s)
                     | r :: q' => mk (unput s) q' (col s ++ [r]) CDrain (stop s) end
         | CDone => s
         end
  end.

Definition run (sched : list actor) (s : st) : st := fold_left step sched s.
End Sem.

Definition init (all : list nat) : st := mk all [] [] CCheck false.

(* flat output for the correspondence harness *)
Definition pc_code (p : cpc) : Z := match p with CCheck => 0 | CPop => 1 | CDrain => 2 | CDone => 3 end%Z.
Definition flat_state (s : st) : list Z :=
  [pc_code (pc s); if stop s then 1%Z else 0%Z; Z.of_nat (length (unput s)); Z.of_nat (length (q s)); Z.of_nat (length (col s))]
  ++ map Z.of_nat (col s).
