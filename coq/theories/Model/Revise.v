(* Model of ReviseAnno on one group of one chromosome: sort by start, then seed-and-absorb
   (Base.Intervals.merge_all mirrors call_merge / merge_by_like / hit_scan_overlapping /
   determine_seed_stop / clear_array_by_index). *)
From Coq Require Import ZArith List Bool.
From TEV Require Import Base.Intervals.
Import ListNotations. Open Scope Z_scope.

Fixpoint insert_start (i : iv) (l : list iv) : list iv :=
  match l with
  | [] => [i]
  | j :: r => if fst i <=? fst j then i :: l else j :: insert_start i r
  end.
Definition sort_start (l : list iv) : list iv := fold_right insert_start [] l.

(* the revision of one group: fuel = number of elements, always sufficient *)
Definition revise (l : list iv) : list iv := merge_all (length l) (sort_start l).
