(* The three files of one chromosome as the job and result tuples of the pipeline carry them (overlap_manager._OverlapJob,
   overlap.OverlapResult, process_genome.MergeJob).  Tie to the code: translator/py2gallina_jobs.py regenerates
   Gen/GenJobs.v on every run; Props/C05code.v states that the density stage of a chromosome opens the files of that
   chromosome's own overlap job. *)
Inductive fname := FGene | FTE | FOverlap.     (* gene_path, te_path, output_filepath of the overlap job *)
Record oresult := mkRes { r_overlap : fname; r_gene : fname; r_te : fname }.
Record mjob := mkMJ { m_overlap : fname; m_gene : fname; m_te : fname }.
