(* The environment of the translated WorkerProcess.run (Gen/GenCF_worker_run.v): the same scripts of
   answers as Model/Worker.v (stop-flag tests, input-queue gets, output-queue puts), consumed by the
   interaction program.  An answer of the wrong kind is dropped, exactly as in the model and in the
   harness' stub queues.  The ghost record holds what the stub queues observe: the jobs handed out, the
   results accepted, how often the sentinel was put back. *)
From Coq Require Import List Bool Arith ZArith.
From TEV Require Import Model.PyProg Model.Worker.
Import ListNotations.

Record wg := mkg { g_taken : list nat; g_acc : list nat; g_sb : nat }.

Inductive kind := KStop | KPut | KGet.
Definition kind_eqb (a b : kind) : bool :=
  match a, b with KStop, KStop => true | KPut, KPut => true | KGet, KGet => true | _, _ => false end.
Definition kind_of_ans (a : ans) : kind := match a with AStop _ => KStop | APut _ => KPut | AGet _ => KGet end.
Definition kind_of_query (q : query) : kind := match q with QStop => KStop | QPut _ => KPut | QGet | QGetNow => KGet end.

Definition answer_of (a : ans) : answer :=
  match a with
  | AStop b => RVal (VBool b)
  | APut true => RVal VNone
  | APut false => RRaise EFull
  | AGet (GJob j) => RVal (VItem j)
  | AGet GEmpty => RRaise EEmpty
  | AGet GSentinel => RVal VSentinel
  end.

(* what the stub queues record when a query is answered *)
Definition upd (q : query) (a : ans) (g : wg) : wg :=
  match q, a with
  | QPut (VItem r), APut true => mkg (g_taken g) (g_acc g ++ [r]) (g_sb g)
  | (QGet | QGetNow), AGet (GJob j) => mkg (g_taken g ++ [j]) (g_acc g) (g_sb g)
  | _, _ => g
  end.
Definition do_act (a : action) (g : wg) : wg :=
  match a with
  | APutBack VSentinel => mkg (g_taken g) (g_acc g) (S (g_sb g))
  | _ => g
  end.

(* run the recording actions at the head of a program *)
Fixpoint norm (p : prog) (g : wg) : prog * wg :=
  match p with Act a k => norm k (do_act a g) | _ => (p, g) end.

Fixpoint interp (script : list ans) (p : prog) (g : wg) : prog * wg :=
  let '(p', g') := norm p g in
  match script with
  | [] => (p', g')
  | a :: rest =>
    match p' with
    | Vis ls q k => if kind_eqb (kind_of_ans a) (kind_of_query q)
                    then interp rest (k (answer_of a)) (upd q a g')
                    else interp rest p' g'
    | _ => (p', g')
    end
  end.

(* what is observed of a run: where the loop stands (the kind of the pending query, or the exit), the pending
   result (the local `result`, found at position [res_ix] of the snapshots), and what the queues recorded *)
Definition prog_pending (res_ix : nat) (p : prog) : option nat :=
  match p with
  | Vis ls _ _ | Done ls => match nth res_ix ls VNone with VItem r => Some r | _ => None end
  | _ => None
  end.
Definition prog_code (p : prog) (g : wg) : Z :=
  match p with
  | Vis _ QStop _ => 0 | Vis _ (QPut _) _ => 1 | Vis _ QGet _ => 2
  | Done _ => if Nat.eqb (g_sb g) 0 then 3 else 4
  | Vis _ QGetNow _ => 96 | Act _ _ => 97 | Fuel => 98 | Crash => 99
  end%Z.
Definition obs (res_ix : nat) (pg : prog * wg) : Z * nat * option nat * list nat * list nat :=
  (prog_code (fst pg) (snd pg), g_sb (snd pg), prog_pending res_ix (fst pg), g_taken (snd pg), g_acc (snd pg)).
Definition mobs (s : wst) : Z * nat * option nat * list nat * list nat :=
  (pc_code (pc s), sentinel_back s, pending s, taken s, accepted s).
