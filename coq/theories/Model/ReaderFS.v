(* The three files a load of one result file touches, by symbolic name, and the file operations of
   DensityData.__init__ on them.  Target of translator/py2gallina_reader.py. *)
From Coq Require Import List Bool Arith NArith.
From TEV Require Import Model.Reader.
Import ListNotations.

Inductive path := PRaw | PFinal | PTmp.     (* <result>.h5 | <result>_SenseSwapped.HDF5 | <result>_SenseSwapped.HDF5.tmp *)

Definition read_ (p : path) (d : disk) : option h5 :=
  match p with PRaw => Some (d_raw d) | PFinal => d_final d | PTmp => d_tmp d end.
Definition exists_ (p : path) (d : disk) : bool := match read_ p d with Some _ => true | None => false end.
Definition put_ (p : path) (o : option h5) (d : disk) : disk :=
  match p with
  | PRaw => match o with Some f => mkD f (d_tmp d) (d_final d) | None => d end   (* the raw file is never removed *)
  | PFinal => mkD (d_raw d) (d_tmp d) o
  | PTmp => mkD (d_raw d) o (d_final d)
  end.
Definition write_ (p : path) (f : h5) (d : disk) : disk := put_ p (Some f) d.
(* shutil.copyfile(a, b): b now holds a's content *)
Definition copy_ (a b : path) (d : disk) : disk := match read_ a d with Some f => write_ b f d | None => d end.
(* os.replace(a, b): b now holds a's content and a is gone *)
Definition replace_ (a b : path) (d : disk) : disk :=
  match read_ a d with
  | Some f => match a with PRaw => write_ b f d | _ => put_ a None (write_ b f d) end
  | None => d
  end.

(* exchange the left and right columns of the k-th gene *)
Fixpoint swap_at (k : nat) (f : h5) : h5 :=
  match f, k with
  | [], _ => []
  | (m, c) :: r, O => (m, swap_col c) :: r
  | x :: r, S j => x :: swap_at j r
  end.
