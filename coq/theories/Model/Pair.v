(* Target of translator/py2gallina_pair.py: DensityData._pair_by_chromosome (transposon/density_data.py), the function
   both directory-level constructors use to decide which gene annotation each result file is combined with (C16).

   A GeneData object is (its position in list_of_gene_data, its chromosome identifier); a result file is (its position in
   h5_files, the entries of its CHROMOSOME_ID dataset).  A pair of the returned list is (file position, GeneData position).
   Python values used by the function:
     dict with identifier keys  -> association list, newest binding first (pd_get finds the newest)
     set(...) of identifiers    -> the distinct elements (set_of); len = their number
     list(s)[0]                 -> whichever element the iteration of the set yields first: an ORACLE [pick], about which
                                   the theorems assume only that the first element of a one-element set is that element
     raise                      -> None *)
From Coq Require Import List Bool Arith NArith.
From TEV Require Import Model.Reader.
Import ListNotations.

Definition pdict := list (N * nat).
Fixpoint pd_get (k : N) (d : pdict) : option nat :=
  match d with [] => None | (k', v) :: r => if N.eqb k' k then Some v else pd_get k r end.
Definition pd_mem (k : N) (d : pdict) : bool := match pd_get k d with Some _ => true | None => false end.
Definition pd_set (k : N) (v : nat) (d : pdict) : pdict := (k, v) :: d.

Fixpoint nodupN (l : list N) : list N :=
  match l with [] => [] | x :: r => if memN x r then nodupN r else x :: nodupN r end.
Definition pset := list N.
Definition set_of (l : list N) : pset := nodupN l.
Definition set_len (s : pset) : nat := length s.

Fixpoint enum_from {A} (k : nat) (l : list A) : list (nat * A) :=
  match l with [] => [] | x :: r => (k, x) :: enum_from (S k) r end.
Definition enum {A} (l : list A) := enum_from 0 l.

(* the statement the translated function is proved equal to: no two GeneData of one chromosome; every file stores exactly
   one distinct chromosome identifier, and that identifier is the chromosome of one of the GeneData - the file is paired
   with that one, in file order *)
Fixpoint pair_go (gds : list N) (k : nat) (fs : list (list N)) : option (list (nat * nat)) :=
  match fs with
  | [] => Some []
  | stored :: r =>
      match nodupN stored with
      | [c] => match first_index c gds with
               | Some j => match pair_go gds (S k) r with Some ps => Some ((k, j) :: ps) | None => None end
               | None => None
               end
      | _ => None
      end
  end.
Definition pair_spec (h5s : list (list N)) (gds : list N) : option (list (nat * nat)) :=
  if has_dupN gds then None else pair_go gds 0 h5s.
