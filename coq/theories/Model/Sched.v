(* Model of how the density stage is parallelised (process_genome.py, MergeData.sum):
   (i) one job per chromosome, each a sequence of steps on its OWN result path, executed by a pool in any
       interleaving; (ii) inside a job, six summation tasks applied in a shuffled order, each ASSIGNING the
       cells of its own (level, side) arrays. *)
From Coq Require Import List Bool Arith NArith Permutation.
Import ListNotations.

(* ---------- (i) jobs writing their own files ---------- *)
Section Jobs.
Variable content : Type.
Definition fsys := N -> content.                         (* path -> content *)
Definition fstep := (N * (content -> content))%type.     (* one atomic step: a path and what it does to that file *)
Definition exec (l : list fstep) (fs : fsys) : fsys :=
  fold_left (fun fs st => fun p => if N.eqb p (fst st) then snd st (fs p) else fs p) l fs.
(* the steps of one path, in order *)
Definition proj (p : N) (l : list fstep) : list (content -> content) :=
  map snd (filter (fun st => N.eqb (fst st) p) l).
End Jobs.

(* ---------- (ii) tasks assigning disjoint cells ---------- *)
Section Tasks.
Variable val : Type.
Definition key := (N * N)%type.                          (* (array, position) *)
Definition keyb (a b : key) : bool := N.eqb (fst a) (fst b) && N.eqb (snd a) (snd b).
Definition arrays := key -> val.
Definition task := list (key * val).                     (* the assignments of one task *)
Definition assign (a : arrays) (kv : key * val) : arrays := fun k => if keyb k (fst kv) then snd kv else a k.
Definition run_task (a : arrays) (t : task) : arrays := fold_left assign t a.
Definition run_tasks (ts : list task) (a : arrays) : arrays := fold_left run_task ts a.
Definition keys_of (t : task) : list key := map fst t.
(* no key is assigned by two different tasks, nor twice inside one task *)
Definition disjoint_tasks (ts : list task) : Prop := NoDup (flat_map keys_of ts).
End Tasks.
