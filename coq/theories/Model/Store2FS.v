(* h5py's Group.require_dataset on the datasets of a density store, and setters of the group record.
   Target of translator/py2gallina_store.py. *)
From Coq Require Import List Bool Arith NArith ZArith.
From TEV Require Import Model.Store2.
Import ListNotations.

(* a string dataset: created with n empty strings (0 stands for "") when absent, TypeError when its length differs *)
Definition require_strings (stored : option (list N)) (n : nat) : oerr + list N :=
  match stored with
  | None => inr (repeat 0%N n)
  | Some l => if Nat.eqb (length l) n then inr l else inl TypeErr
  end.
(* an integer dataset given its initial data *)
Definition require_ints (stored : option (list Z)) (n : nat) (data : list Z) : oerr + list Z :=
  match stored with
  | None => inr data
  | Some l => if Nat.eqb (length l) n then inr l else inl TypeErr
  end.

Definition set_genes (l : list N) (g : grp) : grp := mkGp (Some l) (s_tes g) (s_windows g) (s_data g).
Definition set_tes (l : list N) (g : grp) : grp := mkGp (s_genes g) (Some l) (s_windows g) (s_data g).
Definition set_windows (l : list Z) (g : grp) : grp := mkGp (s_genes g) (s_tes g) (Some l) (s_data g).
Definition set_data (d : nat * (nat * nat * nat)) (g : grp) : grp := mkGp (s_genes g) (s_tes g) (s_windows g) (Some d).
