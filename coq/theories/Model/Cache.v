(* Model of the three layers of on-disk intermediates that TE_Density reuses between runs, and
   of what one run of process_genome.py does to them:

     phase 1  verify_cache.revise_annotation     Revised_<TEs>.tsv reused iff it exists and
                                                 --revise_anno is not given, else rewritten
     phase 2  verify_cache.verify_chromosome_h5_cache, per chromosome
                                                 --reset_h5 writes the GeneData/TEData pair; then the
                                                 pair is rewritten when one file is missing or when
                                                 either cache is not newer than its source
     phase 3  OverlapManager._filter_jobs/_is_current, per chromosome
                                                 the overlap file is reused iff it exists and is
                                                 newer than both cache files, else recalculated
     merge    MergeData (always rewritten)       refuses windows / gene names that differ

   Content is symbolic, time is abstracted.  Each file records the *versions* it was made from
   (natural numbers naming a state of the gene annotation, of the TE annotation, of the window
   configuration); modification times are replaced by the order relations the code tests:
     gF  the gene cache is strictly newer than the gene annotation
     tF  the TE cache is strictly newer than the revised annotation
     tFT the TE cache is strictly newer than the raw TE annotation (what the legacy code tested)
     oFG / oFT  the overlap file is strictly newer than the gene / TE cache.
   Every write is atomic (temporary name + os.replace).  A write may *tie* with the file it is
   compared with (equal mtimes at the file system's granularity): the code resolves every tie
   towards recomputation, the model lets an oracle choose ties freely.
   [fixed = false] gives the reuse rules of the code as it was at the pinned commit. *)
From Coq Require Import List Bool Arith.
Import ListNotations.

Record chrom := mkC {
  GC : option nat;                 (* gene cache: version of the gene annotation it holds *)
  TC : option nat;                 (* TE cache: TE version of the revised file it was split from *)
  OV : option (nat * nat * nat);   (* overlap file: gene-cache version, TE-cache version, windows *)
  gF : bool; tF : bool; tFT : bool; oFG : bool; oFT : bool }.

Definition empty_chrom := mkC None None None false false false false false.

(* chromosomes are named by natural numbers; a disk holds every chromosome's slot *)
Record disk := mkD {
  gv : nat; tv : nat; wv : nat;    (* current gene annotation, TE annotation, window configuration *)
  R : option nat;                  (* Revised_<TEs>.tsv: the TE version it was made from *)
  chs : nat -> chrom }.

(* ---- atomic writes, per chromosome ---- *)
Definition cG (g : nat) (tie : bool) (c : chrom) : chrom :=
  mkC (Some g) (TC c) (OV c) (negb tie) (tF c) (tFT c) false (oFT c).
Definition cT (r : nat) (tie : bool) (c : chrom) : chrom :=
  mkC (GC c) (Some r) (OV c) (gF c) (negb tie) true (oFG c) false.
Definition cO (w : nat) (tieg tiet : bool) (c : chrom) : chrom :=
  match GC c, TC c with
  | Some g, Some t => mkC (GC c) (TC c) (Some (g, t, w)) (gF c) (tF c) (tFT c) (negb tieg) (negb tiet)
  | _, _ => c
  end.
(* the revised annotation has just been rewritten: no TE cache is newer than it *)
Definition cR (c : chrom) : chrom := mkC (GC c) (TC c) (OV c) (gF c) false (tFT c) (oFG c) (oFT c).

Inductive cact := CG (tie : bool) | CT (tie : bool) | CO (tieg tiet : bool).
Definition capply (g r w : nat) (a : cact) (c : chrom) : chrom :=
  match a with CG t => cG g t c | CT t => cT r t c | CO tg tte => cO w tg tte c end.
Definition cexec (g r w : nat) (l : list cact) (c : chrom) : chrom :=
  fold_left (fun x a => capply g r w a x) l c.

(* the ties of one run on one chromosome: the two writes of --reset_h5, the two writes of the
   staleness rule, the overlap file against either cache *)
Record ties := mkT { t_g1 : bool; t_t1 : bool; t_g2 : bool; t_t2 : bool; t_og : bool; t_ot : bool }.
Definition no_ties := mkT false false false false false false.

Section Rules.
Variable fixed : bool.

Definition both (c : chrom) : bool :=
  match GC c, TC c with Some _, Some _ => true | _, _ => false end.
(* verify_chromosome_h5_cache: (gene_annot_time >= gene_h5_time) or (te_annot_time >= te_h5_time);
   legacy: "and", and the TE cache compared with the raw TE annotation *)
Definition stale (c : chrom) : bool :=
  if fixed then negb (gF c) || negb (tF c) else negb (gF c) && negb (tFT c).
(* OverlapManager._is_current; legacy: os.path.isfile only *)
Definition reuse (c : chrom) : bool :=
  match OV c with Some _ => if fixed then oFG c && oFT c else true | None => false end.

Definition plan2a (reset : bool) (ti : ties) : list cact :=
  if reset then [CG (t_g1 ti); CT (t_t1 ti)] else [].
Definition plan2b (ti : ties) (c : chrom) : list cact :=
  if both c then (if stale c then [CG (t_g2 ti); CT (t_t2 ti)] else []) else [CG (t_g2 ti); CT (t_t2 ti)].
Definition plan3 (ti : ties) (c : chrom) : list cact :=
  if reuse c then [] else [CO (t_og ti) (t_ot ti)].

(* the writes one run performs on one chromosome, decided phase by phase as the code does;
   [c] is the chromosome's state when phase 2 starts *)
Definition cplan (reset : bool) (ti : ties) (g r w : nat) (c : chrom) : list cact :=
  let p2a := plan2a reset ti in
  let c2a := cexec g r w p2a c in
  let p2b := plan2b ti c2a in
  let c2 := cexec g r w p2b c2a in
  p2a ++ p2b ++ plan3 ti c2.
Definition crun (reset : bool) (ti : ties) (g r w : nat) (c : chrom) : chrom :=
  cexec g r w (cplan reset ti g r w c) c.

(* phase 1 *)
Definition revises (revise : bool) (s : disk) : bool :=
  match R s with Some _ => revise | None => true end.
(* the TE version the run's numbers are computed from *)
Definition target (revise : bool) (s : disk) : nat :=
  match R s with Some r => if revise then tv s else r | None => tv s end.
Definition after1 (revise : bool) (s : disk) : disk :=
  if revises revise s then mkD (gv s) (tv s) (wv s) (Some (tv s)) (fun j => cR (chs s j)) else s.

(* one complete run; [ti j] are the ties met on chromosome j *)
Definition run (reset revise : bool) (ti : nat -> ties) (s : disk) : disk :=
  let s1 := after1 revise s in
  mkD (gv s) (tv s) (wv s) (R s1)
      (fun j => crun reset (ti j) (gv s) (target revise s) (wv s) (chs s1 j)).

(* a run that dies (kill, power loss, exception in the main process or in any worker): phase 1
   either completed or left no trace ([kR]); chromosome j got the first [k j] of its writes -
   every interleaving of the workers and every crash point is some (kR, k) *)
Definition crash (reset revise : bool) (ti : nat -> ties) (kR : bool) (k : nat -> nat) (s : disk) : disk :=
  if kR then
    let s1 := after1 revise s in
    mkD (gv s) (tv s) (wv s) (R s1)
        (fun j => cexec (gv s) (target revise s) (wv s)
                        (firstn (k j) (cplan reset (ti j) (gv s) (target revise s) (wv s) (chs s1 j))) (chs s1 j))
  else s.
End Rules.

(* ---- what the density stage makes of chromosome j ---- *)
Inductive outcome :=
  | Ok (g t og ot w : nat)     (* gene cache, TE cache, overlap provenance (genes, TEs, windows) *)
  | ErrW                       (* MergeData._validate_windows *)
  | ErrG                       (* MergeData._validate_gene_names *)
  | ErrMissing.
Definition is_err (o : outcome) : bool := match o with Ok _ _ _ _ _ => false | _ => true end.

Section Result.
Variable nm : nat -> nat.      (* the gene-name list of a version of the gene annotation *)
Definition cresult (w : nat) (c : chrom) : outcome :=
  match OV c, GC c, TC c with
  | Some (og, ot, ow), Some g, Some t =>
      if negb (ow =? w) then ErrW else if negb (nm og =? nm g) then ErrG else Ok g t og ot ow
  | _, _, _ => ErrMissing
  end.
Definition result (s : disk) (j : nat) : outcome := cresult (wv s) (chs s j).
End Result.

(* ---- histories: edits, touches, runs, interrupted runs ---- *)
Definition map_chs (f : chrom -> chrom) (s : disk) : disk :=
  mkD (gv s) (tv s) (wv s) (R s) (fun j => f (chs s j)).
Definition c_unfresh_g (c : chrom) := mkC (GC c) (TC c) (OV c) false (tF c) (tFT c) (oFG c) (oFT c).
Definition c_unfresh_t (c : chrom) := mkC (GC c) (TC c) (OV c) (gF c) (tF c) false (oFG c) (oFT c).
Definition editG (v : nat) (s : disk) : disk :=
  mkD v (tv s) (wv s) (R s) (fun j => c_unfresh_g (chs s j)).
Definition editT (v : nat) (s : disk) : disk :=
  mkD (gv s) v (wv s) (R s) (fun j => c_unfresh_t (chs s j)).
Definition editW (w : nat) (s : disk) : disk := mkD (gv s) (tv s) w (R s) (chs s).
Definition touchG (s : disk) : disk := map_chs c_unfresh_g s.
Definition touchT (s : disk) : disk := map_chs c_unfresh_t s.

Inductive op :=
  | OEditG (v : nat) | OEditT (v : nat) | OEditW (w : nat) | OTouchG | OTouchT
  | ORun (reset revise : bool) (ti : nat -> ties)
  | OCrash (reset revise : bool) (ti : nat -> ties) (kR : bool) (k : nat -> nat).
Definition do_op (fixed : bool) (o : op) (s : disk) : disk :=
  match o with
  | OEditG v => editG v s | OEditT v => editT v s | OEditW w => editW w s
  | OTouchG => touchG s | OTouchT => touchT s
  | ORun re rv ti => run fixed re rv ti s
  | OCrash re rv ti kR k => crash fixed re rv ti kR k s
  end.
Definition history (fixed : bool) (h : list op) (s : disk) : disk := fold_left (fun x o => do_op fixed o x) h s.

Definition empty_disk (g t w : nat) : disk := mkD g t w None (fun _ => empty_chrom).

(* flat encodings for the correspondence harness: a chromosome state as 13 numbers *)
Definition onat (o : option nat) : list nat := match o with Some v => [1; v] | None => [0; 0] end.
Definition b2n (b : bool) : nat := if b then 1 else 0.
Definition flat_chrom (c : chrom) : list nat :=
  onat (GC c) ++ onat (TC c) ++
  (match OV c with Some (g, t, w) => [1; g; t; w] | None => [0; 0; 0; 0] end) ++
  [b2n (gF c); b2n (tF c); b2n (tFT c); b2n (oFG c); b2n (oFT c)].
Definition flat_outcome (o : outcome) : list nat :=
  match o with Ok g t og ot w => [0; g; t; og; ot; w] | ErrW => [1] | ErrG => [2] | ErrMissing => [3] end.
Definition cact_code (a : cact) : nat := match a with CG _ => 1 | CT _ => 2 | CO _ _ => 3 end.

(* ---- entry points of the correspondence harness ---- *)
Definition disk_of (g t w : nat) (r : option nat) (cs : list chrom) : disk :=
  mkD g t w r (fun j => nth j cs empty_chrom).
Definition kinds (l : list cact) : list nat := map cact_code l.
(* one run from an observed disk ([nml]: the gene-name list of each gene version, as a class number): revised?, then per chromosome: the writes (kinds, 9-terminated),
   the chromosome afterwards, its outcome (6 numbers, padded) *)
Definition pad6 (l : list nat) : list nat := firstn 6 (l ++ [0; 0; 0; 0; 0; 0]).
Definition flat_step (fixed reset revise : bool) (nml : list nat) (s : disk) (n : nat) : list nat :=
  let s1 := after1 revise s in
  let s' := run fixed reset revise (fun _ => no_ties) s in
  b2n (revises revise s) :: onat (R s') ++
  flat_map (fun j =>
      kinds (cplan fixed reset no_ties (gv s) (target revise s) (wv s) (chs s1 j)) ++ [9] ++
      flat_chrom (chs s' j) ++ pad6 (flat_outcome (result (fun v => nth v nml v) s' j)))
    (seq 0 n).
(* every disk an interrupted run can leave on chromosome j: the prefixes of its writes (phase 1 done) *)
Definition flat_prefixes (fixed reset revise : bool) (s : disk) (n : nat) : list nat :=
  let s1 := after1 revise s in
  flat_map (fun j =>
      let p := cplan fixed reset no_ties (gv s) (target revise s) (wv s) (chs s1 j) in
      length p :: flat_map (fun k => flat_chrom (cexec (gv s) (target revise s) (wv s) (firstn k p) (chs s1 j)))
                           (seq 0 (S (length p))))
    (seq 0 n).
