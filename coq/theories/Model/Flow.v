(* Target of translator/py2gallina_flow.py: the control flow of a Python function as far as FAILURE PROPAGATION is concerned
   (C17: a failing step makes the run fail; C18: nothing is computed for a pair that was refused).

   A statement that can fail is a call site [PCall s]; [s] names the three stages of the pipeline where the translator
   recognises them (PreProcessor.process, OverlapManager.calculate_overlap, the density job calc_merge) and is [SAux k]
   for every other statement (k = its line).  try / except / else / finally, with, loops, if, raise and return are kept;
   everything else about the values is dropped: an [if] may go either way, a loop runs any number of times, a handler
   for a specific exception class may or may not match.  The semantics is the big-step relation [run]: every behaviour
   of the Python function is one of its derivations (the converse does not hold and is not needed: the theorems are
   universal statements over derivations). *)
From Coq Require Import List Bool Arith.
Import ListNotations.

Inductive stage := SPre | SOvl | SMerge | SAux (line : nat).
Inductive exn := XExc | XKbd.                 (* an instance of Exception; KeyboardInterrupt / SystemExit *)
Inductive catch := CAll | CExc | CKbd | COther.   (* bare except or BaseException; Exception; KeyboardInterrupt; any more specific class *)

Inductive exitk := KReturn | KBreak | KContinue.

Inductive prog :=
| PSkip
| PCall (s : stage)
| PSeq (p q : prog)
| PIf (p q : prog)
| PLoop (p : prog)
| PTry (body : prog) (handlers : list (catch * prog)) (orelse : prog) (final : prog)
| PRaise                                       (* raise <a new exception> *)
| PReraise                                     (* bare raise, or raise <the name the handler bound> *)
| PExit (k : exitk).                            (* return / break / continue *)

Inductive out := ONormal | OExit (k : exitk) | ORaise (x : exn).
Definition event := (stage * bool)%type.      (* a call and whether it completed *)

Definition matches (c : catch) (x : exn) : Prop :=
  match c, x with
  | CAll, _ => True | CExc, XExc => True | CKbd, XKbd => True | COther, XExc => True | _, _ => False
  end.
Definition may_skip (c : catch) (x : exn) : Prop :=
  match c, x with
  | CAll, _ => False | CExc, XExc => False | CKbd, XKbd => False | _, _ => True
  end.

(* the outcome of a try statement once its finally clause has run *)
Definition after_final (o o2 : out) : out := match o2 with ONormal => o | _ => o2 end.

(* run cur p tr o: with [cur] the exception being handled (for a bare raise), p performs the calls tr and ends with o *)
Inductive run : option exn -> prog -> list event -> out -> Prop :=
| RSkip cur : run cur PSkip [] ONormal
| RCallOk cur s : run cur (PCall s) [(s, true)] ONormal
| RCallFail cur s x : run cur (PCall s) [(s, false)] (ORaise x)
| RSeqN cur p q t1 t2 o : run cur p t1 ONormal -> run cur q t2 o -> run cur (PSeq p q) (t1 ++ t2) o
| RSeqStop cur p q t1 o : run cur p t1 o -> o <> ONormal -> run cur (PSeq p q) t1 o
| RIfL cur p q t o : run cur p t o -> run cur (PIf p q) t o
| RIfR cur p q t o : run cur q t o -> run cur (PIf p q) t o
| RLoop0 cur p : run cur (PLoop p) [] ONormal
| RLoopS cur p t1 t2 o1 o : run cur p t1 o1 -> (o1 = ONormal \/ o1 = OExit KContinue) -> run cur (PLoop p) t2 o -> run cur (PLoop p) (t1 ++ t2) o
| RLoopBreak cur p t1 : run cur p t1 (OExit KBreak) -> run cur (PLoop p) t1 ONormal
| RLoopStop cur p t1 o : run cur p t1 o -> (o = OExit KReturn \/ exists x, o = ORaise x) -> run cur (PLoop p) t1 o
| RRaise cur x : run cur PRaise [] (ORaise x)
| RReraise x : run (Some x) PReraise [] (ORaise x)
| RReraiseNone x : run None PReraise [] (ORaise x)            (* RuntimeError: no active exception *)
| RExit cur k : run cur (PExit k) [] (OExit k)
(* try: the body ends normally, the else clause runs, then finally *)
| RTryN cur b hs e f t1 t2 t3 o o2 :
    run cur b t1 ONormal -> run cur e t2 o -> run cur f t3 o2 ->
    run cur (PTry b hs e f) (t1 ++ t2 ++ t3) (after_final o o2)
(* the body returns / breaks / continues: finally *)
| RTryRet cur b hs e f t1 t3 k o2 :
    run cur b t1 (OExit k) -> run cur f t3 o2 ->
    run cur (PTry b hs e f) (t1 ++ t3) (after_final (OExit k) o2)
(* the body raises x: the first handler that matches runs, then finally; no handler: finally, then x propagates *)
| RTryX cur b hs e f t1 t2 t3 x o o2 :
    run cur b t1 (ORaise x) -> handle x hs t2 o -> run cur f t3 o2 ->
    run cur (PTry b hs e f) (t1 ++ t2 ++ t3) (after_final o o2)
with handle : exn -> list (catch * prog) -> list event -> out -> Prop :=
| HNone x : handle x [] [] (ORaise x)
| HHit x c h r t o : matches c x -> run (Some x) h t o -> handle x ((c, h) :: r) t o
| HSkip x c h r t o : may_skip c x -> handle x r t o -> handle x ((c, h) :: r) t o.

Scheme run_ind2 := Minimality for run Sort Prop
  with handle_ind2 := Minimality for handle Sort Prop.
Combined Scheme run_handle_ind from run_ind2, handle_ind2.

(* ------------------------------------------------------------------ the two executable criteria *)
(* only calls, sequences, branches and loops: such a program neither returns nor raises anything but a failing call's exception *)
Fixpoint simple (p : prog) : bool :=
  match p with
  | PSkip | PCall _ => true
  | PSeq a b | PIf a b => simple a && simple b
  | PLoop a => simple a
  | _ => false
  end.

(* p cannot end normally nor return: it raises on every path *)
Fixpoint always_raises (p : prog) : bool :=
  match p with
  | PRaise | PReraise => true
  | PSeq a b => always_raises a || (simple a && always_raises b)
  | PIf a b => always_raises a && always_raises b
  | PTry _ _ _ f => always_raises f
  | _ => false
  end.

(* no handler anywhere swallows an exception: the body of every except clause raises on every path, and no finally clause
   contains a return (or anything but calls) *)
Fixpoint noswallow (p : prog) : bool :=
  match p with
  | PSeq a b | PIf a b => noswallow a && noswallow b
  | PLoop a => noswallow a
  | PTry b hs e f =>
      noswallow b && noswallow e && noswallow f && simple f &&
      (fix go (l : list (catch * prog)) : bool :=
         match l with [] => true | (_, h) :: r => always_raises h && noswallow h && go r end) hs
  | _ => true
  end.
Fixpoint hs_ok (l : list (catch * prog)) : bool :=
  match l with [] => true | (_, h) :: r => always_raises h && noswallow h && hs_ok r end.

(* which of the two stages that validate the input have certainly completed: (preprocessing, overlap) *)
Definition fstate := (bool * bool)%type.
Definition fmeet (a b : fstate) : fstate := (fst a && fst b, snd a && snd b).
Definition fle (a b : fstate) : Prop := (fst a = true -> fst b = true) /\ (snd a = true -> snd b = true).

(* flow p st: None if a density job may start before both stages have completed; otherwise what has certainly completed
   when p ends normally *)
Fixpoint flow (p : prog) (st : fstate) : option fstate :=
  match p with
  | PSkip | PRaise | PReraise | PExit _ => Some st
  | PCall SPre => Some (true, snd st)
  | PCall SOvl => Some (fst st, true)
  | PCall SMerge => if fst st && snd st then Some st else None
  | PCall (SAux _) => Some st
  | PSeq a b => match flow a st with Some s1 => flow b s1 | None => None end
  | PIf a b => match flow a st, flow b st with Some s1, Some s2 => Some (fmeet s1 s2) | _, _ => None end
  | PLoop a => match flow a st with Some _ => Some st | None => None end
  | PTry b hs e f =>
      match flow b st with
      | None => None
      | Some s1 =>
        match flow e s1, flow f st with
        | Some s2, Some _ =>
            (* a handler that may end normally continues from what was certain BEFORE the try statement *)
            match (fix go (l : list (catch * prog)) : option fstate :=
                     match l with
                     | [] => Some (true, true)
                     | (_, h) :: r =>
                         match flow h st, go r with
                         | Some sh, Some sr => Some (fmeet (if always_raises h then (true, true) else sh) sr)
                         | _, _ => None
                         end
                     end) hs with
            | Some sh => Some (fmeet s2 sh)
            | None => None
            end
        | _, _ => None
        end
      end
  end.

Fixpoint hs_flow (st : fstate) (l : list (catch * prog)) : option fstate :=
  match l with
  | [] => Some (true, true)
  | (_, h) :: r =>
      match flow h st, hs_flow st r with
      | Some sh, Some sr => Some (fmeet (if always_raises h then (true, true) else sh) sr)
      | _, _ => None
      end
  end.

(* the statement about a trace: every density job is preceded by a completed preprocessing and a completed overlap stage *)
Fixpoint safe_from (st : fstate) (t : list event) : bool :=
  match t with
  | [] => true
  | (SMerge, _) :: r => fst st && snd st && safe_from st r
  | (SPre, ok) :: r => safe_from (fst st || ok, snd st) r
  | (SOvl, ok) :: r => safe_from (fst st, snd st || ok) r
  | (SAux _, _) :: r => safe_from st r
  end.
Fixpoint state_after (st : fstate) (t : list event) : fstate :=
  match t with
  | [] => st
  | (SPre, ok) :: r => state_after (fst st || ok, snd st) r
  | (SOvl, ok) :: r => state_after (fst st, snd st || ok) r
  | _ :: r => state_after st r
  end.

(* does the program contain a call of the density job at all (used for non-vacuity only) *)
Fixpoint mentions_merge (p : prog) : bool :=
  match p with
  | PCall SMerge => true
  | PSeq a b | PIf a b => mentions_merge a || mentions_merge b
  | PLoop a => mentions_merge a
  | PTry b hs e f =>
      mentions_merge b || mentions_merge e || mentions_merge f ||
      (fix go (l : list (catch * prog)) : bool := match l with [] => false | (_, h) :: r => mentions_merge h || go r end) hs
  | _ => false
  end.

(* ------------------------------------------------------------------ how often a stage can be called *)
Definition stage_eqb (a b : stage) : bool :=
  match a, b with
  | SPre, SPre | SOvl, SOvl | SMerge, SMerge => true
  | SAux x, SAux y => Nat.eqb x y
  | _, _ => false
  end.
Definition obind2 (f : nat -> nat -> nat) (a b : option nat) : option nat :=
  match a, b with Some x, Some y => Some (f x y) | _, _ => None end.
(* an upper bound on the number of calls of stage s in one execution of p; None = no bound (a call inside a loop) *)
Fixpoint calls_bound (s : stage) (p : prog) : option nat :=
  match p with
  | PCall s' => Some (if stage_eqb s s' then 1 else 0)
  | PSeq a b => obind2 Nat.add (calls_bound s a) (calls_bound s b)
  | PIf a b => obind2 Nat.max (calls_bound s a) (calls_bound s b)
  | PLoop a => match calls_bound s a with Some 0 => Some 0 | _ => None end
  | PTry b hs e f =>
      obind2 Nat.add (obind2 Nat.add (calls_bound s b) (calls_bound s e))
        (obind2 Nat.add (calls_bound s f)
           ((fix go (l : list (catch * prog)) : option nat :=
               match l with [] => Some 0 | (_, h) :: r => obind2 Nat.add (calls_bound s h) (go r) end) hs))
  | _ => Some 0
  end.
Fixpoint hs_bound (s : stage) (l : list (catch * prog)) : option nat :=
  match l with [] => Some 0 | (_, h) :: r => obind2 Nat.add (calls_bound s h) (hs_bound s r) end.
Fixpoint count_stage (s : stage) (t : list event) : nat :=
  match t with [] => 0 | (s', _) :: r => (if stage_eqb s s' then 1 else 0) + count_stage s r end.
