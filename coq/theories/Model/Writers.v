(* Writers of the reused intermediates as lists of file actions over two symbolic names, the final name (which later runs
   trust) and the temporary name; contents are abstracted to absent / the complete earlier content / partial / the complete
   new content.  A crash can fall between any two elementary steps (creation, completion, rename, removal).
   Target of translator/py2gallina_writers.py. *)
From Coq Require Import List Bool Arith.
Import ListNotations.

Inductive wpath := Final | Tmp.
Inductive wact := WriteFile (p : wpath) | Replace (a b : wpath) | RemoveIfThere (p : wpath) | Reraise.
Inductive content := Absent | Old | Partial | New.
Record wfs := mkW { f_final : content; f_tmp : content }.

Definition getp (p : wpath) (f : wfs) : content := match p with Final => f_final f | Tmp => f_tmp f end.
Definition putp (p : wpath) (c : content) (f : wfs) : wfs := match p with Final => mkW c (f_tmp f) | Tmp => mkW (f_final f) c end.
Definition wpath_eqb (a b : wpath) : bool := match a, b with Final, Final => true | Tmp, Tmp => true | _, _ => false end.

(* elementary steps: a file being written exists with partial content until it is complete *)
Inductive estep := SBegin (p : wpath) | SEnd (p : wpath) | SReplace (a b : wpath) | SRemove (p : wpath) | SRaise.
Definition expand (a : wact) : list estep :=
  match a with
  | WriteFile p => [SBegin p; SEnd p]
  | Replace a b => [SReplace a b]
  | RemoveIfThere p => [SRemove p]
  | Reraise => [SRaise]
  end.
Definition do_step (f : wfs) (s : estep) : wfs :=
  match s with
  | SBegin p => putp p Partial f
  | SEnd p => putp p New f
  | SReplace a b => if wpath_eqb a b then f else match getp a f with Absent => f | c => putp a Absent (putp b c f) end
  | SRemove p => putp p Absent f
  | SRaise => f
  end.
Definition steps_of (acts : list wact) : list estep := flat_map expand acts.
Definition run_steps (l : list estep) (f : wfs) : wfs := fold_left do_step l f.
(* the state a kill after k elementary steps leaves behind *)
Definition crash_state (acts : list wact) (k : nat) (f : wfs) : wfs := run_steps (firstn k (steps_of acts)) f.

Definition content_eqb (a b : content) : bool :=
  match a, b with Absent, Absent => true | Old, Old => true | Partial, Partial => true | New, New => true | _, _ => false end.
(* before a writer runs, the final name holds nothing or a complete earlier file; the temporary name may hold anything
   (the leftover of an earlier kill) *)
Definition starts : list wfs :=
  flat_map (fun a => map (fun b => mkW a b) [Absent; Old; Partial; New]) [Absent; Old].
(* at a crash point: the final name holds what it held before, or the complete new content *)
Definition final_ok (f0 f : wfs) : bool := content_eqb (f_final f) (f_final f0) || content_eqb (f_final f) New.
(* a writer is atomic: every crash point is fine, and when it completes the final name holds the new content and no temporary file is left *)
Definition atomic_writer (acts : list wact) : bool :=
  forallb (fun f0 =>
    forallb (fun k => final_ok f0 (crash_state acts k f0)) (seq 0 (S (length (steps_of acts)))) &&
    content_eqb (f_final (run_steps (steps_of acts) f0)) New && content_eqb (f_tmp (run_steps (steps_of acts) f0)) Absent) starts.
(* a failure at any point of the writer followed by the error path: no temporary file left, the final name as before or new,
   and the failure is raised again *)
Definition error_path_ok (acts handler : list wact) : bool :=
  existsb (fun a => match a with Reraise => true | _ => false end) handler &&
  forallb (fun f0 =>
    forallb (fun k => let f := run_steps (steps_of handler) (crash_state acts k f0) in
                      final_ok f0 f && content_eqb (f_tmp f) Absent) (seq 0 (S (length (steps_of acts))))) starts.
