(* The three overlap arrays of transposon/overlap.py (OverlapData.left / intra / right, shape genes x windows x TEs)
   as the list of the row assignments made to them, oldest first, and the loop of OverlapWorker.calculate written
   over that list.  Tie to the code: translator/py2gallina_overlap.py regenerates Gen/GenOverlap.v (gen_calculate) from
   overlap.py on every run and Props/C01code.v proves it equal to [calc_with] below. *)
From Coq Require Import ZArith NArith List Bool.
From TEV Require Import Model.Pipeline.
Import ListNotations.

Inductive oarr := OLeft | OIntra | ORight.
Definition oarr_eqb (a b : oarr) : bool :=
  match a, b with OLeft, OLeft | OIntra, OIntra | ORight, ORight => true | _, _ => false end.

(* one assignment  array[gene index, window index, :] = row *)
Definition oentry := (oarr * nat * nat * list Z)%type.
Definition oarrays := list oentry.
Inductive ostate := Failed | Running (a : oarrays).

Definition oassign (k : oarr) (g w : nat) (row : list Z) (a : oarrays) : oarrays := a ++ [(k, g, w, row)].

Definition okey (k : oarr) (g w : nat) (e : oentry) : bool :=
  match e with (k', g', w', _) => oarr_eqb k k' && Nat.eqb g g' && Nat.eqb w w' end.
(* the row an array holds at (g, w): the latest assignment; None = never assigned (the file is created zero-filled) *)
Definition oread (k : oarr) (g w : nat) (a : oarrays) : option (list Z) :=
  fold_left (fun cur e => if okey k g w e then Some (snd e) else cur) a None.

(* {x: i for i, x in enumerate(xs)}[x] : a later occurrence overwrites an earlier one *)
Fixpoint last_index_from (i : nat) (x : N) (l : list N) (cur : option nat) : option nat :=
  match l with [] => cur | y :: r => last_index_from (S i) x r (if N.eqb x y then Some i else cur) end.
Definition last_index (x : N) (l : list N) : option nat := last_index_from 0 x l None.
Fixpoint last_indexZ_from (i : nat) (x : Z) (l : list Z) (cur : option nat) : option nat :=
  match l with [] => cur | y :: r => last_indexZ_from (S i) x r (if Z.eqb x y then Some i else cur) end.
Definition last_indexZ (x : Z) (l : list Z) : option nat := last_indexZ_from 0 x l None.

Definition calc_with (fi : gene -> te -> Z) (fl fr : gene -> te -> Z -> Z)
           (known requested : list N) (windows : list Z) (gd : N -> gene) (tes : list te) : ostate :=
  let gene_names := filter (fun n => memN n known) requested in
  let windows_ := filter (fun w => negb (w <? 0)%Z) windows in
  fold_left (fun (st_ : ostate) (n : N) =>
    match st_ with Failed => Failed | Running a =>
      match last_index n gene_names with None => Failed | Some gi =>
        let a1 := oassign OIntra gi 0%nat (map (fun t => fi (gd n) t) tes) a in
        match fold_left (fun (st_ : ostate) (w : Z) =>
                match st_ with Failed => Failed | Running b =>
                  match last_indexZ w windows_ with None => Failed | Some wi =>
                    let b1 := oassign OLeft gi wi (map (fun t => fl (gd n) t w) tes) b in
                    let b2 := oassign ORight gi wi (map (fun t => fr (gd n) t w) tes) b1 in
                    Running b2 end end) windows_ (Running a1)
        with Failed => Failed | Running r => Running r end end end) gene_names (Running []).

(* what the loop is meant to leave: for gene i (name n) the intragenic row at window index 0 and, for window j, the
   left and right rows *)
Definition gene_entries fi fl fr (gd : N -> gene) (tes : list te) (windows : list Z) (i : nat) (n : N) : oarrays :=
  (OIntra, i, 0%nat, map (fun t => fi (gd n) t) tes)
    :: flat_map (fun jw : nat * Z => [(OLeft, i, fst jw, map (fun t => fl (gd n) t (snd jw)) tes);
                                      (ORight, i, fst jw, map (fun t => fr (gd n) t (snd jw)) tes)])
                (combine (seq 0 (length windows)) windows).
Definition all_entries fi fl fr gd tes (names : list N) (windows : list Z) : oarrays :=
  flat_map (fun ing : nat * N => gene_entries fi fl fr gd tes windows (fst ing) (snd ing)) (combine (seq 0 (length names)) names).

(* the arrays as the file holds them after the calculation (created zero-filled, G genes x W windows x T TEs), flattened
   gene by gene: intragenic row, then per window the left and the right row; used by the correspondence check *)
Definition orow (k : oarr) (g w T : nat) (a : oarrays) : list Z :=
  match oread k g w a with Some r => r | None => repeat 0%Z T end.
Definition oflat (G W T : nat) (st : ostate) : list Z :=
  match st with
  | Failed => [(-1)%Z]
  | Running a =>
    (* an assignment outside the arrays' shape is an error of the real arrays *)
    if forallb (fun e : oentry => match e with (k, g, w, _) => Nat.ltb g G && (match k with OIntra => Nat.eqb w 0 | _ => Nat.ltb w W end) end) a
    then flat_map (fun g => orow OIntra g 0 T a ++ flat_map (fun w => orow OLeft g w T a ++ orow ORight g w T a) (seq 0 W)) (seq 0 G)
    else [(-2)%Z]
  end.
Definition gd_of (genes : list gene) (n : N) : gene :=
  match find_gene n genes with Some g => g | None => mkG 0 0 0 0 0 0 end.
