(* The specification a user relies on (C01), written with no cleverness:
   density of a group for a gene, window and side = number of positions of the region
   occupied by at least one TE of the group on that chromosome / length of the region. *)
From Coq Require Import ZArith NArith List Bool.
From TEV Require Import Base.Intervals Base.Count Model.Pipeline.
Import ListNotations. Open Scope Z_scope.

(* the three regions: closed position ranges *)
Definition region (sd : side) (g : gene) (w : Z) : Z * Z :=
  match sd with
  | SL => (Z.max 0 (g_start g - 1 - w), g_start g - 1)   (* w+1 positions ending before the gene, cut at 0 *)
  | SI => (g_start g, g_stop g)
  | SR => (g_stop g + 1, g_stop g + 1 + w)               (* w+1 positions beginning after the gene *)
  end.

(* positions of the region occupied by at least one interval: each position counts once *)
Definition spec_num (ivs : list iv) (sd : side) (g : gene) (w : Z) : Z :=
  cnt (covered ivs) (fst (region sd g w)) (snd (region sd g w)).
Definition spec_den (sd : side) (g : gene) (w : Z) : Z :=
  snd (region sd g w) - fst (region sd g w) + 1.
Definition spec_cell ivs sd g w : Z * Z := (spec_num ivs sd g w, spec_den sd g w).

(* the TEs of one group on one chromosome, straight from the input annotation *)
Definition group_ivs (tes : list te) (c : N) (lv : level) (name : N) : list iv :=
  ivs_of (keyed (col lv) name (on_chr c tes)).
Definition chrom_ivs (tes : list te) (c : N) : list iv := ivs_of (on_chr c tes).

(* well-formedness, as the properties state it *)
Definition wf_te (t : te) : Prop := 1 <= t_start t <= t_stop t.
Definition wf_gene (g : gene) : Prop :=
  1 <= g_start g <= g_stop g /\ g_len g = g_stop g - g_start g + 1 /\ (g_strand g <= 2)%N.
