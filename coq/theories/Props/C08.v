(* C08 - Result files are self-describing; lookups by name return the labelled cell. *)
From Coq Require Import List Bool Arith NArith ZArith.
From TEV Require Import Model.Reader Proofs.ReaderP Model.Pipeline Proofs.RunP Proofs.C01P Spec.Density Proofs.Refine.
Import ListNotations.

(* arrays are written as array[group index][window index][gene index] = cell of those labels (Reader.arr);
   a lookup by gene name, TE name and window value through the reader's indexes returns exactly the cell
   those labels denote ... *)
Theorem c08_lookup : forall (V : Type) genes names windows (cellf : N -> Z -> N -> V) name w gene,
  In gene genes -> In name names -> In w windows ->
  lookup V genes names windows cellf name w gene = Some (cellf name w gene).
Proof. exact lookup_labelled. Qed.

(* ... an unknown gene, name or window is refused, never answered with another cell ... *)
Theorem c08_unknown : forall (V : Type) genes names windows (cellf : N -> Z -> N -> V) name w gene,
  ~ In gene genes \/ ~ In name names \/ ~ In w windows ->
  lookup V genes names windows cellf name w gene = None.
Proof. exact lookup_unknown. Qed.

(* ... the table helper gives the labelled cell, or the default 0 for a TE name absent from the file *)
Theorem c08_table : forall (V : Type) (dflt : V) genes names windows (cellf : N -> Z -> N -> V) name w gene,
  In gene genes -> In w windows ->
  table_value V dflt genes names windows cellf name w gene = Some (if memN name names then cellf name w gene else dflt).
Proof. exact table_value_spec. Qed.

(* labels and array positions correspond one to one when the labels are duplicate-free *)
Theorem c08_bijection : forall l, NoDup l -> forall k, (k < length l)%nat ->
  first_index (nth k l 0%N) l = Some k /\ last_index (nth k l 0%N) l = Some k.
Proof. exact index_bijection. Qed.

(* every input gene of the chromosome appears in its file, and only those (names verbatim) *)
Theorem c08_genes : forall rS rO rT first delta last genes tes fs f,
  run rS rO rT first delta last genes tes = inr fs -> In f fs ->
  (forall g, In g (f_genes f) <-> In g genes /\ g_chr g = f_chr f) /\ NoDup (map g_name genes).
Proof.
  intros rS rO rT first delta last genes tes fs f Hr Hin.
  destruct (run_file _ _ _ _ _ _ _ _ _ _ Hr Hin) as [ws [_ [_ [Hgen [_ [_ Hnd]]]]]].
  split; [|exact Hnd]. intro g. rewrite Hgen. apply genes_on_in.
Qed.

Print Assumptions c08_lookup.
Print Assumptions c08_unknown.
Print Assumptions c08_table.
Print Assumptions c08_bijection.
Print Assumptions c08_genes.
