(* C12 - An interrupted run never poisons a later run.
   Model: Model/Cache.v.  A killed run is [crash]: phase 1 complete or without trace, and on every
   chromosome any prefix of the writes the run would have made (every crash point, every
   interleaving of the worker processes).  Writes are atomic in the model; that the code's writers
   are is checked on every run by the crash launcher (no final name ever holds a partial file). *)
From Coq Require Import List Bool Arith.
From TEV Require Import Model.Cache Proofs.CacheP.
Import ListNotations.

(* kill the run anywhere, run the same command again in the same directory: every chromosome gets
   the outcome of the uninterrupted run, or the run stops with an error; from every disk a history
   (edits, touches, runs, earlier interrupted runs) can produce *)
Theorem c12_crash_safe : forall nm h g t w reset revise ti ti2 kR k j,
  let s := history true h (empty_disk g t w) in
  let o := result nm (run true reset revise ti s) j in
  let o' := result nm (run true reset revise ti2 (crash true reset revise ti kR k s)) j in
  o' = o \/ is_err o' = true.
Proof. intros. apply crash_safe. apply reachable_good. apply good_empty. Qed.

(* and a success after any number of interrupted runs has the numbers of the current gene annotation,
   the revised annotation the command uses and the current windows - nothing missing, nothing stale *)
Theorem c12_success_is_current : forall nm h g t w reset revise ti j,
  let s := history true h (empty_disk g t w) in
  result nm (run true reset revise ti s) j = Ok (gv s) (target revise s) (gv s) (target revise s) (wv s) \/
  result nm (run true reset revise ti s) j = ErrW.
Proof. intros. apply (run_outcome nm reset revise ti s j). apply reachable_good. apply good_empty. Qed.

(* the invariant behind both: on every reachable disk a cache newer than its source holds its
   source's version, an overlap file newer than a cache was calculated from it *)
Theorem c12_invariant : forall h g t w, good (history true h (empty_disk g t w)).
Proof. intros. apply reachable_good. apply good_empty. Qed.

Definition nt (_ : nat) := no_ties.
Definition k1 (_ : nat) := 1.
(* the pinned rules refuted (D16): edit both annotations, --revise_anno killed between the gene-cache
   and the TE-cache write of chromosome 0, same command again: exit 0, new genes with old TEs *)
Example c12_legacy_refuted :
  let s := history false [ORun false false nt; OEditG 2; OEditT 2] (empty_disk 1 1 1) in
  result (fun _ => 0) (run false false true nt s) 0 = Ok 2 2 1 1 1 /\
  result (fun _ => 0) (run false false true nt (crash false false true nt true k1 s)) 0 = Ok 2 1 1 1 1.
Proof. vm_compute. split; reflexivity. Qed.
Example c12_repaired_same_history :
  let s := history true [ORun false false nt; OEditG 2; OEditT 2] (empty_disk 1 1 1) in
  result (fun _ => 0) (run true false true nt s) 0 = Ok 2 2 2 2 1 /\
  result (fun _ => 0) (run true false true nt (crash true false true nt true k1 s)) 0 = Ok 2 2 2 2 1.
Proof. vm_compute. split; reflexivity. Qed.

Print Assumptions c12_crash_safe.
Print Assumptions c12_success_is_current.
Print Assumptions c12_invariant.
