(* C15 - Loading results is idempotent and never trusts a half-made swapped copy. *)
From Coq Require Import List Bool Arith NArith.
From TEV Require Import Model.Reader Proofs.ReaderP.
Import ListNotations.

(* any history of loads through the constructor and verify_h5_cache (the directory-level constructors go
   through one of them), interleaved with loads interrupted after any number of elementary steps: every
   completed load serves the strand-aware view v -- never the raw values, never a twice-exchanged or
   partial copy *)
Theorem c15_idempotent : forall genes raw v ops, swapped_copy genes raw = Some v ->
  forall d, good_disk genes raw v d -> Forall (fun x => x = Some v) (history true genes ops d).
Proof. exact loads_idempotent. Qed.

(* and the raw result file is never modified *)
Theorem c15_raw_untouched : forall genes raw v ops, swapped_copy genes raw = Some v ->
  forall d, good_disk genes raw v d -> d_raw (fold_left (do_lop true genes) ops d) = raw.
Proof. exact raw_untouched. Qed.

(* the fresh directory (no copy yet) is a good starting point *)
Example c15_fresh_is_good : forall genes raw v, good_disk genes raw v (mkD raw None None).
Proof. intros. split; [reflexivity|left; reflexivity]. Qed.

(* the legacy behaviour refuted (seeds of the mutation corpus) *)
Example c15_legacy_verify_refuted :
  let genes := [(1, 1); (2, 0)]%N in let raw := [(1%N, mkCol 10 20 30); (2%N, mkCol 11 21 31)] in
  history false genes [Load ByCtor; Load ByVerify] (mkD raw None None)
  = [Some [(1%N, mkCol 20 10 30); (2%N, mkCol 11 21 31)]; Some raw].
Proof. exact legacy_verify_refuted. Qed.
Example c15_legacy_crash_refuted :
  let genes := [(1, 1); (2, 0)]%N in let raw := [(1%N, mkCol 10 20 30); (2%N, mkCol 11 21 31)] in
  history false genes [Crash 1; Load ByCtor] (mkD raw None None) = [Some raw].
Proof. exact legacy_crash_refuted. Qed.

Print Assumptions c15_idempotent.
Print Assumptions c15_raw_untouched.
