(* C09 - Strand-aware view swaps upstream/downstream for minus-strand genes only. *)
From Coq Require Import List Bool Arith NArith.
From TEV Require Import Model.Reader Proofs.ReaderP.
Import ListNotations.

(* the sense-swapped copy served by the reader: same gene names in the same order; every gene column
   (all groups and windows, both TE levels) is the raw column with left and right exchanged iff the gene is
   on the minus strand; plus / unstranded genes and all intragenic values are untouched. The raw file is a
   different object (d_raw) which no load modifies: see c15_raw_untouched. *)
Theorem c09_view : forall genes raw v,
  NoDup (map fst raw) -> NoDup (map fst genes) -> swapped_copy genes raw = Some v ->
  v = map (fun nc => (fst nc, view_col genes (fst nc) (snd nc))) raw.
Proof. exact swapped_copy_spec. Qed.

Theorem c09_defined : forall genes raw,
  (forall n, In n (minus_names genes) -> In n (map fst raw)) -> exists v, swapped_copy genes raw = Some v.
Proof. exact swapped_copy_defined. Qed.

Theorem c09_minus : forall genes n c, memN n (minus_names genes) = true ->
  c_left (view_col genes n c) = c_right c /\ c_right (view_col genes n c) = c_left c.
Proof. exact view_minus. Qed.
Theorem c09_plus_or_unstranded : forall genes n c, memN n (minus_names genes) = false -> view_col genes n c = c.
Proof. exact view_plus. Qed.
Theorem c09_intra : forall genes n c, c_intra (view_col genes n c) = c_intra c.
Proof. exact view_intra. Qed.

Example c09_nonvacuous :
  swapped_copy [(3, 1); (1, 0); (2, 2)]%N [(1%N, mkCol 10 11 12); (2%N, mkCol 20 21 22); (3%N, mkCol 30 31 32)]
  = Some [(1%N, mkCol 10 11 12); (2%N, mkCol 20 21 22); (3%N, mkCol 31 30 32)].
Proof. vm_compute. reflexivity. Qed.

Print Assumptions c09_view.
Print Assumptions c09_defined.
Print Assumptions c09_minus.
Print Assumptions c09_plus_or_unstranded.
Print Assumptions c09_intra.
