(* C13 - Cached intermediates never make a successful run report stale numbers.
   Model: Model/Cache.v (symbolic versions, freshness relations instead of mtimes, atomic writes, ties).
   Only statements, each closed by [exact]; proofs live in Proofs/CacheP.v. *)
From Coq Require Import List Bool Arith.
From TEV Require Import Model.Cache Proofs.CacheP.
Import ListNotations.

(* Re-running the same command with unchanged inputs reproduces the outcome of every chromosome
   (the same numbers, or the same explicit error), from every disk a history can produce and
   whatever mtime ties either run meets. *)
Theorem c13_rerun : forall nm h g t w reset revise ti ti2 j,
  let s := history true h (empty_disk g t w) in
  result nm (run true reset revise ti2 (run true reset revise ti s)) j = result nm (run true reset revise ti s) j.
Proof. intros. apply rerun_same. apply reachable_good. apply good_empty. Qed.

(* The documented refresh options (--reset_h5 --revise_anno) give, from ANY disk - whatever was
   edited, touched, interrupted or left behind, invariant or not - the numbers of the current gene
   annotation, TE annotation and windows on every chromosome: those of a run in a fresh directory. *)
Theorem c13_refresh : forall nm ti s j,
  result nm (run true true true ti s) j = Ok (gv s) (tv s) (gv s) (tv s) (wv s).
Proof. exact refresh_fresh. Qed.
Theorem c13_fresh_directory : forall nm reset revise ti g t w j,
  result nm (run true reset revise ti (empty_disk g t w)) j = Ok g t g t w.
Proof. exact first_run_ok. Qed.

(* After the window configuration has changed (or after any other history), a run with any options
   gives every chromosome either the numbers made from the current gene annotation, the revised
   annotation it was told to use and the CURRENT windows, or an explicit window error. *)
Theorem c13_windows : forall nm h g t w w' reset revise ti j,
  let s := editW w' (history true h (empty_disk g t w)) in
  result nm (run true reset revise ti s) j = Ok (gv s) (target revise s) (gv s) (target revise s) w' \/
  result nm (run true reset revise ti s) j = ErrW.
Proof.
  intros. apply (run_outcome nm reset revise ti s j).
  apply (good_op (OEditW w')). apply reachable_good. apply good_empty.
Qed.

(* non-vacuity / the legacy rules refuted: move a TE, run --reset_h5 --revise_anno:
   pinned code: exit 0 with the overlap of the OLD TE version (D9); repaired rules: current numbers *)
Definition nt (_ : nat) := no_ties.
Example c13_legacy_refuted :
  result (fun x => x) (history false [ORun false false nt; OEditT 2; ORun true true nt] (empty_disk 1 1 1)) 0
  = Ok 1 2 1 1 1.
Proof. vm_compute. reflexivity. Qed.
Example c13_repaired_same_history :
  result (fun x => x) (history true [ORun false false nt; OEditT 2; ORun true true nt] (empty_disk 1 1 1)) 0
  = Ok 1 2 1 2 1.
Proof. vm_compute. reflexivity. Qed.
(* windows changed, no refresh: explicit error; with a stale overlap file no longer current: recalculated *)
Example c13_windows_error :
  result (fun x => x) (history true [ORun false false nt; OEditW 2; ORun false false nt] (empty_disk 1 1 1)) 0 = ErrW.
Proof. vm_compute. reflexivity. Qed.

Print Assumptions c13_rerun.
Print Assumptions c13_refresh.
Print Assumptions c13_fresh_directory.
Print Assumptions c13_windows.
