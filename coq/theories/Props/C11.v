(* C11 - No chromosome's overlap result is lost when workers finish. *)
From Coq Require Import List Bool Arith Permutation.
From TEV Require Import Model.Collector Proofs.CollectorP.
Import ListNotations.

(* for every number of results and every interleaving of the workers' puts, the collector thread's
   steps and the main thread's stop request: when the collector has terminated, the collected
   results are exactly the completed ones (each once) *)
Theorem c11_all_collected : forall all sched,
  pc (run true sched (init all)) = CDone -> Permutation (col (run true sched (init all))) all.
Proof. exact all_collected. Qed.

(* at no point of any schedule is a result collected twice or invented *)
Theorem c11_never_more : forall all sched, exists rest, Permutation (col (run true sched (init all)) ++ rest) all.
Proof. exact never_more. Qed.

(* once everything is put and stop is requested, the collector terminates after 3 + |queue| of its own steps *)
Theorem c11_terminates : forall all sched, let s := run true sched (init all) in
  unput s = [] -> stop s = true -> pc (run true (repeat C (3 + length (q s))) s) = CDone.
Proof. exact terminates. Qed.

(* the loop as it was before the repair loses a result (kept as the seed of the mutation corpus) *)
Example c11_legacy_refuted :
  exists sched, let s := run false sched (init [0; 1]) in pc s = CDone /\ col s = [0].
Proof. exact legacy_refuted. Qed.

Print Assumptions c11_all_collected.
Print Assumptions c11_never_more.
Print Assumptions c11_terminates.
