(* C18 - Uninterpretable annotations are rejected before any result is written. *)
From Coq Require Import ZArith NArith List Bool.
From TEV Require Import Model.Pipeline Proofs.LocalP Proofs.C18P.
Import ListNotations. Open Scope Z_scope.

(* wherever in the file the second occurrence of a gene identifier stands, whatever else the files contain *)
Theorem c18_dup : forall rS rO rT first delta last ws a b c name g1 g2 tes,
  windows_of first delta last = Some ws -> g_name g1 = name -> g_name g2 = name ->
  run rS rO rT first delta last (a ++ g1 :: b ++ g2 :: c) tes = inl DupGene.
Proof. exact dup_rejected. Qed.

Theorem c18_strand : forall rS rO rT first delta last ws a g c tes,
  windows_of first delta last = Some ws -> NoDup (map g_name (a ++ g :: c)) -> (2 < g_strand g)%N ->
  run rS rO rT first delta last (a ++ g :: c) tes = inl BadStrand.
Proof. exact strand_rejected. Qed.

Theorem c18_column : forall rS rO rT gh th first delta last genes tes,
  has_all gcol_eqb g_required gh = false \/ has_all tcol_eqb t_required th = false ->
  run_files rS rO rT gh th first delta last genes tes = inl MissingColumn.
Proof. exact column_rejected. Qed.

Theorem c18_chroms : forall rS rO rT first delta last genes tes ws,
  windows_of first delta last = Some ws -> NoDup (map g_name genes) -> forallb strand_ok genes = true ->
  ~ (forall c, In c (map g_chr genes) <-> In c (map t_chr tes)) ->
  run rS rO rT first delta last genes tes = inl ChromMismatch.
Proof. exact reject_chroms. Qed.

Theorem c18_no_result : forall rS rO rT gh th first delta last genes tes e,
  run_files rS rO rT gh th first delta last genes tes = inl e ->
  forall fs, run_files rS rO rT gh th first delta last genes tes <> inr fs.
Proof. exact no_result_on_rejection. Qed.

Example c18_nonvacuous :
  run 2 3 4 300 300 600 [mkG 1 10 1000 1500 501 0; mkG 5 11 10 20 11 0; mkG 5 10 30 40 11 1]%N [mkTE 1 800 900 6 7; mkTE 5 1 2 6 7]%N = inl DupGene
  /\ run 2 3 4 300 300 600 [mkG 1 10 1000 1500 501 0; mkG 5 11 10 20 11 7]%N [mkTE 1 800 900 6 7; mkTE 5 1 2 6 7]%N = inl BadStrand.
Proof. split; vm_compute; reflexivity. Qed.

Print Assumptions c18_dup.
Print Assumptions c18_strand.
Print Assumptions c18_column.
Print Assumptions c18_chroms.
Print Assumptions c18_no_result.
