(* C01 / C04 / C07 / C08, stated about the code: the loop of OverlapWorker.calculate with _reset, the two filters, the
   two index dictionaries and OverlapData.left_right_slice / intra_slice, as translated from the current /repo sources
   (Gen/GenOverlap.v, regenerated on every run), fills the overlap arrays so that the row at (gene index i, window
   index j) of each array holds, for every TE in order, the overlap of the gene NAMED names[i] with that TE for the
   window windows[j] - the quantity Pipeline.cell_num sums - and assigns nothing outside the index ranges. *)
From Coq Require Import ZArith NArith List Bool.
From TEV Require Import Model.Kernel Model.Pipeline Model.OverlapArr Model.MergeArr Gen.Gen Gen.GenEquiv Gen.GenOverlap Proofs.OverlapArrP.
Import ListNotations.

Definition FI (g : gene) (t : te) : Z := gen_overlap_intra (g_start g) (g_stop g) (g_len g) (t_start t) (t_stop t).
Definition FL (g : gene) (t : te) (w : Z) : Z := gen_overlap_left (g_start g) (g_stop g) (g_len g) (t_start t) (t_stop t) w.
Definition FR (g : gene) (t : te) (w : Z) : Z := gen_overlap_right (g_start g) (g_stop g) (g_len g) (t_start t) (t_stop t) w.

Lemma gen_calculate_is_calc known requested windows gd tes :
  gen_calculate known requested windows gd tes = calc_with FI FL FR known requested windows gd tes.
Proof. reflexivity. Qed.


Theorem c01_code_rows : forall known names windows gd tes,
  forallb (fun n => memN n known) names = true -> forallb (fun w => negb (w <? 0)%Z) windows = true ->
  NoDup names -> NoDup windows ->
  exists log, gen_calculate known names windows gd tes = Running log /\
    (forall sd i j, (i < length names)%nat -> (match sd with SI => j = 0%nat | _ => (j < length windows)%nat end) ->
       oread (side_arr sd) i j log = Some (map (ovl_side sd (gd (nth i names 0%N)) (nth j windows 0%Z)) tes)) /\
    (forall k g j row, In (k, g, j, row) log ->
       (g < length names)%nat /\ match k with OIntra => j = 0%nat | _ => (j < length windows)%nat end).
Proof.
  intros known names windows gd tes Hk Hw Hn HdW.
  exists (all_entries FI FL FR gd tes names windows). split; [|split].
  - rewrite gen_calculate_is_calc. apply calc_log; assumption.
  - intros sd i j Hi Hj.
    rewrite (all_entries_read FI FL FR gd tes (side_arr sd) names windows i j Hi) by (destruct sd; exact Hj).
    f_equal. apply map_ext. intros t. destruct sd; cbn [side_arr ovl_side]; unfold FI, FL, FR.
    + apply gen_overlap_left_ok.
    + apply gen_overlap_intra_ok.
    + apply gen_overlap_right_ok.
  - intros k g j row Hin. exact (all_entries_in_range FI FL FR gd tes names windows (k, g, j, row) Hin).
Qed.

(* the sum MergeData._process_sum takes of such a row - numpy.sum(row, where = (group column == name)) - is the model's
   cell numerator, so the arrays filled by the translated loop determine every density numerator of Pipeline.cell *)
From TEV Require Import Proofs.MergeArrP.

Theorem c01_code_cells : forall known names windows gd tes,
  forallb (fun n => memN n known) names = true -> forallb (fun w => negb (w <? 0)%Z) windows = true ->
  NoDup names -> NoDup windows ->
  exists log, gen_calculate known names windows gd tes = Running log /\
    forall sd lv name i j, (i < length names)%nat -> (match sd with SI => j = 0%nat | _ => (j < length windows)%nat end) ->
      exists row, oread (side_arr sd) i j log = Some row /\
        masked_sum (map (fun t => (col lv t =? name)%N) tes) row
        = cell_num tes lv name sd (gd (nth i names 0%N)) (nth j windows 0%Z).
Proof.
  intros known names windows gd tes Hk Hw Hn HdW.
  destruct (c01_code_rows known names windows gd tes Hk Hw Hn HdW) as [log [Hrun [Hread _]]].
  exists log; split; [exact Hrun|]. intros sd lv name i j Hi Hj.
  eexists; split; [apply Hread; assumption|]. apply masked_sum_cell_num.
Qed.

(* the labels: the overlap job requests the container's own names (overlap_manager._overlap_job), the file stores the
   container's names and the filtered windows (OverlapData._create_sets), so for a container with unique names the
   stored label of row i IS the gene whose overlaps the row holds, whatever the order of the names in the container *)
Lemma known_self (l : list N) : forallb (fun n => memN n l) l = true.
Proof.
  apply forallb_forall. intros x Hx. unfold memN. apply existsb_exists. exists x. split; [exact Hx|apply N.eqb_refl].
Qed.

Theorem c08_code_labels : forall container_names windows gd tes,
  NoDup container_names -> forallb (fun w => negb (w <? 0)%Z) windows = true -> NoDup windows ->
  exists log, gen_calculate container_names (gen_job_gene_names container_names) windows gd tes = Running log /\
    forall sd i j, (i < length (gen_stored_gene_names container_names))%nat ->
      (match sd with SI => j = 0%nat | _ => (j < length (gen_stored_windows (filter (fun w => negb (w <? 0)%Z) windows)))%nat end) ->
      oread (side_arr sd) i j log
      = Some (map (ovl_side sd (gd (nth i (gen_stored_gene_names container_names) 0%N))
                            (nth j (gen_stored_windows (filter (fun w => negb (w <? 0)%Z) windows)) 0%Z)) tes).
Proof.
  intros names windows gd tes Hn Hw HdW. unfold gen_job_gene_names, gen_stored_gene_names, gen_stored_windows.
  rewrite (filter_id _ _ Hw).
  destruct (c01_code_rows names names windows gd tes (known_self names) Hw Hn HdW) as [log [Hrun [Hread _]]].
  exists log; split; [exact Hrun|]. intros sd i j Hi Hj. apply Hread; assumption.
Qed.

(* non-vacuity: two genes, two windows, two TEs; also what the loop does on inputs outside the theorem's guard:
   an unknown name and a negative window are dropped, and a name requested twice leaves its first row unassigned *)
Example c01_code_example :
  let gd := fun n => if (n =? 1)%N then mkG 1 1 1000 1999 1000 0 else mkG 1 2 5000 5999 1000 1 in
  let tes := [mkTE 1 900 1100 1 1; mkTE 1 5500 7000 2 2] in
  match gen_calculate [1; 2]%N [1; 2]%N [500; 1000]%Z gd tes with
  | Running log => oread OLeft 0 0 log = Some [100; 0]%Z /\ oread OIntra 0 0 log = Some [101; 0]%Z /\
                   oread ORight 1 1 log = Some [0; 1001]%Z /\ oread OIntra 1 0 log = Some [0; 500]%Z /\ oread OIntra 0 1 log = None
  | Failed => False end /\
  match gen_calculate [1; 2]%N [1; 7; 2; 1]%N [500; -3]%Z gd tes with
  | Running log => oread OIntra 0 0 log = None /\ oread OIntra 2 0 log = Some [101; 0]%Z /\ oread OLeft 1 1 log = None
  | Failed => False end.
Proof. vm_compute. repeat split. Qed.

Print Assumptions c01_code_rows.
Print Assumptions c01_code_cells.
Print Assumptions c08_code_labels.
