(* C03, stated about the translated code: on the data of any file of a successful model run, every density cell the
   translated stages (Gen/GenOverlap.gen_calculate, Gen/GenMerge.gen_sum) leave for a real TE group is a pair
   (numerator, divisor) with 0 <= numerator <= divisor and 0 < divisor - so the stored quotient lies in [0, 1]
   (its binary32 rounding too: Props/C03float.v). *)
From Coq Require Import ZArith NArith List Bool Lia.
From TEV Require Import Base.Intervals Model.Pipeline Spec.Density Model.OverlapArr Model.MergeArr Gen.GenOverlap Gen.GenMerge
     Proofs.Refine Proofs.RunP Proofs.Keys Proofs.C01P Proofs.C03P Props.C01merge Props.C01e2e.
Import ListNotations.

Theorem c03_code_range : forall rS rO rT first delta last genes tes fs f order,
  wf_input rS rO rT genes tes -> (0 <= first)%Z -> (0 < delta)%Z ->
  run rS rO rT first delta last genes tes = inr fs -> In f fs ->
  (forall ls, In ls six -> In ls order) ->
  let names := map g_name (f_genes f) in
  let gd := gd_of (f_genes f) in
  exists ov log,
    gen_calculate names (gen_job_gene_names names) (f_windows f) gd (f_rows f) = Running ov /\
    gen_sum order (f_windows f) names (gen_stored_gene_names names) (gen_stored_windows (f_windows f)) gd (f_rows f) ov = DRunning log /\
    forall lv sd t i j, (t < length (f_names f lv))%nat -> (i < length (f_genes f))%nat ->
      (match sd with SI => j = 0%nat | _ => (j < length (f_windows f))%nat end) ->
      nth t (f_names f lv) 0%N <> bookkeeping rS rO lv ->
      exists n d, dread lv sd t j i log = Some (n, d) /\ (0 <= n <= d)%Z /\ (0 < d)%Z.
Proof.
  intros rS rO rT first delta last genes tes fs f order Hwf Hf Hd Hrun Hin Hall names gd.
  destruct (c01_code_end_to_end rS rO rT first delta last genes tes fs f order Hwf Hf Hd Hrun Hin Hall) as [ov [log [Hc [Hs Hcells]]]].
  exists ov, log. split; [exact Hc|]. split; [exact Hs|].
  intros lv sd t i j Ht Hi Hj Hbk.
  destruct (Hcells lv sd t i j Ht Hi Hj _ _ eq_refl eq_refl Hbk) as [Hgg [Hgc Hread]].
  set (g := nth i (f_genes f) (mkG 0 0 0 0 0 0)) in *. set (name := nth t (f_names f lv) 0%N) in *.
  (* the same cell through the model's labelled lookup, to which the range theorem of C03 applies *)
  assert (Hname : In name (f_names f lv)) by (apply nth_In; exact Ht).
  assert (Hwsd : sd = SI \/ In (nth j (f_windows f) 0%Z) (f_windows f)).
  { destruct sd; [right; apply nth_In; exact Hj|left; reflexivity|right; apply nth_In; exact Hj]. }
  assert (Hk := keys rS rO rT first delta last genes tes fs f lv name sd (nth j (f_windows f) 0%Z) g Hrun Hin Hgg Hgc Hname Hwsd).
  destruct (cell (f_rows f) lv name sd g (nth j (f_windows f) 0%Z)) as [n d] eqn:Ecell.
  destruct (range rS rO rT first delta last genes tes fs f lv name sd (nth j (f_windows f) 0%Z) (g_name g) n d Hwf Hf Hd Hrun Hin Hk Hbk) as [Hr1 Hr2].
  destruct (cells rS rO rT first delta last genes tes fs f lv name sd (nth j (f_windows f) 0%Z) (g_name g) _ Hwf Hf Hd Hrun Hin Hk Hbk)
    as [g' [Hg'in [Hg'c [Hg'n Hv]]]].
  assert (g' = g).
  { destruct (run_file _ _ _ _ _ _ _ _ _ _ Hrun Hin) as [ws [_ [_ [_ [_ [_ Hnd]]]]]].
    assert (H := find_gene_unique (g_name g) genes g Hnd Hgg eq_refl).
    assert (H' := find_gene_unique (g_name g) genes g' Hnd Hg'in Hg'n). congruence. }
  subst g'. exists n, d. split; [|split; assumption]. rewrite Hread. f_equal. symmetry. exact Hv.
Qed.

Print Assumptions c03_code_range.
