(* C16 - Result files are matched to gene annotations by chromosome, not by file order. *)
From Coq Require Import List Bool Arith NArith.
From TEV Require Import Model.Reader Proofs.ReaderP.
Import ListNotations.

(* pairing by the chromosome identifier stored in each result file: only equal chromosomes are combined,
   one pair per result file, in file order *)
Theorem c16_paired : forall h5s gds ps, pair_by_id h5s gds = Some ps ->
  map fst ps = h5s /\ Forall (fun p => fst p = snd p /\ In (snd p) gds) ps /\ NoDup gds.
Proof. exact pair_by_id_sound. Qed.

(* it succeeds for every set of chromosome names in which each file has its annotation ... *)
Theorem c16_accepts : forall h5s gds, NoDup gds -> (forall h, In h h5s -> In h gds) ->
  exists ps, pair_by_id h5s gds = Some ps.
Proof. exact pair_by_id_complete. Qed.

(* ... and any mismatch is an error *)
Theorem c16_mismatch_is_error : forall h5s gds,
  (has_dupN gds = true \/ exists h, In h h5s /\ ~ In h gds) -> pair_by_id h5s gds = None.
Proof. exact pair_by_id_reject. Qed.

(* the legacy pairing by sorted file names combined Chr1's results with Chr10's genes ('.' < '0' < '_') *)
Example c16_legacy_refuted :
  legacy_pairs [71]%N [([67; 104; 114; 49]%N, 1%N); ([67; 104; 114; 49; 48]%N, 10%N)] = [(1, 10); (10, 1)]%N.
Proof. exact legacy_pairs_refuted. Qed.

Print Assumptions c16_paired.
Print Assumptions c16_accepts.
Print Assumptions c16_mismatch_is_error.
