(* C14 (first half) and C10 (order of the summations) about the translated code: through the bridge of Props/CodeCell.v
   (arrays left by the translated overlap loop and summation, read through the translated lookup by labels, = Pipeline.f_cell)
   the renaming theorem of Proofs/RenameP.v and the order-freedom of the six summations become statements about the cells
   the code computes and the reader looks up. *)
From Coq Require Import ZArith NArith List Bool Lia Permutation.
From TEV Require Import Base.Intervals Model.Kernel Model.Pipeline Model.Reader Spec.Density Model.OverlapArr Model.MergeArr
     Gen.GenOverlap Gen.GenMerge Gen.GenLookup
     Proofs.Refine Proofs.C01P Proofs.RenameP Props.C01merge Props.CodeCell.
Import ListNotations. Open Scope Z_scope.

(* renaming chromosomes, genes, orders and superfamilies by any injective maps avoiding the reserved labels: the arrays the
   translated stages compute for the renamed annotation pair, looked up by the RENAMED labels through the translated
   lookup, hold the numbers the original pair gives under the original labels - in any orders of the six summations *)
Theorem c14_code_rename : forall rS rO rT pc pg po ps,
  (forall x y, pc x = pc y -> x = y) -> (forall x y, pg x = pg y -> x = y) ->
  (forall x y, po x = po y -> x = y) -> (forall x y, ps x = ps y -> x = y) ->
  (forall x, po x <> rS /\ po x <> rT) -> (forall x, ps x <> rO /\ ps x <> rT) ->
  forall first delta last genes tes fs fs' f f' order order',
  wf_input rS rO rT genes tes -> 0 <= first -> 0 < delta ->
  Pipeline.run rS rO rT first delta last genes tes = inr fs ->
  Pipeline.run rS rO rT first delta last (map (rn_gene pc pg) genes) (map (rn_te pc po ps) tes) = inr fs' ->
  In f fs -> In f' fs' -> f_chr f' = pc (f_chr f) ->
  (forall ls, In ls six -> In ls order) -> (forall ls, In ls six -> In ls order') ->
  exists log log', code_arrays f order = Some log /\ code_arrays f' order' = Some log' /\
    (forall lv name sd w gname, name <> bookkeeping rS rO lv -> name <> rT ->
       code_cell f' log' lv (plv po ps lv name) sd w (pg gname) = code_cell f log lv name sd w gname) /\
    (forall lv sd w gname, code_cell f' log' lv rT sd w (pg gname) = code_cell f log lv rT sd w gname).
Proof.
  intros rS rO rT pc pg po ps Hpc Hpg Hpo Hps Hpo_ok Hps_ok first delta last genes tes fs fs' f f' order order'
         Hwf Hf Hd Hrun Hrun' Hin Hin' Hchr Hall Hall'.
  destruct (code_arrays_cells rS rO rT first delta last genes tes fs f order Hf Hd Hrun Hin Hall) as [log [Ha Hc]].
  destruct (code_arrays_cells rS rO rT first delta last _ _ fs' f' order' Hf Hd Hrun' Hin' Hall') as [log' [Ha' Hc']].
  exists log, log'. split; [exact Ha|]. split; [exact Ha'|].
  destruct (rename_cells rS rO rT pc pg po ps Hpc Hpg Hpo Hps Hpo_ok Hps_ok first delta last genes tes fs fs' f f'
              Hwf Hf Hd Hrun Hrun' Hin Hin' Hchr) as [_ [_ [H1 H2]]].
  split.
  - intros lv name sd w gname Hb Ht. rewrite Hc, Hc'. apply H1; assumption.
  - intros lv sd w gname. rewrite Hc, Hc'. apply H2.
Qed.

(* C10, the shuffled order of the six summations: any two orders that contain them leave arrays in which every lookup by
   labels gives the same cell *)
Theorem c10_code_order_free : forall rS rO rT first delta last genes tes fs f order order',
  0 <= first -> 0 < delta -> Pipeline.run rS rO rT first delta last genes tes = inr fs -> In f fs ->
  (forall ls, In ls six -> In ls order) -> (forall ls, In ls six -> In ls order') ->
  exists log log', code_arrays f order = Some log /\ code_arrays f order' = Some log' /\
    forall lv name sd w gname, code_cell f log lv name sd w gname = code_cell f log' lv name sd w gname.
Proof.
  intros rS rO rT first delta last genes tes fs f order order' Hf Hd Hrun Hin Hall Hall'.
  destruct (code_arrays_cells rS rO rT first delta last genes tes fs f order Hf Hd Hrun Hin Hall) as [log [Ha Hc]].
  destruct (code_arrays_cells rS rO rT first delta last genes tes fs f order' Hf Hd Hrun Hin Hall') as [log' [Ha' Hc']].
  exists log, log'. split; [exact Ha|]. split; [exact Ha'|].
  intros lv name sd w gname. rewrite Hc, Hc'. reflexivity.
Qed.

(* non-vacuity: the six summations forwards and backwards on a one-gene file *)
Example c10_code_example :
  let g := [mkG 1 10 1000 1500 501 0]%N in
  let t := [mkTE 1 800 900 5 7; mkTE 1 850 1200 6 7]%N in
  match Pipeline.run 1000 1001 1002 100 100 300 g t with
  | inr [f] => match code_arrays f six, code_arrays f (rev six) with
               | Some l1, Some l2 => code_cell f l1 LOrd 5%N SL 200 10%N = Some (101, 201)
                                     /\ code_cell f l2 LOrd 5%N SL 200 10%N = Some (101, 201)
               | _, _ => False end
  | _ => False
  end.
Proof. vm_compute. split; reflexivity. Qed.

Print Assumptions c14_code_rename.
Print Assumptions c10_code_order_free.
