(* C02 (and the revision step of C01), stated about the code: the recursion of ReviseAnno - call_merge,
   merge_by_like and the helpers they call - as translated from the current /repo sources
   (Gen/GenRevise.v, regenerated on every run), run on the Start-sorted rows of one TE group. *)
From Coq Require Import ZArith List Bool.
From TEV Require Import Base.Intervals Model.Frame Model.Revise Gen.GenRevise Proofs.FrameP Proofs.ReviseP Proofs.ReviseCodeP.
Import ListNotations. Open Scope Z_scope.

(* for every group of rows with unique index labels: 2n+1 calls suffice, pandas never raises (no label
   is dropped or looked up that is not there, iloc[0] is never taken of an empty frame), seed and search
   frames end empty, and the output frame holds Model.Revise.revise of the group *)
Theorem c02_code_refines_model : forall group, NoDup (labels group) ->
  exists O, gen_call_merge (2 * length group + 1) (mkR (rsort group) (rsort group) []) = Ok (mkR [] [] O)
            /\ map iv_of O = revise (map iv_of group).
Proof. exact gen_revise_ok. Qed.

(* hence the code's output covers exactly the positions the group covers, and no two emitted elements share a position *)
Theorem c02_code_cover_disjoint : forall group, NoDup (labels group) -> Forall wfi (map iv_of group) ->
  exists O, gen_call_merge (2 * length group + 1) (mkR (rsort group) (rsort group) []) = Ok (mkR [] [] O)
            /\ (forall p, covered (map iv_of O) p = covered (map iv_of group) p)
            /\ separated (map iv_of O).
Proof.
  intros group Hnd Hwf. destruct (gen_revise_ok group Hnd) as (O & H1 & H2). exists O. split; [exact H1|].
  rewrite H2. split; [intro p; apply revise_cover, Hwf|apply revise_separated, Hwf].
Qed.

(* non-vacuity: the three rows whose file order made the pinned code drop two elements (D2), plus a chain and a nested element *)
Example c02_code_example :
  let group := [(7, (800, 900)); (8, (1600, 1700)); (2, (100, 200)); (5, (150, 400)); (3, (180, 190)); (9, (401, 500)); (4, (850, 1000))] in
  NoDup (labels group) /\
  gen_call_merge (2 * length group + 1) (mkR (rsort group) (rsort group) [])
  = Ok (mkR [] [] [(2, (100, 400)); (9, (401, 500)); (7, (800, 1000)); (8, (1600, 1700))]).
Proof.
  cbv zeta. split; [|vm_compute; reflexivity].
  unfold labels. cbn [map row_label fst]. repeat (constructor; [cbn; intuition discriminate|]). constructor.
Qed.

Print Assumptions c02_code_refines_model.
Print Assumptions c02_code_cover_disjoint.
