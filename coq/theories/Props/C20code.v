(* C20, stated about the code: WorkerProcess.run as translated from the current /repo sources
   (Gen/GenCF_worker_run.v, regenerated on every run), driven by any script of environment answers. *)
From Coq Require Import List Bool Arith ZArith.
From TEV Require Import Model.PyProg Model.Worker Model.WorkerProg Gen.GenCF_worker_run Proofs.WorkerProgP.
From TEV Require Proofs.WorkerP.
Import ListNotations.

(* the translated loop and the hand-written step machine agree on every script: where the loop stands,
   the pending result, the jobs taken, the results accepted, the sentinel put back *)
Theorem c20_code_refines_model : forall exec script,
  obs gen_worker_run_ix_pending (run_code exec script) = mobs (run exec true script).
Proof. exact gen_worker_run_ok. Qed.

(* results accepted by the output queue, then the at most one pending result, are exec of the jobs taken, in order *)
Theorem c20_code_no_loss_no_dup_in_order : forall exec script, let pg := run_code exec script in
  g_acc (snd pg) ++ WorkerP.opt_list (prog_pending gen_worker_run_ix_pending (fst pg)) = map exec (g_taken (snd pg)).
Proof. exact code_safety. Qed.

(* return after the sentinel: everything delivered, sentinel put back exactly once *)
Theorem c20_code_sentinel_complete : forall exec script, let pg := run_code exec script in
  prog_code (fst pg) (snd pg) = 4%Z -> g_acc (snd pg) = map exec (g_taken (snd pg)) /\ g_sb (snd pg) = 1.
Proof. exact code_sentinel. Qed.

(* no uncaught queue exception, no fuel exhaustion: always at a query of the loop, or returned *)
Theorem c20_code_total : forall exec script, let pg := run_code exec script in
  In (prog_code (fst pg) (snd pg)) [0; 1; 2; 3; 4]%Z.
Proof. exact code_total. Qed.

(* non-vacuity: a script with a full output queue and an empty input queue, ended by the sentinel *)
Example c20_code_example :
  let pg := run_code (fun j => j + 100)
      [AStop false; AGet (GJob 1); AStop false; APut false; AStop false; APut true; AGet GEmpty; AStop false;
       AGet (GJob 2); AStop false; APut true; AGet GSentinel] in
  prog_code (fst pg) (snd pg) = 4%Z /\ g_taken (snd pg) = [1; 2] /\ g_acc (snd pg) = [101; 102].
Proof. vm_compute. repeat split. Qed.

Print Assumptions c20_code_refines_model.
Print Assumptions c20_code_no_loss_no_dup_in_order.
Print Assumptions c20_code_sentinel_complete.
Print Assumptions c20_code_total.
