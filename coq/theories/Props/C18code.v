(* C18 (and the refusal half of C05), stated about the code: PreProcessor._validate_split and check_strand as translated
   from the current /repo sources (Gen/GenGuards.v; the translator also checks that import_filtered_genes calls
   check_strand and makes Gene_Name the index with verify_integrity=True). *)
From Coq Require Import ZArith NArith List Bool.
From TEV Require Import Model.Guards Model.Pipeline Gen.GenGuards Proofs.GuardsP Proofs.RunP Proofs.C18P.
Import ListNotations.

(* the chromosome check of the code is the model's, which accepts two sorted key lists iff they are equal *)
Theorem c18_code_validate_split : forall genes tes, gen_validate_split genes tes = validate_split genes tes.
Proof. exact gen_validate_split_ok. Qed.

Theorem c18_code_validate_split_iff : forall genes tes, gen_validate_split genes tes = true <-> genes = tes.
Proof. intros genes tes. rewrite gen_validate_split_ok. apply validate_split_iff. Qed.

(* the strand check of the code accepts exactly the codes of + - . *)
Theorem c18_code_check_strand : forall genes, gen_check_strand (map g_strand genes) = forallb strand_ok genes.
Proof. exact gen_check_strand_ok. Qed.

(* the explicit column test of the TE import (the names of the code, numbered Chromosome 0, Start 1, Stop 2, Order 3, SuperFamily 4,
   Strand 5, Length 6) refuses exactly the headers that lack one of the model's required TE columns *)
Definition tcol_code (c : tcol) : N :=
  match c with TChrom => 0 | TStart => 1 | TStop => 2 | TOrder => 3 | TSuper => 4 | TStrand => 5 | TLength => 6 end%N.
Theorem c18_code_te_columns : forall th, gen_te_columns_accepted (map tcol_code th) = has_all tcol_eqb t_required th.
Proof.
  intro th. unfold gen_te_columns_accepted, gen_te_required_columns, has_all, t_required. cbn [forallb].
  assert (E : forall c, existsb (N.eqb (tcol_code c)) (map tcol_code th) = existsb (tcol_eqb c) th).
  { intro c. induction th as [|x r IH]; [reflexivity|]. cbn [map existsb]. rewrite IH. f_equal. destruct c, x; reflexivity. }
  rewrite <- (E TChrom), <- (E TStart), <- (E TStop), <- (E TOrder), <- (E TSuper). reflexivity.
Qed.

Example c18_code_example :
  gen_validate_split [1; 2; 10]%N [1; 10; 2]%N = false /\ gen_validate_split [1; 2]%N [1; 2; 3]%N = false /\
  gen_check_strand [0; 1; 2; 1]%N = true /\ gen_check_strand [0; 3; 1]%N = false.
Proof. vm_compute. repeat split. Qed.

Print Assumptions c18_code_validate_split.
Print Assumptions c18_code_validate_split_iff.
Print Assumptions c18_code_check_strand.
Print Assumptions c18_code_te_columns.
