(* C13 / C12 / C17, the merge of a (possibly reused) overlap file, stated about the code: MergeData.sum as a whole -
   the three translated guards (Gen/GenGuards.v) followed by the translated summations (Gen/GenMerge.v), composed by the
   merge translator in the order the code calls them (gen_sum_checked).  An overlap file whose chromosome id, window list
   or gene-name list differs from the request in any way is refused; one that is accepted carries the request's own
   labels, and then every density cell is the model's cell for the REQUEST's windows and genes - an overlap file
   computed for other windows can not contribute a number. *)
From Coq Require Import ZArith NArith List Bool Lia.
From TEV Require Import Model.Kernel Model.Pipeline Model.OverlapArr Model.MergeArr Model.Guards Gen.Gen Gen.GenGuards Gen.GenMerge
     Proofs.GuardsP Proofs.MergeArrP Props.C01merge.
Import ListNotations.

Theorem c13_code_checked_sum : forall order my_chr ov_chr cfg_windows names ov_names ov_windows gd tes ov,
  (forall ls, In ls six -> In ls order) -> NoDup names -> NoDup cfg_windows ->
  (* the overlap file holds the rows its OWN labels announce (Props/C01code.v for the run that wrote it) *)
  (forall sd i j, (i < length ov_names)%nat -> (match sd with SI => j = 0%nat | _ => (j < length ov_windows)%nat end) ->
     oread (side_arr sd) i j ov = Some (map (ovl_side sd (gd (nth i ov_names 0%N)) (nth j ov_windows 0%Z)) tes)) ->
  match gen_sum_checked order my_chr ov_chr cfg_windows names ov_names ov_windows gd tes ov with
  | None => my_chr <> ov_chr \/ cfg_windows <> ov_windows \/ names <> ov_names
  | Some st =>
    my_chr = ov_chr /\ cfg_windows = ov_windows /\ names = ov_names /\
    exists log, st = DRunning log /\
      forall lv sd t i j, (t < length (gen_group_names lv tes))%nat -> (i < length names)%nat ->
        (match sd with SI => j = 0%nat | _ => (j < length cfg_windows)%nat end) ->
        dread lv sd t j i log = Some (cell tes lv (nth t (gen_group_names lv tes) 0%N) sd (gd (nth i names 0%N)) (nth j cfg_windows 0%Z))
  end.
Proof.
  intros order my_chr ov_chr cfg_windows names ov_names ov_windows gd tes ov Hall Hn Hw Hov.
  unfold gen_sum_checked, gen_my_windows, gen_my_gene_names.
  destruct (gen_validate_chromosome (Some my_chr) (Some ov_chr)) eqn:Ec; cbn [negb].
  2:{ left. intro E. subst ov_chr.
      assert (H : gen_validate_chromosome (Some my_chr) (Some my_chr) = true) by (apply gen_validate_chromosome_ok; exists my_chr; split; reflexivity).
      congruence. }
  destruct (gen_validate_windows (Some cfg_windows) (Some ov_windows)) eqn:Ew; cbn [negb].
  2:{ right. left. intro E. subst ov_windows.
      assert (H : gen_validate_windows (Some cfg_windows) (Some cfg_windows) = true) by (apply gen_validate_windows_ok; exists cfg_windows; split; reflexivity).
      congruence. }
  destruct (gen_validate_gene_names (Some names) (Some ov_names)) eqn:Eg; cbn [negb].
  2:{ right. right. intro E. subst ov_names.
      assert (H : gen_validate_gene_names (Some names) (Some names) = true) by (apply gen_validate_gene_names_ok; exists names; split; reflexivity).
      congruence. }
  assert (Hc : my_chr = ov_chr) by (apply gen_validate_chromosome_ok in Ec; destruct Ec as [c [E1 E2]]; congruence).
  assert (Hw' : cfg_windows = ov_windows) by (apply gen_validate_windows_ok in Ew; destruct Ew as [ws [E1 E2]]; congruence).
  assert (Hg : names = ov_names) by (apply gen_validate_gene_names_ok in Eg; destruct Eg as [gs [E1 E2]]; congruence).
  subst ov_chr ov_windows ov_names.
  split; [reflexivity|]. split; [reflexivity|]. split; [reflexivity|].
  destruct (c01_merge_cells order names cfg_windows gd tes ov Hall Hn Hw Hov) as [log [Hsum [Hcells _]]].
  exists log. split; [exact Hsum|]. intros lv sd t i j Ht Hi Hj. exact (Hcells lv sd t i j Ht Hi Hj).
Qed.

(* non-vacuity: the arrays of Props/C01merge.v's example, offered to a request with the same labels, with another window
   list of the same length, with a shorter one, and with the genes in another order *)
Example c13_code_checked_example :
  let gd := fun n => if (n =? 1)%N then mkG 1 1 1000 1999 1000 0 else mkG 1 2 5000 5999 1000 1 in
  let tes := [mkTE 1 900 1100 7 70; mkTE 1 5500 7000 8 80] in
  match GenOverlap.gen_calculate [1; 2]%N [1; 2]%N [500; 1000]%Z gd tes with
  | Running ov =>
    (exists st, gen_sum_checked six 3 3 [500; 1000]%Z [1; 2]%N [1; 2]%N [500; 1000]%Z gd tes ov = Some st) /\
    gen_sum_checked six 3 3 [500; 1500]%Z [1; 2]%N [1; 2]%N [500; 1000]%Z gd tes ov = None /\
    gen_sum_checked six 3 3 [500]%Z [1; 2]%N [1; 2]%N [500; 1000]%Z gd tes ov = None /\
    gen_sum_checked six 3 3 [500; 1000]%Z [2; 1]%N [1; 2]%N [500; 1000]%Z gd tes ov = None /\
    gen_sum_checked six 3 4 [500; 1000]%Z [1; 2]%N [1; 2]%N [500; 1000]%Z gd tes ov = None
  | Failed => False end.
Proof. vm_compute. repeat split. eexists. reflexivity. Qed.

Print Assumptions c13_code_checked_sum.
