(* C19, stated about the code: _DensitySubset.__init__ with _init_gene_names, _init_te_names, _init_windows,
   _init_densities, _read_dataset, _init_strings and _init_array, as translated from the current /repo sources
   (Gen/GenStore.v, regenerated on every run), is the model's open. *)
From Coq Require Import List Bool Arith NArith ZArith.
From TEV Require Import Model.Store2 Model.Store2FS Gen.GenStore Proofs.StoreCodeP Proofs.Store2P.
Import ListNotations.

Theorem c19_code_refines_model : forall c g, gen_open c g = open c g.
Proof. exact gen_open_ok. Qed.

(* non-vacuity: a group holding data is re-opened with one TE name changed (refused, unchanged) and with its own layout (accepted, unchanged) *)
Example c19_code_example :
  let c := mkC [1; 2]%N [5; 6]%N [500; 1000]%Z in
  let g := snd (gen_open c empty_grp) in
  fst (gen_open c empty_grp) = None /\
  gen_open (mkC [1; 2]%N [5; 7]%N [500; 1000]%Z) (write 9 g) = (Some ValueErr, write 9 g) /\
  gen_open c (write 9 g) = (None, write 9 g) /\
  fst (gen_open (mkC [1; 2; 3]%N [5; 6]%N [500; 1000]%Z) (write 9 g)) = Some TypeErr.
Proof. vm_compute. repeat split. Qed.

Print Assumptions c19_code_refines_model.
