(* C05 (chromosomes are paired by name, each processed from its own files) and C11 (every overlap result reaches the
   density stage), stated about the code: the file names of a chromosome - gene cache, TE cache, overlap file - as the
   job and result tuples carry them from OverlapManager._overlap_job through _calculate_overlap_job /
   _completed_job_2_result and process_genome.result_to_job to the readers of job_2_merge_and_overlap and calc_merge
   (Gen/GenJobs.v, regenerated from the current /repo sources on every run). *)
From Coq Require Import List.
From TEV Require Import Model.Jobs Gen.GenJobs.
Import ListNotations.

(* the overlap calculation of a job reads that job's TE and gene cache and writes its overlap file; a computed result
   and the result made for a reused overlap file name the same three files *)
Theorem c05_code_overlap_files :
  gen_overlap_reads = (FTE, FGene) /\ gen_overlap_writes = FOverlap /\
  gen_result_calculated = mkRes FOverlap FGene FTE /\ gen_result_completed = gen_result_calculated.
Proof. repeat split; reflexivity. Qed.

(* the density stage of the merge job made from either result builds its layout from the job's TE cache and gene cache,
   takes its divisors from the same gene cache and its overlaps from the job's overlap file *)
Theorem c05_code_density_reads_own_files : forall r, r = gen_result_calculated \/ r = gen_result_completed ->
  gen_merge_reads (gen_merge_job r) = (FTE, FGene, FGene, FOverlap).
Proof. intros r [->| ->]; reflexivity. Qed.

Print Assumptions c05_code_overlap_files.
Print Assumptions c05_code_density_reads_own_files.
