(* C07 - Densities of nested TE groupings are mutually consistent. *)
From Coq Require Import ZArith NArith List Bool.
From TEV Require Import Base.Intervals Model.Pipeline Spec.Density Proofs.Refine Proofs.C01P Proofs.C07P.
Import ListNotations. Open Scope Z_scope.

(* num lv n ... : covered count stored for group n of level lv (the divisor is common to a gene/window/side);
   rows: the TEs of one chromosome; real_names: the orders / superfamilies present on it *)
Theorem c07_total_ge_group : forall rS rO rT lv n c rows sd g w,
  rows_ok rS rO rT rows -> wf_gene g -> 0 <= w -> In n (real_names lv rows) ->
  num rS rO rT lv n c rows sd g w <= num rS rO rT lv rT c rows sd g w.
Proof. exact total_ge_group. Qed.

Theorem c07_total_le_sum : forall rS rO rT lv c rows sd g w,
  rows_ok rS rO rT rows -> wf_gene g -> 0 <= w ->
  num rS rO rT lv rT c rows sd g w <= sumN (fun n => num rS rO rT lv n c rows sd g w) (real_names lv rows).
Proof. exact total_le_sum. Qed.

Theorem c07_order_le_sum_supers : forall rS rO rT o c rows sd g w,
  rows_ok rS rO rT rows -> wf_gene g -> 0 <= w -> In o (real_names LOrd rows) ->
  num rS rO rT LOrd o c rows sd g w <=
  sumN (fun s => num rS rO rT LSup s c rows sd g w) (nsortu (map t_sup (keyed t_ord o rows))).
Proof. exact order_le_sum_supers. Qed.

Theorem c07_super_le_order : forall rS rO rT s o c rows sd g w,
  rows_ok rS rO rT rows -> wf_gene g -> 0 <= w ->
  In s (real_names LSup rows) -> (forall t, In t rows -> t_sup t = s -> t_ord t = o) ->
  num rS rO rT LSup s c rows sd g w <= num rS rO rT LOrd o c rows sd g w.
Proof. exact super_le_order. Qed.

Example c07_nonvacuous :
  let rows := [mkTE 1 800 900 5 7; mkTE 1 850 990 5 8; mkTE 1 700 820 6 9]%N in
  let g := mkG 1 10 1000 1500 501 0 in
  num 2 3 4 LOrd 4%N 1 rows SL g 300 = 291 /\ num 2 3 4 LOrd 5%N 1 rows SL g 300 = 191 /\ num 2 3 4 LOrd 6%N 1 rows SL g 300 = 121
  /\ num 2 3 4 LSup 7%N 1 rows SL g 300 = 101 /\ num 2 3 4 LSup 8%N 1 rows SL g 300 = 141.
Proof. vm_compute. repeat split. Qed.

Print Assumptions c07_total_ge_group.
Print Assumptions c07_total_le_sum.
Print Assumptions c07_order_le_sum_supers.
Print Assumptions c07_super_le_order.
