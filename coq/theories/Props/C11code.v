(* C11, stated about the code: _ProgressBars.handle_chrome as translated from the current /repo sources
   (Gen/GenCF_handle_chrome.v, regenerated on every run), run as the collector thread against any
   interleaving of the workers' puts and the main thread's stop request. *)
From Coq Require Import List Bool Arith ZArith Permutation.
From TEV Require Import Model.PyProg Model.Collector Model.CollectorProg Gen.GenCF_handle_chrome Proofs.CollectorProgP.
Import ListNotations.

(* the translated thread and the hand-written transition system are in lockstep under every schedule *)
Theorem c11_code_refines_model : forall all sched N, length sched < N ->
  pobs (prun sched (pinit (gen_handle_chrome N) all)) = flat_state (run true sched (init all)).
Proof. exact gen_handle_chrome_ok. Qed.

(* when handle_chrome has returned, the collected results are exactly the completed ones, each once *)
Theorem c11_code_all_collected : forall all sched, let ps := run_code all sched in
  returned (p_prog ps) = true -> Permutation (p_col ps) all.
Proof. exact code_all_collected. Qed.

Theorem c11_code_never_more : forall all sched, exists rest, Permutation (p_col (run_code all sched) ++ rest) all.
Proof. exact code_never_more. Qed.

(* and it does return: 3 + |queue| steps of the thread after the stop request *)
Theorem c11_code_terminates : forall all sched, let s := run true sched (init all) in
  unput s = [] -> stop s = true -> returned (p_prog (run_code all (sched ++ repeat C (3 + length (q s))))) = true.
Proof. exact code_terminates. Qed.

(* non-vacuity: the schedule that made the loop before the repair lose a result *)
Example c11_code_example :
  let ps := run_code [0; 1] [W 0; W 0; C; C; C; M; C; C; C; C] in
  returned (p_prog ps) = true /\ p_col ps = [0; 1].
Proof. vm_compute. repeat split. Qed.

Print Assumptions c11_code_refines_model.
Print Assumptions c11_code_all_collected.
Print Assumptions c11_code_never_more.
Print Assumptions c11_code_terminates.
