(* C06 - Left/right geometry: mirror symmetry, shift invariance, monotone in window. *)
From Coq Require Import ZArith NArith List Bool.
From TEV Require Import Base.Intervals Model.Pipeline Spec.Density Proofs.Refine Proofs.C01P Proofs.C06P.
Import ListNotations. Open Scope Z_scope.

(* rows: the TEs of one chromosome; group_ok: a real group or the total.  Shifting every coordinate by k
   leaves every cell unchanged provided the left window is truncated in neither version. *)
Theorem c06_shift : forall rS rO rT lv n c rows sd g w k,
  Forall wf_te rows -> Forall wf_te (map (shift_te k) rows) -> wf_gene g -> wf_gene (shift_gene k g) ->
  0 <= w -> group_ok rS rO rT lv n rows ->
  (sd = SL -> untruncated g w /\ untruncated (shift_gene k g) w) ->
  cell (revise3 rS rO rT c (map (shift_te k) rows)) lv n sd (shift_gene k g) w = cell (revise3 rS rO rT c rows) lv n sd g w.
Proof. exact cell_shift. Qed.

(* reflecting about a point exchanges left and right exactly and keeps intragenic cells *)
Theorem c06_mirror : forall rS rO rT lv n c rows sd g w M,
  Forall wf_te rows -> Forall wf_te (map (mirror_te M) rows) -> wf_gene g -> wf_gene (mirror_gene M g) ->
  0 <= w -> group_ok rS rO rT lv n rows ->
  (sd = SL -> untruncated g w) -> (sd = SR -> untruncated (mirror_gene M g) w) ->
  cell (revise3 rS rO rT c (map (mirror_te M) rows)) lv n (flip sd) (mirror_gene M g) w = cell (revise3 rS rO rT c rows) lv n sd g w.
Proof. exact cell_mirror. Qed.

(* the covered count never decreases as the window grows *)
Theorem c06_monotone : forall rS rO rT lv n c rows sd g w w',
  Forall wf_te rows -> wf_gene g -> 0 <= w <= w' -> group_ok rS rO rT lv n rows ->
  fst (cell (revise3 rS rO rT c rows) lv n sd g w) <= fst (cell (revise3 rS rO rT c rows) lv n sd g w').
Proof. exact cell_monotone. Qed.

Example c06_nonvacuous :
  let rows := [mkTE 1 800 900 5 7; mkTE 1 850 990 5 7; mkTE 1 1600 1700 5 7]%N in
  let g := mkG 1 10 1000 1500 501 0 in
  cell (revise3 2 3 4 1 (map (shift_te 2000000000) rows)) LOrd 5%N SL (shift_gene 2000000000 g) 300 = cell (revise3 2 3 4 1 rows) LOrd 5%N SL g 300
  /\ cell (revise3 2 3 4 1 (map (mirror_te 3000) rows)) LOrd 5%N SR (mirror_gene 3000 g) 300 = (191, 301)
  /\ cell (revise3 2 3 4 1 rows) LOrd 5%N SL g 300 = (191, 301).
Proof. vm_compute. repeat split. Qed.

Print Assumptions c06_shift.
Print Assumptions c06_mirror.
Print Assumptions c06_monotone.
