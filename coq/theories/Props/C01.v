(* C01 - Reported density = base pairs covered by the TE group / region length.
   Only statements, each closed by [exact]; proofs live in Proofs/. *)
From Coq Require Import ZArith NArith List Bool.
From TEV Require Import Base.Intervals Base.Count Model.Pipeline Spec.Density
     Proofs.Refine Proofs.RunP Proofs.Keys Proofs.C01P.
Import ListNotations. Open Scope Z_scope.

(* Every labelled cell of every result file of a successful run on a well-formed input is the
   naive specification: covered positions of the region (each once) over the region length; for a
   real order / superfamily the group's own TEs on that chromosome, for Total_TE_Density all TEs. *)
Theorem c01_cells : forall rS rO rT first delta last genes tes fs f lv name sd w gname v,
  wf_input rS rO rT genes tes -> 0 <= first -> 0 < delta ->
  run rS rO rT first delta last genes tes = inr fs -> In f fs ->
  f_cell f lv name sd w gname = Some v -> name <> bookkeeping rS rO lv ->
  exists g, In g genes /\ g_chr g = f_chr f /\ g_name g = gname /\
    v = spec_cell (if (name =? rT)%N then chrom_ivs tes (f_chr f) else group_ivs tes (f_chr f) lv name) sd g w.
Proof. exact cells. Qed.

(* the key set: every gene of the chromosome x every name on the axis x every window has a cell *)
Theorem c01_keys : forall rS rO rT first delta last genes tes fs f lv name sd w g,
  run rS rO rT first delta last genes tes = inr fs -> In f fs ->
  In g genes -> g_chr g = f_chr f -> In name (f_names f lv) -> (sd = SI \/ In w (f_windows f)) ->
  f_cell f lv name sd w (g_name g) = Some (cell (f_rows f) lv name sd g w).
Proof. exact keys. Qed.

(* the axis: a real group is listed iff it has a TE on the chromosome; the total iff any TE *)
Theorem c01_names : forall rS rO rT first delta last genes tes fs f lv name,
  wf_input rS rO rT genes tes -> run rS rO rT first delta last genes tes = inr fs -> In f fs ->
  name <> bookkeeping rS rO lv ->
  (In name (f_names f lv) <->
   if (name =? rT)%N then on_chr (f_chr f) tes <> []
   else exists t, In t tes /\ t_chr t = f_chr f /\ col lv t = name).
Proof. exact names. Qed.

(* the window list: first, first+delta, ... up to last *)
Theorem c01_windows : forall first delta last ws, 0 < delta -> windows_of first delta last = Some ws ->
  forall x, In x ws <-> exists k, 0 <= k /\ x = first + k * delta /\ x <= last.
Proof. exact windows_spec. Qed.

(* the run does not fail on a well-formed input whose annotations name the same chromosomes *)
Theorem c01_total : forall rS rO rT first delta last genes tes,
  delta <> 0 -> NoDup (map g_name genes) -> Forall wf_gene genes ->
  (forall c, In c (map g_chr genes) <-> In c (map t_chr tes)) ->
  exists fs, run rS rO rT first delta last genes tes = inr fs.
Proof. exact run_total. Qed.

(* non-vacuity: a concrete input with a same-group overlap, a nested TE and a truncated left window *)
Definition ex_genes := [mkG 1 10 300 500 201 0; mkG 1 11 1000 1500 501 1]%N.
Definition ex_tes := [mkTE 1 800 900 5 7; mkTE 1 1600 1700 5 7; mkTE 1 100 200 5 7; mkTE 1 150 260 5 8; mkTE 1 120 130 6 8]%N.
Example c01_nonvacuous :
  exists fs, run 2 3 4 300 300 600 ex_genes ex_tes = inr fs /\ length fs = 1%nat /\
    forall f, In f fs -> f_cell f LOrd 5%N SL 300 10%N = Some (161, 300) /\ f_cell f LOrd 4%N SR 600 11%N = Some (101, 601).
Proof. eexists. split; [vm_compute; reflexivity|]. split; [reflexivity|]. intros f [<-|[]]. split; vm_compute; reflexivity. Qed.

Print Assumptions c01_cells.
Print Assumptions c01_keys.
Print Assumptions c01_names.
Print Assumptions c01_windows.
Print Assumptions c01_total.
