(* C04 - Results do not depend on the row order of the input annotations. *)
From Coq Require Import ZArith NArith List Bool Permutation.
From TEV Require Import Base.Intervals Model.Pipeline Spec.Density Proofs.Refine Proofs.C01P Proofs.LocalP.
Import ListNotations. Open Scope Z_scope.

(* permuting the rows of either file: the run still succeeds, with one file per the same chromosomes *)
Theorem c04_runs : forall rS rO rT first delta last genes tes genes' tes' fs,
  Permutation genes genes' -> Permutation tes tes' ->
  run rS rO rT first delta last genes tes = inr fs ->
  exists fs', run rS rO rT first delta last genes' tes' = inr fs' /\ map f_chr fs' = map f_chr fs.
Proof. exact perm_runs. Qed.

(* ... and every labelled cell of every file is unchanged; the gene axis is a permutation *)
Theorem c04_perm : forall rS rO rT first delta last genes tes genes' tes' fs fs' f f',
  wf_input rS rO rT genes tes -> 0 <= first -> 0 < delta ->
  Permutation genes genes' -> Permutation tes tes' ->
  run rS rO rT first delta last genes tes = inr fs -> run rS rO rT first delta last genes' tes' = inr fs' ->
  In f fs -> In f' fs' -> f_chr f' = f_chr f ->
  Permutation (f_genes f) (f_genes f') /\
  forall lv name sd w gname, name <> bookkeeping rS rO lv ->
    f_cell f lv name sd w gname = f_cell f' lv name sd w gname.
Proof. exact perm_invariant. Qed.

(* non-vacuity: the D2 witness in file order and sorted gives the same cell *)
Example c04_nonvacuous :
  let g := [mkG 1 10 1000 1500 501 0]%N in
  let t1 := [mkTE 1 800 900 5 7; mkTE 1 1600 1700 5 7; mkTE 1 100 200 5 7]%N in
  let t2 := [mkTE 1 100 200 5 7; mkTE 1 800 900 5 7; mkTE 1 1600 1700 5 7]%N in
  Permutation t1 t2 /\
  flat_run 2 3 4 300 300 600 g t1 = flat_run 2 3 4 300 300 600 g t2.
Proof. split; [|vm_compute; reflexivity]. cbn. apply Permutation_sym. apply perm_trans with (mkTE 1 800 900 5 7 :: mkTE 1 100 200 5 7 :: [mkTE 1 1600 1700 5 7])%N; [apply perm_swap|apply perm_skip, perm_swap]. Qed.

Print Assumptions c04_runs.
Print Assumptions c04_perm.
