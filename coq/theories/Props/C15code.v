(* C09 and C15, stated about the code: DensityData.__init__, _swap_strand_vals, _index_of_gene and verify_h5_cache as
   translated from the current /repo sources (Gen/GenReader.v, regenerated on every run).  File names are symbolic: the
   translator accepts only input_h5, input_h5.replace(".h5", "_SenseSwapped.HDF5") and that name + ".tmp". *)
From Coq Require Import List Bool Arith NArith ZArith.
From TEV Require Import Model.Reader Model.ReaderFS Gen.GenReader Proofs.ReaderP Proofs.ReaderCodeP.
Import ListNotations.

(* the exchange loop of the code is the model's: every name found (first occurrence) and exchanged, or IndexError *)
Theorem c09_code_swap_loop : forall names f,
  match swap_all names f with
  | Some f' => gen_swap_strand_vals names f = (f', true)
  | None => snd (gen_swap_strand_vals names f) = false
  end.
Proof. exact gen_swap_strand_vals_ok. Qed.

(* the constructor and verify_h5_cache leave the raw file and the trusted copy as Model.Reader.load does, and serve the same values *)
Theorem c15_code_constructor : forall genes d,
  same_files (fst (gen_init true genes d)) (fst (load true genes ByCtor d))
  /\ snd (gen_init true genes d) = snd (load true genes ByCtor d).
Proof. exact gen_init_ok. Qed.

Theorem c15_code_verify_h5_cache : forall genes d,
  same_files (fst (gen_verify_h5_cache genes d)) (fst (load true genes ByVerify d))
  /\ snd (gen_verify_h5_cache genes d) = snd (load true genes ByVerify d).
Proof. exact gen_verify_h5_cache_ok. Qed.

(* the raw file is never modified; the trusted name holds nothing or the complete exchange *)
Theorem c15_code_never_partial_under_trusted_name : forall genes d, d_final d = None ->
  d_raw (fst (gen_init true genes d)) = d_raw d /\
  (d_final (fst (gen_init true genes d)) = None \/ d_final (fst (gen_init true genes d)) = swapped_copy genes (d_raw d)).
Proof. exact gen_init_final. Qed.

(* the first sentence of C15 about the code: ANY sequence of loads through the translated constructor and verify_h5_cache (the
   directory-level constructors go through one of them), from a directory holding the raw file and nothing or the complete
   view under the trusted name (and anything under the temporary name): every load serves the strand-aware view v - never the raw
   values, never a twice-exchanged copy - and the raw file stays what it was *)
Theorem c15_code_idempotent : forall genes raw v ws, swapped_copy genes raw = Some v ->
  forall d, good_disk genes raw v d ->
    Forall (fun x => x = Some v) (gen_history genes ws d) /\ d_raw (gen_final_disk genes ws d) = raw.
Proof.
  intros genes raw v ws Hv d Hd. destruct (gen_loads_idempotent genes raw v ws Hv d Hd) as [H1 [H2 _]]. split; assumption.
Qed.

(* non-vacuity: two loads of a file with a minus gene in the middle; the second load serves the copy the first one made *)
Example c15_code_example :
  let genes := [(1, 0); (2, 1); (3, 2)]%N in
  let raw := [(3%N, mkCol 30 31 32); (1%N, mkCol 10 11 12); (2%N, mkCol 20 21 22)] in
  let d1 := fst (gen_init true genes (mkD raw None None)) in
  snd (gen_init true genes (mkD raw None None)) = Some [(3%N, mkCol 30 31 32); (1%N, mkCol 10 11 12); (2%N, mkCol 21 20 22)]
  /\ snd (gen_verify_h5_cache genes d1) = snd (gen_init true genes (mkD raw None None)) /\ d_tmp d1 = None.
Proof. vm_compute. repeat split. Qed.

Print Assumptions c09_code_swap_loop.
Print Assumptions c15_code_constructor.
Print Assumptions c15_code_verify_h5_cache.
Print Assumptions c15_code_never_partial_under_trusted_name.
Print Assumptions c15_code_idempotent.
