(* One bridge for every statement about labelled cells: on the data of any file f of a successful model run, the density
   arrays left by the translated stages (Gen/GenOverlap.gen_calculate, Gen/GenMerge.gen_sum), read through the translated
   lookup by labels (Gen/GenLookup: last-occurrence dictionaries for the TE name and the window value, _index_of_gene for
   the gene name), give exactly Pipeline.f_cell f - the labelled cell every model-level property theorem speaks about.
   Corollary here: C04 (row order of the annotations) for the translated code. *)
From Coq Require Import ZArith NArith List Bool Lia Permutation.
From TEV Require Import Base.Intervals Model.Kernel Model.Pipeline Model.Reader Spec.Density Model.OverlapArr Model.MergeArr
     Gen.GenOverlap Gen.GenMerge Gen.GenLookup
     Proofs.NameSort Proofs.Refine Proofs.RunP Proofs.Keys Proofs.C01P Proofs.LocalP Proofs.ReaderP Proofs.MergeArrP
     Props.C01code Props.C01merge Props.C01e2e.
Import ListNotations.

(* the cell the reader's lookup selects in the arrays `log` of file f: TE name and window by the index dictionaries, gene by
   _index_of_gene; intragenic cells take no window *)
Definition code_cell (f : dfile) (log : dlog) (lv : level) (name : N) (sd : side) (w : Z) (gname : N) : option (Z * Z) :=
  match gen_index_of_gene (map g_name (f_genes f)) gname with
  | None => None
  | Some i =>
    match Reader.last_index name (f_names f lv), (match sd with SI => Some 0%nat | _ => gen_window_index (f_windows f) w end) with
    | Some t, Some j => dread lv sd t j i log
    | _, _ => None
    end
  end.

Lemma find_gene_none n gs : find_gene n gs = None -> ~ In n (map g_name gs).
Proof.
  unfold find_gene. intros H Hin. apply in_map_iff in Hin. destruct Hin as [g [Hg Hin]].
  apply (find_none _ _ H) in Hin. rewrite Hg, N.eqb_refl in Hin. discriminate.
Qed.

Theorem code_cell_is_f_cell : forall rS rO rT first delta last genes tes fs f order,
  (0 <= first)%Z -> (0 < delta)%Z ->
  run rS rO rT first delta last genes tes = inr fs -> In f fs ->
  (forall ls, In ls six -> In ls order) ->
  let names := map g_name (f_genes f) in
  let gd := gd_of (f_genes f) in
  exists ov log,
    gen_calculate names (gen_job_gene_names names) (f_windows f) gd (f_rows f) = Running ov /\
    gen_sum order (f_windows f) names (gen_stored_gene_names names) (gen_stored_windows (f_windows f)) gd (f_rows f) ov = DRunning log /\
    forall lv name sd w gname, code_cell f log lv name sd w gname = f_cell f lv name sd w gname.
Proof.
  intros rS rO rT first delta last genes tes fs f order Hf Hd Hrun Hin Hall names gd.
  destruct (run_file _ _ _ _ _ _ _ _ _ _ Hrun Hin) as [ws [Hw [_ [Hgen [Hwin [_ Hnd]]]]]].
  destruct (windows_nodup_nonneg _ _ _ _ Hf Hd Hw) as [Hwnd Hwnn]. rewrite <- Hwin in Hwnd, Hwnn.
  assert (Hnames : NoDup names) by (unfold names; rewrite Hgen; apply genes_on_names_nodup; exact Hnd).
  destruct (c01_code_pipeline_cells order names (f_windows f) gd (f_rows f) Hall Hnames Hwnn Hwnd) as [ov [log [Hc [Hs Hcells]]]].
  exists ov, log. split; [exact Hc|]. split; [exact Hs|].
  intros lv name sd w gname. unfold code_cell, f_cell, gen_index_of_gene, gen_window_index.
  destruct (find_gene gname (f_genes f)) as [g|] eqn:Efind.
  - (* the gene is in the file: its index is its position *)
    destruct (find_gene_some _ _ _ Efind) as [Hgin Hgn].
    assert (Hmem : Reader.memN gname (map g_name (f_genes f)) = true).
    { apply ReaderP.memN_in. apply in_map_iff. exists g. split; assumption. }
    rewrite Hmem.
    destruct (first_index gname (map g_name (f_genes f))) as [i|] eqn:Ei;
      [|apply first_index_none in Ei; exfalso; apply Ei; apply in_map_iff; exists g; split; assumption].
    apply first_index_some in Ei. destruct Ei as [Ein Eil].
    assert (Hgd : gd (nth i names 0%N) = g) by (fold names in Ein; rewrite Ein; unfold gd, gd_of; rewrite Efind; reflexivity).
    assert (Hmn : Pipeline.memN name (f_names f lv) = Reader.memN name (f_names f lv)) by reflexivity.
    destruct (Reader.last_index name (f_names f lv)) as [t|] eqn:Et.
    + apply last_index_some in Et. destruct Et as [Etn Etl].
      assert (Hin_name : Pipeline.memN name (f_names f lv) = true).
      { rewrite Hmn. apply ReaderP.memN_in. rewrite <- Etn. apply nth_In. exact Etl. }
      rewrite Hin_name. cbn [andb].
      assert (Hcell' : forall sd0 j, (match sd0 with SI => j = 0%nat | _ => (j < length (f_windows f))%nat end) ->
                dread lv sd0 t j i log = Some (cell (f_rows f) lv name sd0 g (nth j (f_windows f) 0%Z))).
      { intros sd0 j Hj. rewrite (Hcells lv sd0 t i j Etl Eil Hj).
        change (gen_group_names lv (f_rows f)) with (f_names f lv). rewrite Hgd, Etn. reflexivity. }
      assert (Hwin_case : forall sd0, sd0 <> SI ->
                match Reader.last_indexZ w (f_windows f) with Some j => dread lv sd0 t j i log | None => None end
                = if memZ w (f_windows f) then Some (cell (f_rows f) lv name sd0 g w) else None).
      { intros sd0 Hsd. destruct (Reader.last_indexZ w (f_windows f)) as [j|] eqn:Ej.
        - apply last_indexZ_some in Ej. destruct Ej as [Ejn Ejl].
          assert (Hmz : memZ w (f_windows f) = true) by (apply memZ_in; rewrite <- Ejn; apply nth_In; exact Ejl).
          rewrite Hmz. rewrite Hcell' by (destruct sd0; [exact Ejl|congruence|exact Ejl]). rewrite Ejn. reflexivity.
        - apply last_indexZ_none in Ej.
          assert (Hmz : memZ w (f_windows f) = false).
          { destruct (memZ w (f_windows f)) eqn:E; [apply memZ_in in E; contradiction|reflexivity]. }
          rewrite Hmz. reflexivity. }
      destruct sd.
      * apply Hwin_case. discriminate.
      * rewrite (Hcell' SI 0%nat eq_refl). rewrite (cell_intra_w (f_rows f) lv name g (nth 0 (f_windows f) 0%Z) w). reflexivity.
      * apply Hwin_case. discriminate.
    + apply last_index_none in Et.
      assert (Hin_name : Pipeline.memN name (f_names f lv) = false).
      { rewrite Hmn. destruct (Reader.memN name (f_names f lv)) eqn:E; [apply ReaderP.memN_in in E; contradiction|reflexivity]. }
      rewrite Hin_name. reflexivity.
  - (* not a gene of the file *)
    apply find_gene_none in Efind.
    assert (Hmem : Reader.memN gname (map g_name (f_genes f)) = false).
    { destruct (Reader.memN gname (map g_name (f_genes f))) eqn:E; [apply ReaderP.memN_in in E; contradiction|reflexivity]. }
    rewrite Hmem. reflexivity.
Qed.

(* ---- corollaries: the model-level statements about labelled cells, for the arrays of the translated code *)

(* the arrays the translated stages leave for a file (they exist and are unique as values of the two functions) *)
Definition code_arrays (f : dfile) (order : list (level * side)) : option dlog :=
  let names := map g_name (f_genes f) in
  let gd := gd_of (f_genes f) in
  match gen_calculate names (gen_job_gene_names names) (f_windows f) gd (f_rows f) with
  | Failed => None
  | Running ov =>
    match gen_sum order (f_windows f) names (gen_stored_gene_names names) (gen_stored_windows (f_windows f)) gd (f_rows f) ov with
    | DFailed => None | DRunning log => Some log end
  end.

Lemma code_arrays_cells : forall rS rO rT first delta last genes tes fs f order,
  (0 <= first)%Z -> (0 < delta)%Z -> run rS rO rT first delta last genes tes = inr fs -> In f fs ->
  (forall ls, In ls six -> In ls order) ->
  exists log, code_arrays f order = Some log /\ forall lv name sd w gname, code_cell f log lv name sd w gname = f_cell f lv name sd w gname.
Proof.
  intros rS rO rT first delta last genes tes fs f order Hf Hd Hrun Hin Hall.
  destruct (code_cell_is_f_cell rS rO rT first delta last genes tes fs f order Hf Hd Hrun Hin Hall) as [ov [log [Hc [Hs Hcells]]]].
  exists log. split; [|exact Hcells]. unfold code_arrays. rewrite Hc, Hs. reflexivity.
Qed.

(* C04 for the translated code: permuting the rows of either annotation leaves every cell looked up by labels unchanged *)
Theorem c04_code_perm : forall rS rO rT first delta last genes tes genes' tes' fs fs' f f' order order',
  wf_input rS rO rT genes tes -> (0 <= first)%Z -> (0 < delta)%Z ->
  Permutation genes genes' -> Permutation tes tes' ->
  run rS rO rT first delta last genes tes = inr fs -> run rS rO rT first delta last genes' tes' = inr fs' ->
  In f fs -> In f' fs' -> f_chr f' = f_chr f ->
  (forall ls, In ls six -> In ls order) -> (forall ls, In ls six -> In ls order') ->
  exists log log', code_arrays f order = Some log /\ code_arrays f' order' = Some log' /\
    forall lv name sd w gname, name <> bookkeeping rS rO lv ->
      code_cell f log lv name sd w gname = code_cell f' log' lv name sd w gname.
Proof.
  intros rS rO rT first delta last genes tes genes' tes' fs fs' f f' order order' Hwf Hf Hd Hpg Hpt Hrun Hrun' Hin Hin' Hchr Hall Hall'.
  destruct (code_arrays_cells rS rO rT first delta last genes tes fs f order Hf Hd Hrun Hin Hall) as [log [Ha Hc]].
  destruct (code_arrays_cells rS rO rT first delta last genes' tes' fs' f' order' Hf Hd Hrun' Hin' Hall') as [log' [Ha' Hc']].
  exists log, log'. split; [exact Ha|]. split; [exact Ha'|].
  intros lv name sd w gname Hbk. rewrite Hc, Hc'.
  exact (proj2 (perm_invariant rS rO rT first delta last genes tes genes' tes' fs fs' f f' Hwf Hf Hd Hpg Hpt Hrun Hrun' Hin Hin' Hchr) lv name sd w gname Hbk).
Qed.

(* C05 for the translated code: the cells of a chromosome depend only on the genes and TEs of that chromosome *)
Theorem c05_code_local : forall rS rO rT first delta last genes tes genes' tes' fs fs' f f' order order',
  wf_input rS rO rT genes tes -> wf_input rS rO rT genes' tes' -> (0 <= first)%Z -> (0 < delta)%Z ->
  run rS rO rT first delta last genes tes = inr fs -> run rS rO rT first delta last genes' tes' = inr fs' ->
  In f fs -> In f' fs' -> f_chr f' = f_chr f ->
  Permutation (on_chr (f_chr f) tes) (on_chr (f_chr f) tes') ->
  Permutation (filter (fun g => (g_chr g =? f_chr f)%N) genes) (filter (fun g => (g_chr g =? f_chr f)%N) genes') ->
  (forall ls, In ls six -> In ls order) -> (forall ls, In ls six -> In ls order') ->
  exists log log', code_arrays f order = Some log /\ code_arrays f' order' = Some log' /\
    forall lv name sd w gname, name <> bookkeeping rS rO lv ->
      code_cell f log lv name sd w gname = code_cell f' log' lv name sd w gname.
Proof.
  intros rS rO rT first delta last genes tes genes' tes' fs fs' f f' order order' Hwf Hwf' Hf Hd Hrun Hrun' Hin Hin' Hchr Hpt Hpg Hall Hall'.
  destruct (code_arrays_cells rS rO rT first delta last genes tes fs f order Hf Hd Hrun Hin Hall) as [log [Ha Hc]].
  destruct (code_arrays_cells rS rO rT first delta last genes' tes' fs' f' order' Hf Hd Hrun' Hin' Hall') as [log' [Ha' Hc']].
  exists log, log'. split; [exact Ha|]. split; [exact Ha'|].
  intros lv name sd w gname Hbk. rewrite Hc, Hc'.
  exact (proj2 (file_local rS rO rT first delta last genes tes genes' tes' fs fs' f f' Hwf Hwf' Hf Hd Hrun Hrun' Hin Hin' Hchr Hpt Hpg) lv name sd w gname Hbk).
Qed.

(* non-vacuity: the example of Props/C04.v, two row orders of the TE file, looked up through the code *)
Example code_cell_example :
  let g := [mkG 1 10 1000 1500 501 0]%N in
  let t1 := [mkTE 1 800 900 5 7; mkTE 1 1600 1700 5 7; mkTE 1 100 200 5 7]%N in
  let t2 := [mkTE 1 100 200 5 7; mkTE 1 800 900 5 7; mkTE 1 1600 1700 5 7]%N in
  match run 2 3 4 300 300 600 g t1, run 2 3 4 300 300 600 g t2 with
  | inr [f1], inr [f2] =>
    match code_arrays f1 six, code_arrays f2 (rev six) with
    | Some l1, Some l2 => code_cell f1 l1 LOrd 5 SL 300 10 = Some (101, 301)%Z /\ code_cell f2 l2 LOrd 5 SL 300 10 = Some (101, 301)%Z /\
                          code_cell f1 l1 LOrd 5 SL 450 10 = None /\ code_cell f1 l1 LOrd 9 SL 300 10 = None /\ code_cell f1 l1 LOrd 5 SI 0 10 = Some (0, 501)%Z
    | _, _ => False end
  | _, _ => False end.
Proof. vm_compute. repeat split. Qed.

Print Assumptions code_cell_is_f_cell.
Print Assumptions c04_code_perm.
Print Assumptions c05_code_local.
