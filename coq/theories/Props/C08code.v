(* C08, stated about the code: the lookup by labels of the reader - get_specific_slice with the four verifications, the
   index dictionaries, _index_of_gene and the binding of the six array attributes, as translated from the current /repo
   sources (Gen/GenLookup.v, regenerated on every run) - selects exactly the cell slice_spec describes; and, on the
   arrays the translated MergeData.sum leaves (Props/C01merge.v), a lookup by TE name, window VALUE, direction and
   gene NAME returns the cell of those labels. *)
From Coq Require Import ZArith NArith List Bool Lia.
From TEV Require Import Model.Kernel Model.Pipeline Model.Reader Model.OverlapArr Model.MergeArr Gen.Gen Gen.GenOverlap Gen.GenMerge Gen.GenLookup
     Proofs.ReaderP Proofs.Keys Proofs.LookupP Proofs.MergeArrP Props.C01code Props.C01merge.
Import ListNotations.

Theorem c08_code_slice : forall cat dir name w orders supers windows,
  gen_get_specific_slice cat dir name w orders supers windows = slice_spec cat dir name w orders supers windows.
Proof. exact gen_get_specific_slice_ok. Qed.

(* an unknown category, direction, TE name or window, a window given for the intragenic arrays or none given for the others:
   refused, never answered from another cell *)
Theorem c08_code_refused : forall cat dir name w orders supers windows,
  level_of cat = None \/ side_of dir = None \/
  (exists lv, level_of cat = Some lv /\ ~ In name (match lv with LOrd => orders | LSup => supers end)) \/
  (side_of dir = Some SI /\ w <> None) \/ (side_of dir <> Some SI /\ (w = None \/ exists wv, w = Some wv /\ ~ In wv windows)) ->
  gen_get_specific_slice cat dir name w orders supers windows = None.
Proof.
  intros cat dir name w orders supers windows H. rewrite gen_get_specific_slice_ok. unfold slice_spec.
  destruct (level_of cat) as [lv|] eqn:El; [|reflexivity]. destruct (side_of dir) as [sd|] eqn:Es; [|reflexivity].
  destruct H as [H|[H|[[lv' [Hl Hn]]|[[Hs Hw]|[Hs Hw]]]]]; try discriminate.
  - inversion Hl; subst lv'. apply last_index_none in Hn. rewrite Hn. destruct sd, w; reflexivity.
  - inversion Hs; subst sd. destruct w; [reflexivity|congruence].
  - destruct sd; try congruence; destruct Hw as [->|[wv [-> Hnw]]]; try reflexivity;
      apply last_indexZ_none in Hnw; rewrite Hnw; match goal with |- context [Reader.last_index name ?l] => destruct (Reader.last_index name l) end; reflexivity.
Qed.

Theorem c08_code_lookup : forall order names windows gd tes ov,
  (forall ls, In ls six -> In ls order) -> NoDup names -> NoDup windows ->
  (forall sd i j, (i < length names)%nat -> (match sd with SI => j = 0%nat | _ => (j < length windows)%nat end) ->
     oread (side_arr sd) i j ov = Some (map (ovl_side sd (gd (nth i names 0%N)) (nth j windows 0%Z)) tes)) ->
  exists log, gen_sum order windows names names windows gd tes ov = DRunning log /\
    forall cat dir name w lv sd t j gene i,
      gen_get_specific_slice cat dir name w (gen_group_names LOrd tes) (gen_group_names LSup tes) windows = Some (lv, sd, t, j) ->
      gen_index_of_gene names gene = Some i ->
      level_of cat = Some lv /\ side_of dir = Some sd /\
      dread lv sd t j i log = Some (cell tes lv name sd (gd gene) (match w with Some wv => wv | None => 0%Z end)).
Proof.
  intros order names windows gd tes ov Hall Hn Hw Hov.
  destruct (c01_merge_cells order names windows gd tes ov Hall Hn Hw Hov) as [log [Hsum [Hcells _]]].
  exists log. split; [exact Hsum|].
  intros cat dir name w lv sd t j gene i Hsl Hgi.
  rewrite gen_get_specific_slice_ok in Hsl. unfold slice_spec in Hsl.
  destruct (level_of cat) as [lv'|] eqn:El; [|discriminate]. destruct (side_of dir) as [sd'|] eqn:Es; [|discriminate].
  unfold gen_index_of_gene in Hgi. destruct (Reader.memN gene names); [|discriminate].
  apply first_index_some in Hgi. destruct Hgi as [Hgene Hi].
  assert (Hnames : forall lv0, (match lv0 with LOrd => gen_group_names LOrd tes | LSup => gen_group_names LSup tes end) = gen_group_names lv0 tes)
    by (intros [|]; reflexivity).
  rewrite Hnames in Hsl.
  destruct sd'; destruct w as [wv|]; try discriminate.
  - destruct (Reader.last_index name (gen_group_names lv' tes)) as [t'|] eqn:Et; [|discriminate].
    destruct (Reader.last_indexZ wv windows) as [j'|] eqn:Ej; [|discriminate]. inversion Hsl; subst lv' sd t' j'.
    apply last_index_some in Et. destruct Et as [Etn Etl]. apply last_indexZ_some in Ej. destruct Ej as [Ejn Ejl].
    split; [reflexivity|]. split; [reflexivity|].
    rewrite (Hcells lv SL t i j Etl Hi Ejl). unfold gen_my_gene_names, gen_my_windows. rewrite Etn, Ejn, Hgene. reflexivity.
  - destruct (Reader.last_index name (gen_group_names lv' tes)) as [t'|] eqn:Et; [|discriminate]. inversion Hsl; subst lv' sd t' j.
    apply last_index_some in Et. destruct Et as [Etn Etl].
    split; [reflexivity|]. split; [reflexivity|].
    rewrite (Hcells lv SI t i 0%nat Etl Hi eq_refl). unfold gen_my_gene_names, gen_my_windows. rewrite Etn, Hgene.
    rewrite (cell_intra_w tes lv name (gd gene) (nth 0 windows 0%Z) 0%Z). reflexivity.
  - destruct (Reader.last_index name (gen_group_names lv' tes)) as [t'|] eqn:Et; [|discriminate].
    destruct (Reader.last_indexZ wv windows) as [j'|] eqn:Ej; [|discriminate]. inversion Hsl; subst lv' sd t' j'.
    apply last_index_some in Et. destruct Et as [Etn Etl]. apply last_indexZ_some in Ej. destruct Ej as [Ejn Ejl].
    split; [reflexivity|]. split; [reflexivity|].
    rewrite (Hcells lv SR t i j Etl Hi Ejl). unfold gen_my_gene_names, gen_my_windows. rewrite Etn, Ejn, Hgene. reflexivity.
Qed.

(* non-vacuity: the lookups of the example of Props/C01merge.v, by labels *)
Example c08_code_example :
  let orders := [7; 8]%N in let supers := [70; 71; 80]%N in let ws := [500; 1000]%Z in
  gen_get_specific_slice 0 0 8 (Some 1000%Z) orders supers ws = Some (LOrd, SL, 1%nat, 1%nat) /\
  gen_get_specific_slice 1 2 71 (Some 500%Z) orders supers ws = Some (LSup, SR, 1%nat, 0%nat) /\
  gen_get_specific_slice 1 1 80 None orders supers ws = Some (LSup, SI, 2%nat, 0%nat) /\
  gen_get_specific_slice 0 1 7 (Some 500%Z) orders supers ws = None /\      (* a window for Intra *)
  gen_get_specific_slice 0 0 7 None orders supers ws = None /\               (* no window for Upstream *)
  gen_get_specific_slice 0 0 70 (Some 500%Z) orders supers ws = None /\      (* a superfamily asked of the order axis *)
  gen_get_specific_slice 0 2 7 (Some 750%Z) orders supers ws = None /\       (* a window not in the file *)
  gen_get_specific_slice 2 0 7 (Some 500%Z) orders supers ws = None /\       (* unknown category *)
  gen_index_of_gene [4; 9; 4]%N 4 = Some 0%nat /\ gen_index_of_gene [4; 9]%N 5 = None.
Proof. vm_compute. repeat split. Qed.

Print Assumptions c08_code_slice.
Print Assumptions c08_code_refused.
Print Assumptions c08_code_lookup.
