(* C20 - The generic worker process delivers exactly one result per job. *)
From Coq Require Import List Bool Arith.
From TEV Require Import Model.Worker Proofs.WorkerP.
Import ListNotations.

(* for every script of environment answers (any pattern of output-queue-full, input-queue-empty and
   stop-flag answers): results accepted by the output queue, followed by the at most one pending result,
   are exactly exec applied to the jobs taken, in order *)
Theorem c20_no_loss_no_dup_in_order : forall exec script, let s := run exec true script in
  accepted s ++ opt_list (pending s) = map exec (taken s).
Proof. exact c20_safety. Qed.

(* a run ended by the sentinel has delivered every result *)
Theorem c20_sentinel_complete : forall exec script, let s := run exec true script in
  pc s = PExit true -> accepted s = map exec (taken s).
Proof. exact c20_sentinel. Qed.

(* the loop ends only on stop or sentinel; the sentinel is put back exactly once *)
Theorem c20_exit_causes : forall exec fixed script, let s := run exec fixed script in
  (pc s = PExit false -> In (AStop true) script /\ sentinel_back s = 0) /\
  (pc s = PExit true -> In (AGet GSentinel) script /\ sentinel_back s = 1) /\
  ((forall b, pc s <> PExit b) -> sentinel_back s = 0).
Proof. exact c20_exits. Qed.

(* the behaviour before the repair (queue.Full reported as success) loses a result: kept as the
   seed of the mutation corpus *)
Example c20_legacy_refuted : exists script,
  let s := run (fun j => j + 100) false script in
  pc s = PExit true /\ taken s = [1; 2] /\ accepted s = [102].
Proof.
  exists [AStop false; AGet (GJob 1); AStop false; APut false; AGet (GJob 2); AStop false; APut true; AGet GSentinel].
  vm_compute. repeat split.
Qed.


Print Assumptions c20_no_loss_no_dup_in_order.
Print Assumptions c20_sentinel_complete.
Print Assumptions c20_exit_causes.
