(* C03, the floating-point half: the value stored for a cell (N, D) of a real group is binary32(N / D)
   (numpy divides the float32 sum by the divisor and stores float32; both operands are exact below 2^24),
   and that number is a binary32 number in [0, 1].  Flocq; depends on the standard library's axioms for the
   real numbers, named in DESIGN.md 8 and in the evidence. *)
From Coq Require Import ZArith NArith List Bool Reals.
From Flocq Require Import Core.
From TEV Require Import Base.Intervals Base.Count Model.Pipeline Spec.Density Proofs.Refine Proofs.C01P Proofs.C03P Proofs.Float32P.
Import ListNotations.

Theorem c03_float32 : forall rS rO rT first delta last genes tes fs f lv name sd w gname n d,
  wf_input rS rO rT genes tes -> (0 <= first)%Z -> (0 < delta)%Z ->
  run rS rO rT first delta last genes tes = inr fs -> In f fs ->
  f_cell f lv name sd w gname = Some (n, d) -> name <> bookkeeping rS rO lv ->
  (0 <= rnd32 (IZR n / IZR d) <= 1)%R /\ generic_format radix2 fexp32 (rnd32 (IZR n / IZR d)).
Proof.
  intros rS rO rT first delta last genes tes fs f lv name sd w gname n d Hwf Hf Hd Hrun Hin Hcell Hname.
  destruct (range rS rO rT first delta last genes tes fs f lv name sd w gname n d Hwf Hf Hd Hrun Hin Hcell Hname) as [H1 H2].
  exact (quotient_round32 n d H1 H2).
Qed.

Theorem c03_float32_ends : forall D : Z, (0 < D)%Z -> rnd32 (IZR 0 / IZR D) = 0%R /\ rnd32 (IZR D / IZR D) = 1%R.
Proof. exact quotient_round32_ends. Qed.

Print Assumptions c03_float32.
Print Assumptions c03_float32_ends.
