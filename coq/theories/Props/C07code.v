(* C07, stated about the translated code: in the arrays the translated stages leave for a file of a successful model run,
   looked up by labels through the translated reader, the all-TE numerator is at least the numerator of any real order or
   superfamily of the chromosome (the first relation of C07; the others transfer through the same bridge,
   Props/CodeCell.code_cell_is_f_cell, and are proved for the model in Props/C07.v). *)
From Coq Require Import ZArith NArith List Bool Lia.
From TEV Require Import Base.Intervals Model.Pipeline Spec.Density Model.MergeArr
     Proofs.NameSort Proofs.Refine Proofs.RunP Proofs.Keys Proofs.C01P Proofs.C07P Props.C01merge Props.CodeCell.
Import ListNotations.

Theorem c07_code_total_ge_group : forall rS rO rT first delta last genes tes fs f order lv n sd w g,
  wf_input rS rO rT genes tes -> (0 <= first)%Z -> (0 < delta)%Z ->
  run rS rO rT first delta last genes tes = inr fs -> In f fs ->
  (forall ls, In ls six -> In ls order) ->
  In g genes -> g_chr g = f_chr f -> (0 <= w)%Z -> (sd = SI \/ In w (f_windows f)) ->
  In n (real_names lv (on_chr (f_chr f) tes)) ->
  exists log v vT, code_arrays f order = Some log /\
    code_cell f log lv n sd w (g_name g) = Some v /\ code_cell f log lv rT sd w (g_name g) = Some vT /\ (fst v <= fst vT)%Z.
Proof.
  intros rS rO rT first delta last genes tes fs f order lv n sd w g Hwf Hf Hd Hrun Hin Hall Hg Hgc Hw Hws Hn.
  destruct (code_arrays_cells rS rO rT first delta last genes tes fs f order Hf Hd Hrun Hin Hall) as [log [Ha Hc]].
  destruct Hwf as [Hwg [Hwt Hnm]].
  assert (Hrows : rows_ok rS rO rT (on_chr (f_chr f) tes)).
  { destruct Hnm as [H1 [H2 H3]]. split; [apply on_chr_forall; exact Hwt|]. split; [exact H1|]. split; [exact H2|].
    apply on_chr_forall. exact H3. }
  assert (Hnin : In n (map (col lv) (on_chr (f_chr f) tes))) by (apply nsortu_in; exact Hn).
  destruct (real_name_ok rS rO rT lv n _ Hrows Hnin) as [Hnb HnT].
  assert (Hwf' : wf_input rS rO rT genes tes) by (split; [exact Hwg|split; [exact Hwt|exact Hnm]]).
  (* both names are on the axis of the file *)
  assert (Hn_axis : In n (f_names f lv)).
  { apply (names rS rO rT first delta last genes tes fs f lv n Hwf' Hrun Hin Hnb).
    rewrite (proj2 (N.eqb_neq n rT) HnT).
    apply in_map_iff in Hnin. destruct Hnin as [t [Hcol Ht]]. exists t.
    unfold on_chr in Ht. apply keyed_in in Ht. destruct Ht as [Ht Hchr]. repeat split; assumption. }
  assert (HT_axis : In rT (f_names f lv)).
  { assert (HbT : rT <> bookkeeping rS rO lv) by (destruct (names_ok_col rS rO rT lv tes Hnm) as [Hb _]; congruence).
    apply (names rS rO rT first delta last genes tes fs f lv rT Hwf' Hrun Hin HbT).
    rewrite N.eqb_refl. intro E. rewrite E in Hnin. destruct Hnin. }
  exists log. rewrite !Hc.
  rewrite (keys rS rO rT first delta last genes tes fs f lv n sd w g Hrun Hin Hg Hgc Hn_axis Hws).
  rewrite (keys rS rO rT first delta last genes tes fs f lv rT sd w g Hrun Hin Hg Hgc HT_axis Hws).
  eexists. eexists. split; [exact Ha|]. split; [reflexivity|]. split; [reflexivity|].
  destruct (run_file _ _ _ _ _ _ _ _ _ _ Hrun Hin) as [ws [_ [_ [_ [_ [Hr _]]]]]]. rewrite Hr.
  assert (Hgw : wf_gene g) by (rewrite Forall_forall in Hwg; apply Hwg; exact Hg).
  exact (total_ge_group rS rO rT lv n (f_chr f) (on_chr (f_chr f) tes) sd g w Hrows Hgw Hw Hn).
Qed.

(* a superfamily all of whose TEs (on the chromosome) belong to one order never exceeds that order *)
Theorem c07_code_super_le_order : forall rS rO rT first delta last genes tes fs f order s o sd w g,
  wf_input rS rO rT genes tes -> (0 <= first)%Z -> (0 < delta)%Z ->
  run rS rO rT first delta last genes tes = inr fs -> In f fs ->
  (forall ls, In ls six -> In ls order) ->
  In g genes -> g_chr g = f_chr f -> (0 <= w)%Z -> (sd = SI \/ In w (f_windows f)) ->
  In s (real_names LSup (on_chr (f_chr f) tes)) ->
  (forall t, In t (on_chr (f_chr f) tes) -> t_sup t = s -> t_ord t = o) ->
  exists log v vo, code_arrays f order = Some log /\
    code_cell f log LSup s sd w (g_name g) = Some v /\ code_cell f log LOrd o sd w (g_name g) = Some vo /\ (fst v <= fst vo)%Z.
Proof.
  intros rS rO rT first delta last genes tes fs f order s o sd w g Hwf Hf Hd Hrun Hin Hall Hg Hgc Hw Hws Hs Hso.
  destruct (code_arrays_cells rS rO rT first delta last genes tes fs f order Hf Hd Hrun Hin Hall) as [log [Ha Hc]].
  destruct Hwf as [Hwg [Hwt Hnm]].
  assert (Hrows : rows_ok rS rO rT (on_chr (f_chr f) tes)).
  { destruct Hnm as [H1 [H2 H3]]. split; [apply on_chr_forall; exact Hwt|]. split; [exact H1|]. split; [exact H2|].
    apply on_chr_forall. exact H3. }
  assert (Hwf' : wf_input rS rO rT genes tes) by (split; [exact Hwg|split; [exact Hwt|exact Hnm]]).
  assert (Hsin : In s (map (col LSup) (on_chr (f_chr f) tes))) by (apply nsortu_in; exact Hs).
  destruct (real_name_ok rS rO rT LSup s _ Hrows Hsin) as [Hsb HsT].
  (* a TE of the superfamily on the chromosome: it is of order o *)
  apply in_map_iff in Hsin. destruct Hsin as [t [Hcol Ht]].
  assert (Hto : t_ord t = o) by (apply Hso; [exact Ht|exact Hcol]).
  assert (Hoin : In o (map (col LOrd) (on_chr (f_chr f) tes))) by (apply in_map_iff; exists t; split; [exact Hto|exact Ht]).
  destruct (real_name_ok rS rO rT LOrd o _ Hrows Hoin) as [Hob HoT].
  unfold on_chr in Ht. apply keyed_in in Ht. destruct Ht as [Htin Htc].
  assert (Hs_axis : In s (f_names f LSup)).
  { apply (names rS rO rT first delta last genes tes fs f LSup s Hwf' Hrun Hin Hsb).
    rewrite (proj2 (N.eqb_neq s rT) HsT). exists t. repeat split; assumption. }
  assert (Ho_axis : In o (f_names f LOrd)).
  { apply (names rS rO rT first delta last genes tes fs f LOrd o Hwf' Hrun Hin Hob).
    rewrite (proj2 (N.eqb_neq o rT) HoT). exists t. repeat split; assumption. }
  exists log. rewrite !Hc.
  rewrite (keys rS rO rT first delta last genes tes fs f LSup s sd w g Hrun Hin Hg Hgc Hs_axis Hws).
  rewrite (keys rS rO rT first delta last genes tes fs f LOrd o sd w g Hrun Hin Hg Hgc Ho_axis Hws).
  eexists. eexists. split; [exact Ha|]. split; [reflexivity|]. split; [reflexivity|].
  destruct (run_file _ _ _ _ _ _ _ _ _ _ Hrun Hin) as [ws [_ [_ [_ [_ [Hr _]]]]]]. rewrite Hr.
  assert (Hgw : wf_gene g) by (rewrite Forall_forall in Hwg; apply Hwg; exact Hg).
  exact (super_le_order rS rO rT s o (f_chr f) (on_chr (f_chr f) tes) sd g w Hrows Hgw Hw Hs Hso).
Qed.

Print Assumptions c07_code_total_ge_group.
Print Assumptions c07_code_super_le_order.
