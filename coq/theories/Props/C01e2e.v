(* C01 end to end at the level of the translated code: on the data of any result file of a successful model run (the
   chromosome's genes, the window list, the revised TE rows - Model/Pipeline.run), the two translated stages
   (Gen/GenOverlap.gen_calculate, Gen/GenMerge.gen_sum, in any order of the six summations) leave density arrays in
   which the cell at (axis, side, group index, window index, gene index) is the naive specification of C01 for the
   group, the window and the gene of those names: covered positions of the region, each once, over the region length. *)
From Coq Require Import ZArith NArith List Bool Lia Permutation.
From TEV Require Import Base.PyRange Base.Intervals Base.Count Model.Kernel Model.Pipeline Spec.Density
     Model.OverlapArr Model.MergeArr Gen.Gen Gen.GenOverlap Gen.GenMerge
     Proofs.NameSort Proofs.Refine Proofs.RunP Proofs.Keys Proofs.C01P Proofs.OverlapArrP Proofs.MergeArrP Props.C01code Props.C01merge.
Import ListNotations.

Lemma nodup_map_filter {A B} (f : A -> B) (p : A -> bool) (l : list A) : NoDup (map f l) -> NoDup (map f (filter p l)).
Proof.
  induction l as [|x r IH]; cbn [filter map]; intros H; [constructor|].
  inversion H as [|y z Hx Hr]; subst. destruct (p x); cbn [map]; [|apply IH; exact Hr].
  constructor; [|apply IH; exact Hr]. intro Hin. apply Hx. apply in_map_iff in Hin. destruct Hin as [g [Hg Hin]].
  apply filter_In in Hin. apply in_map_iff. exists g. split; [exact Hg|apply Hin].
Qed.
Lemma genes_on_names_nodup c genes : NoDup (map g_name genes) -> NoDup (map g_name (genes_on c genes)).
Proof.
  intros H. assert (HP := genes_on_perm c genes).
  apply (Permutation_NoDup (Permutation_sym (Permutation_map g_name HP))). apply nodup_map_filter. exact H.
Qed.

Lemma windows_nodup_nonneg first delta last ws : (0 <= first)%Z -> (0 < delta)%Z -> windows_of first delta last = Some ws ->
  NoDup ws /\ forallb (fun w => negb (w <? 0)%Z) ws = true.
Proof.
  intros Hf Hd Hw. split.
  - unfold windows_of, py_range in Hw.
    destruct (delta =? 0)%Z eqn:E0; [discriminate|]. destruct (delta <? 0)%Z eqn:E1; [apply Z.ltb_lt in E1; lia|].
    inversion Hw; subst. apply (proj2 (NoDup_nth _ 0%Z)). intros i j Hi Hj Heq.
    destruct (Nat.lt_trichotomy i j) as [Hlt|[->|Hgt]]; [|reflexivity|].
    + assert (H := range_fuel_sorted _ first (last + 1)%Z delta Hd i j (conj Hlt Hj)). lia.
    + assert (H := range_fuel_sorted _ first (last + 1)%Z delta Hd j i (conj Hgt Hi)). lia.
  - apply forallb_forall. intros x Hx. apply (windows_spec _ _ _ _ Hd Hw) in Hx. destruct Hx as [k [Hk [-> _]]].
    apply negb_true_iff. apply Z.ltb_ge. nia.
Qed.

Theorem c01_code_end_to_end : forall rS rO rT first delta last genes tes fs f order,
  wf_input rS rO rT genes tes -> (0 <= first)%Z -> (0 < delta)%Z ->
  run rS rO rT first delta last genes tes = inr fs -> In f fs ->
  (forall ls, In ls six -> In ls order) ->
  let names := map g_name (f_genes f) in
  let gd := gd_of (f_genes f) in
  exists ov log,
    gen_calculate names (gen_job_gene_names names) (f_windows f) gd (f_rows f) = Running ov /\
    gen_sum order (f_windows f) names (gen_stored_gene_names names) (gen_stored_windows (f_windows f)) gd (f_rows f) ov = DRunning log /\
    forall lv sd t i j, (t < length (f_names f lv))%nat -> (i < length (f_genes f))%nat ->
      (match sd with SI => j = 0%nat | _ => (j < length (f_windows f))%nat end) ->
      forall name g, name = nth t (f_names f lv) 0%N -> g = nth i (f_genes f) (mkG 0 0 0 0 0 0) ->
      name <> bookkeeping rS rO lv ->
      In g genes /\ g_chr g = f_chr f /\
      dread lv sd t j i log
      = Some (spec_cell (if (name =? rT)%N then chrom_ivs tes (f_chr f) else group_ivs tes (f_chr f) lv name) sd g (nth j (f_windows f) 0%Z)).
Proof.
  intros rS rO rT first delta last genes tes fs f order Hwf Hf Hd Hrun Hin Hall names gd.
  destruct (run_file _ _ _ _ _ _ _ _ _ _ Hrun Hin) as [ws [Hw [_ [Hgen [Hwin [_ Hnd]]]]]].
  destruct (windows_nodup_nonneg _ _ _ _ Hf Hd Hw) as [Hwnd Hwnn]. rewrite <- Hwin in Hwnd, Hwnn.
  assert (Hnames : NoDup names) by (unfold names; rewrite Hgen; apply genes_on_names_nodup; exact Hnd).
  destruct (c01_code_pipeline_cells order names (f_windows f) gd (f_rows f) Hall Hnames Hwnn Hwnd) as [ov [log [Hc [Hs Hcells]]]].
  exists ov, log. split; [exact Hc|]. split; [exact Hs|].
  intros lv sd t i j Ht Hi Hj name g -> -> Hbk.
  set (g := nth i (f_genes f) (mkG 0 0 0 0 0 0)). set (name := nth t (f_names f lv) 0%N).
  assert (Hgin : In g (f_genes f)) by (apply nth_In; exact Hi).
  assert (Hg2 : In g genes /\ g_chr g = f_chr f) by (rewrite Hgen in Hgin; apply genes_on_in in Hgin; exact Hgin).
  destruct Hg2 as [Hgg Hgc]. split; [exact Hgg|]. split; [exact Hgc|].
  assert (Hgd : gd (nth i names 0%N) = g).
  { unfold gd, gd_of, names. change 0%N with (g_name (mkG 0 0 0 0 0 0)). rewrite map_nth. fold g.
    rewrite (find_gene_unique _ _ g); [reflexivity| |exact Hgin|reflexivity]. exact Hnames. }
  assert (Hi' : (i < length names)%nat) by (unfold names; rewrite map_length; exact Hi).
  rewrite (Hcells lv sd t i j Ht Hi' Hj). rewrite Hgd. fold name.
  change (gen_group_names lv (f_rows f)) with (f_names f lv). fold name.
  (* the model's cell is the specification (Props/C01.v: keys, then cells) *)
  assert (Hname : In name (f_names f lv)) by (apply nth_In; exact Ht).
  assert (Hwsd : sd = SI \/ In (nth j (f_windows f) 0%Z) (f_windows f)).
  { destruct sd; [right; apply nth_In; exact Hj|left; reflexivity|right; apply nth_In; exact Hj]. }
  assert (Hk := keys rS rO rT first delta last genes tes fs f lv name sd (nth j (f_windows f) 0%Z) g Hrun Hin Hgg Hgc Hname Hwsd).
  destruct (cells rS rO rT first delta last genes tes fs f lv name sd (nth j (f_windows f) 0%Z) (g_name g) _ Hwf Hf Hd Hrun Hin Hk Hbk)
    as [g' [Hg'in [Hg'c [Hg'n Hv]]]].
  assert (g' = g).
  { destruct (in_split _ _ Hgg) as [l1 [l2 E]]. clear -Hnd Hg'in Hg'n Hgg.
    assert (H := find_gene_unique (g_name g) genes g Hnd Hgg eq_refl).
    assert (H' := find_gene_unique (g_name g) genes g' Hnd Hg'in Hg'n). congruence. }
  subst g'. f_equal. exact Hv.
Qed.

(* non-vacuity: the example run of Props/C01.v, its one file, through the translated stages *)
Example c01_e2e_example :
  match run 2 3 4 300 300 600 [mkG 1 10 300 500 201 0; mkG 1 11 1000 1500 501 1]%N
            [mkTE 1 800 900 5 7; mkTE 1 1600 1700 5 7; mkTE 1 100 200 5 7; mkTE 1 150 260 5 8; mkTE 1 120 130 6 8]%N with
  | inr [f] =>
    let names := map g_name (f_genes f) in
    match gen_calculate names (gen_job_gene_names names) (f_windows f) (gd_of (f_genes f)) (f_rows f) with
    | Running ov =>
      match gen_sum six (f_windows f) names names (f_windows f) (gd_of (f_genes f)) (f_rows f) ov with
      | DRunning log => f_names f LOrd = [2; 4; 5; 6]%N /\ dread LOrd SL 2 0 0 log = Some (161, 300)%Z /\ dread LOrd SR 1 1 1 log = Some (101, 601)%Z
      | DFailed => False end
    | Failed => False end
  | _ => False end.
Proof. vm_compute. repeat split. Qed.

Print Assumptions c01_code_end_to_end.
