(* C06 (monotone in the window), stated about the translated code: in the arrays the translated stages leave for a file of
   a successful model run, looked up by labels through the translated reader, the covered count of a gene, group and
   side never decreases from a window to a larger one. Shift and mirror relate the runs on two different inputs; they transfer through the same bridge, Props/CodeCell.v
   (c06_code_shift, c06_code_mirror below). *)
From Coq Require Import ZArith NArith List Bool Lia.
From TEV Require Import Base.Intervals Model.Pipeline Spec.Density Model.MergeArr
     Proofs.NameSort Proofs.Refine Proofs.RunP Proofs.Keys Proofs.C01P Proofs.C06P Proofs.RenameP Props.C01merge Props.CodeCell.
Import ListNotations.

Theorem c06_code_monotone : forall rS rO rT first delta last genes tes fs f order lv n sd w w' g,
  wf_input rS rO rT genes tes -> (0 <= first)%Z -> (0 < delta)%Z ->
  run rS rO rT first delta last genes tes = inr fs -> In f fs ->
  (forall ls, In ls six -> In ls order) ->
  In g genes -> g_chr g = f_chr f -> In n (f_names f lv) -> n <> bookkeeping rS rO lv ->
  In w (f_windows f) -> In w' (f_windows f) -> (w <= w')%Z ->
  exists log v v', code_arrays f order = Some log /\
    code_cell f log lv n sd w (g_name g) = Some v /\ code_cell f log lv n sd w' (g_name g) = Some v' /\ (fst v <= fst v')%Z.
Proof.
  intros rS rO rT first delta last genes tes fs f order lv n sd w w' g Hwf Hf Hd Hrun Hin Hall Hg Hgc Hn Hnb Hw Hw' Hle.
  destruct (code_arrays_cells rS rO rT first delta last genes tes fs f order Hf Hd Hrun Hin Hall) as [log [Ha Hc]].
  exists log. rewrite !Hc.
  rewrite (keys rS rO rT first delta last genes tes fs f lv n sd w g Hrun Hin Hg Hgc Hn (or_intror Hw)).
  rewrite (keys rS rO rT first delta last genes tes fs f lv n sd w' g Hrun Hin Hg Hgc Hn (or_intror Hw')).
  eexists. eexists. split; [exact Ha|]. split; [reflexivity|]. split; [reflexivity|].
  destruct (run_file _ _ _ _ _ _ _ _ _ _ Hrun Hin) as [ws [Hws [_ [_ [Hwin [Hr _]]]]]]. rewrite Hr.
  destruct Hwf as [Hwg [Hwt Hnm]].
  assert (Hgw : wf_gene g) by (rewrite Forall_forall in Hwg; apply Hwg; exact Hg).
  assert (H0 : (0 <= w)%Z) by (rewrite Hwin in Hw; exact (window_nonneg first delta last ws w Hf Hd Hws Hw)).
  apply cell_monotone; [apply on_chr_forall; exact Hwt|exact Hgw|lia|].
  split; [exact Hnb|]. intros _. destruct (names_ok_col rS rO rT lv tes Hnm) as [Hb Hall']. split; [exact Hb|apply on_chr_forall; exact Hall'].
Qed.


(* C06, shift invariance, about the translated code: the pipeline run on an annotation pair and on the same pair with every
   coordinate moved by k (both well formed, hence within the coordinate range the inputs live in). For a gene, a group that is on
   the axis in both runs, a side and a window of the configuration - the left window truncated in neither version - the cell the
   translated stages compute for the shifted pair and the translated lookup finds under the same labels is the cell of the original. *)
Lemma on_chr_shift c k tes : on_chr c (map (shift_te k) tes) = map (shift_te k) (on_chr c tes).
Proof. unfold on_chr, keyed. apply filter_map_comm. intro t. reflexivity. Qed.

Theorem c06_code_shift : forall rS rO rT first delta last genes tes k fs fs' f f' order order' lv n sd w g,
  wf_input rS rO rT genes tes -> wf_input rS rO rT (map (shift_gene k) genes) (map (shift_te k) tes) ->
  (0 <= first)%Z -> (0 < delta)%Z ->
  run rS rO rT first delta last genes tes = inr fs ->
  run rS rO rT first delta last (map (shift_gene k) genes) (map (shift_te k) tes) = inr fs' ->
  In f fs -> In f' fs' -> f_chr f' = f_chr f ->
  (forall ls, In ls six -> In ls order) -> (forall ls, In ls six -> In ls order') ->
  In g genes -> g_chr g = f_chr f -> In n (f_names f lv) -> In n (f_names f' lv) -> n <> bookkeeping rS rO lv ->
  In w (f_windows f) -> (sd = SL -> untruncated g w /\ untruncated (shift_gene k g) w) ->
  exists log log', code_arrays f order = Some log /\ code_arrays f' order' = Some log' /\
    code_cell f' log' lv n sd w (g_name g) = code_cell f log lv n sd w (g_name g).
Proof.
  intros rS rO rT first delta last genes tes k fs fs' f f' order order' lv n sd w g Hwf Hwf' Hf Hd Hrun Hrun' Hin Hin' Hchr Hall Hall'
         Hg Hgc Hn Hn' Hnb Hw Hun.
  destruct (code_arrays_cells rS rO rT first delta last genes tes fs f order Hf Hd Hrun Hin Hall) as [log [Ha Hc]].
  destruct (code_arrays_cells rS rO rT first delta last _ _ fs' f' order' Hf Hd Hrun' Hin' Hall') as [log' [Ha' Hc']].
  exists log, log'. split; [exact Ha|]. split; [exact Ha'|]. rewrite Hc, Hc'.
  destruct (run_file _ _ _ _ _ _ _ _ _ _ Hrun Hin) as [ws [Hws [_ [_ [Hwin [Hr _]]]]]].
  destruct (run_file _ _ _ _ _ _ _ _ _ _ Hrun' Hin') as [ws' [Hws' [_ [_ [Hwin' [Hr' _]]]]]].
  assert (Eww : ws' = ws) by (rewrite Hws in Hws'; inversion Hws'; reflexivity).
  rewrite (keys rS rO rT first delta last genes tes fs f lv n sd w g Hrun Hin Hg Hgc Hn (or_intror Hw)).
  assert (Hg' : In (shift_gene k g) (map (shift_gene k) genes)) by (apply in_map; exact Hg).
  assert (Hgc' : g_chr (shift_gene k g) = f_chr f') by (rewrite Hchr; exact Hgc).
  assert (Hw' : In w (f_windows f')) by (rewrite Hwin', Eww, <- Hwin; exact Hw).
  pose proof (keys rS rO rT first delta last _ _ fs' f' lv n sd w (shift_gene k g) Hrun' Hin' Hg' Hgc' Hn' (or_intror Hw')) as K'.
  cbn [shift_gene g_name] in K'. rewrite K'. f_equal.
  rewrite Hr, Hr', Hchr, on_chr_shift.
  destruct Hwf as [Hwg [Hwt Hnm]]. destruct Hwf' as [Hwg' [Hwt' _]].
  apply cell_shift.
  - apply on_chr_forall; exact Hwt.
  - rewrite <- on_chr_shift. apply on_chr_forall; exact Hwt'.
  - rewrite Forall_forall in Hwg; apply Hwg; exact Hg.
  - rewrite Forall_forall in Hwg'; apply Hwg'; exact Hg'.
  - rewrite Hwin in Hw. exact (window_nonneg first delta last ws w Hf Hd Hws Hw).
  - split; [exact Hnb|]. intros _. destruct (names_ok_col rS rO rT lv tes Hnm) as [Hb Hall0]. split; [exact Hb | apply on_chr_forall; exact Hall0].
  - exact Hun.
Qed.


(* C06, mirror symmetry, about the translated code: the pair reflected about a point M (both versions well formed): the cell the
   translated stages compute for the reflected pair on the OTHER side is the cell of the original; intragenic cells are kept *)
Lemma on_chr_mirror c M tes : on_chr c (map (mirror_te M) tes) = map (mirror_te M) (on_chr c tes).
Proof. unfold on_chr, keyed. apply filter_map_comm. intro t. reflexivity. Qed.

Theorem c06_code_mirror : forall rS rO rT first delta last genes tes M fs fs' f f' order order' lv n sd w g,
  wf_input rS rO rT genes tes -> wf_input rS rO rT (map (mirror_gene M) genes) (map (mirror_te M) tes) ->
  (0 <= first)%Z -> (0 < delta)%Z ->
  run rS rO rT first delta last genes tes = inr fs ->
  run rS rO rT first delta last (map (mirror_gene M) genes) (map (mirror_te M) tes) = inr fs' ->
  In f fs -> In f' fs' -> f_chr f' = f_chr f ->
  (forall ls, In ls six -> In ls order) -> (forall ls, In ls six -> In ls order') ->
  In g genes -> g_chr g = f_chr f -> In n (f_names f lv) -> In n (f_names f' lv) -> n <> bookkeeping rS rO lv ->
  In w (f_windows f) -> (sd = SL -> untruncated g w) -> (sd = SR -> untruncated (mirror_gene M g) w) ->
  exists log log', code_arrays f order = Some log /\ code_arrays f' order' = Some log' /\
    code_cell f' log' lv n (flip sd) w (g_name g) = code_cell f log lv n sd w (g_name g).
Proof.
  intros rS rO rT first delta last genes tes M fs fs' f f' order order' lv n sd w g Hwf Hwf' Hf Hd Hrun Hrun' Hin Hin' Hchr Hall Hall'
         Hg Hgc Hn Hn' Hnb Hw HunL HunR.
  destruct (code_arrays_cells rS rO rT first delta last genes tes fs f order Hf Hd Hrun Hin Hall) as [log [Ha Hc]].
  destruct (code_arrays_cells rS rO rT first delta last _ _ fs' f' order' Hf Hd Hrun' Hin' Hall') as [log' [Ha' Hc']].
  exists log, log'. split; [exact Ha|]. split; [exact Ha'|]. rewrite Hc, Hc'.
  destruct (run_file _ _ _ _ _ _ _ _ _ _ Hrun Hin) as [ws [Hws [_ [_ [Hwin [Hr _]]]]]].
  destruct (run_file _ _ _ _ _ _ _ _ _ _ Hrun' Hin') as [ws' [Hws' [_ [_ [Hwin' [Hr' _]]]]]].
  assert (Eww : ws' = ws) by (rewrite Hws in Hws'; inversion Hws'; reflexivity).
  rewrite (keys rS rO rT first delta last genes tes fs f lv n sd w g Hrun Hin Hg Hgc Hn (or_intror Hw)).
  assert (Hg' : In (mirror_gene M g) (map (mirror_gene M) genes)) by (apply in_map; exact Hg).
  assert (Hgc' : g_chr (mirror_gene M g) = f_chr f') by (rewrite Hchr; exact Hgc).
  assert (Hw' : In w (f_windows f')) by (rewrite Hwin', Eww, <- Hwin; exact Hw).
  pose proof (keys rS rO rT first delta last _ _ fs' f' lv n (flip sd) w (mirror_gene M g) Hrun' Hin' Hg' Hgc' Hn' (or_intror Hw')) as K'.
  cbn [mirror_gene g_name] in K'. rewrite K'. f_equal.
  rewrite Hr, Hr', Hchr, on_chr_mirror.
  destruct Hwf as [Hwg [Hwt Hnm]]. destruct Hwf' as [Hwg' [Hwt' _]].
  apply cell_mirror.
  - apply on_chr_forall; exact Hwt.
  - rewrite <- on_chr_mirror. apply on_chr_forall; exact Hwt'.
  - rewrite Forall_forall in Hwg; apply Hwg; exact Hg.
  - rewrite Forall_forall in Hwg'; apply Hwg'; exact Hg'.
  - rewrite Hwin in Hw. exact (window_nonneg first delta last ws w Hf Hd Hws Hw).
  - split; [exact Hnb|]. intros _. destruct (names_ok_col rS rO rT lv tes Hnm) as [Hb Hall0]. split; [exact Hb | apply on_chr_forall; exact Hall0].
  - exact HunL.
  - exact HunR.
Qed.

Print Assumptions c06_code_monotone.
Print Assumptions c06_code_shift.
Print Assumptions c06_code_mirror.
