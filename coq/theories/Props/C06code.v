(* C06 (monotone in the window), stated about the translated code: in the arrays the translated stages leave for a file of
   a successful model run, looked up by labels through the translated reader, the covered count of a gene, group and
   side never decreases from a window to a larger one. (Shift and mirror relate two different inputs and are proved for
   the model's cells in Props/C06.v; they transfer through the same bridge, Props/CodeCell.v.) *)
From Coq Require Import ZArith NArith List Bool Lia.
From TEV Require Import Base.Intervals Model.Pipeline Spec.Density Model.MergeArr
     Proofs.NameSort Proofs.Refine Proofs.RunP Proofs.Keys Proofs.C01P Proofs.C06P Props.C01merge Props.CodeCell.
Import ListNotations.

Theorem c06_code_monotone : forall rS rO rT first delta last genes tes fs f order lv n sd w w' g,
  wf_input rS rO rT genes tes -> (0 <= first)%Z -> (0 < delta)%Z ->
  run rS rO rT first delta last genes tes = inr fs -> In f fs ->
  (forall ls, In ls six -> In ls order) ->
  In g genes -> g_chr g = f_chr f -> In n (f_names f lv) -> n <> bookkeeping rS rO lv ->
  In w (f_windows f) -> In w' (f_windows f) -> (w <= w')%Z ->
  exists log v v', code_arrays f order = Some log /\
    code_cell f log lv n sd w (g_name g) = Some v /\ code_cell f log lv n sd w' (g_name g) = Some v' /\ (fst v <= fst v')%Z.
Proof.
  intros rS rO rT first delta last genes tes fs f order lv n sd w w' g Hwf Hf Hd Hrun Hin Hall Hg Hgc Hn Hnb Hw Hw' Hle.
  destruct (code_arrays_cells rS rO rT first delta last genes tes fs f order Hf Hd Hrun Hin Hall) as [log [Ha Hc]].
  exists log. rewrite !Hc.
  rewrite (keys rS rO rT first delta last genes tes fs f lv n sd w g Hrun Hin Hg Hgc Hn (or_intror Hw)).
  rewrite (keys rS rO rT first delta last genes tes fs f lv n sd w' g Hrun Hin Hg Hgc Hn (or_intror Hw')).
  eexists. eexists. split; [exact Ha|]. split; [reflexivity|]. split; [reflexivity|].
  destruct (run_file _ _ _ _ _ _ _ _ _ _ Hrun Hin) as [ws [Hws [_ [_ [Hwin [Hr _]]]]]]. rewrite Hr.
  destruct Hwf as [Hwg [Hwt Hnm]].
  assert (Hgw : wf_gene g) by (rewrite Forall_forall in Hwg; apply Hwg; exact Hg).
  assert (H0 : (0 <= w)%Z) by (rewrite Hwin in Hw; exact (window_nonneg first delta last ws w Hf Hd Hws Hw)).
  apply cell_monotone; [apply on_chr_forall; exact Hwt|exact Hgw|lia|].
  split; [exact Hnb|]. intros _. destruct (names_ok_col rS rO rT lv tes Hnm) as [Hb Hall']. split; [exact Hb|apply on_chr_forall; exact Hall'].
Qed.

Print Assumptions c06_code_monotone.
