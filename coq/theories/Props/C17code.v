(* C17 (first sentence) and C18 (nothing is computed for a refused pair) about the code: the failure-propagation skeleton of
   every function of the pipeline's modules and of the __main__ block of process_genome.py, as translated from the current
   /repo sources (Gen/GenFlow.v, regenerated on every run), passes the two criteria of Model/Flow.v, whose meaning is
   given by the generic theorems of Proofs/FlowP.v for EVERY execution of the big-step semantics. *)
From Coq Require Import List Bool Arith.
From TEV Require Import Model.Flow Proofs.FlowP Gen.GenFlow.
Import ListNotations.

(* no except clause, finally clause or context manager of any of these functions swallows an exception
   (polls of a queue and the tolerated failure to raise the stack limit are not failures: see the translator) *)
Theorem c17_code_nothing_swallowed : forallb noswallow (gen_main :: gen_functions) = true.
Proof. vm_compute. reflexivity. Qed.

(* hence: whenever one of these functions - or the main block - ends normally or returns, every statement it executed
   completed; put the other way round, a statement that fails (an I/O error, a refused annotation, an exception reported by
   a pool) ends the function with an exception, up to the top of the main block, i.e. a non-zero exit status *)
Theorem c17_code_failure_is_reported : forall p, In p (gen_main :: gen_functions) ->
  forall cur tr o, run cur p tr o -> ended o -> all_ok tr.
Proof.
  intros p Hin cur tr o Hrun He. eapply noswallow_sound; [exact Hrun | | exact He].
  exact (proj1 (forallb_forall noswallow (gen_main :: gen_functions)) c17_code_nothing_swallowed p Hin).
Qed.

(* the main block: in every execution, whatever fails and wherever, a density job (the only writer of result files) starts
   only after preprocessing - which imports and validates both annotations - and the overlap stage have both COMPLETED *)
Theorem c18_code_results_after_validation : forall tr o, run None gen_main tr o -> safe_from (false, false) tr = true.
Proof.
  intros tr o Hrun. assert (Hf : flow gen_main (false, false) = Some (true, true)) by (vm_compute; reflexivity).
  exact (flow_safe _ _ _ _ Hrun Hf).
Qed.

(* C18's "no density result file is produced", for every execution of the main block: if preprocessing - the import and
   validation of the two annotations, the chromosome check - fails, then no density job (the only writer of result files) starts,
   neither before nor after, and the block does not end normally: the run ends with the exception, i.e. a non-zero exit status.
   (The main block calls preprocessing at most once - calls_bound_sound - so a failed call is never followed by a successful one.) *)
Theorem c18_code_refused_pair_no_density_job : forall tr o, run None gen_main tr o -> In (SPre, false) tr ->
  (forall ok, ~ In (SMerge, ok) tr) /\ ~ ended o.
Proof.
  intros tr o Hrun Hfail. split.
  - assert (Hb : calls_bound SPre gen_main = Some 1) by (vm_compute; reflexivity).
    pose proof (calls_bound_sound SPre _ _ _ _ Hrun 1 Hb) as Hc.
    apply (no_merge_without_pre tr false (c18_code_results_after_validation tr o Hrun)).
    intro Hok. pose proof (count_two SPre tr Hfail Hok). apply (Nat.lt_irrefl 1). apply (Nat.lt_le_trans _ 2); [constructor | eapply Nat.le_trans; eassumption].
  - intro He. pose proof (c17_code_failure_is_reported gen_main (or_introl eq_refl) None tr o Hrun He) as Hall.
    unfold all_ok in Hall. rewrite Forall_forall in Hall. specialize (Hall _ Hfail). discriminate Hall.
Qed.

(* not vacuous: the main block contains the density job, and on its normal path both validating stages have certainly completed *)
Example c17_code_main_runs_the_stages :
  mentions_merge gen_main = true /\ flow gen_main (false, false) = Some (true, true) /\
  (* a block that started the density jobs first would be refused by the criterion *)
  flow (PSeq (PCall SMerge) gen_main) (false, false) = None /\
  (* and so would a handler that logs a failure and carries on *)
  noswallow (PTry (PCall SPre) [(CExc, PCall (SAux 0))] PSkip PSkip) = false.
Proof. vm_compute. repeat split. Qed.

Print Assumptions c17_code_nothing_swallowed.
Print Assumptions c17_code_failure_is_reported.
Print Assumptions c18_code_results_after_validation.
Print Assumptions c18_code_refused_pair_no_density_job.
