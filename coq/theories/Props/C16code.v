(* C16 about the code: DensityData._pair_by_chromosome as translated from /repo on every run (Gen/GenPair.v), and the
   two directory-level constructors' use of its result.  [pick] is the order in which Python iterates a set; the only
   thing assumed of it is that a one-element set yields its element. *)
From Coq Require Import List Bool Arith NArith.
From TEV Require Import Model.Reader Model.Pair Proofs.ReaderP Proofs.PairP Gen.GenPair.
Import ListNotations.

Section C16code.
Variable pick : pset -> N.
Hypothesis pick_single : forall x, pick [x] = x.

(* the translated function is the specification, for every list of result files (each with any stored identifiers,
   none, one, several, repeated) and every list of GeneData chromosomes *)
Theorem c16_code_is_spec : forall h5s gds, gen_pair_by_chromosome pick h5s gds = pair_spec h5s gds.
Proof. exact (gen_pair_ok pick pick_single). Qed.

(* when it returns: one pair per result file, in file order; the file of a pair stores one chromosome identifier (as
   often as it likes) and nothing else, and the GeneData of the pair is the one of exactly that chromosome; no two
   GeneData share a chromosome *)
Theorem c16_code_paired : forall h5s gds ps, gen_pair_by_chromosome pick h5s gds = Some ps ->
  NoDup gds /\ map fst ps = seq 0 (length h5s) /\
  Forall2 (fun stored p => exists c, stored <> [] /\ (forall x, In x stored -> x = c) /\ nth_error gds (snd p) = Some c) h5s ps.
Proof.
  intros h5s gds ps H. rewrite c16_code_is_spec in H. unfold pair_spec in H.
  destruct (has_dupN gds) eqn:Ed; [discriminate|]. split; [apply has_dupN_false; exact Ed|].
  destruct (pair_go_sound gds h5s 0 ps H) as [H1 H2]. split; [exact H1|].
  clear H H1. induction H2 as [|stored p fs qs [c [Hc Hn]] _ IH]; constructor; [|exact IH].
  exists c. destruct (nodupN_single _ _ Hc) as [Hne Hall]. split; [exact Hne|]. split; [exact Hall | exact Hn].
Qed.

(* any mismatch is an error: two GeneData of one chromosome, or a file that stores no identifier, several different
   ones, or one that is no GeneData's - wherever in the list that file stands *)
Theorem c16_code_mismatch_is_error : forall h5s gds,
  (has_dupN gds = true \/
   exists stored, In stored h5s /\ (stored = [] \/ (exists x y, In x stored /\ In y stored /\ x <> y) \/ exists x, In x stored /\ ~ In x gds)) ->
  gen_pair_by_chromosome pick h5s gds = None.
Proof.
  intros h5s gds H. rewrite c16_code_is_spec. unfold pair_spec. destruct H as [H|[stored [Hs Hbad]]].
  - rewrite H. reflexivity.
  - destruct (has_dupN gds); [reflexivity|]. apply pair_go_reject. exists stored. split; [exact Hs|].
    intros c Hc. destruct (nodupN_single _ _ Hc) as [Hne Hall]. destruct Hbad as [Hb|[[x [y [Hx [Hy Hxy]]]]|[x [Hx Hn]]]].
    + contradiction.
    + exfalso. apply Hxy. rewrite (Hall x Hx), (Hall y Hy). reflexivity.
    + rewrite <- (Hall x Hx). exact Hn.
Qed.

(* and it accepts every directory in which each file stores the chromosome of one of the (distinct) GeneData *)
Theorem c16_code_accepts : forall h5s gds, NoDup gds ->
  (forall stored, In stored h5s -> exists c, stored <> [] /\ (forall x, In x stored -> x = c) /\ In c gds) ->
  exists ps, gen_pair_by_chromosome pick h5s gds = Some ps.
Proof.
  intros h5s gds ND H. rewrite c16_code_is_spec. unfold pair_spec.
  apply has_dupN_false in ND. rewrite ND. apply pair_go_complete.
  intros stored Hs. destruct (H stored Hs) as [c [Hne [Hall Hc]]]. exists c. split; [|exact Hc].
  apply nodupN_single_conv; assumption.
Qed.
End C16code.

(* both directory constructors build the object of a pair from that pair's own result file and GeneData, in that order; the reader
   example of the repository builds its readers through one of them and in no other way *)
Theorem c16_code_constructed : forall ps, gen_dir_constructed ps = ps /\ gen_regex_constructed ps = ps /\ gen_example_constructed ps = ps.
Proof.
  intros ps. assert (H : gen_dir_constructed ps = ps /\ gen_regex_constructed ps = ps).
  { unfold gen_dir_constructed, gen_regex_constructed. split.
    - rewrite <- (map_id ps) at 2. apply map_ext. intros [a b]. reflexivity.
    - rewrite <- (map_id ps) at 2. apply map_ext. intros [a b]. reflexivity. }
  destruct H as [H1 H2]. split; [exact H1|]. split; [exact H2|]. unfold gen_example_constructed; first [exact H2 | exact H1].
Qed.

(* non-vacuity, and the two inputs the seeded changes of this function got wrong: a file without GeneData that is not the
   first of the directory; a file storing two chromosomes next to ordinary files *)
Example c16_code_example :
  let pick := fun s : pset => hd 0%N s in
  gen_pair_by_chromosome pick [[10]; [1; 1]; [2]]%N [2; 10; 1]%N = Some [(0, 1); (1, 2); (2, 0)]
  /\ gen_pair_by_chromosome pick [[1]; [2]; [3]]%N [1; 2; 4]%N = None
  /\ gen_pair_by_chromosome pick [[1; 2]; [2]]%N [1; 2]%N = None
  /\ gen_pair_by_chromosome pick [[1]; []]%N [1; 2]%N = None
  /\ gen_pair_by_chromosome pick [[1]]%N [1; 2; 1]%N = None.
Proof. vm_compute. repeat split. Qed.

Print Assumptions c16_code_is_spec.
Print Assumptions c16_code_paired.
Print Assumptions c16_code_mismatch_is_error.
Print Assumptions c16_code_accepts.
Print Assumptions c16_code_constructed.
