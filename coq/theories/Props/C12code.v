(* C12 / C17, the writers, stated about the code: the functions that write the reused intermediates - ReviseAnno._write
   (revised annotation and its three pass files), GeneData.write, TransposonData.write (per-chromosome caches),
   _calculate_overlap_job (overlap file) and the error path of _process_overlap_job - as translated from the current
   /repo sources into lists of file actions (Gen/GenWriters.v).  This is the assumption "every write is atomic" of
   Model/Cache.v, for every crash point of every writer. *)
From Coq Require Import List Bool Arith.
From TEV Require Import Model.Writers Gen.GenWriters Proofs.WritersP.
Import ListNotations.

Definition writers : list (list wact) := [gen_ReviseAnno_write; gen_GeneData_write; gen_TransposonData_write; gen_calculate_overlap_job].

(* killed after any number of elementary steps, a writer leaves under the final name what was there before or the complete
   new content - never a partial file; when it completes, the new content is in place and no temporary file is left *)
Theorem c12_code_writers_atomic : forall acts, In acts writers ->
  forall f0, start_ok f0 ->
  (forall k, final_ok f0 (crash_state acts k f0) = true) /\
  f_final (run_steps (steps_of acts) f0) = New /\ f_tmp (run_steps (steps_of acts) f0) = Absent.
Proof.
  intros acts Hin. apply atomic_writer_sound.
  unfold writers in Hin. cbn [In] in Hin. destruct Hin as [<-|[<-|[<-|[<-|[]]]]]; vm_compute; reflexivity.
Qed.

(* an exception at any point of the overlap calculation: the partial file is removed, the final name holds what it held
   (or the complete new file), and the exception is raised again so that the run fails *)
Theorem c17_code_overlap_error_path :
  In Reraise gen_process_overlap_job_on_error /\
  forall f0 k, start_ok f0 ->
    let f := run_steps (steps_of gen_process_overlap_job_on_error) (crash_state gen_calculate_overlap_job k f0) in
    final_ok f0 f = true /\ f_tmp f = Absent.
Proof. apply error_path_sound. vm_compute. reflexivity. Qed.

(* the writers as they were before the repairs (written in place under the final name) fail the same check *)
Example c12_code_in_place_writer_refuted : atomic_writer [WriteFile Final] = false.
Proof. vm_compute. reflexivity. Qed.

Print Assumptions c12_code_writers_atomic.
Print Assumptions c17_code_overlap_error_path.
