(* C10 - Results are deterministic and independent of how the work is parallelised. *)
From Coq Require Import ZArith NArith List Bool Permutation.
From TEV Require Import Model.Sched Proofs.SchedP Model.Pipeline Spec.Density Proofs.NameSort Proofs.RunP Proofs.C01P.
Import ListNotations.

(* one job per chromosome, each a sequence of steps on its own result path: any two interleavings of the
   same jobs (any worker count, single-process mode, any OS schedule) leave the same files *)
Theorem c10_jobs_commute : forall (content : Type) (l l' : list (fstep content)) (fs : fsys content),
  (forall p, proj content p l = proj content p l') -> forall p, exec content l fs p = exec content l' fs p.
Proof. exact jobs_commute. Qed.

Theorem c10_job_local : forall (content : Type) (l : list (fstep content)) (fs : fsys content) (p : N),
  (forall st, In st l -> fst st <> p) -> exec content l fs p = fs p.
Proof. exact job_local. Qed.

(* inside a job the six summation tasks are applied in a shuffled order; each assigns its own cells, so
   every order gives the same arrays (independence of the interpreter's random state) *)
Theorem c10_tasks_perm : forall (val : Type) (ts ts' : list (task val)) (a : arrays val),
  disjoint_tasks val ts -> Permutation ts ts' -> forall k, run_tasks val ts a k = run_tasks val ts' a k.
Proof. exact tasks_perm. Qed.

(* the name axes are sorted sets: independent of set-iteration order (hash seed) and multiplicity *)
Theorem c10_names_perm : forall l l', Permutation l l' -> nsortu l = nsortu l'.
Proof. exact nsortu_perm. Qed.
Theorem c10_names_ext : forall l l', (forall y, In y l <-> In y l') -> nsortu l = nsortu l'.
Proof. exact nsortu_ext. Qed.

(* the run always completes on a well-formed input *)
Theorem c10_total : forall rS rO rT first delta last genes tes,
  delta <> 0%Z -> NoDup (map g_name genes) -> Forall wf_gene genes ->
  (forall c, In c (map g_chr genes) <-> In c (map t_chr tes)) ->
  exists fs, run rS rO rT first delta last genes tes = inr fs.
Proof. exact run_total. Qed.

Print Assumptions c10_jobs_commute.
Print Assumptions c10_job_local.
Print Assumptions c10_tasks_perm.
Print Assumptions c10_names_perm.
Print Assumptions c10_total.
