(* C02 - Revised annotation keeps each group's coverage and removes its self-overlap. *)
From Coq Require Import ZArith NArith List Bool Permutation.
From TEV Require Import Base.Intervals Model.Kernel Model.Revise Model.Pipeline Spec.Density Proofs.Refine Proofs.C01P Proofs.C02P.
Import ListNotations. Open Scope Z_scope.

(* rev_group tes c lv n: the revised elements of group n (an order, a superfamily, or
   Total_TE_Density = all TEs together) on chromosome c; input_group: the group's input TEs. *)
Theorem c02_cover : forall rS rO rT tes c lv n p,
  Forall wf_te tes -> names_ok rS rO rT tes -> n <> bookkeeping rS rO lv ->
  covered (rev_group rS rO rT tes c lv n) p = covered (input_group rT tes c lv n) p.
Proof. exact cover. Qed.

Theorem c02_disjoint : forall rS rO rT tes c lv n,
  Forall wf_te tes -> names_ok rS rO rT tes -> n <> bookkeeping rS rO lv ->
  separated (rev_group rS rO rT tes c lv n) /\
  forall p, (length (filter (inb p) (rev_group rS rO rT tes c lv n)) <= 1)%nat.
Proof. exact disjoint. Qed.

Theorem c02_presence : forall rS rO rT tes c lv n,
  Forall wf_te tes -> names_ok rS rO rT tes -> n <> bookkeeping rS rO lv ->
  (rev_group rS rO rT tes c lv n = [] <-> input_group rT tes c lv n = []).
Proof. exact presence. Qed.

Theorem c02_chroms : forall rS rO rT tes c,
  Forall wf_te tes -> names_ok rS rO rT tes ->
  (on_chr c (revised rS rO rT tes) = [] <-> on_chr c tes = []).
Proof. exact chroms. Qed.

Theorem c02_length : forall rS rO rT tes c lv n,
  Forall wf_te tes -> names_ok rS rO rT tes -> n <> bookkeeping rS rO lv ->
  Forall (fun i => 1 <= te_length (fst i) (snd i)) (rev_group rS rO rT tes c lv n).
Proof. exact lengths. Qed.

Theorem c02_order_free : forall rS rO rT tes tes' c lv n p,
  Forall wf_te tes -> names_ok rS rO rT tes -> n <> bookkeeping rS rO lv -> Permutation tes tes' ->
  covered (rev_group rS rO rT tes c lv n) p = covered (rev_group rS rO rT tes' c lv n) p.
Proof. exact order_free. Qed.

(* non-vacuity: chain + nested + duplicate + abutting elements, rows not in start order *)
Definition ex_tes := [mkTE 1 800 900 5 7; mkTE 1 1600 1700 5 7; mkTE 1 100 200 5 7; mkTE 1 150 260 5 7;
                      mkTE 1 120 130 5 7; mkTE 1 100 200 5 7; mkTE 1 261 270 5 7]%N.
Example c02_nonvacuous : rev_group 2 3 4 ex_tes 1 LSup 7%N = [(100, 260); (261, 270); (800, 900); (1600, 1700)].
Proof. vm_compute. reflexivity. Qed.

Print Assumptions c02_cover.
Print Assumptions c02_disjoint.
Print Assumptions c02_presence.
Print Assumptions c02_chroms.
Print Assumptions c02_length.
Print Assumptions c02_order_free.
