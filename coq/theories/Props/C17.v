(* C17 - A failed computation is reported and cannot be mistaken for a result.
   Model: Model/Cache.v.  A step that raises (I/O error on create / write / close of an intermediate,
   exception in a worker) ends the run with the writes completed so far: every writer is atomic and a
   failed overlap job removes its partial file, so the disk after the failed run is a [crash] disk.
   That the exception reaches the exit status (first sentence of C17) is NOT a theorem: it is the
   modelling assumption the fault launcher checks on the real command line on every run. *)
From Coq Require Import List Bool Arith.
From TEV Require Import Model.Cache Proofs.CacheP.
Import ListNotations.

(* re-running after the fault has cleared: the outcome of a clean run, or an explicit error *)
Theorem c17_rerun : forall nm h g t w reset revise ti ti2 kR k j,
  let s := history true h (empty_disk g t w) in
  let o := result nm (run true reset revise ti s) j in
  let o' := result nm (run true reset revise ti2 (crash true reset revise ti kR k s)) j in
  o' = o \/ is_err o' = true.
Proof. intros. apply crash_safe. apply reachable_good. apply good_empty. Qed.

(* any number of failed runs in a row (pairs of faults and more), each failing anywhere: a later
   success has exactly the numbers of a clean run of the same command *)
Theorem c17_faults : forall nm s reset revise ti j (fs : list ((nat -> ties) * bool * (nat -> nat))), good s ->
  let s' := fold_left (fun x f => crash true reset revise (fst (fst f)) (snd (fst f)) (snd f) x) fs s in
  result nm (run true reset revise ti s') j = Ok (gv s) (target revise s) (gv s) (target revise s) (wv s) \/
  result nm (run true reset revise ti s') j = ErrW.
Proof. exact faults_then_run. Qed.

Definition nt (_ : nat) := no_ties.
Definition k2 (_ : nat) := 2.
(* non-vacuity: the overlap job of chromosome 0 fails after both caches were rewritten *)
Example c17_nonvacuous :
  let s := history true [ORun false false nt; OEditT 2] (empty_disk 1 1 1) in
  let s' := crash true true true nt true k2 s in
  OV (chs s' 0) = Some (1, 1, 1) /\ oFG (chs s' 0) = false /\
  result (fun x => x) (run true true true nt s') 0 = Ok 1 2 1 2 1.
Proof. vm_compute. repeat split; reflexivity. Qed.

Print Assumptions c17_rerun.
Print Assumptions c17_faults.
