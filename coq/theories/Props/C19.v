(* C19 - Re-opening a density store validates it against the expected layout. *)
From Coq Require Import List Bool Arith ZArith NArith.
From TEV Require Import Model.Store2 Proofs.Store2P.
Import ListNotations.

(* opening the store on a group that holds data succeeds iff the stored gene names, TE names and
   windows equal the expected ones -- and, success or failure, leaves the stored data as it was *)
Theorem c19_accept_iff_and_unchanged : forall c g, complete g ->
  (fst (open c g) = None <-> same_labels c g) /\ snd (open c g) = g.
Proof. exact open_complete. Qed.

(* a length mismatch raises the type error, a content / order mismatch the value error *)
Theorem c19_error_kind : forall c g e, complete g -> fst (open c g) = Some e ->
  match s_genes g, s_tes g, s_windows g with
  | Some ge, Some te, Some wi =>
      if negb (Nat.eqb (length ge) (length (c_genes c))) then e = TypeErr
      else if negb (eqbN ge (c_genes c)) then e = ValueErr
      else if negb (Nat.eqb (length te) (length (c_tes c))) then e = TypeErr
      else if negb (eqbN te (c_tes c)) then e = ValueErr
      else if negb (Nat.eqb (length wi) (length (c_windows c))) then e = TypeErr
      else e = ValueErr
  | _, _, _ => False
  end.
Proof. exact open_complete_error. Qed.

(* histories over several groups of one file: any sequence of (re-)opens, with equal or differing
   configurations, exposes previously written densities and bitmap unchanged ... *)
Theorem c19_opens_preserve : forall ops f p, Inv f -> Forall good_op ops -> forallb is_open ops = true ->
  complete (f p) -> run ops f p = f p.
Proof. exact opens_preserve. Qed.

(* ... and after it a re-open is accepted iff its labels equal the stored ones *)
Theorem c19_reopen_accept_iff : forall ops f p c, Inv f -> Forall good_op ops -> forallb is_open ops = true ->
  complete (f p) -> (fst (open c (run ops f p)) = None <-> same_labels c (f p)).
Proof. exact reopen_accept_iff. Qed.

(* every group reachable by opens (with non-empty identifiers) and writes is absent or holds complete data *)
Theorem c19_reachable : forall ops f, Inv f -> Forall good_op ops -> Inv (run ops f).
Proof. intros ops f. exact (inv_run ops f). Qed.

(* limit of the domain, by computation: a stored EMPTY name makes the store look uninitialised and the
   expected labels overwrite it (identifiers are non-empty strings, C14) *)
Example c19_empty_name_note :
  fst (open (mkC [5; 6]%N [7]%N [100]%Z) (mkGp (Some [0; 9]%N) (Some [7]%N) (Some [100]%Z) (Some (3, (1, 1, 2))))) = None.
Proof. vm_compute. reflexivity. Qed.

(* non-vacuity: first open, write, a refused and an accepted re-open on a two-group file *)
Example c19_nonvacuous :
  let c := mkC [5; 6]%N [7; 8]%N [100; 200]%Z in
  flat_history [OOpen 0 c; OOpen 1 c; OWrite 0 4; OOpen 0 (mkC [6; 5]%N [7; 8]%N [100; 200]%Z);
                OOpen 0 (mkC [5; 6]%N [7; 8]%N [100]%Z); OOpen 0 c] [0; 1]%N = [0; 0; 2; 1; 0; -7; 4; 0]%Z.
Proof. vm_compute. reflexivity. Qed.

Print Assumptions c19_accept_iff_and_unchanged.
Print Assumptions c19_error_kind.
Print Assumptions c19_opens_preserve.
Print Assumptions c19_reopen_accept_iff.
Print Assumptions c19_reachable.
