(* C03 - Every density of a real TE group is a finite number in [0, 1]. *)
From Coq Require Import ZArith NArith List Bool.
From TEV Require Import Base.Intervals Base.Count Model.Pipeline Spec.Density Proofs.Refine Proofs.C01P Proofs.C03P.
Import ListNotations. Open Scope Z_scope.

(* a stored cell (N, D) of a real order / superfamily / the total satisfies 0 <= N <= D and 0 < D,
   i.e. the reported quotient N/D is a finite number in [0,1] (float32 rounding is monotone and
   0 and 1 are representable; the rounding itself is outside the model, see DESIGN 9) *)
Theorem c03_range : forall rS rO rT first delta last genes tes fs f lv name sd w gname n d,
  wf_input rS rO rT genes tes -> 0 <= first -> 0 < delta ->
  run rS rO rT first delta last genes tes = inr fs -> In f fs ->
  f_cell f lv name sd w gname = Some (n, d) -> name <> bookkeeping rS rO lv ->
  0 <= n <= d /\ 0 < d.
Proof. exact range. Qed.

(* why the two bookkeeping rows are exempt: S_Revision sums over all superfamily groups *)
Example c03_bookkeeping_exempt :
  exists fs f, run 2 3 4 99 1 99 [mkG 1 10 1000 1500 501 0]%N [mkTE 1 900 999 5 7; mkTE 1 900 999 5 8]%N = inr fs
    /\ In f fs /\ f_cell f LOrd 2%N SL 99 10%N = Some (200, 100).
Proof. eexists. eexists. split; [vm_compute; reflexivity|]. split; [left; reflexivity|vm_compute; reflexivity]. Qed.

(* non-vacuity: a deep pile-up still gives N <= D *)
Example c03_nonvacuous :
  exists fs f, run 2 3 4 99 1 99 [mkG 1 10 1000 1500 501 0]%N
     [mkTE 1 900 999 5 7; mkTE 1 900 999 5 7; mkTE 1 950 1200 5 7; mkTE 1 800 2000 5 7]%N = inr fs
    /\ In f fs /\ f_cell f LOrd 5%N SL 99 10%N = Some (100, 100).
Proof. eexists. eexists. split; [vm_compute; reflexivity|]. split; [left; reflexivity|vm_compute; reflexivity]. Qed.

Print Assumptions c03_range.
