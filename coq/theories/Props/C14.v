(* C14 - Identifiers are opaque text and a first run behaves like a re-run.
   First half over Model/Pipeline.v (names occur only under equality and sorting), second half over
   Model/Cache.v.  Only statements, each closed by [exact]; proofs in Proofs/RenameP.v, Proofs/CacheP.v. *)
From Coq Require Import ZArith NArith List Bool.
From TEV Require Import Base.Intervals Model.Pipeline Spec.Density Proofs.Refine Proofs.C01P Proofs.RenameP
     Model.Cache Proofs.CacheP.
Import ListNotations. Open Scope Z_scope.

(* Renaming chromosomes, genes, orders and superfamilies by ANY injective maps whose images avoid the
   pipeline's reserved labels (numeric-looking, case-differing, non-ASCII names are just other
   values of N here; the order of the names may change arbitrarily) changes no number: each cell of the
   renamed run, looked up by the renamed labels, is the cell of the original run; the gene axis and
   the window axis are the renamed / same ones. *)
Theorem c14_rename : forall rS rO rT pc pg po ps,
  (forall x y, pc x = pc y -> x = y) -> (forall x y, pg x = pg y -> x = y) ->
  (forall x y, po x = po y -> x = y) -> (forall x y, ps x = ps y -> x = y) ->
  (forall x, po x <> rS /\ po x <> rT) -> (forall x, ps x <> rO /\ ps x <> rT) ->
  forall first delta last genes tes fs fs' f f',
  wf_input rS rO rT genes tes -> 0 <= first -> 0 < delta ->
  Pipeline.run rS rO rT first delta last genes tes = inr fs ->
  Pipeline.run rS rO rT first delta last (map (rn_gene pc pg) genes) (map (rn_te pc po ps) tes) = inr fs' ->
  In f fs -> In f' fs' -> f_chr f' = pc (f_chr f) ->
  f_genes f' = map (rn_gene pc pg) (f_genes f) /\ f_windows f' = f_windows f /\
  (forall lv name sd w gname, name <> bookkeeping rS rO lv -> name <> rT ->
     f_cell f' lv (plv po ps lv name) sd w (pg gname) = f_cell f lv name sd w gname) /\
  (forall lv sd w gname, f_cell f' lv rT sd w (pg gname) = f_cell f lv rT sd w gname).
Proof. exact rename_cells. Qed.

(* names are written back verbatim: a renamed group is on an axis iff the group was *)
Theorem c14_verbatim : forall rS rO rT pc pg po ps,
  (forall x y, pc x = pc y -> x = y) ->
  (forall x y, po x = po y -> x = y) -> (forall x y, ps x = ps y -> x = y) ->
  (forall x, po x <> rS /\ po x <> rT) -> (forall x, ps x <> rO /\ ps x <> rT) ->
  forall first delta last genes tes fs fs' f f' lv n,
  wf_input rS rO rT genes tes ->
  Pipeline.run rS rO rT first delta last genes tes = inr fs ->
  Pipeline.run rS rO rT first delta last (map (rn_gene pc pg) genes) (map (rn_te pc po ps) tes) = inr fs' ->
  In f fs -> In f' fs' -> f_chr f' = pc (f_chr f) -> n <> bookkeeping rS rO lv -> n <> rT ->
  (In (plv po ps lv n) (f_names f' lv) <-> In n (f_names f lv)).
Proof. exact rename_axes. Qed.

(* success or failure does not depend on the naming *)
Theorem c14_same_outcome : forall rS rO rT pc pg po ps,
  (forall x y, pc x = pc y -> x = y) -> (forall x y, pg x = pg y -> x = y) ->
  forall first delta last genes tes,
  (exists fs, Pipeline.run rS rO rT first delta last genes tes = inr fs) <->
  (exists fs', Pipeline.run rS rO rT first delta last (map (rn_gene pc pg) genes) (map (rn_te pc po ps) tes) = inr fs').
Proof. exact rename_runs. Qed.

(* second half: the first run in an empty directory succeeds with the numbers of the inputs, and an
   identical re-run (any number of them, by induction through c13_rerun) reproduces it *)
Theorem c14_first_run : forall nm reset revise ti g t w j,
  result nm (Cache.run true reset revise ti (empty_disk g t w)) j = Ok g t g t w.
Proof. exact first_run_ok. Qed.
Theorem c14_first_vs_rerun : forall nm reset revise ti ti2 g t w j,
  result nm (Cache.run true reset revise ti2 (Cache.run true reset revise ti (empty_disk g t w))) j
  = result nm (Cache.run true reset revise ti (empty_disk g t w)) j.
Proof. intros. apply rerun_same. apply good_empty. Qed.

(* non-vacuity: a renaming that reverses the order of two chromosomes and makes a gene name collide in
   order with a chromosome name *)
Definition swap12 (x : N) : N := if (x =? 1)%N then 2%N else if (x =? 2)%N then 1%N else x.
Example c14_nonvacuous :
  let genes := [mkG 1 10 300 500 201 0; mkG 2 11 1000 1500 501 1]%N in
  let tes := [mkTE 1 100 350 5 7; mkTE 2 900 1100 5 7; mkTE 2 1400 1700 6 8]%N in
  exists fs fs', Pipeline.run 20 21 22 100 100 200 genes tes = inr fs /\
    Pipeline.run 20 21 22 100 100 200 (map (rn_gene swap12 (fun x => x + 100)%N) genes) (map (rn_te swap12 (fun x => x + 1)%N (fun x => x + 1)%N) tes) = inr fs' /\
    map f_chr fs = [1; 2]%N /\ map f_chr fs' = [1; 2]%N /\
    (forall f f', nth_error fs 0 = Some f -> nth_error fs' 1 = Some f' ->
       f_cell f LOrd 5%N SL 200 10%N = Some (200, 201) /\ f_cell f' LOrd 6%N SL 200 110%N = Some (200, 201)).
Proof.
  eexists. eexists. split; [vm_compute; reflexivity|]. split; [vm_compute; reflexivity|].
  split; [reflexivity|]. split; [reflexivity|]. intros f f' Hf Hf'. inversion Hf; inversion Hf'; subst. split; vm_compute; reflexivity.
Qed.

Print Assumptions c14_rename.
Print Assumptions c14_verbatim.
Print Assumptions c14_same_outcome.
Print Assumptions c14_first_run.
Print Assumptions c14_first_vs_rerun.
