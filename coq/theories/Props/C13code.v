(* C13, the guards, stated about the code: MergeData._validate_chromosome / _validate_windows / _validate_gene_names as
   translated from the current /repo sources (Gen/GenGuards.v; the translator also checks that MergeData.sum calls the
   three of them on the overlap data before it starts summing).  An overlap file is merged only if its chromosome id, its
   window list and its gene-name list EQUAL those of the request - the ErrW / ErrG outcomes of Model/Cache.v. *)
From Coq Require Import ZArith NArith List Bool.
From TEV Require Import Model.Guards Gen.GenGuards Proofs.GuardsP.
Import ListNotations.

Theorem c13_code_windows_guard : forall mine theirs,
  gen_validate_windows mine theirs = true <-> exists ws, mine = Some ws /\ theirs = Some ws.
Proof. exact gen_validate_windows_ok. Qed.

Theorem c13_code_gene_names_guard : forall mine theirs,
  gen_validate_gene_names mine theirs = true <-> exists gs, mine = Some gs /\ theirs = Some gs.
Proof. exact gen_validate_gene_names_ok. Qed.

Theorem c13_code_chromosome_guard : forall mine theirs,
  gen_validate_chromosome mine theirs = true <-> exists c, mine = Some c /\ theirs = Some c.
Proof. exact gen_validate_chromosome_ok. Qed.

(* non-vacuity: a proper sub-list, a proper super-list and a re-ordering of the request's windows are all refused *)
Example c13_code_guard_example :
  gen_validate_windows (Some [500; 1000; 1500]%Z) (Some [500; 1000]%Z) = false /\
  gen_validate_windows (Some [500; 1000]%Z) (Some [500; 1000; 1500]%Z) = false /\
  gen_validate_windows (Some [500; 1000]%Z) (Some [1000; 500]%Z) = false /\
  gen_validate_windows (Some [500; 1000]%Z) (Some [500; 1000]%Z) = true.
Proof. vm_compute. repeat split. Qed.

Print Assumptions c13_code_windows_guard.
Print Assumptions c13_code_gene_names_guard.
Print Assumptions c13_code_chromosome_guard.
