(* C05 - Chromosomes are processed independently and paired by name. *)
From Coq Require Import ZArith NArith List Bool Permutation.
From TEV Require Import Base.Intervals Model.Pipeline Spec.Density Proofs.Refine Proofs.RunP Proofs.C01P Proofs.LocalP.
Import ListNotations. Open Scope Z_scope.

(* two inputs that agree (as multisets of rows) on chromosome c give the same labelled cells for c,
   whatever is added, removed or altered on other chromosomes *)
Theorem c05_local : forall rS rO rT first delta last genes tes genes' tes' fs fs' f f',
  wf_input rS rO rT genes tes -> wf_input rS rO rT genes' tes' -> 0 <= first -> 0 < delta ->
  run rS rO rT first delta last genes tes = inr fs -> run rS rO rT first delta last genes' tes' = inr fs' ->
  In f fs -> In f' fs' -> f_chr f' = f_chr f ->
  Permutation (on_chr (f_chr f) tes) (on_chr (f_chr f) tes') ->
  Permutation (filter (fun g => (g_chr g =? f_chr f)%N) genes) (filter (fun g => (g_chr g =? f_chr f)%N) genes') ->
  Permutation (f_genes f) (f_genes f') /\
  forall lv name sd w gname, name <> bookkeeping rS rO lv ->
    f_cell f lv name sd w gname = f_cell f' lv name sd w gname.
Proof. exact file_local. Qed.

(* each file holds exactly the genes of its chromosome *)
Theorem c05_genes : forall rS rO rT first delta last genes tes fs f,
  run rS rO rT first delta last genes tes = inr fs -> In f fs ->
  forall g, In g (f_genes f) <-> In g genes /\ g_chr g = f_chr f.
Proof.
  intros rS rO rT first delta last genes tes fs f Hr Hin g.
  destruct (run_file _ _ _ _ _ _ _ _ _ _ Hr Hin) as [ws [_ [_ [Hgen _]]]]. rewrite Hgen. apply genes_on_in.
Qed.

(* one file per chromosome *)
Theorem c05_files : forall rS rO rT first delta last genes tes fs,
  run rS rO rT first delta last genes tes = inr fs -> map f_chr fs = nsortu (map g_chr genes).
Proof. exact run_chroms. Qed.

(* differing chromosome sets are refused; equal sets are accepted (c01_total) *)
Theorem c05_reject : forall rS rO rT first delta last genes tes ws,
  windows_of first delta last = Some ws -> NoDup (map g_name genes) -> forallb strand_ok genes = true ->
  ~ (forall c, In c (map g_chr genes) <-> In c (map t_chr tes)) ->
  run rS rO rT first delta last genes tes = inl ChromMismatch.
Proof. exact reject_chroms. Qed.

Example c05_nonvacuous :
  run 2 3 4 300 300 600 [mkG 1 10 1000 1500 501 0; mkG 5 11 10 20 11 0]%N [mkTE 1 800 900 6 7; mkTE 8 1 2 6 7]%N = inl ChromMismatch.
Proof. vm_compute. reflexivity. Qed.

Print Assumptions c05_local.
Print Assumptions c05_genes.
Print Assumptions c05_files.
Print Assumptions c05_reject.
