(* C09 about the code: what the constructor of DensityData, as translated from the current /repo sources (Gen/GenReader.v),
   serves on its first load of a result file - the strand-aware view of the raw file - and that it leaves the raw file alone. *)
From Coq Require Import List Bool Arith NArith ZArith.
From TEV Require Import Model.Reader Model.ReaderFS Gen.GenReader Proofs.ReaderP Proofs.ReaderCodeP.
Import ListNotations.

(* first load (no trusted copy yet) of a file with unique gene names, for an annotation with unique gene names whose
   minus-strand genes are all in the file: the values served are the raw columns with left and right exchanged exactly for
   the minus-strand genes (every group and window, both TE levels: a column stands for all of them), same genes in the same
   order; the raw file is unchanged and the copy now trusted is that view *)
Theorem c09_code_view : forall genes d, d_final d = None ->
  NoDup (map fst (d_raw d)) -> NoDup (map fst genes) ->
  (forall n, In n (minus_names genes) -> In n (map fst (d_raw d))) ->
  let view := map (fun nc => (fst nc, view_col genes (fst nc) (snd nc))) (d_raw d) in
  snd (gen_init true genes d) = Some view /\
  d_raw (fst (gen_init true genes d)) = d_raw d /\
  d_final (fst (gen_init true genes d)) = Some view.
Proof.
  intros genes d Hf Hraw Hg Hin view.
  destruct (swapped_copy_defined genes (d_raw d) Hin) as [v Hv].
  pose proof (swapped_copy_spec genes (d_raw d) v Hraw Hg Hv) as Hspec. fold view in Hspec. subst v.
  destruct (gen_init_ok genes d) as [Hfiles Hserved].
  destruct (gen_init_final genes d Hf) as [Hr Hfin].
  unfold load in Hserved, Hfiles. rewrite Hf, Hv in Hserved, Hfiles. cbn [snd fst] in Hserved, Hfiles.
  split; [exact Hserved|]. split; [exact Hr|].
  destruct Hfiles as [_ Hff]. cbn [d_final] in Hff. exact Hff.
Qed.

(* plus-strand and unstranded genes, and every intragenic value, are served as stored; minus-strand genes exchanged *)
Theorem c09_code_columns : forall genes n c,
  (memN n (minus_names genes) = false -> view_col genes n c = c) /\
  (memN n (minus_names genes) = true -> c_left (view_col genes n c) = c_right c /\ c_right (view_col genes n c) = c_left c) /\
  c_intra (view_col genes n c) = c_intra c.
Proof. intros genes n c. split; [apply view_plus|]. split; [apply view_minus | apply view_intra]. Qed.

Example c09_code_example :
  let genes := [(3, 1); (1, 0); (2, 2)]%N in
  let raw := [(1%N, mkCol 10 11 12); (2%N, mkCol 20 21 22); (3%N, mkCol 30 31 32)] in
  snd (gen_init true genes (mkD raw None None)) = Some [(1%N, mkCol 10 11 12); (2%N, mkCol 20 21 22); (3%N, mkCol 31 30 32)].
Proof. vm_compute. reflexivity. Qed.

Print Assumptions c09_code_view.
Print Assumptions c09_code_columns.
