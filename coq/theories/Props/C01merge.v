(* C01 / C07 / C08, stated about the code: MergeData.sum after its guards - _process_sum with the three parameter sets of
   _list_sum_input_outputs for each of the two group axes, in whatever order random.shuffle puts them - as translated
   from the current /repo sources (Gen/GenMerge.v, regenerated on every run), turns overlap arrays that hold the
   labelled rows (Props/C01code.v) into density arrays whose cell (axis, side, group index t, window index j, gene
   index i) is  Pipeline.cell  of the group NAMED group_names[t], the gene NAMED names[i] and the window windows[j]:
   numerator = sum of the overlaps of the TEs of that group, divisor = the region's length.  Nothing outside the
   arrays' shape is assigned. *)
From Coq Require Import ZArith NArith List Bool Lia.
From TEV Require Import Model.Kernel Model.Pipeline Model.OverlapArr Model.MergeArr Gen.Gen Gen.GenEquiv Gen.GenOverlap Gen.GenMerge
     Proofs.NameSort Proofs.OverlapArrP Proofs.MergeArrP Props.C01code.
Import ListNotations.

Lemma gen_process_sum_is_model sa lv mw mn ovn ti tn wh gd ov T acc :
  gen_process_sum sa lv mw mn ovn ti tn wh gd ov T acc = process_sum sa lv mw mn ovn ti tn wh gd ov T acc.
Proof. reflexivity. Qed.

Lemma gen_sa_like windows sd : sa_like windows sd (gen_sa sd windows).
Proof.
  unfold sa_like. destruct sd; cbn [gen_sa gen_sa_left gen_sa_intra gen_sa_right sa_side sa_windows sa_slice_in sa_slice_out sa_div];
    repeat split; intros;
    repeat match goal with w : option _ |- _ => destruct w end; cbn [div_side]; try reflexivity.
  all: try apply gen_divisor_left_ok; try apply gen_divisor_intra_ok; try (rewrite gen_divisor_right_ok; reflexivity).
Qed.

Definition six : list (level * side) := [(LSup, SL); (LSup, SI); (LSup, SR); (LOrd, SL); (LOrd, SI); (LOrd, SR)].

Theorem c01_merge_cells : forall order names windows gd tes ov,
  (forall ls, In ls six -> In ls order) ->            (* every summation is carried out (any order, the shuffle) *)
  NoDup names -> NoDup windows ->
  (* the overlap arrays hold the labelled rows: the conclusion of c01_code_rows *)
  (forall sd i j, (i < length names)%nat -> (match sd with SI => j = 0%nat | _ => (j < length windows)%nat end) ->
     oread (side_arr sd) i j ov = Some (map (ovl_side sd (gd (nth i names 0%N)) (nth j windows 0%Z)) tes)) ->
  exists log,
    (* MergeData's own labels are its configuration's (gen_my_windows, gen_my_gene_names), the overlap file's are the same lists: what the three guards check *)
    gen_sum order windows names names windows gd tes ov = DRunning log /\
    (forall lv sd t i j, (t < length (gen_group_names lv tes))%nat -> (i < length (gen_my_gene_names names))%nat ->
       (match sd with SI => j = 0%nat | _ => (j < length (gen_my_windows windows))%nat end) ->
       dread lv sd t j i log
       = Some (cell tes lv (nth t (gen_group_names lv tes) 0%N) sd (gd (nth i (gen_my_gene_names names) 0%N)) (nth j (gen_my_windows windows) 0%Z))) /\
    (forall lv sd t w g num dv, In (lv, sd, t, w, g, num, dv) log ->
       (t < length (gen_group_names lv tes))%nat /\ (g < length names)%nat /\ (match sd with SI => w = 0%nat | _ => (w < length windows)%nat end)).
Proof.
  intros order names windows gd tes ov Hall Hn Hw Hov.
  exists (all_entries_d names windows gd tes (fun lv => gen_group_names lv tes) order).
  assert (Hrun : gen_sum order windows names names windows gd tes ov
                 = DRunning ([] ++ all_entries_d names windows gd tes (fun lv => gen_group_names lv tes) order)).
  { unfold gen_sum, all_entries_d. apply fold_running. intros [lv sd] a _. cbn [fst snd].
    rewrite gen_process_sum_is_model. unfold gen_my_windows, gen_my_gene_names.
    apply (process_sum_log names windows gd tes ov Hn Hw Hov sd (gen_sa sd windows) lv (gen_group_names lv tes) a).
    - apply gen_sa_like.
    - apply nsortu_nodup. }
  split; [exact Hrun|]. split.
  - intros lv sd t i j Ht Hi Hj. unfold gen_my_gene_names, gen_my_windows in *.
    apply (all_entries_d_read names windows gd tes (fun lv => gen_group_names lv tes) order lv sd t i j); try assumption.
    apply Hall. unfold six. destruct lv, sd; cbn; tauto.
  - intros lv sd t w g num dv Hin.
    exact (all_entries_d_in_range names windows gd tes (fun lv => gen_group_names lv tes) order lv sd t w g num dv Hin).
Qed.

(* the two translated stages together: from the containers to the cells *)
Theorem c01_code_pipeline_cells : forall order names windows gd tes,
  (forall ls, In ls six -> In ls order) ->
  NoDup names -> forallb (fun w => negb (w <? 0)%Z) windows = true -> NoDup windows ->
  exists ov log,
    gen_calculate names (gen_job_gene_names names) windows gd tes = Running ov /\
    gen_sum order windows names (gen_stored_gene_names names) (gen_stored_windows windows) gd tes ov = DRunning log /\
    forall lv sd t i j, (t < length (gen_group_names lv tes))%nat -> (i < length names)%nat ->
       (match sd with SI => j = 0%nat | _ => (j < length windows)%nat end) ->
       dread lv sd t j i log = Some (cell tes lv (nth t (gen_group_names lv tes) 0%N) sd (gd (nth i names 0%N)) (nth j windows 0%Z)).
Proof.
  intros order names windows gd tes Hall Hn Hnn Hw.
  destruct (c01_code_rows names names windows gd tes (known_self names) Hnn Hn Hw) as [ov [Hrun [Hread _]]].
  destruct (c01_merge_cells order names windows gd tes ov Hall Hn Hw Hread) as [log [Hsum [Hcells _]]].
  exists ov, log. split; [exact Hrun|]. split; [exact Hsum|]. exact Hcells.
Qed.

(* non-vacuity: two genes, two windows, three TEs of two orders; the six summations in a shuffled order *)
Example c01_merge_example :
  let gd := fun n => if (n =? 1)%N then mkG 1 1 1000 1999 1000 0 else mkG 1 2 5000 5999 1000 1 in
  let tes := [mkTE 1 900 1100 7 70; mkTE 1 5500 7000 8 80; mkTE 1 1500 1600 7 71] in
  match gen_calculate [1; 2]%N [1; 2]%N [500; 1000]%Z gd tes with
  | Running ov =>
    match gen_sum [(LOrd, SR); (LSup, SI); (LOrd, SL); (LSup, SL); (LOrd, SI); (LSup, SR)] [500; 1000]%Z [1; 2]%N [1; 2]%N [500; 1000]%Z gd tes ov with
    | DRunning log => gen_group_names LOrd tes = [7; 8]%N /\
                      dread LOrd SL 0 0 0 log = Some (100, 501)%Z /\ dread LOrd SI 0 0 0 log = Some (202, 1000)%Z /\
                      dread LOrd SR 1 1 1 log = Some (1001, 1001)%Z /\ dread LSup SI 2 0 1 log = Some (500, 1000)%Z /\
                      dread LOrd SI 0 1 0 log = None
    | DFailed => False end
  | Failed => False end.
Proof. vm_compute. repeat split. Qed.

Print Assumptions c01_merge_cells.
Print Assumptions c01_code_pipeline_cells.
