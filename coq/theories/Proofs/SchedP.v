(* C10: results do not depend on the schedule of the jobs nor on the order of the summation tasks. *)
From Coq Require Import List Bool Arith NArith Permutation.
From TEV Require Import Model.Sched.
Import ListNotations.

(* ---------- (i) ---------- *)
(* what a path holds after any sequence of steps: the steps of THAT path applied in their order *)
Theorem exec_proj (content : Type) (l : list (fstep content)) : forall (fs : fsys content) (p : N),
  exec content l fs p = fold_left (fun c f => f c) (proj content p l) (fs p).
Proof.
  unfold exec, proj. induction l as [|st l IH]; intros fs p; simpl.
  - reflexivity.
  - rewrite IH. rewrite (N.eqb_sym (fst st) p).
    destruct (N.eqb p (fst st)); simpl; reflexivity.
Qed.

(* two schedules that give every path (every job) the same sequence of steps -- i.e. any two interleavings
   of the same jobs, under any partition into workers -- produce the same files *)
Theorem jobs_commute (content : Type) (l l' : list (fstep content)) (fs : fsys content) :
  (forall p, proj content p l = proj content p l') -> forall p, exec content l fs p = exec content l' fs p.
Proof.
  intros H p. rewrite !exec_proj. rewrite H. reflexivity.
Qed.

(* a job never touches another job's file *)
Theorem job_local (content : Type) (l : list (fstep content)) (fs : fsys content) (p : N) :
  (forall st, In st l -> fst st <> p) -> exec content l fs p = fs p.
Proof.
  intros H. rewrite exec_proj.
  assert (E : proj content p l = []).
  { unfold proj. induction l as [|st l IH]; simpl.
    - reflexivity.
    - destruct (N.eqb (fst st) p) eqn:Eb.
      + apply N.eqb_eq in Eb. exfalso. apply (H st); [left; reflexivity | exact Eb].
      + apply IH. intros st' Hin. apply H. right. exact Hin. }
  rewrite E. reflexivity.
Qed.

(* ---------- (ii) ---------- *)
Lemma keyb_eq a b : keyb a b = true <-> a = b.
Proof.
  unfold keyb. destruct a as [a1 a2], b as [b1 b2]. simpl.
  rewrite andb_true_iff, !N.eqb_eq. split.
  - intros [H1 H2]. subst. reflexivity.
  - intros H. inversion H. split; reflexivity.
Qed.

Lemma find_key_in (val : Type) (k : key) (t : task val) kv :
  find (fun kv => keyb k (fst kv)) t = Some kv -> In k (keys_of val t).
Proof.
  intros H. apply find_some in H. destruct H as [Hin Hk].
  apply keyb_eq in Hk. subst k. unfold keys_of. apply in_map. exact Hin.
Qed.

(* the value of a key after a task: the task's assignment if it has one (duplicate-free keys), else unchanged *)
Lemma run_task_spec (val : Type) (t : task val) : forall (a : arrays val) (k : key),
  NoDup (keys_of val t) ->
  run_task val a t k = match find (fun kv => keyb k (fst kv)) t with Some kv => snd kv | None => a k end.
Proof.
  unfold run_task. induction t as [|kv t IH]; intros a k Hnd; simpl.
  - reflexivity.
  - simpl in Hnd. inversion Hnd as [|x xs Hnotin Hnd']; subst.
    rewrite (IH _ _ Hnd'). unfold assign at 1.
    destruct (keyb k (fst kv)) eqn:Ek.
    + destruct (find (fun kv0 => keyb k (fst kv0)) t) eqn:Ef.
      * exfalso. apply find_key_in in Ef. apply keyb_eq in Ek. subst k. apply Hnotin. exact Ef.
      * reflexivity.
    + reflexivity.
Qed.

Lemma run_tasks_concat (val : Type) (ts : list (task val)) : forall (a : arrays val),
  run_tasks val ts a = run_task val a (concat ts).
Proof.
  unfold run_tasks. induction ts as [|t ts IH]; intros a; simpl.
  - reflexivity.
  - rewrite IH. unfold run_task. rewrite fold_left_app. reflexivity.
Qed.

Lemma flat_map_keys_concat (val : Type) (ts : list (task val)) :
  flat_map (keys_of val) ts = keys_of val (concat ts).
Proof.
  unfold keys_of. rewrite flat_map_concat_map, concat_map. reflexivity.
Qed.

Lemma find_perm (val : Type) (k : key) (l l' : list (key * val)) :
  Permutation l l' -> NoDup (map fst l) ->
  find (fun kv => keyb k (fst kv)) l = find (fun kv => keyb k (fst kv)) l'.
Proof.
  induction 1 as [|x l l' HP IH|x y l|l l' l'' HP1 IH1 HP2 IH2]; intros Hnd; simpl.
  - reflexivity.
  - simpl in Hnd. inversion Hnd; subst. rewrite IH by assumption. reflexivity.
  - destruct (keyb k (fst x)) eqn:Ex, (keyb k (fst y)) eqn:Ey; try reflexivity.
    exfalso. apply keyb_eq in Ex. apply keyb_eq in Ey.
    simpl in Hnd. inversion Hnd as [|? ? Hnotin ?]; subst.
    apply Hnotin. left. congruence.
  - rewrite IH1 by assumption. apply IH2.
    eapply Permutation_NoDup; [|exact Hnd]. apply Permutation_map. exact HP1.
Qed.

Lemma perm_concat (A : Type) (ts ts' : list (list A)) :
  Permutation ts ts' -> Permutation (concat ts) (concat ts').
Proof.
  induction 1 as [|x l l' HP IH|x y l|l l' l'' HP1 IH1 HP2 IH2]; simpl.
  - constructor.
  - apply Permutation_app_head. exact IH.
  - rewrite !app_assoc. apply Permutation_app_tail. apply Permutation_app_comm.
  - eapply Permutation_trans; eassumption.
Qed.

(* applying the tasks in any order gives the same arrays, cell by cell *)
Theorem tasks_perm (val : Type) (ts ts' : list (task val)) (a : arrays val) :
  disjoint_tasks val ts -> Permutation ts ts' -> forall k, run_tasks val ts a k = run_tasks val ts' a k.
Proof.
  intros Hd HP k. unfold disjoint_tasks in Hd.
  assert (Hd' : NoDup (flat_map (keys_of val) ts')).
  { rewrite flat_map_keys_concat in *. unfold keys_of in *.
    eapply Permutation_NoDup; [|exact Hd]. apply Permutation_map. apply perm_concat. exact HP. }
  rewrite !run_tasks_concat.
  rewrite flat_map_keys_concat in Hd, Hd'.
  rewrite (run_task_spec val _ a k Hd), (run_task_spec val _ a k Hd').
  rewrite (find_perm val k (concat ts) (concat ts')).
  - reflexivity.
  - apply perm_concat. exact HP.
  - exact Hd.
Qed.
