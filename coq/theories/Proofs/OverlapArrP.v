(* The loop of OverlapWorker.calculate (Model/OverlapArr.v, calc_with) leaves exactly the labelled rows:
   for unique names and windows the log of assignments is all_entries, and reading it at (array, gene index, window
   index) gives the overlaps of that gene and window with every TE, and nothing outside the index ranges is assigned. *)
From Coq Require Import ZArith NArith List Bool Lia Arith.
From TEV Require Import Model.Pipeline Model.OverlapArr.
Import ListNotations.
Local Open Scope nat_scope.

(* ---- index dictionaries *)
Lemma last_index_from_notin i x l cur : ~ In x l -> last_index_from i x l cur = cur.
Proof.
  revert i cur; induction l as [|y r IH]; intros i cur Hn; cbn [last_index_from]; [reflexivity|].
  rewrite IH by (intro; apply Hn; right; assumption).
  destruct (N.eqb_spec x y) as [->|]; [exfalso; apply Hn; left; reflexivity|reflexivity].
Qed.
Lemma last_index_from_at i x pre post cur :
  ~ In x post -> last_index_from i x (pre ++ x :: post) cur = Some (i + length pre).
Proof.
  revert i cur; induction pre as [|y r IH]; intros i cur Hn; cbn [app last_index_from length].
  - rewrite last_index_from_notin by assumption. rewrite N.eqb_refl. f_equal; lia.
  - rewrite IH by assumption. f_equal; lia.
Qed.
Lemma last_index_at x pre post : NoDup (pre ++ x :: post) -> last_index x (pre ++ x :: post) = Some (length pre).
Proof.
  intros Hd. unfold last_index. rewrite last_index_from_at; [reflexivity|].
  apply NoDup_remove_2 in Hd. intro Hi; apply Hd, in_or_app; right; assumption.
Qed.

Lemma last_indexZ_from_notin i x l cur : ~ In x l -> last_indexZ_from i x l cur = cur.
Proof.
  revert i cur; induction l as [|y r IH]; intros i cur Hn; cbn [last_indexZ_from]; [reflexivity|].
  rewrite IH by (intro; apply Hn; right; assumption).
  destruct (Z.eqb_spec x y) as [->|]; [exfalso; apply Hn; left; reflexivity|reflexivity].
Qed.
Lemma last_indexZ_from_at i x pre post cur :
  ~ In x post -> last_indexZ_from i x (pre ++ x :: post) cur = Some (i + length pre).
Proof.
  revert i cur; induction pre as [|y r IH]; intros i cur Hn; cbn [app last_indexZ_from length].
  - rewrite last_indexZ_from_notin by assumption. rewrite Z.eqb_refl. f_equal; lia.
  - rewrite IH by assumption. f_equal; lia.
Qed.
Lemma last_indexZ_at x pre post : NoDup (pre ++ x :: post) -> last_indexZ x (pre ++ x :: post) = Some (length pre).
Proof.
  intros Hd. unfold last_indexZ. rewrite last_indexZ_from_at; [reflexivity|].
  apply NoDup_remove_2 in Hd. intro Hi; apply Hd, in_or_app; right; assumption.
Qed.

(* ---- the two loops produce the entries in order *)
Section Loops.
  Variables (fi : gene -> te -> Z) (fl fr : gene -> te -> Z -> Z) (gd : N -> gene) (tes : list te).

  Definition wentries (gi : nat) (n : N) (jw : nat * Z) : oarrays :=
    [(OLeft, gi, fst jw, map (fun t => fl (gd n) t (snd jw)) tes); (ORight, gi, fst jw, map (fun t => fr (gd n) t (snd jw)) tes)].

  Definition inner (W : list Z) (gi : nat) (n : N) (st_ : ostate) (w : Z) : ostate :=
    match st_ with Failed => Failed | Running b =>
      match last_indexZ w W with None => Failed | Some wi =>
        let b1 := oassign OLeft gi wi (map (fun t => fl (gd n) t w) tes) b in
        let b2 := oassign ORight gi wi (map (fun t => fr (gd n) t w) tes) b1 in
        Running b2 end end.

  Lemma inner_loop W gi n : NoDup W -> forall l pre a, W = pre ++ l ->
    fold_left (inner W gi n) l (Running a) = Running (a ++ flat_map (wentries gi n) (combine (seq (length pre) (length l)) l)).
  Proof.
    intros Hd; induction l as [|w r IH]; intros pre a HW; cbn [fold_left length seq combine flat_map].
    - rewrite app_nil_r; reflexivity.
    - assert (E : last_indexZ w W = Some (length pre)) by (rewrite HW; apply last_indexZ_at; rewrite <- HW; exact Hd).
      unfold inner at 2. rewrite E.
      cbv zeta. unfold oassign. rewrite (IH (pre ++ [w])) by (rewrite <- app_assoc; exact HW).
      rewrite app_length; cbn [length]. replace (length pre + 1) with (S (length pre)) by lia.
      unfold wentries at 2; cbn [fst snd]. rewrite <- !app_assoc. reflexivity.
  Qed.

  Definition outer (Nn : list N) (W : list Z) (st_ : ostate) (n : N) : ostate :=
    match st_ with Failed => Failed | Running a =>
      match last_index n Nn with None => Failed | Some gi =>
        let a1 := oassign OIntra gi 0%nat (map (fun t => fi (gd n) t) tes) a in
        match fold_left (inner W gi n) W (Running a1) with Failed => Failed | Running r => Running r end end end.

  Lemma outer_loop Nn W : NoDup Nn -> NoDup W -> forall l pre a, Nn = pre ++ l ->
    fold_left (outer Nn W) l (Running a)
    = Running (a ++ flat_map (fun ing : nat * N => gene_entries fi fl fr gd tes W (fst ing) (snd ing)) (combine (seq (length pre) (length l)) l)).
  Proof.
    intros Hd HdW; induction l as [|n r IH]; intros pre a HN; cbn [fold_left length seq combine flat_map].
    - rewrite app_nil_r; reflexivity.
    - assert (E : last_index n Nn = Some (length pre)) by (rewrite HN; apply last_index_at; rewrite <- HN; exact Hd).
      unfold outer at 2. rewrite E.
      cbv zeta. rewrite (inner_loop W (length pre) n HdW W [] _ eq_refl). cbn [length].
      rewrite (IH (pre ++ [n])) by (rewrite <- app_assoc; exact HN).
      rewrite app_length; cbn [length]. replace (length pre + 1) with (S (length pre)) by lia.
      unfold gene_entries at 2; cbn [fst snd]. unfold oassign, wentries. rewrite <- !app_assoc. reflexivity.
  Qed.

  Lemma filter_id {A} (p : A -> bool) (l : list A) : forallb p l = true -> filter p l = l.
  Proof.
    induction l as [|x r IH]; cbn [forallb filter]; [reflexivity|].
    intros H; apply andb_prop in H; destruct H as [Hx Hr]. rewrite Hx, IH by assumption. reflexivity.
  Qed.

  (* the whole calculation, for requested names that are known and unique and windows that are non-negative and unique *)
  Theorem calc_log known names windows :
    forallb (fun n => memN n known) names = true -> forallb (fun w => negb (w <? 0)%Z) windows = true ->
    NoDup names -> NoDup windows ->
    calc_with fi fl fr known names windows gd tes = Running (all_entries fi fl fr gd tes names windows).
  Proof.
    intros Hk Hw Hn HdW. unfold calc_with. rewrite (filter_id _ _ Hk), (filter_id _ _ Hw). cbv zeta.
    change (fold_left (outer names windows) names (Running []) = Running (all_entries fi fl fr gd tes names windows)).
    rewrite (outer_loop names windows Hn HdW names [] [] eq_refl). reflexivity.
  Qed.

  (* ---- reading the log *)
  Definition rstep (k : oarr) (g w : nat) (cur : option (list Z)) (e : oentry) : option (list Z) :=
    if okey k g w e then Some (snd e) else cur.
  Lemma oread_app k g w a b : fold_left (rstep k g w) (a ++ b) None = fold_left (rstep k g w) b (fold_left (rstep k g w) a None).
  Proof. apply fold_left_app. Qed.

  Lemma oarr_eqb_refl k : oarr_eqb k k = true.  Proof. destruct k; reflexivity. Qed.

  (* entries of another gene index leave the reading alone *)
  Lemma wentries_other k g w gi n l cur : gi <> g ->
    fold_left (rstep k g w) (flat_map (wentries gi n) l) cur = cur.
  Proof.
    intros Hne; revert cur; induction l as [|jw r IH]; intros cur; cbn [flat_map]; [reflexivity|].
    rewrite fold_left_app, IH. unfold wentries; cbn [fold_left]. unfold rstep, okey.
    assert (E : Nat.eqb g gi = false) by (apply Nat.eqb_neq; congruence).
    rewrite E, !andb_false_r. reflexivity.
  Qed.
  Lemma gene_entries_other k g w W gi n cur : gi <> g ->
    fold_left (rstep k g w) (gene_entries fi fl fr gd tes W gi n) cur = cur.
  Proof.
    intros Hne. unfold gene_entries. cbn [fold_left].
    change (flat_map _ (combine (seq 0 (length W)) W)) with (flat_map (wentries gi n) (combine (seq 0 (length W)) W)).
    rewrite wentries_other by assumption. unfold rstep, okey.
    assert (E : Nat.eqb g gi = false) by (apply Nat.eqb_neq; congruence).
    rewrite E, !andb_false_r. reflexivity.
  Qed.

  (* left / right rows of the gene's own entries: window index j of l (numbered from s) *)
  Lemma wentries_read_lr (k : oarr) g n : k <> OIntra -> forall l s j cur, s <= j < s + length l ->
    fold_left (rstep k g j) (flat_map (wentries g n) (combine (seq s (length l)) l)) cur
    = Some (map (fun t => (match k with OLeft => fl | _ => fr end) (gd n) t (nth (j - s) l 0%Z)) tes).
  Proof.
    intros Hk; induction l as [|w r IH]; intros s j cur Hj; cbn [length] in Hj; [lia|].
    cbn [length seq combine flat_map]. rewrite fold_left_app.
    destruct (Nat.eq_dec j s) as [->|Hne].
    - (* this window sets the row; later windows have larger indices *)
      assert (Hlater : forall l' s' cur', s < s' ->
                 fold_left (rstep k g s) (flat_map (wentries g n) (combine (seq s' (length l')) l')) cur' = cur').
      { induction l' as [|w' r' IH']; intros s' cur' Hs; cbn [length seq combine flat_map]; [reflexivity|].
        rewrite fold_left_app, IH' by lia. unfold wentries; cbn [fold_left fst]. unfold rstep, okey.
        assert (E : Nat.eqb s s' = false) by (apply Nat.eqb_neq; lia). rewrite E, !andb_false_r. reflexivity. }
      rewrite Hlater by lia. replace (s - s) with 0 by lia. cbn [nth].
      unfold wentries; cbn [fold_left fst snd]. unfold rstep, okey. rewrite !Nat.eqb_refl.
      destruct k; cbn [oarr_eqb andb snd]; try reflexivity. congruence.
    - rewrite IH by lia. replace (j - s) with (S (j - S s)) by lia. reflexivity.
  Qed.
  Lemma wentries_intra g w gi n l cur : fold_left (rstep OIntra g w) (flat_map (wentries gi n) l) cur = cur.
  Proof.
    revert cur; induction l as [|jw r IH]; intros cur; cbn [flat_map]; [reflexivity|].
    rewrite fold_left_app, IH. reflexivity.
  Qed.

  Lemma all_entries_read_gen (k : oarr) W j : forall l s g cur, s <= g < s + length l ->
    (match k with OIntra => j = 0 | _ => j < length W end) ->
    fold_left (rstep k g j)
              (flat_map (fun ing : nat * N => gene_entries fi fl fr gd tes W (fst ing) (snd ing)) (combine (seq s (length l)) l)) cur
    = Some (map (fun t => match k with
                          | OIntra => fi (gd (nth (g - s) l 0%N)) t
                          | OLeft => fl (gd (nth (g - s) l 0%N)) t (nth j W 0%Z)
                          | ORight => fr (gd (nth (g - s) l 0%N)) t (nth j W 0%Z) end) tes).
  Proof.
    induction l as [|n r IH]; intros s g cur Hg Hj; cbn [length] in Hg; [lia|].
    cbn [length seq combine flat_map fst snd]. rewrite fold_left_app.
    destruct (Nat.eq_dec g s) as [->|Hne].
    - assert (Hlater : forall l' s' cur', s < s' ->
                 fold_left (rstep k s j) (flat_map (fun ing : nat * N => gene_entries fi fl fr gd tes W (fst ing) (snd ing))
                                                   (combine (seq s' (length l')) l')) cur' = cur').
      { induction l' as [|n' r' IH']; intros s' cur' Hs; cbn [length seq combine flat_map fst snd]; [reflexivity|].
        rewrite fold_left_app, IH' by lia. apply gene_entries_other; lia. }
      rewrite Hlater by lia. replace (s - s) with 0 by lia. cbn [nth].
      unfold gene_entries. cbn [fold_left].
      change (flat_map _ (combine (seq 0 (length W)) W)) with (flat_map (wentries s n) (combine (seq 0 (length W)) W)).
      destruct k.
      + rewrite (wentries_read_lr OLeft s n) by (try discriminate; lia). rewrite Nat.sub_0_r. reflexivity.
      + rewrite wentries_intra. subst j. unfold rstep, okey. rewrite !Nat.eqb_refl. reflexivity.
      + rewrite (wentries_read_lr ORight s n) by (try discriminate; lia). rewrite Nat.sub_0_r. reflexivity.
    - rewrite IH by (try assumption; lia). replace (g - s) with (S (g - S s)) by lia. reflexivity.
  Qed.

  Theorem all_entries_read (k : oarr) names W g j : g < length names ->
    (match k with OIntra => j = 0 | _ => j < length W end) ->
    oread k g j (all_entries fi fl fr gd tes names W)
    = Some (map (fun t => match k with
                          | OIntra => fi (gd (nth g names 0%N)) t
                          | OLeft => fl (gd (nth g names 0%N)) t (nth j W 0%Z)
                          | ORight => fr (gd (nth g names 0%N)) t (nth j W 0%Z) end) tes).
  Proof.
    intros Hg Hj. unfold oread, all_entries.
    change (fun cur e => if okey k g j e then Some (snd e) else cur) with (rstep k g j).
    rewrite (all_entries_read_gen k W j names 0 g None) by (try assumption; lia). rewrite Nat.sub_0_r. reflexivity.
  Qed.

  (* nothing outside the index ranges is ever assigned, and the intragenic array only at window index 0 *)
  Theorem all_entries_in_range names W e : In e (all_entries fi fl fr gd tes names W) ->
    match e with (k, g, j, _) => g < length names /\ (match k with OIntra => j = 0 | _ => j < length W end) end.
  Proof.
    unfold all_entries. intros Hin. apply in_flat_map in Hin. destruct Hin as [[i n] [Hc He]].
    assert (Hi : i < length names).
    { apply in_combine_l in Hc. apply in_seq in Hc. lia. }
    cbn [fst snd] in He. unfold gene_entries in He. destruct He as [<-|He]; [split; [assumption|reflexivity]|].
    apply in_flat_map in He. destruct He as [[j w] [Hcj Hej]].
    assert (Hjj : j < length W) by (apply in_combine_l in Hcj; apply in_seq in Hcj; lia).
    cbn [fst snd In] in Hej. destruct Hej as [<-|[<-|[]]]; split; assumption.
  Qed.
End Loops.
