(* The translated DensityData._pair_by_chromosome (Gen/GenPair.v, regenerated from /repo on every run) equals
   Model.Pair.pair_spec, and what pair_spec guarantees (C16). *)
From Coq Require Import List Bool Arith NArith Lia.
From TEV Require Import Model.Reader Model.Pair Proofs.ReaderP Gen.GenPair.
Import ListNotations.

(* ------------------------------------------------------------ dictionaries, sets *)
Lemma pd_mem_get k d : pd_mem k d = match pd_get k d with Some _ => true | None => false end.
Proof. reflexivity. Qed.

Lemma pd_get_set k v d c : pd_get c (pd_set k v d) = if N.eqb k c then Some v else pd_get c d.
Proof. reflexivity. Qed.

Lemma memN_true_in x l : memN x l = true <-> In x l.
Proof.
  unfold memN. rewrite existsb_exists. split.
  - intros [y [Hy E]]. apply N.eqb_eq in E. subst. exact Hy.
  - intros H. exists x. split; [exact H | apply N.eqb_refl].
Qed.
Lemma memN_false_notin x l : memN x l = false <-> ~ In x l.
Proof.
  split.
  - intros E H. apply memN_true_in in H. rewrite H in E. discriminate.
  - intros H. destruct (memN x l) eqn:E; [|reflexivity]. apply memN_true_in in E. contradiction.
Qed.

Lemma nodupN_in x l : In x (nodupN l) <-> In x l.
Proof.
  induction l as [|y r IH]; cbn [nodupN]; [tauto|].
  destruct (memN y r) eqn:E.
  - rewrite IH. split; [intros H; right; exact H|]. intros [H|H]; [subst; apply memN_true_in; exact E | exact H].
  - cbn [In]. rewrite IH. tauto.
Qed.
Lemma nodupN_NoDup l : NoDup (nodupN l).
Proof.
  induction l as [|y r IH]; cbn [nodupN]; [constructor|].
  destruct (memN y r) eqn:E; [exact IH|]. constructor; [|exact IH].
  rewrite nodupN_in. apply memN_false_notin. exact E.
Qed.
(* a file whose set of stored identifiers is {c} stores c, and only c *)
Lemma nodupN_single l c : nodupN l = [c] -> l <> [] /\ forall x, In x l -> x = c.
Proof.
  intros H. split.
  - intros ->. discriminate H.
  - intros x Hx. apply nodupN_in in Hx. rewrite H in Hx. destruct Hx as [Hx|[]]. symmetry. exact Hx.
Qed.
Lemma nodupN_single_conv l c : l <> [] -> (forall x, In x l -> x = c) -> nodupN l = [c].
Proof.
  induction l as [|y r IH]; intros Hne Hall; [contradiction|]. cbn [nodupN].
  assert (Hy : y = c) by (apply Hall; left; reflexivity). subst y.
  destruct r as [|z r'].
  - reflexivity.
  - assert (Em : memN c (z :: r') = true).
    { apply memN_true_in. left. apply Hall. right. left. reflexivity. }
    rewrite Em. apply IH; [discriminate|]. intros x Hx. apply Hall. right. exact Hx.
Qed.

(* ------------------------------------------------------------ the first loop: the dictionary of the GeneData *)
Section Code.
Variable pick : pset -> N.
Hypothesis pick_single : forall x, pick [x] = x.

Lemma loop1_none_mem l : forall k d, (exists c, In c l /\ pd_mem c d = true) ->
  gen_pair_loop_1 (enum_from k l) d = None.
Proof.
  induction l as [|y r IH]; intros k d [c [Hc Hm]]; [destruct Hc|].
  cbn [enum_from gen_pair_loop_1]. cbv zeta.
  destruct (pd_mem y d) eqn:Ey; [reflexivity|].
  apply IH. exists c. destruct Hc as [Hc|Hc].
  - subst. rewrite Hm in Ey. discriminate.
  - split; [exact Hc|]. rewrite pd_mem_get, pd_get_set. destruct (N.eqb y c); [reflexivity|].
    rewrite pd_mem_get in Hm. exact Hm.
Qed.

Lemma loop1_none_dup l : forall k d, has_dupN l = true -> gen_pair_loop_1 (enum_from k l) d = None.
Proof.
  induction l as [|y r IH]; intros k d H; [discriminate|].
  cbn [has_dupN] in H. cbn [enum_from gen_pair_loop_1]. cbv zeta.
  destruct (pd_mem y d) eqn:Ey; [reflexivity|].
  apply orb_true_iff in H. destruct H as [H|H].
  - apply loop1_none_mem. exists y. split; [apply memN_true_in; exact H|].
    rewrite pd_mem_get, pd_get_set, N.eqb_refl. reflexivity.
  - apply IH. exact H.
Qed.

Lemma loop1_some l : forall k d, has_dupN l = false -> (forall c, In c l -> pd_get c d = None) ->
  exists d', gen_pair_loop_1 (enum_from k l) d = Some d' /\
             forall c, pd_get c d' = match first_index c l with Some i => Some (k + i) | None => pd_get c d end.
Proof.
  induction l as [|y r IH]; intros k d Hd Hn.
  - exists d. split; [reflexivity|]. intros c. reflexivity.
  - cbn [has_dupN] in Hd. apply orb_false_iff in Hd. destruct Hd as [Hy Hr].
    cbn [enum_from gen_pair_loop_1]. cbv zeta.
    assert (Ey : pd_mem y d = false) by (rewrite pd_mem_get, (Hn y (or_introl eq_refl)); reflexivity).
    rewrite Ey.
    destruct (IH (S k) (pd_set y k d) Hr) as [d' [E1 E2]].
    { intros c Hc. rewrite pd_get_set. destruct (N.eqb y c) eqn:E.
      - apply N.eqb_eq in E. subst. apply memN_false_notin in Hy. contradiction.
      - apply Hn. right. exact Hc. }
    exists d'. split; [exact E1|]. intros c. rewrite E2. cbn [first_index]. rewrite pd_get_set.
    destruct (N.eqb y c) eqn:E.
    + apply N.eqb_eq in E. subst c.
      assert (Hf : first_index y r = None) by (apply first_index_none; apply memN_false_notin; exact Hy).
      rewrite Hf. cbn [option_map]. f_equal. lia.
    + destruct (first_index c r) as [i|]; cbn [option_map]; [f_equal; lia | reflexivity].
Qed.

(* ------------------------------------------------------------ the second loop: one pair per file *)
Lemma loop2_spec gds d : (forall c, pd_get c d = first_index c gds) ->
  forall fs k pairs, gen_pair_loop_2 pick (enum_from k fs) d pairs =
                     match pair_go gds k fs with Some ps => Some (pairs ++ ps) | None => None end.
Proof.
  intros Hd. induction fs as [|stored r IH]; intros k pairs.
  - cbn [enum_from gen_pair_loop_2 pair_go]. rewrite app_nil_r. reflexivity.
  - cbn [enum_from gen_pair_loop_2 pair_go]. cbv zeta. unfold set_of, set_len.
    destruct (nodupN stored) as [|c [|c2 t]] eqn:En.
    + reflexivity.
    + cbn [length Nat.eqb negb]. rewrite pick_single.
      rewrite ?pd_mem_get, ?Hd. destruct (first_index c gds) as [j|] eqn:Ej.
      * rewrite ?Hd, ?Ej. rewrite IH. destruct (pair_go gds (S k) r) as [ps|]; [|reflexivity].
        rewrite <- app_assoc. reflexivity.
      * reflexivity.
    + reflexivity.
Qed.

Theorem gen_pair_ok h5s gds : gen_pair_by_chromosome pick h5s gds = pair_spec h5s gds.
Proof.
  unfold gen_pair_by_chromosome, pair_spec, enum. cbv zeta.
  destruct (has_dupN gds) eqn:Ed.
  - rewrite loop1_none_dup; [reflexivity | exact Ed].
  - destruct (loop1_some gds 0 [] Ed) as [d' [E1 E2]]; [intros; reflexivity|].
    rewrite E1. rewrite (loop2_spec gds d').
    + destruct (pair_go gds 0 h5s); reflexivity.
    + intros c. rewrite E2. cbn [pd_get]. destruct (first_index c gds); reflexivity.
Qed.
End Code.

(* ------------------------------------------------------------ what pair_spec guarantees *)
Lemma pair_go_sound gds : forall fs k ps, pair_go gds k fs = Some ps ->
  map fst ps = seq k (length fs) /\
  Forall2 (fun stored p => exists c, nodupN stored = [c] /\ nth_error gds (snd p) = Some c) fs ps.
Proof.
  induction fs as [|stored r IH]; intros k ps H; cbn [pair_go] in H.
  - inversion H; subst. split; [reflexivity | constructor].
  - destruct (nodupN stored) as [|c [|c2 t]] eqn:En; try discriminate.
    destruct (first_index c gds) as [j|] eqn:Ej; [|discriminate].
    destruct (pair_go gds (S k) r) as [qs|] eqn:Eg; [|discriminate].
    inversion H; subst. destruct (IH (S k) qs Eg) as [H1 H2]. split.
    + cbn [map fst length seq]. f_equal. exact H1.
    + constructor; [|exact H2]. exists c. split; [exact En|]. cbn [snd].
      destruct (first_index_some _ _ _ Ej) as [Hn Hl].
      rewrite (nth_error_nth' gds 0%N Hl). f_equal. exact Hn.
Qed.

Lemma pair_go_reject gds : forall fs k,
  (exists stored, In stored fs /\ forall c, nodupN stored = [c] -> ~ In c gds) -> pair_go gds k fs = None.
Proof.
  induction fs as [|stored r IH]; intros k [s [Hs Hbad]]; [destruct Hs|].
  cbn [pair_go]. destruct Hs as [Hs|Hs].
  - subst s. destruct (nodupN stored) as [|c [|c2 t]] eqn:En; try reflexivity.
    assert (Hf : first_index c gds = None) by (apply first_index_none; apply Hbad; reflexivity).
    rewrite Hf. reflexivity.
  - destruct (nodupN stored) as [|c [|c2 t]]; try reflexivity.
    destruct (first_index c gds); [|reflexivity].
    rewrite (IH (S k)); [reflexivity|]. exists s. split; assumption.
Qed.

Lemma pair_go_complete gds : forall fs k,
  (forall stored, In stored fs -> exists c, nodupN stored = [c] /\ In c gds) -> exists ps, pair_go gds k fs = Some ps.
Proof.
  induction fs as [|stored r IH]; intros k H.
  - eexists; reflexivity.
  - cbn [pair_go]. destruct (H stored (or_introl eq_refl)) as [c [En Hc]]. rewrite En.
    destruct (first_index c gds) as [j|] eqn:Ej.
    + destruct (IH (S k)) as [qs Eq]; [intros s Hs; apply H; right; exact Hs|]. rewrite Eq. eexists; reflexivity.
    + apply first_index_none in Ej. contradiction.
Qed.
