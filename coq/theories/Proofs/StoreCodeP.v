(* _DensitySubset.__init__ (with _init_gene_names, _init_te_names, _init_windows, _init_densities, _read_dataset,
   _init_strings, _init_array) as translated from /repo (Gen/GenStore.v) is Model.Store2.open: same outcome, same group
   afterwards, for every configuration and every stored group. *)
From Coq Require Import List Bool Arith NArith ZArith.
From TEV Require Import Model.Store2 Model.Store2FS Gen.GenStore.
Import ListNotations.

Ltac split_ifs :=
  repeat match goal with
  | |- context [if ?c then _ else _] => let E := fresh "E" in destruct c eqn:E
  end.

Lemma eqbZ_sym a : forall b, eqbZ a b = eqbZ b a.
Proof. induction a as [|x a IH]; destruct b as [|y b]; cbn [eqbZ]; try reflexivity. rewrite IH, Z.eqb_sym. reflexivity. Qed.
Lemma eqbZ_refl a : eqbZ a a = true.
Proof. induction a as [|x a IH]; cbn [eqbZ]; [reflexivity|rewrite Z.eqb_refl, IH; reflexivity]. Qed.

(* require_dataset followed by _init_strings, against the model's init_strings; when the stored names are refused the
   dataset is the one that was there *)
Lemma strings_step (stored : option (list N)) (want : list N) :
  match require_strings stored (length want) with
  | inl e => init_strings stored want = inl e
  | inr l => init_strings stored want = (if has_empty l then inr want else if negb (eqbN l want) then inl ValueErr else inr l)
             /\ (has_empty l = false -> negb (eqbN l want) = true -> stored = Some l)
  end.
Proof.
  unfold require_strings, init_strings. destruct stored as [l|].
  - destruct (Nat.eqb (length l) (length want)); cbn [negb]; [|reflexivity].
    split; [|reflexivity]. destruct (has_empty l); [reflexivity|]. destruct (eqbN l want); reflexivity.
  - destruct want as [|x r]; cbn; (split; [reflexivity|]); intros; discriminate.
Qed.

Lemma windows_step (stored : option (list Z)) (want : list Z) :
  match require_ints stored (length want) want with
  | inl e => init_windows stored want = inl e
  | inr l => init_windows stored want = (if negb (eqbZ want l) then inl ValueErr else inr l)
             /\ (negb (eqbZ want l) = true -> stored = Some l)
  end.
Proof.
  unfold require_ints, init_windows. destruct stored as [l|].
  - destruct (Nat.eqb (length l) (length want)); cbn [negb]; [|reflexivity].
    split; [|reflexivity]. rewrite (eqbZ_sym want l). destruct (eqbZ l want); reflexivity.
  - rewrite eqbZ_refl. split; [reflexivity|]. intros; discriminate.
Qed.

Theorem gen_open_ok c g : gen_open c g = open c g.
Proof.
  destruct c as [cg ct cw]. destruct g as [sg st sw sd].
  unfold gen_open, open. cbv zeta.
  cbn [c_genes c_tes c_windows s_genes s_tes s_windows s_data set_genes set_tes set_windows set_data andb].
  (* gene names *)
  pose proof (strings_step sg cg) as Hg. destruct (require_strings sg (length cg)) as [e|lg]; [rewrite Hg; reflexivity|].
  destruct Hg as [Hg Hg']. rewrite Hg. clear Hg.
  destruct (has_empty lg) eqn:Eg; [|destruct (negb (eqbN lg cg)) eqn:Ng; [rewrite (Hg' eq_refl eq_refl); reflexivity|]]; clear Hg';
  (* TE names *)
  (pose proof (strings_step st ct) as Ht; destruct (require_strings st (length ct)) as [e|lt]; [rewrite Ht; reflexivity|];
   destruct Ht as [Ht Ht']; rewrite Ht; clear Ht;
   destruct (has_empty lt) eqn:Et; [|destruct (negb (eqbN lt ct)) eqn:Nt; [rewrite (Ht' eq_refl eq_refl); reflexivity|]]; clear Ht';
   (* windows *)
   (pose proof (windows_step sw cw) as Hw; destruct (require_ints sw (length cw) cw) as [e|lw]; [rewrite Hw; reflexivity|];
    destruct Hw as [Hw Hw']; rewrite Hw; clear Hw;
    destruct (negb (eqbZ cw lw)) eqn:Nw; [rewrite (Hw' eq_refl); reflexivity|]; clear Hw';
    (* arrays *)
    cbn [s_data s_genes s_tes s_windows];
    match goal with |- context [init_data sd ?sh] => destruct (init_data sd sh) end; reflexivity)).
Qed.
