(* _ProgressBars.handle_chrome as translated from /repo (Gen/GenCF_handle_chrome.v), run as the collector
   thread of the transition system, is in lockstep with the hand-written Model/Collector.v ([fixed = true])
   under every schedule of workers, main thread and collector.  Hence the C11 theorems (proved about
   Model/Collector.v) hold of the translated code. *)
From Coq Require Import List Bool Arith ZArith Lia.
From Coq Require Import Permutation.
From TEV Require Import Model.PyProg Model.Collector Model.CollectorProg Gen.GenCF_handle_chrome.
From TEV Require Proofs.CollectorP.
Import ListNotations.

Definition kdone : val -> prog := fun ls => Done [ls].
Definition kexit (N : nat) : val -> prog := fun ls => gen_handle_chrome_loop2 N kdone ls.
Definition vis_k (p : prog) : answer -> prog := match p with Vis _ _ k => k | _ => fun _ => Crash end.

(* which program the collector thread is left with at each program counter of the model;
   [rem] = number of schedule steps still to come, the loops have at least that much fuel *)
Definition rel (N rem : nat) (c : cpc) (p : prog) : Prop :=
  match c with
  | CCheck => exists v n, rem <= n /\ p = gen_handle_chrome_loop1 (S n) (kexit N) v
  | CPop => exists v n, rem <= n /\ p = vis_k (gen_handle_chrome_loop1 (S n) (kexit N) v) (RVal (VBool false))
  | CDrain => exists v m, rem <= m /\ p = gen_handle_chrome_loop2 (S m) kdone v
  | CDone => exists ls, p = Done ls
  end.

Definition R (N rem : nat) (s : st) (ps : pst) : Prop :=
  p_unput ps = unput s /\ p_q ps = q s /\ p_col ps = col s /\ p_stop ps = stop s /\ rel N rem (pc s) (p_prog ps).

Lemma rel_weaken N rem c p : rel N (S rem) c p -> rel N rem c p.
Proof.
  destruct c; cbn [rel]; intros H.
  - destruct H as (v & n & Hn & E). exists v, n. split; [lia|exact E].
  - destruct H as (v & n & Hn & E). exists v, n. split; [lia|exact E].
  - destruct H as (v & n & Hn & E). exists v, n. split; [lia|exact E].
  - exact H.
Qed.

Lemma R_step N rem s ps a : S rem <= N -> R N (S rem) s ps -> R N rem (step true s a) (pstep ps a).
Proof.
  intros HN HR. destruct s as [un qq cc c sp]. destruct ps as [pun pq pcol pp pstop].
  unfold R in HR. cbn [p_unput p_q p_col p_stop p_prog unput q col stop pc] in HR.
  destruct HR as (-> & -> & -> & -> & Hrel).
  destruct a as [i| |].
  - (* a worker puts *)
    cbn [step pstep p_unput p_q p_col p_stop p_prog unput q col stop pc].
    destruct (take_nth i un) as [[r rest]|]; unfold R; cbn [p_unput p_q p_col p_stop p_prog unput q col stop pc];
      repeat split; apply rel_weaken, Hrel.
  - (* the collector thread *)
    destruct c; cbn [rel] in Hrel.
    + (* CCheck: the stop flag is tested *)
      destruct Hrel as (v & n & Hn & ->).
      destruct N as [|m]; [lia|].
      destruct sp; cbn; unfold R; cbn [p_unput p_q p_col p_stop p_prog unput q col stop pc]; repeat split.
      * cbn [rel]. do 2 eexists. split; [|reflexivity]. lia.
      * cbn [rel]. do 2 eexists. split; [|reflexivity]. lia.
    + (* CPop: get with timeout *)
      destruct Hrel as (v & n & Hn & ->).
      destruct n as [|n']; [lia|].
      destruct qq as [|r q']; cbn; unfold R; cbn [p_unput p_q p_col p_stop p_prog unput q col stop pc]; repeat split.
      * cbn [rel]. do 2 eexists. split; [|reflexivity]. lia.
      * cbn [rel]. do 2 eexists. split; [|reflexivity]. lia.
    + (* CDrain: get_nowait until empty *)
      destruct Hrel as (v & m & Hm & ->).
      destruct m as [|m']; [lia|].
      destruct qq as [|r q']; cbn; unfold R; cbn [p_unput p_q p_col p_stop p_prog unput q col stop pc]; repeat split.
      * cbn [rel]. eexists. reflexivity.
      * cbn [rel]. do 2 eexists. split; [|reflexivity]. lia.
    + (* CDone *)
      destruct Hrel as (ls & ->). cbn. unfold R; cbn [p_unput p_q p_col p_stop p_prog unput q col stop pc]; repeat split.
      cbn [rel]. exists ls. reflexivity.
  - (* the main thread: pool.map has returned, stop is set *)
    cbn [step pstep p_unput p_q p_col p_stop p_prog unput q col stop pc].
    destruct un; unfold R; cbn [p_unput p_q p_col p_stop p_prog unput q col stop pc];
      repeat split; apply rel_weaken, Hrel.
Qed.

Lemma R_obs N rem s ps : R N rem s ps -> pobs ps = flat_state s.
Proof.
  destruct s as [un qq cc c sp]. destruct ps as [pun pq pcol pp pstop].
  unfold R. cbn [p_unput p_q p_col p_stop p_prog unput q col stop pc].
  intros (-> & -> & -> & -> & Hrel). unfold pobs, flat_state. cbn [p_unput p_q p_col p_stop p_prog unput q col stop pc].
  f_equal. destruct c; cbn [rel] in Hrel.
  - destruct Hrel as (v & n & _ & ->). reflexivity.
  - destruct Hrel as (v & n & _ & ->). reflexivity.
  - destruct Hrel as (v & n & _ & ->). reflexivity.
  - destruct Hrel as (ls & ->). reflexivity.
Qed.

Lemma R_run N : forall sched s ps, length sched <= N -> R N (length sched) s ps ->
  pobs (prun sched ps) = flat_state (run true sched s).
Proof.
  induction sched as [|a sched IH]; intros s ps HN HR; cbn [prun run fold_left].
  - exact (R_obs N 0 s ps HR).
  - cbn [length] in HN, HR. apply IH; [lia|]. apply R_step; [lia|exact HR].
Qed.

Lemma R_final N : forall sched s ps, length sched <= N -> R N (length sched) s ps -> R N 0 (run true sched s) (prun sched ps).
Proof.
  induction sched as [|a sched IH]; intros s ps HN HR; cbn [prun run fold_left]; [exact HR|].
  cbn [length] in HN, HR. apply IH; [lia|]. apply R_step; [lia|exact HR].
Qed.

Lemma R_init all N : 0 < N -> forall rem, rem < N -> R N rem (init all) (pinit (gen_handle_chrome N) all).
Proof.
  intros HN rem Hr. destruct N as [|n]; [lia|].
  unfold R, init, pinit, resume. cbn. repeat split.
  exists VNone, n. split; [lia|reflexivity].
Qed.

(* the translated collector = Model.Collector under every schedule *)
Theorem gen_handle_chrome_ok all sched N : length sched < N ->
  pobs (prun sched (pinit (gen_handle_chrome N) all)) = flat_state (run true sched (init all)).
Proof.
  intro HN. apply (R_run N); [lia|].
  destruct N as [|n]; [lia|].
  unfold R, init, pinit, resume. cbn. repeat split.
  exists VNone, n. split; [lia|reflexivity].
Qed.

(* ---- the C11 statements, about the translated code itself ---- *)
Definition run_code (all : list nat) (sched : list actor) : pst :=
  prun sched (pinit (gen_handle_chrome (S (length sched))) all).
Definition returned (p : prog) : bool := match p with Done _ => true | _ => false end.

Lemma code_fields all sched : let ps := run_code all sched in let s := run true sched (init all) in
  p_unput ps = unput s /\ p_q ps = q s /\ p_col ps = col s /\ p_stop ps = stop s /\
  (returned (p_prog ps) = true <-> pc s = CDone).
Proof.
  cbn zeta. pose proof (R_final (S (length sched)) sched (init all) _ (Nat.le_succ_diag_r _)
                          (R_init all (S (length sched)) (Nat.lt_0_succ _) (length sched) (Nat.lt_succ_diag_r _))) as HR.
  fold (run_code all sched) in HR. destruct HR as (H1 & H2 & H3 & H4 & Hrel).
  repeat split; try assumption.
  - intro Hd. destruct (pc (run true sched (init all))); cbn [rel] in Hrel; [| | |reflexivity].
    + destruct Hrel as (v & n & _ & E). rewrite E in Hd. cbn in Hd. discriminate.
    + destruct Hrel as (v & n & _ & E). rewrite E in Hd. cbn in Hd. discriminate.
    + destruct Hrel as (v & n & _ & E). rewrite E in Hd. cbn in Hd. discriminate.
  - intro Hpc. rewrite Hpc in Hrel. cbn [rel] in Hrel. destruct Hrel as (ls & ->). reflexivity.
Qed.

Theorem code_all_collected all sched : let ps := run_code all sched in
  returned (p_prog ps) = true -> Permutation (p_col ps) all.
Proof.
  cbn zeta. destruct (code_fields all sched) as (_ & _ & Hc & _ & Hd). intro H. rewrite Hc.
  exact (CollectorP.all_collected all sched (proj1 Hd H)).
Qed.

Theorem code_never_more all sched : exists rest, Permutation (p_col (run_code all sched) ++ rest) all.
Proof.
  destruct (code_fields all sched) as (_ & _ & Hc & _ & _). rewrite Hc. exact (CollectorP.never_more all sched).
Qed.

Theorem code_terminates all sched : let s := run true sched (init all) in
  unput s = [] -> stop s = true ->
  returned (p_prog (run_code all (sched ++ repeat C (3 + length (q s))))) = true.
Proof.
  cbn zeta. intros Hu Hs.
  destruct (code_fields all (sched ++ repeat C (3 + length (q (run true sched (init all)))))) as (_ & _ & _ & _ & Hd).
  apply (proj2 Hd). unfold run at 1. rewrite fold_left_app. exact (CollectorP.terminates all sched Hu Hs).
Qed.
