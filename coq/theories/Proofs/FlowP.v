(* The two generic theorems about Model/Flow.v: a program that passes [noswallow] ends normally (or returns) only if
   none of its calls failed; a program that passes [flow] never starts a density job before preprocessing and the overlap
   stage have completed.  Both for every derivation of the big-step relation, by mutual induction. *)
From Coq Require Import List Bool Arith Lia.
From TEV Require Import Model.Flow.
Import ListNotations.

Lemma noswallow_try b hs e f :
  noswallow (PTry b hs e f) = noswallow b && noswallow e && noswallow f && simple f && hs_ok hs.
Proof. reflexivity. Qed.

Lemma hs_flow_eq st hs :
  (fix go (l : list (catch * prog)) : option fstate :=
     match l with
     | [] => Some (true, true)
     | (_, h) :: r =>
         match flow h st, go r with
         | Some sh, Some sr => Some (fmeet (if always_raises h then (true, true) else sh) sr)
         | _, _ => None
         end
     end) hs = hs_flow st hs.
Proof. induction hs as [|[c h] r IH]; [reflexivity|]. cbn [hs_flow]. rewrite <- IH. reflexivity. Qed.

Lemma flow_try b hs e f st :
  flow (PTry b hs e f) st =
  match flow b st with
  | None => None
  | Some s1 => match flow e s1, flow f st with
               | Some s2, Some _ => match hs_flow st hs with Some sh => Some (fmeet s2 sh) | None => None end
               | _, _ => None
               end
  end.
Proof. rewrite <- hs_flow_eq. reflexivity. Qed.

(* ------------------------------------------------------------------ simple programs *)
Lemma simple_out cur p tr o : run cur p tr o -> simple p = true -> o = ONormal \/ exists x, o = ORaise x.
Proof.
  revert cur p tr o.
  apply (run_ind2 (fun cur p tr o => simple p = true -> o = ONormal \/ exists x, o = ORaise x) (fun _ _ _ _ => True));
    cbn [simple]; intros; try discriminate; try exact I;
    repeat match goal with H : _ && _ = true |- _ => apply andb_prop in H; destruct H end; eauto.
  all: try (match goal with IH : _ -> OExit _ = ONormal \/ _ |- _ => destruct IH as [E|[y E]]; [assumption | discriminate | discriminate] end).
Qed.
Lemma simple_noexit cur p tr k : run cur p tr (OExit k) -> simple p = true -> False.
Proof. intros Hr Hs. destruct (simple_out _ _ _ _ Hr Hs) as [E|[x E]]; discriminate. Qed.

(* ------------------------------------------------------------------ always_raises *)
Lemma always_raises_sound cur p tr o : run cur p tr o -> always_raises p = true -> exists x, o = ORaise x.
Proof.
  revert cur p tr o.
  apply (run_ind2 (fun cur p tr o => always_raises p = true -> exists x, o = ORaise x) (fun _ _ _ _ => True));
    cbn [always_raises]; intros; try discriminate; try exact I.
  - (* RSeqN *)
    apply orb_true_iff in H3. destruct H3 as [Ha|Hb].
    + destruct (H0 Ha) as [x Hx]. discriminate.
    + apply andb_prop in Hb. destruct Hb as [_ Hb]. exact (H2 Hb).
  - (* RSeqStop *)
    apply orb_true_iff in H2. destruct H2 as [Ha|Hb].
    + exact (H0 Ha).
    + apply andb_prop in Hb. destruct Hb as [Hs _].
      destruct (simple_out _ _ _ _ H Hs) as [E|E]; [contradiction | exact E].
  - (* RIfL *) apply andb_prop in H1. destruct H1 as [Ha _]. exact (H0 Ha).
  - (* RIfR *) apply andb_prop in H1. destruct H1 as [_ Hb]. exact (H0 Hb).
  - (* RRaise *) exists x; reflexivity.
  - exists x; reflexivity.
  - exists x; reflexivity.
  - (* RTryN *) destruct (H4 H5) as [x Hx]. subst o2. exists x. reflexivity.
  - (* RTryRet *) destruct (H2 H3) as [x Hx]. subst o2. exists x. reflexivity.
  - (* RTryX *) destruct (H4 H5) as [y Hy]. subst o2. exists y. reflexivity.
Qed.

(* ------------------------------------------------------------------ noswallow *)
Definition all_ok (t : list event) : Prop := Forall (fun ev => snd ev = true) t.
Definition ended (o : out) : Prop := o = ONormal \/ exists k, o = OExit k.

Lemma all_ok_app t1 t2 : all_ok t1 -> all_ok t2 -> all_ok (t1 ++ t2).
Proof. intros A B. apply Forall_app. split; assumption. Qed.

Lemma after_final_ended o o2 : (forall k, o2 <> OExit k) -> ended (after_final o o2) -> o2 = ONormal /\ ended o.
Proof.
  intros Hnr He. destruct o2 as [|k|x]; cbn [after_final] in He.
  - split; [reflexivity | exact He].
  - exfalso. exact (Hnr k eq_refl).
  - destruct He as [E|[k E]]; discriminate.
Qed.

Theorem noswallow_sound cur p tr o : run cur p tr o -> noswallow p = true -> ended o -> all_ok tr.
Proof.
  revert cur p tr o.
  apply (run_ind2 (fun cur p tr o => noswallow p = true -> ended o -> all_ok tr)
                  (fun x hs t o => hs_ok hs = true -> exists y, o = ORaise y)).
  - intros; constructor.
  - intros; constructor; [reflexivity | constructor].
  - intros cur s x _ [H|[k H]]; discriminate.
  - (* RSeqN *) intros cur p q t1 t2 o _ IH1 _ IH2 Hn He. cbn [noswallow] in Hn. apply andb_prop in Hn. destruct Hn as [Ha Hb].
    apply all_ok_app; [apply IH1; [exact Ha | left; reflexivity] | apply IH2; assumption].
  - (* RSeqStop *) intros cur p q t1 o _ IH1 Hne Hn He. cbn [noswallow] in Hn. apply andb_prop in Hn. destruct Hn as [Ha _].
    apply IH1; assumption.
  - intros cur p q t o _ IH Hn He. cbn [noswallow] in Hn. apply andb_prop in Hn. destruct Hn as [Ha _]. apply IH; assumption.
  - intros cur p q t o _ IH Hn He. cbn [noswallow] in Hn. apply andb_prop in Hn. destruct Hn as [_ Hb]. apply IH; assumption.
  - intros; constructor.
  - (* RLoopS *) intros cur p t1 t2 o1 o _ IH1 Ho1 _ IH2 Hn He.
    apply all_ok_app; [apply IH1; [exact Hn | destruct Ho1 as [E|E]; [left; exact E | right; eexists; exact E]] | apply IH2; assumption].
  - (* RLoopBreak *) intros cur p t1 _ IH1 Hn He. apply IH1; [exact Hn | right; eexists; reflexivity].
  - (* RLoopStop *) intros cur p t1 o _ IH1 Hne Hn He. apply IH1; assumption.
  - intros cur x _ [H|[k H]]; discriminate.
  - intros x _ [H|[k H]]; discriminate.
  - intros x _ [H|[k H]]; discriminate.
  - intros; constructor.
  - (* RTryN *)
    intros cur b hs e f t1 t2 t3 o o2 _ IHb _ IHe Hf IHf Hn He. rewrite noswallow_try in Hn.
    repeat (apply andb_prop in Hn; destruct Hn as [Hn ?]).
    destruct (after_final_ended o o2) as [Ho2 Ho]; [intros k E; subst o2; eapply simple_noexit; eassumption | exact He |]. subst o2.
    apply all_ok_app; [apply IHb; [assumption | left; reflexivity]|].
    apply all_ok_app; [apply IHe; assumption | apply IHf; [assumption | left; reflexivity]].
  - (* RTryRet *)
    intros cur b hs e f t1 t3 k o2 _ IHb Hf IHf Hn He. rewrite noswallow_try in Hn.
    repeat (apply andb_prop in Hn; destruct Hn as [Hn ?]).
    destruct (after_final_ended (OExit k) o2) as [Ho2 _]; [intros k' E; subst o2; eapply simple_noexit; eassumption | exact He |]. subst o2.
    apply all_ok_app; [apply IHb; [assumption | right; eexists; reflexivity] | apply IHf; [assumption | left; reflexivity]].
  - (* RTryX: the handlers all raise, so the statement cannot end normally *)
    intros cur b hs e f t1 t2 t3 x o o2 _ _ _ IHh Hf _ Hn He. rewrite noswallow_try in Hn.
    repeat (apply andb_prop in Hn; destruct Hn as [Hn ?]).
    destruct (after_final_ended o o2) as [_ Ho]; [intros k E; subst o2; eapply simple_noexit; eassumption | exact He |].
    destruct IHh as [y Hy]; [assumption|]. subst o. destruct Ho as [E|[k E]]; discriminate.
  - (* HNone *) intros x _. exists x. reflexivity.
  - (* HHit *) intros x c h r t o _ Hrun _ Hok. cbn [hs_ok] in Hok. repeat (apply andb_prop in Hok; destruct Hok as [Hok ?]).
    eapply always_raises_sound; eassumption.
  - (* HSkip *) intros x c h r t o _ _ IH Hok. cbn [hs_ok] in Hok. repeat (apply andb_prop in Hok; destruct Hok as [Hok ?]). apply IH. assumption.
Qed.

(* ------------------------------------------------------------------ flow *)
Lemma fle_refl a : fle a a.
Proof. split; auto. Qed.
Lemma fle_trans a b c : fle a b -> fle b c -> fle a c.
Proof. intros [A1 A2] [B1 B2]. split; auto. Qed.
Lemma fle_meet_l a b : fle (fmeet a b) a.
Proof. destruct a, b; split; cbn; intro H; apply andb_prop in H; tauto. Qed.
Lemma fle_meet_r a b : fle (fmeet a b) b.
Proof. destruct a, b; split; cbn; intro H; apply andb_prop in H; tauto. Qed.

Lemma state_after_app st t1 t2 : state_after st (t1 ++ t2) = state_after (state_after st t1) t2.
Proof. revert st. induction t1 as [|[s ok] r IH]; intro st; [reflexivity|]. destruct s; cbn [app state_after]; apply IH. Qed.
Lemma safe_from_app st t1 t2 : safe_from st (t1 ++ t2) = safe_from st t1 && safe_from (state_after st t1) t2.
Proof.
  revert st. induction t1 as [|[s ok] r IH]; intro st; [reflexivity|].
  destruct s; cbn [app safe_from state_after]; rewrite ?IH, ?andb_assoc; reflexivity.
Qed.
Lemma state_after_ge st t : fle st (state_after st t).
Proof.
  revert st. induction t as [|[s ok] r IH]; intro st; [apply fle_refl|].
  destruct s; cbn [state_after]; try apply IH.
  - eapply fle_trans; [|apply IH]. split; cbn; intro H; rewrite ?H; auto.
  - eapply fle_trans; [|apply IH]. split; cbn; intro H; rewrite ?H; auto using orb_true_r.
Qed.

Definition flow_claim (p : prog) (tr : list event) (o : out) : Prop :=
  forall st st', flow p st = Some st' -> forall st0, fle st st0 ->
    safe_from st0 tr = true /\ (o = ONormal -> fle st' (state_after st0 tr)).
Definition hs_claim (hs : list (catch * prog)) (tr : list event) (o : out) : Prop :=
  forall st sh, hs_flow st hs = Some sh -> forall st0, fle st st0 ->
    safe_from st0 tr = true /\ (o = ONormal -> fle sh (state_after st0 tr)).

Theorem flow_sound cur p tr o : run cur p tr o -> flow_claim p tr o.
Proof.
  revert cur p tr o.
  apply (run_ind2 (fun cur p tr o => flow_claim p tr o) (fun x hs t o => hs_claim hs t o)); unfold flow_claim, hs_claim.
  - (* RSkip *) intros cur st st' H st0 Hle. cbn in H. inversion H; subst. split; [reflexivity | intros _; exact Hle].
  - (* RCallOk *) intros cur s st st' H st0 [L1 L2]. destruct s; cbn [flow] in H; cbn [safe_from state_after].
    + inversion H; subst. split; [reflexivity|]. intros _. split; cbn; intro E; [apply orb_true_r | rewrite (L2 E); reflexivity].
    + inversion H; subst. split; [reflexivity|]. intros _. split; cbn; intro E; [rewrite (L1 E); reflexivity | apply orb_true_r].
    + destruct (fst st && snd st) eqn:E; [|discriminate]. inversion H; subst. apply andb_prop in E. destruct E as [E1 E2].
      rewrite (L1 E1), (L2 E2). split; [reflexivity | intros _; split; assumption].
    + inversion H; subst. split; [reflexivity | intros _; split; assumption].
  - (* RCallFail *) intros cur s x st st' H st0 [L1 L2]. destruct s; cbn [flow] in H; cbn [safe_from state_after].
    + split; [reflexivity | discriminate].
    + split; [reflexivity | discriminate].
    + destruct (fst st && snd st) eqn:E; [|discriminate]. apply andb_prop in E. destruct E as [E1 E2].
      rewrite (L1 E1), (L2 E2). split; [reflexivity | discriminate].
    + split; [reflexivity | discriminate].
  - (* RSeqN *) intros cur p q t1 t2 o _ IH1 _ IH2 st st' H st0 Hle. cbn [flow] in H.
    destruct (flow p st) as [s1|] eqn:E1; [|discriminate].
    destruct (IH1 st s1 E1 st0 Hle) as [S1 G1]. specialize (G1 eq_refl).
    destruct (IH2 s1 st' H (state_after st0 t1) G1) as [S2 G2].
    rewrite safe_from_app, state_after_app, S1, S2. split; [reflexivity | exact G2].
  - (* RSeqStop *) intros cur p q t1 o _ IH1 Hne st st' H st0 Hle. cbn [flow] in H.
    destruct (flow p st) as [s1|] eqn:E1; [|discriminate].
    destruct (IH1 st s1 E1 st0 Hle) as [S1 _]. split; [exact S1 | intro; contradiction].
  - (* RIfL *) intros cur p q t o _ IH st st' H st0 Hle. cbn [flow] in H.
    destruct (flow p st) as [s1|] eqn:E1; [|discriminate]. destruct (flow q st) as [s2|] eqn:E2; [|discriminate]. inversion H; subst.
    destruct (IH st s1 E1 st0 Hle) as [S G]. split; [exact S|]. intro Ho. eapply fle_trans; [apply fle_meet_l | exact (G Ho)].
  - (* RIfR *) intros cur p q t o _ IH st st' H st0 Hle. cbn [flow] in H.
    destruct (flow p st) as [s1|] eqn:E1; [|discriminate]. destruct (flow q st) as [s2|] eqn:E2; [|discriminate]. inversion H; subst.
    destruct (IH st s2 E2 st0 Hle) as [S G]. split; [exact S|]. intro Ho. eapply fle_trans; [apply fle_meet_r | exact (G Ho)].
  - (* RLoop0 *) intros cur p st st' H st0 Hle. cbn [flow] in H. destruct (flow p st); [|discriminate]. inversion H; subst.
    split; [reflexivity | intros _; exact Hle].
  - (* RLoopS *) intros cur p t1 t2 o1 o _ IH1 _ _ IH2 st st' H st0 Hle. pose proof H as H'. cbn [flow] in H.
    destruct (flow p st) as [s1|] eqn:E1; [|discriminate]. inversion H; subst st'.
    destruct (IH1 st s1 E1 st0 Hle) as [S1 _].
    destruct (IH2 st st H' (state_after st0 t1) (fle_trans _ _ _ Hle (state_after_ge st0 t1))) as [S2 G2].
    rewrite safe_from_app, state_after_app, S1, S2. split; [reflexivity | exact G2].
  - (* RLoopBreak *) intros cur p t1 _ IH1 st st' H st0 Hle. cbn [flow] in H.
    destruct (flow p st) as [s1|] eqn:E1; [|discriminate]. inversion H; subst st'.
    destruct (IH1 st s1 E1 st0 Hle) as [S1 _]. split; [exact S1|]. intros _. eapply fle_trans; [exact Hle | apply state_after_ge].
  - (* RLoopStop *) intros cur p t1 o _ IH1 Hne st st' H st0 Hle. cbn [flow] in H.
    destruct (flow p st) as [s1|] eqn:E1; [|discriminate]. destruct (IH1 st s1 E1 st0 Hle) as [S1 _]. split; [exact S1|].
    intro E. subst o. destruct Hne as [E|[x E]]; discriminate.
  - intros cur x st st' H st0 Hle. split; [reflexivity | discriminate].
  - intros x st st' H st0 Hle. split; [reflexivity | discriminate].
  - intros x st st' H st0 Hle. split; [reflexivity | discriminate].
  - intros cur st st' H st0 Hle. split; [reflexivity | discriminate].
  - (* RTryN *)
    intros cur b hs e f t1 t2 t3 o o2 _ IHb _ IHe _ IHf st st' H st0 Hle. rewrite flow_try in H.
    destruct (flow b st) as [s1|] eqn:Eb; [|discriminate]. destruct (flow e s1) as [s2|] eqn:Ee; [|discriminate].
    destruct (flow f st) as [sf|] eqn:Ef; [|discriminate]. destruct (hs_flow st hs) as [sh|] eqn:Eh; [|discriminate]. inversion H; subst st'.
    destruct (IHb st s1 Eb st0 Hle) as [S1 G1]. specialize (G1 eq_refl).
    destruct (IHe s1 s2 Ee (state_after st0 t1) G1) as [S2 G2].
    assert (Hle3 : fle st (state_after (state_after st0 t1) t2)).
    { eapply fle_trans; [exact Hle|]. eapply fle_trans; [apply state_after_ge|]. apply state_after_ge. }
    destruct (IHf st sf Ef _ Hle3) as [S3 _].
    rewrite !safe_from_app, !state_after_app, S1, S2, S3. split; [reflexivity|].
    intro Ho. destruct o2; cbn [after_final] in Ho; try discriminate. subst o.
    eapply fle_trans; [apply fle_meet_l|]. eapply fle_trans; [exact (G2 eq_refl) | apply state_after_ge].
  - (* RTryRet *)
    intros cur b hs e f t1 t3 k o2 _ IHb _ IHf st st' H st0 Hle. rewrite flow_try in H.
    destruct (flow b st) as [s1|] eqn:Eb; [|discriminate]. destruct (flow e s1) as [s2|] eqn:Ee; [|discriminate].
    destruct (flow f st) as [sf|] eqn:Ef; [|discriminate].
    destruct (IHb st s1 Eb st0 Hle) as [S1 _].
    destruct (IHf st sf Ef (state_after st0 t1) (fle_trans _ _ _ Hle (state_after_ge st0 t1))) as [S3 _].
    rewrite safe_from_app, S1, S3. split; [reflexivity|]. intro Ho. destruct o2; cbn [after_final] in Ho; discriminate.
  - (* RTryX *)
    intros cur b hs e f t1 t2 t3 x o o2 _ IHb _ IHh _ IHf st st' H st0 Hle. rewrite flow_try in H.
    destruct (flow b st) as [s1|] eqn:Eb; [|discriminate]. destruct (flow e s1) as [s2|] eqn:Ee; [|discriminate].
    destruct (flow f st) as [sf|] eqn:Ef; [|discriminate]. destruct (hs_flow st hs) as [sh|] eqn:Eh; [|discriminate]. inversion H; subst st'.
    destruct (IHb st s1 Eb st0 Hle) as [S1 _].
    assert (Hle2 : fle st (state_after st0 t1)) by (eapply fle_trans; [exact Hle | apply state_after_ge]).
    destruct (IHh st sh Eh _ Hle2) as [S2 G2].
    assert (Hle3 : fle st (state_after (state_after st0 t1) t2)) by (eapply fle_trans; [exact Hle2 | apply state_after_ge]).
    destruct (IHf st sf Ef _ Hle3) as [S3 _].
    rewrite !safe_from_app, !state_after_app, S1, S2, S3. split; [reflexivity|].
    intro Ho. destruct o2; cbn [after_final] in Ho; try discriminate. subst o.
    eapply fle_trans; [apply fle_meet_r|]. eapply fle_trans; [exact (G2 eq_refl) | apply state_after_ge].
  - (* HNone *) intros x st sh H st0 Hle. split; [reflexivity | discriminate].
  - (* HHit *) intros x c h r t o _ Hrun IH st sh H st0 Hle. cbn [hs_flow] in H.
    destruct (flow h st) as [s1|] eqn:E1; [|discriminate]. destruct (hs_flow st r) as [sr|] eqn:Er; [|discriminate]. inversion H; subst sh.
    destruct (IH st s1 E1 st0 Hle) as [S G]. split; [exact S|]. intro Ho.
    destruct (always_raises h) eqn:Ea.
    + destruct (always_raises_sound _ _ _ _ Hrun Ea) as [y Hy]. subst o. discriminate.
    + eapply fle_trans; [apply fle_meet_l | exact (G Ho)].
  - (* HSkip *) intros x c h r t o _ _ IH st sh H st0 Hle. cbn [hs_flow] in H.
    destruct (flow h st) as [s1|] eqn:E1; [|discriminate]. destruct (hs_flow st r) as [sr|] eqn:Er; [|discriminate]. inversion H; subst sh.
    destruct (IH st sr Er st0 Hle) as [S G]. split; [exact S|]. intro Ho. eapply fle_trans; [apply fle_meet_r | exact (G Ho)].
Qed.

(* from the start of a run *)
Corollary flow_safe p tr o st' : run None p tr o -> flow p (false, false) = Some st' -> safe_from (false, false) tr = true.
Proof. intros Hr Hf. exact (proj1 (flow_sound _ _ _ _ Hr _ _ Hf _ (fle_refl _))). Qed.

(* ------------------------------------------------------------------ bounds on the number of calls of a stage *)
Lemma hs_bound_eq s hs :
  (fix go (l : list (catch * prog)) : option nat :=
     match l with [] => Some 0 | (_, h) :: r => obind2 Nat.add (calls_bound s h) (go r) end) hs = hs_bound s hs.
Proof. induction hs as [|[c h] r IH]; [reflexivity|]. cbn [hs_bound]. rewrite <- IH. reflexivity. Qed.

Lemma calls_bound_try s b hs e f :
  calls_bound s (PTry b hs e f) =
  obind2 Nat.add (obind2 Nat.add (calls_bound s b) (calls_bound s e)) (obind2 Nat.add (calls_bound s f) (hs_bound s hs)).
Proof. rewrite <- hs_bound_eq. reflexivity. Qed.

Lemma count_stage_app s t1 t2 : count_stage s (t1 ++ t2) = count_stage s t1 + count_stage s t2.
Proof. induction t1 as [|[s' ok] r IH]; [reflexivity|]. cbn [app count_stage]. rewrite IH. lia. Qed.

Lemma obind2_some f a b n : obind2 f a b = Some n -> exists x y, a = Some x /\ b = Some y /\ n = f x y.
Proof. destruct a as [x|], b as [y|]; cbn; intro H; try discriminate. inversion H. exists x, y. auto. Qed.

Theorem calls_bound_sound s cur p tr o : run cur p tr o -> forall n, calls_bound s p = Some n -> count_stage s tr <= n.
Proof.
  revert cur p tr o.
  apply (run_ind2 (fun cur p tr o => forall n, calls_bound s p = Some n -> count_stage s tr <= n)
                  (fun x hs t o => forall n, hs_bound s hs = Some n -> count_stage s t <= n)).
  - intros; cbn; lia.
  - intros cur s' n H. cbn in *. inversion H. lia.
  - intros cur s' x n H. cbn in *. inversion H. lia.
  - (* RSeqN *) intros cur p q t1 t2 o _ IH1 _ IH2 n H. cbn [calls_bound] in H.
    destruct (obind2_some _ _ _ _ H) as [x [y [Ha [Hb ->]]]]. rewrite count_stage_app. specialize (IH1 x Ha). specialize (IH2 y Hb). lia.
  - (* RSeqStop *) intros cur p q t1 o _ IH1 _ n H. cbn [calls_bound] in H.
    destruct (obind2_some _ _ _ _ H) as [x [y [Ha [Hb ->]]]]. specialize (IH1 x Ha). lia.
  - intros cur p q t o _ IH n H. cbn [calls_bound] in H. destruct (obind2_some _ _ _ _ H) as [x [y [Ha [Hb ->]]]]. specialize (IH x Ha). lia.
  - intros cur p q t o _ IH n H. cbn [calls_bound] in H. destruct (obind2_some _ _ _ _ H) as [x [y [Ha [Hb ->]]]]. specialize (IH y Hb). lia.
  - intros; cbn; lia.
  - (* RLoopS *) intros cur p t1 t2 o1 o _ IH1 _ _ IH2 n H. pose proof H as H'. cbn [calls_bound] in H.
    destruct (calls_bound s p) as [[|k]|] eqn:E; try discriminate. inversion H; subst n.
    rewrite count_stage_app. specialize (IH1 0 eq_refl). specialize (IH2 0 H'). lia.
  - (* RLoopBreak *) intros cur p t1 _ IH1 n H. cbn [calls_bound] in H.
    destruct (calls_bound s p) as [[|k]|] eqn:E; try discriminate. inversion H; subst n. exact (IH1 0 eq_refl).
  - (* RLoopStop *) intros cur p t1 o _ IH1 _ n H. cbn [calls_bound] in H.
    destruct (calls_bound s p) as [[|k]|] eqn:E; try discriminate. inversion H; subst n. exact (IH1 0 eq_refl).
  - intros; cbn; lia.
  - intros; cbn; lia.
  - intros; cbn; lia.
  - intros; cbn; lia.
  - (* RTryN *) intros cur b hs e f t1 t2 t3 o o2 _ IHb _ IHe _ IHf n H. rewrite calls_bound_try in H.
    destruct (obind2_some _ _ _ _ H) as [x [y [Hx [Hy ->]]]].
    destruct (obind2_some _ _ _ _ Hx) as [xb [xe [Hb [He ->]]]]. destruct (obind2_some _ _ _ _ Hy) as [xf [xh [Hf [Hh ->]]]].
    rewrite !count_stage_app. specialize (IHb _ Hb). specialize (IHe _ He). specialize (IHf _ Hf). lia.
  - (* RTryRet *) intros cur b hs e f t1 t3 k o2 _ IHb _ IHf n H. rewrite calls_bound_try in H.
    destruct (obind2_some _ _ _ _ H) as [x [y [Hx [Hy ->]]]].
    destruct (obind2_some _ _ _ _ Hx) as [xb [xe [Hb [He ->]]]]. destruct (obind2_some _ _ _ _ Hy) as [xf [xh [Hf [Hh ->]]]].
    rewrite !count_stage_app. specialize (IHb _ Hb). specialize (IHf _ Hf). lia.
  - (* RTryX *) intros cur b hs e f t1 t2 t3 x o o2 _ IHb _ IHh _ IHf n H. rewrite calls_bound_try in H.
    destruct (obind2_some _ _ _ _ H) as [x1 [y [Hx [Hy ->]]]].
    destruct (obind2_some _ _ _ _ Hx) as [xb [xe [Hb [He ->]]]]. destruct (obind2_some _ _ _ _ Hy) as [xf [xh [Hf [Hh ->]]]].
    rewrite !count_stage_app. specialize (IHb _ Hb). specialize (IHh _ Hh). specialize (IHf _ Hf). lia.
  - intros; cbn; lia.
  - (* HHit *) intros x c h r t o _ _ IH n H. cbn [hs_bound] in H. destruct (obind2_some _ _ _ _ H) as [a [b [Ha [Hb ->]]]]. specialize (IH a Ha). lia.
  - (* HSkip *) intros x c h r t o _ _ IH n H. cbn [hs_bound] in H. destruct (obind2_some _ _ _ _ H) as [a [b [Ha [Hb ->]]]]. specialize (IH b Hb). lia.
Qed.

Lemma count_two s t : In (s, false) t -> In (s, true) t -> 2 <= count_stage s t.
Proof.
  assert (Hrefl : stage_eqb s s = true) by (destruct s; cbn; auto using Nat.eqb_refl).
  assert (Hone : forall b t0, In (s, b) t0 -> 1 <= count_stage s t0).
  { intros b t0. induction t0 as [|[s' ok] r IH]; intros Hin; [destruct Hin|]. cbn [count_stage].
    destruct Hin as [E|Hin]; [inversion E; subst; rewrite Hrefl; lia | specialize (IH Hin); lia]. }
  induction t as [|[s' ok] r IH]; intros Hf Ht; [destruct Hf|]. cbn [count_stage].
  destruct Hf as [Ef|Hf]; destruct Ht as [Et|Ht].
  - rewrite Ef in Et. inversion Et.
  - inversion Ef; subst. rewrite Hrefl. pose proof (Hone true r Ht). lia.
  - inversion Et; subst. rewrite Hrefl. pose proof (Hone false r Hf). lia.
  - specialize (IH Hf Ht). lia.
Qed.

(* a trace that is safe from a state in which preprocessing has not completed, and in which it never completes, has no density job *)
Lemma no_merge_without_pre t : forall b, safe_from (false, b) t = true -> ~ In (SPre, true) t -> forall ok, ~ In (SMerge, ok) t.
Proof.
  induction t as [|[s ok0] r IH]; intros b Hs Hn ok Hin; [destruct Hin|].
  destruct s; cbn [safe_from fst snd] in Hs.
  - destruct ok0; [apply Hn; left; reflexivity|]. cbn [orb] in Hs.
    destruct Hin as [E|Hin]; [discriminate E|]. eapply (IH b); [exact Hs | intro H; apply Hn; right; exact H | exact Hin].
  - destruct Hin as [E|Hin]; [discriminate E|]. eapply (IH (b || ok0)); [exact Hs | intro H; apply Hn; right; exact H | exact Hin].
  - cbn [andb] in Hs. discriminate Hs.
  - destruct Hin as [E|Hin]; [discriminate E|]. eapply (IH b); [exact Hs | intro H; apply Hn; right; exact H | exact Hin].
Qed.
