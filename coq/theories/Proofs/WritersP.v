(* From the boolean check of a concrete writer (decided by computation over its finitely many crash points and start
   states) to the statement for every crash point and every admissible start state. *)
From Coq Require Import List Bool Arith Lia.
From TEV Require Import Model.Writers.
Import ListNotations.

Definition start_ok (f : wfs) : Prop := f_final f = Absent \/ f_final f = Old.

Lemma in_starts f : start_ok f -> In f starts.
Proof. destruct f as [a b]. unfold start_ok. cbn. intros [->| ->]; destruct b; cbn; tauto. Qed.

Lemma crash_state_sat acts k f : length (steps_of acts) <= k -> crash_state acts k f = crash_state acts (length (steps_of acts)) f.
Proof. intro H. unfold crash_state. rewrite (firstn_all2 _ H), firstn_all. reflexivity. Qed.

Theorem atomic_writer_sound acts : atomic_writer acts = true ->
  forall f0, start_ok f0 ->
  (forall k, final_ok f0 (crash_state acts k f0) = true) /\
  f_final (run_steps (steps_of acts) f0) = New /\ f_tmp (run_steps (steps_of acts) f0) = Absent.
Proof.
  intros H f0 Hs. unfold atomic_writer in H. rewrite forallb_forall in H. specialize (H f0 (in_starts f0 Hs)).
  apply andb_prop in H. destruct H as [H H3]. apply andb_prop in H. destruct H as [H1 H2].
  rewrite forallb_forall in H1. split; [|split].
  - intro k. destruct (le_lt_dec (length (steps_of acts)) k) as [Hk|Hk].
    + rewrite (crash_state_sat acts k f0 Hk). apply H1. apply in_seq. lia.
    + apply H1. apply in_seq. lia.
  - destruct (f_final (run_steps (steps_of acts) f0)); try discriminate; reflexivity.
  - destruct (f_tmp (run_steps (steps_of acts) f0)); try discriminate; reflexivity.
Qed.

Theorem error_path_sound acts handler : error_path_ok acts handler = true ->
  In Reraise handler /\
  forall f0 k, start_ok f0 -> let f := run_steps (steps_of handler) (crash_state acts k f0) in final_ok f0 f = true /\ f_tmp f = Absent.
Proof.
  intro H. unfold error_path_ok in H. apply andb_prop in H. destruct H as [Hr H]. split.
  - apply existsb_exists in Hr. destruct Hr as (a & Ha & E). destruct a; try discriminate. exact Ha.
  - intros f0 k Hs. cbn zeta. rewrite forallb_forall in H. specialize (H f0 (in_starts f0 Hs)). rewrite forallb_forall in H.
    assert (Hk : forall j, In j (seq 0 (S (length (steps_of acts)))) ->
                 final_ok f0 (run_steps (steps_of handler) (crash_state acts j f0)) = true /\ f_tmp (run_steps (steps_of handler) (crash_state acts j f0)) = Absent).
    { intros j Hj. specialize (H j Hj). apply andb_prop in H. destruct H as [Ha Hb]. split; [exact Ha|].
      destruct (f_tmp (run_steps (steps_of handler) (crash_state acts j f0))); try discriminate; reflexivity. }
    destruct (le_lt_dec (length (steps_of acts)) k) as [Hle|Hlt].
    + rewrite (crash_state_sat acts k f0 Hle). apply Hk. apply in_seq. lia.
    + apply Hk. apply in_seq. lia.
Qed.
