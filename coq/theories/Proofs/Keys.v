(* Which labels a result file carries (key set of C01, presence part of C02). *)
From Coq Require Import ZArith NArith List Bool Lia ZifyBool Permutation.
From TEV Require Import Base.Intervals Base.Count Base.PyRange Model.Kernel Model.Revise Model.Pipeline
     Spec.Density Proofs.ReviseP Proofs.NameSort Proofs.Refine Proofs.RunP.
Import ListNotations. Open Scope Z_scope.

Lemma keyed_in key k rows t : In t (keyed key k rows) <-> In t rows /\ key t = k.
Proof. unfold keyed. rewrite filter_In. rewrite N.eqb_eq. reflexivity. Qed.

Lemma in_map_keyed key k (rows : list te) : In k (map key rows) <-> keyed key k rows <> [].
Proof.
  split.
  - intros H Hn. apply in_map_iff in H. destruct H as [t [Ht Hin]].
    assert (In t (keyed key k rows)) by (apply keyed_in; auto). rewrite Hn in H. inversion H.
  - intro H. destruct (keyed key k rows) as [|t r] eqn:E; [contradiction|].
    assert (In t (keyed key k rows)) by (rewrite E; left; reflexivity).
    apply keyed_in in H0. destruct H0 as [H1 H2]. rewrite <- H2. apply in_map. exact H1.
Qed.

Lemma blk_nil c oa sa l : blk c oa sa l = [] <-> l = [].
Proof. unfold blk. split; [apply map_eq_nil|intros ->; reflexivity]. Qed.

Lemma ivs_of_nil rows : ivs_of rows = [] <-> rows = [].
Proof. unfold ivs_of. split; [apply map_eq_nil|intros ->; reflexivity]. Qed.

Section R.
Variables rS rO rT : N.
Notation revise3 := (revise3 rS rO rT).
Notation bookkeeping := (bookkeeping rS rO).

(* a real group is on the axis iff it occurs in the input rows of the chromosome *)
Lemma names_group lv n c rows : Forall wf_te rows -> n <> bookkeeping lv -> n <> rT ->
  (In n (map (col lv) (revise3 c rows)) <-> In n (map (col lv) rows)).
Proof.
  intros Hwf Hb Ht. rewrite !in_map_keyed. rewrite (keyed_revise3_group rS rO rT lv n c rows Hb Ht).
  rewrite blk_nil. rewrite (revise_nil_iff _ (wf_ivs _ (wf_keyed _ _ _ Hwf))). rewrite ivs_of_nil. reflexivity.
Qed.

(* the all-TE total is on the axis iff the chromosome has any TE *)
Lemma names_total lv c rows : Forall wf_te rows -> bookkeeping lv <> rT -> Forall (fun t => col lv t <> rT) rows ->
  (In rT (map (col lv) (revise3 c rows)) <-> rows <> []).
Proof.
  intros Hwf Hb Hreal. rewrite in_map_keyed. rewrite (keyed_revise3_total rS rO rT lv c rows Hb Hreal).
  rewrite blk_nil. rewrite (revise_nil_iff _ (wf_ivs _ Hwf)). rewrite ivs_of_nil. reflexivity.
Qed.
End R.

(* lookups by label *)
Lemma memZ_in x l : memZ x l = true <-> In x l.
Proof.
  unfold memZ. rewrite existsb_exists. split.
  - intros [y [Hy E]]. apply Z.eqb_eq in E. subst. exact Hy.
  - intro H. exists x. split; [exact H|apply Z.eqb_refl].
Qed.

Lemma f_cell_some f lv name sd w gname v : f_cell f lv name sd w gname = Some v ->
  exists g, find_gene gname (f_genes f) = Some g /\ In name (f_names f lv)
            /\ (sd = SI \/ In w (f_windows f)) /\ v = cell (f_rows f) lv name sd g w.
Proof.
  unfold f_cell. destruct (find_gene gname (f_genes f)) as [g|]; [|discriminate].
  destruct (memN name (f_names f lv)) eqn:E1; cbn [andb]; [|discriminate].
  intro H. exists g. split; [reflexivity|]. split; [apply memN_in; exact E1|].
  destruct sd; cbn in H.
  - destruct (memZ w (f_windows f)) eqn:E2; [|discriminate]. inversion H. split; [right; apply memZ_in; exact E2|reflexivity].
  - inversion H. split; [left; reflexivity|reflexivity].
  - destruct (memZ w (f_windows f)) eqn:E2; [|discriminate]. inversion H. split; [right; apply memZ_in; exact E2|reflexivity].
Qed.

Lemma f_cell_defined f lv name sd w g : find_gene (g_name g) (f_genes f) = Some g -> In name (f_names f lv) ->
  (sd = SI \/ In w (f_windows f)) -> f_cell f lv name sd w (g_name g) = Some (cell (f_rows f) lv name sd g w).
Proof.
  intros Hg Hn Hw. unfold f_cell. rewrite Hg. rewrite (proj2 (memN_in _ _) Hn). cbn [andb].
  destruct Hw as [->|Hw]; [reflexivity|]. destruct sd; try reflexivity; rewrite (proj2 (memZ_in _ _) Hw); reflexivity.
Qed.

(* intragenic cells do not depend on the window argument *)
Lemma cell_intra_w rows lv n g w w' : cell rows lv n SI g w = cell rows lv n SI g w'.
Proof. reflexivity. Qed.
Lemma spec_cell_intra_w ivs g w w' : spec_cell ivs SI g w = spec_cell ivs SI g w'.
Proof. reflexivity. Qed.
