(* C07: densities of nested TE groupings are mutually consistent -- spec level and model level. *)
From Coq Require Import ZArith NArith List Bool Lia ZifyBool Permutation.
From TEV Require Import Base.Intervals Base.Count Model.Kernel Model.Revise Model.Pipeline
     Spec.Density Proofs.ReviseP Proofs.NameSort Proofs.Refine Proofs.RunP Proofs.Keys Proofs.C01P.
Import ListNotations. Open Scope Z_scope.

(* ---------- counting lemmas ---------- *)
Lemma cnt_nonneg P lo hi : 0 <= cnt P lo hi.
Proof. unfold cnt, cntn. lia. Qed.
Lemma cntn_le_len P : forall n lo, cntn P lo n <= Z.of_nat n.
Proof.
  induction n as [|k IH]; intro lo; [unfold cntn; cbn [zrange filter length]; lia|].
  rewrite cntn_S. specialize (IH (lo + 1)). destruct (P lo); lia.
Qed.
Lemma cnt_le_len P lo hi : lo <= hi + 1 -> cnt P lo hi <= hi - lo + 1.
Proof. intro H. unfold cnt. pose proof (cntn_le_len P (Z.to_nat (hi - lo + 1)) lo). lia. Qed.
Lemma cntn_mono P Q : (forall p, P p = true -> Q p = true) -> forall n lo, cntn P lo n <= cntn Q lo n.
Proof.
  intros H n. induction n as [|k IH]; intro lo; [unfold cntn; cbn [zrange filter length]; lia|].
  rewrite !cntn_S. specialize (IH (lo + 1)). specialize (H lo).
  destruct (P lo) eqn:EP; [rewrite (H eq_refl); lia|]. destruct (Q lo); lia.
Qed.
Lemma cnt_mono P Q lo hi : (forall p, P p = true -> Q p = true) -> cnt P lo hi <= cnt Q lo hi.
Proof. intro H. unfold cnt. apply cntn_mono. exact H. Qed.
Lemma cntn_or_le P Q : forall n lo, cntn (fun p => P p || Q p) lo n <= cntn P lo n + cntn Q lo n.
Proof.
  induction n as [|k IH]; intro lo; [unfold cntn; cbn [zrange filter length]; lia|].
  rewrite !cntn_S. specialize (IH (lo + 1)). destruct (P lo), (Q lo); cbn [orb]; lia.
Qed.
Lemma cnt_or_le P Q lo hi : cnt (fun p => P p || Q p) lo hi <= cnt P lo hi + cnt Q lo hi.
Proof. unfold cnt. apply cntn_or_le. Qed.

(* sum of a Z-valued function over a list of names *)
Definition sumN (f : N -> Z) (l : list N) : Z := fold_right (fun n a => f n + a) 0 l.

(* sub-additivity over any finite family of predicates indexed by names *)
Lemma cnt_exists_le (F : N -> Z -> bool) (l : list N) lo hi :
  cnt (fun p => existsb (fun n => F n p) l) lo hi <= sumN (fun n => cnt (F n) lo hi) l.
Proof.
  induction l as [|a l IH]; cbn [sumN fold_right].
  - unfold cnt. rewrite (cntn_ext _ (fun _ => false)) by (intro p; reflexivity). rewrite cntn_false. lia.
  - fold (sumN (fun n => cnt (F n) lo hi) l).
    pose proof (cnt_or_le (F a) (fun p => existsb (fun n => F n p) l) lo hi) as Hor.
    unfold cnt in *.
    rewrite (cntn_ext (fun p => existsb (fun n => F n p) (a :: l))
                      (fun p => F a p || existsb (fun n => F n p) l)) by (intro p; reflexivity).
    lia.
Qed.

(* ---------- coverage of groups ---------- *)
(* a position covered by the rows is covered by the group (by column [key]) of some row, and conversely *)
Lemma covered_ivs_of rows p :
  covered (ivs_of rows) p = true <-> exists t, In t rows /\ inb p (t_start t, t_stop t) = true.
Proof.
  unfold covered, ivs_of. rewrite existsb_exists. split.
  - intros [i [Hi Hp]]. apply in_map_iff in Hi. destruct Hi as [t [Ht Hin]]. exists t. rewrite Ht. auto.
  - intros [t [Ht Hp]]. exists (t_start t, t_stop t). split; [|exact Hp].
    apply (in_map (fun t0 => (t_start t0, t_stop t0))). exact Ht.
Qed.
Lemma covered_sub rows rows' p : (forall t, In t rows -> In t rows') ->
  covered (ivs_of rows) p = true -> covered (ivs_of rows') p = true.
Proof.
  intros Hs Hc. apply covered_ivs_of in Hc. destruct Hc as [t [Ht Hp]].
  apply covered_ivs_of. exists t. split; [apply Hs; exact Ht|exact Hp].
Qed.
Lemma sumN_le f g l : (forall n, In n l -> f n <= g n) -> sumN f l <= sumN g l.
Proof.
  induction l as [|a l IH]; intro H; cbn [sumN fold_right]; [lia|].
  fold (sumN f l). fold (sumN g l).
  pose proof (H a (or_introl eq_refl)) as Ha.
  assert (Hl : sumN f l <= sumN g l) by (apply IH; intros n Hn; apply H; right; exact Hn). lia.
Qed.
Lemma sumN_ext f g l : (forall n, In n l -> f n = g n) -> sumN f l = sumN g l.
Proof.
  induction l as [|a l IH]; intro H; cbn [sumN fold_right]; [reflexivity|].
  fold (sumN f l). fold (sumN g l).
  rewrite (H a (or_introl eq_refl)), IH; [reflexivity|]. intros n Hn; apply H; right; exact Hn.
Qed.
Lemma covered_groups (key : te -> N) rows p :
  covered (ivs_of rows) p = existsb (fun n => covered (ivs_of (keyed key n rows)) p) (nsortu (map key rows)).
Proof.
  apply eq_true_iff_eq. rewrite covered_ivs_of, existsb_exists. split.
  - intros [t [Ht Hp]]. exists (key t). split; [apply nsortu_in, in_map; exact Ht|].
    apply covered_ivs_of. exists t. split; [apply keyed_in; split; [exact Ht|reflexivity]|exact Hp].
  - intros [n [_ Hc]]. apply covered_ivs_of in Hc. destruct Hc as [t [Ht Hp]].
    apply keyed_in in Ht. exists t. split; [apply Ht|exact Hp].
Qed.
Lemma covered_keyed_sub key n rows p : covered (ivs_of (keyed key n rows)) p = true -> covered (ivs_of rows) p = true.
Proof. apply covered_sub. intros t Ht. apply keyed_in in Ht. apply Ht. Qed.

(* ---------- spec level: the five relations of C07 (numerators; the divisor is common) ---------- *)
Theorem spec_total_ge_group rows lv n sd g w :
  spec_num (ivs_of (keyed (col lv) n rows)) sd g w <= spec_num (ivs_of rows) sd g w.
Proof. unfold spec_num. apply cnt_mono. intro p. apply covered_keyed_sub. Qed.

Theorem spec_total_le_sum rows lv sd g w :
  spec_num (ivs_of rows) sd g w <=
  sumN (fun n => spec_num (ivs_of (keyed (col lv) n rows)) sd g w) (nsortu (map (col lv) rows)).
Proof.
  unfold spec_num. set (lo := fst (region sd g w)). set (hi := snd (region sd g w)).
  unfold cnt. rewrite (cntn_ext _ _ (covered_groups (col lv) rows)).
  apply (cnt_exists_le (fun n p => covered (ivs_of (keyed (col lv) n rows)) p)).
Qed.

(* an order is at most the sum of the superfamilies carried by its TEs *)
Theorem spec_order_le_sum_supers rows o sd g w :
  spec_num (ivs_of (keyed t_ord o rows)) sd g w <=
  sumN (fun s => spec_num (ivs_of (keyed t_sup s rows)) sd g w) (nsortu (map t_sup (keyed t_ord o rows))).
Proof.
  eapply Z.le_trans; [apply (spec_total_le_sum (keyed t_ord o rows) LSup)|].
  apply sumN_le. intros s _. cbn [col]. unfold spec_num. apply cnt_mono. intro p.
  apply covered_sub. intros t Ht. apply keyed_in in Ht. destruct Ht as [Ht Hs].
  apply keyed_in in Ht. apply keyed_in. split; [apply Ht|exact Hs].
Qed.

(* a superfamily all of whose TEs belong to one order never exceeds that order *)
Theorem spec_super_le_order rows s o sd g w :
  (forall t, In t rows -> t_sup t = s -> t_ord t = o) ->
  spec_num (ivs_of (keyed t_sup s rows)) sd g w <= spec_num (ivs_of (keyed t_ord o rows)) sd g w.
Proof.
  intro H. unfold spec_num. apply cnt_mono. intro p. apply covered_sub. intros t Ht.
  apply keyed_in in Ht. destruct Ht as [Ht Hs]. apply keyed_in. split; [exact Ht|apply H; assumption].
Qed.

(* ---------- model level (transport through the C01 refinement) ---------- *)
Section R.
Variables rS rO rT : N.
Notation revise3 := (revise3 rS rO rT).
Notation bookkeeping := (bookkeeping rS rO).

(* [rows] are the TEs of one chromosome; identifiers are not reserved labels *)
Definition rows_ok (rows : list te) : Prop :=
  Forall wf_te rows /\ rS <> rT /\ rO <> rT /\
  Forall (fun t => t_ord t <> rS /\ t_ord t <> rT /\ t_sup t <> rO /\ t_sup t <> rT) rows.

Definition num lv n c rows sd g w : Z := fst (cell (revise3 c rows) lv n sd g w).

(* real names of a level on this chromosome *)
Definition real_names (lv : level) (rows : list te) : list N := nsortu (map (col lv) rows).

Lemma real_name_ok lv n rows : rows_ok rows -> In n (map (col lv) rows) -> n <> bookkeeping lv /\ n <> rT.
Proof.
  intros [_ [_ [_ Hr]]] Hn. apply in_map_iff in Hn. destruct Hn as [t [Hc Ht]].
  rewrite Forall_forall in Hr. destruct (Hr t Ht) as [H1 [H2 [H3 H4]]]. subst n.
  destruct lv; cbn [col Refine.bookkeeping]; split; assumption.
Qed.
Lemma num_group lv n c rows sd g w : rows_ok rows -> wf_gene g -> 0 <= w -> In n (real_names lv rows) ->
  num lv n c rows sd g w = spec_num (ivs_of (keyed (col lv) n rows)) sd g w.
Proof.
  intros Hok Hg Hw Hn. unfold real_names in Hn. apply (proj1 (nsortu_in _ _)) in Hn.
  destruct (real_name_ok lv n rows Hok Hn) as [Hb Ht]. unfold num.
  rewrite (cell_group rS rO rT lv n c rows sd g w (proj1 Hok) Hg Hw Hb Ht). reflexivity.
Qed.
Lemma num_total lv c rows sd g w : rows_ok rows -> wf_gene g -> 0 <= w ->
  num lv rT c rows sd g w = spec_num (ivs_of rows) sd g w.
Proof.
  intros Hok Hg Hw. destruct Hok as [Hwf [HS [HO Hr]]]. unfold num.
  rewrite (cell_total rS rO rT lv c rows sd g w Hwf Hg Hw); [reflexivity| |].
  - destruct lv; cbn [Refine.bookkeeping]; assumption.
  - eapply Forall_impl; [|exact Hr]. intros t [H1 [H2 [H3 H4]]]. destruct lv; cbn [col]; assumption.
Qed.

Theorem total_ge_group lv n c rows sd g w : rows_ok rows -> wf_gene g -> 0 <= w -> In n (real_names lv rows) ->
  num lv n c rows sd g w <= num lv rT c rows sd g w.
Proof.
  intros Hok Hg Hw Hn. rewrite (num_group lv n c rows sd g w Hok Hg Hw Hn), (num_total lv c rows sd g w Hok Hg Hw).
  apply spec_total_ge_group.
Qed.

Theorem total_le_sum lv c rows sd g w : rows_ok rows -> wf_gene g -> 0 <= w ->
  num lv rT c rows sd g w <= sumN (fun n => num lv n c rows sd g w) (real_names lv rows).
Proof.
  intros Hok Hg Hw. rewrite (num_total lv c rows sd g w Hok Hg Hw).
  rewrite (sumN_ext (fun n => num lv n c rows sd g w)
                    (fun n => spec_num (ivs_of (keyed (col lv) n rows)) sd g w)).
  - apply spec_total_le_sum.
  - intros n Hn. apply num_group; assumption.
Qed.

Theorem order_le_sum_supers o c rows sd g w : rows_ok rows -> wf_gene g -> 0 <= w -> In o (real_names LOrd rows) ->
  num LOrd o c rows sd g w <= sumN (fun s => num LSup s c rows sd g w) (nsortu (map t_sup (keyed t_ord o rows))).
Proof.
  intros Hok Hg Hw Ho. rewrite (num_group LOrd o c rows sd g w Hok Hg Hw Ho).
  rewrite (sumN_ext (fun s => num LSup s c rows sd g w)
                    (fun s => spec_num (ivs_of (keyed t_sup s rows)) sd g w)).
  - apply spec_order_le_sum_supers.
  - intros s Hs. apply (num_group LSup s c rows sd g w Hok Hg Hw).
    unfold real_names. apply nsortu_in. apply (proj1 (nsortu_in _ _)) in Hs. cbn [col].
    apply in_map_iff in Hs. destruct Hs as [t [Hts Ht]]. apply keyed_in in Ht.
    rewrite <- Hts. apply in_map. apply Ht.
Qed.

Theorem super_le_order s o c rows sd g w : rows_ok rows -> wf_gene g -> 0 <= w ->
  In s (real_names LSup rows) -> (forall t, In t rows -> t_sup t = s -> t_ord t = o) ->
  num LSup s c rows sd g w <= num LOrd o c rows sd g w.
Proof.
  intros Hok Hg Hw Hs H.
  assert (Ho : In o (real_names LOrd rows)).
  { unfold real_names in *. apply nsortu_in. apply (proj1 (nsortu_in _ _)) in Hs. cbn [col] in *.
    apply in_map_iff in Hs. destruct Hs as [t [Hts Ht]]. rewrite <- (H t Ht Hts). apply in_map. exact Ht. }
  rewrite (num_group LSup s c rows sd g w Hok Hg Hw Hs), (num_group LOrd o c rows sd g w Hok Hg Hw Ho).
  cbn [col]. apply spec_super_le_order. exact H.
Qed.
End R.
