(* The lookup by labels of the reader: what get_specific_slice selects, stated as a function of the label lists
   (slice_spec) and proved equal to the translation of the code (Gen/GenLookup.v, regenerated on every run). *)
From Coq Require Import ZArith NArith List Bool Lia.
From TEV Require Import Model.Pipeline Model.Reader Proofs.ReaderP Proofs.Keys Gen.GenLookup.
Import ListNotations.

Definition level_of (cat : N) : option level := if (cat =? 0)%N then Some LOrd else if (cat =? 1)%N then Some LSup else None.
Definition side_of (dir : N) : option side := if (dir =? 0)%N then Some SL else if (dir =? 1)%N then Some SI else if (dir =? 2)%N then Some SR else None.

(* category and direction must be known; the intragenic arrays take no window and answer at window index 0; the others
   need a window of the list; the group is found by its NAME on the axis of its category *)
Definition slice_spec (cat dir : N) (name : N) (w : option Z) (orders supers : list N) (windows : list Z)
    : option (level * side * nat * nat) :=
  match level_of cat, side_of dir with
  | Some lv, Some sd =>
    let names := match lv with LOrd => orders | LSup => supers end in
    match sd, w with
    | SI, None => match last_index name names with Some i => Some (lv, SI, i, 0%nat) | None => None end
    | SI, Some _ => None
    | _, Some wv => match last_index name names, last_indexZ wv windows with Some i, Some j => Some (lv, sd, i, j) | _, _ => None end
    | _, None => None
    end
  | _, _ => None
  end.

Lemma memN_false_last x l : Reader.memN x l = false -> last_index x l = None.
Proof. intros H. apply last_index_none. intro Hin. apply ReaderP.memN_in in Hin. congruence. Qed.
Lemma memN_true_last x l : Reader.memN x l = true -> exists i, last_index x l = Some i.
Proof. intros H. apply ReaderP.memN_in in H. destruct (last_index_nth x l H) as [k [Hk _]]. exists k. exact Hk. Qed.
Lemma memZ_false_last x l : memZ x l = false -> last_indexZ x l = None.
Proof. intros H. apply last_indexZ_none. intro Hin. apply memZ_in in Hin. congruence. Qed.

Theorem gen_get_specific_slice_ok cat dir name w orders supers windows :
  gen_get_specific_slice cat dir name w orders supers windows = slice_spec cat dir name w orders supers windows.
Proof.
  unfold gen_get_specific_slice, slice_spec, level_of, side_of.
  destruct (N.eqb_spec cat 0) as [->|Hc0]; [|destruct (N.eqb_spec cat 1) as [->|Hc1]];
    (destruct (N.eqb_spec dir 0) as [->|Hd0]; [|destruct (N.eqb_spec dir 1) as [->|Hd1]; [|destruct (N.eqb_spec dir 2) as [->|Hd2]]]);
    cbn [N.eqb Pos.eqb negb orb andb]; try reflexivity;
    destruct w as [wv|]; cbn [negb orb andb]; try reflexivity;
    try (destruct (memZ wv windows) eqn:Ez; cbn [negb orb andb]; [|rewrite (memZ_false_last _ _ Ez); match goal with |- _ = match ?x with _ => _ end => destruct x end; reflexivity]);
    match goal with |- context [Reader.memN name ?l] =>
      destruct (Reader.memN name l) eqn:En; cbn [negb];
      [destruct (memN_true_last _ _ En) as [i Ei]; rewrite Ei; reflexivity
      |rewrite (memN_false_last _ _ En); reflexivity] end.
Qed.
