(* Correctness of the revision of one group: coverage preserved, output separated. *)
From Coq Require Import ZArith List Bool Lia ZifyBool Permutation.
From TEV Require Import Base.Intervals Base.Count Model.Revise.
Import ListNotations. Open Scope Z_scope.

Lemma insert_start_perm i l : Permutation (i :: l) (insert_start i l).
Proof.
  induction l as [|j r IH]; cbn [insert_start]; [reflexivity|].
  destruct (fst i <=? fst j); [reflexivity|].
  rewrite perm_swap. constructor. exact IH.
Qed.

Lemma sort_start_perm l : Permutation l (sort_start l).
Proof.
  induction l as [|i l IH]; cbn [sort_start fold_right]; [constructor|].
  rewrite <- insert_start_perm. constructor. exact IH.
Qed.

Lemma insert_start_sorted i l : sorted_start l -> sorted_start (insert_start i l).
Proof.
  intro H. induction H as [|j r Hge Hs IH]; cbn [insert_start].
  - constructor; constructor.
  - destruct (fst i <=? fst j) eqn:E.
    + constructor; [|constructor; assumption].
      constructor; [lia|]. eapply Forall_impl; [|exact Hge]. cbn. intros a Ha. lia.
    + constructor; [|exact IH].
      unfold ge_start. rewrite <- insert_start_perm. constructor; [lia|exact Hge].
Qed.

Lemma sort_start_sorted l : sorted_start (sort_start l).
Proof.
  induction l as [|i l IH]; cbn [sort_start fold_right]; [constructor|].
  apply insert_start_sorted. exact IH.
Qed.

Lemma covered_perm l l' p : Permutation l l' -> covered l p = covered l' p.
Proof.
  unfold covered. intro H. induction H as [|x l l' H IH|x y l|l l' l'' H1 IH1 H2 IH2]; cbn [existsb].
  - reflexivity.
  - rewrite IH. reflexivity.
  - destruct (inb p x), (inb p y); reflexivity.
  - congruence.
Qed.

Theorem revise_spec l : Forall wfi l ->
  (forall p, covered (revise l) p = covered l p) /\ separated (revise l).
Proof.
  intro Hwf. unfold revise.
  pose proof (sort_start_perm l) as HP.
  assert (Hlen : (length (sort_start l) <= length l)%nat) by (rewrite <- (Permutation_length HP); lia).
  assert (Hwf' : Forall wfi (sort_start l)) by (rewrite <- HP; exact Hwf).
  split.
  - intro p. destruct (merge_all_spec (length l) (sort_start l) p Hlen (sort_start_sorted l) Hwf') as [Hc _].
    rewrite Hc. symmetry. apply covered_perm. exact HP.
  - destruct (merge_all_spec (length l) (sort_start l) 0 Hlen (sort_start_sorted l) Hwf') as [_ [Hs _]]. exact Hs.
Qed.

Lemma revise_cover l p : Forall wfi l -> covered (revise l) p = covered l p.
Proof. intro H. apply (proj1 (revise_spec l H)). Qed.

Lemma revise_separated l : Forall wfi l -> separated (revise l).
Proof. intro H. apply (proj2 (revise_spec l H)). Qed.

(* order-freeness: the revision of a permuted group covers the same positions *)
Lemma revise_perm_cover l l' p : Forall wfi l -> Permutation l l' ->
  covered (revise l) p = covered (revise l') p.
Proof.
  intros Hwf HP. rewrite revise_cover by exact Hwf.
  rewrite revise_cover by (rewrite <- HP; exact Hwf). apply covered_perm. exact HP.
Qed.

(* every revised element is well-formed, and its length field is stop - start + 1 by construction *)
Lemma separated_wfi l : separated l -> Forall wfi l.
Proof. intro H; induction H; constructor; assumption. Qed.

(* nothing absent is introduced: the revision of a non-empty group is non-empty and vice versa *)
Lemma revise_nil_iff l : Forall wfi l -> (revise l = [] <-> l = []).
Proof.
  intro Hwf. split.
  - intro H. destruct l as [|[s e] r]; [reflexivity|]. exfalso.
    pose proof (revise_cover _ s Hwf) as Hc. rewrite H in Hc.
    inversion Hwf as [|x y Hw Hr]; subst. unfold wfi in Hw; cbn [fst snd] in Hw.
    unfold covered in Hc; cbn [existsb] in Hc. unfold inb in Hc; cbn [fst snd] in Hc.
    assert ((s <=? s) && (s <=? e) = true) by lia. rewrite H0 in Hc. discriminate.
  - intros ->. reflexivity.
Qed.

(* sum of clipped overlaps of the revised group = covered positions of the input group *)
Theorem revise_sum_ovl l lo hi : Forall wfi l -> lo <= hi + 1 ->
  sum_ovl lo hi (revise l) = cnt (covered l) lo hi.
Proof.
  intros Hwf Hlh. rewrite (sum_ovl_separated _ (revise_separated l Hwf) lo hi Hlh).
  unfold cnt. apply cntn_ext. intro p. apply revise_cover. exact Hwf.
Qed.
