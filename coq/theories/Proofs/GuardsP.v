(* The guard functions of /repo as translated (Gen/GenGuards.v) accept exactly what the models say:
   - MergeData refuses an overlap file unless its chromosome id, its window list and its gene-name list EQUAL the
     request's (the ErrW / ErrG outcomes of Model/Cache.v, the guards of C13);
   - PreProcessor._validate_split = Model.Pipeline.validate_split (C05, C18);
   - check_strand accepts exactly the strand codes of + - . (Model.Pipeline.strand_ok, C18). *)
From Coq Require Import ZArith NArith List Bool Lia.
From TEV Require Import Model.Guards Model.Pipeline Gen.GenGuards.
Import ListNotations.

Lemma list_eqb_spec {A} (eqb : A -> A -> bool) (H : forall x y, eqb x y = true <-> x = y) :
  forall a b, list_eqb eqb a b = true <-> a = b.
Proof.
  induction a as [|x a IH]; destruct b as [|y b]; cbn [list_eqb]; split; intro E; try reflexivity; try discriminate.
  - apply andb_prop in E. destruct E as [E1 E2]. apply H in E1. apply IH in E2. subst. reflexivity.
  - inversion E; subst. apply andb_true_intro. split; [apply H; reflexivity|apply IH; reflexivity].
Qed.

Lemma list_eqb_false {A} (eqb : A -> A -> bool) (H : forall x y, eqb x y = true <-> x = y) a b : list_eqb eqb a b = false -> a <> b.
Proof. intros E Hab. apply (list_eqb_spec eqb H) in Hab. congruence. Qed.

(* case analysis on every equality test of the translated guard, whatever the order of its operands, then equational reasoning *)
Ltac guard_cases :=
  repeat match goal with
  | |- context [list_eqb Z.eqb ?x ?y] =>
      let E := fresh "E" in destruct (list_eqb Z.eqb x y) eqn:E;
      [apply (list_eqb_spec Z.eqb Z.eqb_eq) in E | apply (list_eqb_false Z.eqb Z.eqb_eq) in E]
  | |- context [list_eqb N.eqb ?x ?y] =>
      let E := fresh "E" in destruct (list_eqb N.eqb x y) eqn:E;
      [apply (list_eqb_spec N.eqb N.eqb_eq) in E | apply (list_eqb_false N.eqb N.eqb_eq) in E]
  | |- context [N.eqb ?x ?y] =>
      let E := fresh "E" in destruct (N.eqb x y) eqn:E; [apply N.eqb_eq in E | apply N.eqb_neq in E]
  end.
Ltac guard_finish :=
  cbn; split;
  [ let H := fresh "H" in intro H; try discriminate H; subst; eexists; split; reflexivity
  | let H := fresh "H" in let H1 := fresh "H" in let H2 := fresh "H" in let w := fresh "w" in
    intro H; try (destruct H as (w & H1 & H2);
                  first [discriminate H1 | discriminate H2 | (inversion H1; inversion H2; subst; first [reflexivity | congruence])]) ].

Theorem gen_validate_windows_ok mine theirs :
  gen_validate_windows mine theirs = true <-> exists ws, mine = Some ws /\ theirs = Some ws.
Proof. unfold gen_validate_windows. destruct mine as [a|], theirs as [b|]; cbn; guard_cases; guard_finish. Qed.

Theorem gen_validate_gene_names_ok mine theirs :
  gen_validate_gene_names mine theirs = true <-> exists gs, mine = Some gs /\ theirs = Some gs.
Proof. unfold gen_validate_gene_names. destruct mine as [a|], theirs as [b|]; cbn; guard_cases; guard_finish. Qed.

Theorem gen_validate_chromosome_ok mine theirs :
  gen_validate_chromosome mine theirs = true <-> exists c, mine = Some c /\ theirs = Some c.
Proof. unfold gen_validate_chromosome. destruct mine as [a|], theirs as [b|]; cbn; guard_cases; guard_finish. Qed.

Lemma forallb2_zip (f : N -> N -> bool) : (forall x y, f x y = N.eqb x y) ->
  forall a b, forallb2 f a b = zip_all_eq a b.
Proof.
  intro Hf. induction a as [|x a IH]; destruct b as [|y b]; cbn [forallb2 zip_all_eq]; try reflexivity.
  rewrite Hf, IH. reflexivity.
Qed.

Theorem gen_validate_split_ok genes tes : gen_validate_split genes tes = validate_split genes tes.
Proof.
  unfold gen_validate_split, validate_split.
  destruct (Nat.eqb (length genes) (length tes)); cbn [negb andb]; [|reflexivity].
  rewrite ?andb_true_r. apply forallb2_zip. intros x y. cbv zeta.
  destruct (N.eqb_spec x y); destruct (N.eqb_spec y x); subst; cbn [negb]; try reflexivity; congruence.
Qed.

Lemma forallb_map' {A B} (f : B -> bool) (g : A -> B) l : forallb f (map g l) = forallb (fun x => f (g x)) l.
Proof. induction l as [|a l IH]; cbn [map forallb]; [reflexivity|rewrite IH; reflexivity]. Qed.
Lemma forallb_ext' {A} (f g : A -> bool) : (forall x, f x = g x) -> forall l, forallb f l = forallb g l.
Proof. intros H l. induction l as [|a l IH]; cbn [forallb]; [reflexivity|rewrite H, IH; reflexivity]. Qed.

Theorem gen_check_strand_ok genes : gen_check_strand (map g_strand genes) = forallb strand_ok genes.
Proof.
  unfold gen_check_strand. rewrite forallb_map'.
  assert (H : forall g, existsb (N.eqb (g_strand g)) [1%N; 0%N; 2%N] = strand_ok g).
  { intro g. unfold strand_ok. cbn [existsb]. rewrite orb_false_r.
    destruct (N.eqb_spec (g_strand g) 1), (N.eqb_spec (g_strand g) 0), (N.eqb_spec (g_strand g) 2); cbn [orb];
      destruct (N.leb_spec (g_strand g) 2); try reflexivity; lia. }
  rewrite (forallb_ext' _ _ H). destruct (forallb strand_ok genes); reflexivity.
Qed.
