(* binary32 rounding (Flocq) of a quotient N/D with 0 <= N <= D, 0 < D stays in [0, 1] and is a binary32 number:
   rounding to nearest is monotone and 0 and 1 are representable.
   Uses Flocq over Coq's real numbers: depends on the standard library's axioms for the reals
   (ClassicalDedekindReals.sig_forall_dec, sig_not_dec, functional_extensionality_dep, Classical_Prop.classic). *)
From Coq Require Import ZArith Reals Lra.
From Flocq Require Import Core.
Open Scope R_scope.

Definition fexp32 := FLT_exp (-149) 24.
Definition rnd32 (x : R) : R := round radix2 fexp32 ZnearestE x.

Lemma fmt1 : generic_format radix2 fexp32 1.
Proof. change 1 with (bpow radix2 0). apply generic_format_FLT_bpow; [reflexivity|]. unfold Z.le; cbn; discriminate. Qed.

Theorem quotient_round32 (N D : Z) : (0 <= N <= D)%Z -> (0 < D)%Z ->
  0 <= rnd32 (IZR N / IZR D) <= 1 /\ generic_format radix2 fexp32 (rnd32 (IZR N / IZR D)).
Proof.
  intros [H0 HN] HD.
  assert (HDr : 0 < IZR D) by (apply IZR_lt; exact HD).
  assert (Hq0 : 0 <= IZR N / IZR D) by (apply Rmult_le_pos; [apply IZR_le; exact H0|left; apply Rinv_0_lt_compat; exact HDr]).
  assert (Hq1 : IZR N / IZR D <= 1).
  { apply (Rmult_le_reg_r (IZR D)); [exact HDr|]. unfold Rdiv. rewrite Rmult_assoc, Rinv_l by lra. rewrite Rmult_1_r, Rmult_1_l. apply IZR_le; exact HN. }
  unfold rnd32. split; [split|].
  - rewrite <- (round_0 radix2 fexp32 ZnearestE). apply round_le; [apply FLT_exp_valid; reflexivity|apply valid_rnd_N|exact Hq0].
  - apply Rle_trans with (round radix2 fexp32 ZnearestE 1); [|rewrite (round_generic radix2 fexp32 ZnearestE 1 fmt1); apply Rle_refl].
    apply round_le; [apply FLT_exp_valid; reflexivity|apply valid_rnd_N|exact Hq1].
  - apply generic_format_round; [apply FLT_exp_valid; reflexivity|apply valid_rnd_N].
Qed.

(* the rounding is exact at the two ends: an empty region reports 0, a fully covered one 1 *)
Theorem quotient_round32_ends (D : Z) : (0 < D)%Z -> rnd32 (IZR 0 / IZR D) = 0 /\ rnd32 (IZR D / IZR D) = 1.
Proof.
  intro HD. assert (HDr : IZR D <> 0) by (apply not_0_IZR; intro E; rewrite E in HD; inversion HD).
  unfold rnd32. split.
  - unfold Rdiv. rewrite Rmult_0_l. apply round_0. apply valid_rnd_N.
  - unfold Rdiv. rewrite Rinv_r by exact HDr. apply round_generic; [apply valid_rnd_N|exact fmt1].
Qed.
