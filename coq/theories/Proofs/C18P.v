(* C18: uninterpretable annotations are rejected before any result exists. *)
From Coq Require Import ZArith NArith List Bool Lia.
From TEV Require Import Base.PyRange Model.Pipeline Proofs.NameSort Proofs.RunP Proofs.LocalP.
Import ListNotations. Open Scope Z_scope.

(* columns of the two annotation files; the importers address columns by name *)
Inductive gcol := GName | GChrom | GStart | GStop | GStrand | GLength | GFeature.
Inductive tcol := TChrom | TStart | TStop | TOrder | TSuper | TStrand | TLength.
Definition gcol_eqb (a b : gcol) : bool :=
  match a, b with GName, GName | GChrom, GChrom | GStart, GStart | GStop, GStop | GStrand, GStrand
                | GLength, GLength | GFeature, GFeature => true | _, _ => false end.
Definition tcol_eqb (a b : tcol) : bool :=
  match a, b with TChrom, TChrom | TStart, TStart | TStop, TStop | TOrder, TOrder | TSuper, TSuper
                | TStrand, TStrand | TLength, TLength => true | _, _ => false end.
(* the columns the results depend on (Feature, TE Strand, TE Length are carried but unused) *)
Definition g_required : list gcol := [GName; GChrom; GStart; GStop; GStrand; GLength].
Definition t_required : list tcol := [TChrom; TStart; TStop; TOrder; TSuper].
Definition has_all {A} (eqb : A -> A -> bool) (req present : list A) : bool :=
  forallb (fun c => existsb (eqb c) present) req.

Inductive ferr := MissingColumn | Rejected (e : err).

Section R.
Variables rS rO rT : N.

(* a run on files given as header + rows *)
Definition run_files (gh : list gcol) (th : list tcol) first delta last genes tes : ferr + list dfile :=
  if negb (has_all gcol_eqb g_required gh && has_all tcol_eqb t_required th) then inl MissingColumn
  else match run rS rO rT first delta last genes tes with inl e => inl (Rejected e) | inr fs => inr fs end.

Lemma not_nodup_has_dup l : ~ NoDup l -> has_dup l = true.
Proof. intro H. destruct (has_dup l) eqn:E; [reflexivity|]. exfalso. apply H. apply has_dup_false_nodup. exact E. Qed.

(* a duplicated gene identifier anywhere in the file *)
Theorem dup_rejected first delta last ws a b c name g1 g2 tes :
  windows_of first delta last = Some ws -> g_name g1 = name -> g_name g2 = name ->
  run rS rO rT first delta last (a ++ g1 :: b ++ g2 :: c) tes = inl DupGene.
Proof.
  intros Hw H1 H2. unfold run. rewrite Hw.
  rewrite not_nodup_has_dup; [reflexivity|].
  rewrite map_app. cbn [map]. rewrite map_app. cbn [map]. rewrite H1, H2. intro Hnd.
  apply NoDup_remove_2 in Hnd. apply Hnd. apply in_or_app. right. apply in_or_app. right. left. reflexivity.
Qed.

(* a strand symbol other than + - . anywhere in the file (identifiers unique) *)
Theorem strand_rejected first delta last ws a g c tes :
  windows_of first delta last = Some ws -> NoDup (map g_name (a ++ g :: c)) -> (2 < g_strand g)%N ->
  run rS rO rT first delta last (a ++ g :: c) tes = inl BadStrand.
Proof.
  intros Hw Hnd Hs. unfold run. rewrite Hw, (nodup_has_dup_false _ Hnd).
  assert (E : forallb strand_ok (a ++ g :: c) = false).
  { rewrite forallb_app. cbn [forallb]. unfold strand_ok at 2.
    assert ((g_strand g <=? 2)%N = false) by (apply N.leb_gt; exact Hs). rewrite H. cbn [andb]. apply andb_false_r. }
  rewrite E. reflexivity.
Qed.

(* a missing required column *)
Theorem column_rejected gh th first delta last genes tes :
  has_all gcol_eqb g_required gh = false \/ has_all tcol_eqb t_required th = false ->
  run_files gh th first delta last genes tes = inl MissingColumn.
Proof. intros [H|H]; unfold run_files; rewrite H; [reflexivity|rewrite andb_false_r; reflexivity]. Qed.

(* any rejection means no result file: results exist only when every check has passed *)
Theorem no_result_on_rejection gh th first delta last genes tes e :
  run_files gh th first delta last genes tes = inl e -> forall fs, run_files gh th first delta last genes tes <> inr fs.
Proof. intros H fs H'. rewrite H in H'. discriminate. Qed.
End R.
