(* From single cells to whole runs: what [run] returns, which files, which genes, which windows. *)
From Coq Require Import ZArith NArith List Bool Lia ZifyBool Permutation.
From TEV Require Import Base.Intervals Base.Count Base.PyRange Model.Kernel Model.Revise Model.Pipeline
     Spec.Density Proofs.ReviseP Proofs.NameSort Proofs.Refine.
Import ListNotations. Open Scope Z_scope.

Lemma insert_gene_perm g l : Permutation (g :: l) (insert_gene g l).
Proof.
  induction l as [|h r IH]; cbn [insert_gene]; [reflexivity|].
  destruct (g_start g <=? g_start h); [reflexivity|]. rewrite perm_swap. constructor. exact IH.
Qed.
Lemma sort_genes_perm l : Permutation l (sort_genes l).
Proof.
  induction l as [|g l IH]; cbn [sort_genes fold_right]; [constructor|].
  rewrite <- insert_gene_perm. constructor. exact IH.
Qed.

Lemma genes_on_in c genes g : In g (genes_on c genes) <-> In g genes /\ g_chr g = c.
Proof.
  unfold genes_on. split.
  - intro H. apply (Permutation_in _ (Permutation_sym (sort_genes_perm _))) in H.
    apply filter_In in H. destruct H as [H1 H2]. apply N.eqb_eq in H2. auto.
  - intros [H1 H2]. apply (Permutation_in _ (sort_genes_perm _)). apply filter_In. split; [exact H1|].
    apply N.eqb_eq. exact H2.
Qed.

Lemma genes_on_perm c genes : Permutation (genes_on c genes) (filter (fun g => (g_chr g =? c)%N) genes).
Proof. unfold genes_on. symmetry. apply sort_genes_perm. Qed.

Lemma find_gene_some n gs g : find_gene n gs = Some g -> In g gs /\ g_name g = n.
Proof.
  unfold find_gene. intro H. apply find_some in H. destruct H as [H1 H2]. apply N.eqb_eq in H2. auto.
Qed.

Lemma has_dup_false_nodup l : has_dup l = false -> NoDup l.
Proof.
  induction l as [|x r IH]; cbn [has_dup]; intro H; [constructor|].
  apply orb_false_iff in H. destruct H as [H1 H2]. constructor; [|apply IH; exact H2].
  intro Hin. apply memN_in in Hin. congruence.
Qed.
Lemma nodup_has_dup_false l : NoDup l -> has_dup l = false.
Proof.
  intro H; induction H as [|x r Hx Hr IH]; cbn [has_dup]; [reflexivity|].
  rewrite IH, orb_false_r. destruct (memN x r) eqn:E; [|reflexivity]. apply memN_in in E. contradiction.
Qed.

(* a gene name identifies the gene when names are unique *)
Lemma find_gene_unique n gs g : NoDup (map g_name gs) -> In g gs -> g_name g = n -> find_gene n gs = Some g.
Proof.
  unfold find_gene. induction gs as [|h r IH]; intros Hnd Hin Hn; [inversion Hin|].
  cbn [map] in Hnd. inversion Hnd as [|x y Hx Hr]; subst. cbn [find].
  destruct Hin as [->|Hin].
  - rewrite N.eqb_refl. reflexivity.
  - destruct (g_name h =? g_name g)%N eqn:E.
    + apply N.eqb_eq in E. exfalso. apply Hx. rewrite E. apply in_map. exact Hin.
    + apply IH; auto.
Qed.

Lemma zip_all_eq_same_len a : forall b, length a = length b -> zip_all_eq a b = true -> a = b.
Proof.
  induction a as [|x a IH]; intros [|y b] Hl Hz; cbn [length] in Hl; try discriminate; [reflexivity|].
  cbn [zip_all_eq] in Hz. apply andb_true_iff in Hz. destruct Hz as [H1 H2]. apply N.eqb_eq in H1. subst.
  f_equal. apply IH; [lia|exact H2].
Qed.
Lemma zip_all_eq_refl a : zip_all_eq a a = true.
Proof. induction a as [|x a IH]; cbn [zip_all_eq]; [reflexivity|]. rewrite N.eqb_refl, IH. reflexivity. Qed.

Lemma validate_split_iff gc tc : validate_split gc tc = true <-> gc = tc.
Proof.
  unfold validate_split. split.
  - intro H. apply andb_true_iff in H. destruct H as [H1 H2]. apply Nat.eqb_eq in H1.
    apply zip_all_eq_same_len; assumption.
  - intros ->. rewrite Nat.eqb_refl, zip_all_eq_refl. reflexivity.
Qed.

Section R.
Variables rS rO rT : N.
Notation run := (run rS rO rT).
Notation revise3 := (revise3 rS rO rT).

(* inversion of a successful run *)
Lemma run_inr first delta last genes tes fs : run first delta last genes tes = inr fs ->
  exists ws, windows_of first delta last = Some ws
  /\ has_dup (map g_name genes) = false
  /\ forallb strand_ok genes = true
  /\ nsortu (map g_chr genes) = nsortu (map t_chr tes)
  /\ fs = map (fun c => mkF c (genes_on c genes) ws (revise3 c (on_chr c tes))) (nsortu (map g_chr genes)).
Proof.
  unfold Pipeline.run. destruct (windows_of first delta last) as [ws|]; [|discriminate].
  destruct (has_dup (map g_name genes)); [discriminate|].
  destruct (forallb strand_ok genes); cbn [negb]; [|discriminate].
  destruct (validate_split _ _) eqn:Ev; cbn [negb]; [|discriminate].
  intro H. inversion H. exists ws. apply validate_split_iff in Ev. repeat split; auto.
Qed.

(* C01/C10: the run succeeds on every well-formed input *)
Theorem run_total first delta last genes tes :
  delta <> 0 -> NoDup (map g_name genes) -> Forall wf_gene genes ->
  (forall c, In c (map g_chr genes) <-> In c (map t_chr tes)) ->
  exists fs, run first delta last genes tes = inr fs.
Proof.
  intros Hd Hnd Hwf Hch. unfold Pipeline.run, windows_of, py_range.
  destruct (delta =? 0) eqn:E; [lia|].
  rewrite (nodup_has_dup_false _ Hnd).
  assert (Hs : forallb strand_ok genes = true).
  { apply forallb_forall. intros g Hg. rewrite Forall_forall in Hwf. destruct (Hwf g Hg) as [_ [_ Hst]].
    unfold strand_ok. apply N.leb_le. exact Hst. }
  rewrite Hs. cbn [negb].
  rewrite (nsortu_ext _ _ Hch).
  assert (Hv : validate_split (nsortu (map t_chr tes)) (nsortu (map t_chr tes)) = true) by (apply validate_split_iff; reflexivity).
  rewrite Hv. cbn [negb]. destruct (delta <? 0); eexists; reflexivity.
Qed.

(* every file of a successful run: its chromosome, genes, windows, rows *)
Lemma run_file first delta last genes tes fs f : run first delta last genes tes = inr fs -> In f fs ->
  exists ws, windows_of first delta last = Some ws /\ In (f_chr f) (map g_chr genes)
  /\ f_genes f = genes_on (f_chr f) genes /\ f_windows f = ws
  /\ f_rows f = revise3 (f_chr f) (on_chr (f_chr f) tes) /\ NoDup (map g_name genes).
Proof.
  intros Hr Hf. destruct (run_inr _ _ _ _ _ _ Hr) as [ws [Hw [Hd [_ [_ ->]]]]].
  apply in_map_iff in Hf. destruct Hf as [c [<- Hc]]. cbn [f_chr f_genes f_windows f_rows].
  exists ws. repeat split; auto. - apply (proj1 (nsortu_in _ _)) in Hc. exact Hc. - apply has_dup_false_nodup. exact Hd.
Qed.

(* one file per chromosome of the gene annotation, in sorted order *)
Lemma run_chroms first delta last genes tes fs : run first delta last genes tes = inr fs ->
  map f_chr fs = nsortu (map g_chr genes).
Proof.
  intro Hr. destruct (run_inr _ _ _ _ _ _ Hr) as [ws [_ [_ [_ [_ ->]]]]]. rewrite map_map. cbn [f_chr]. apply map_id.
Qed.
End R.

(* the window list is exactly first, first+delta, ... up to last *)
Theorem windows_spec first delta last ws : 0 < delta -> windows_of first delta last = Some ws ->
  forall x, In x ws <-> exists k, 0 <= k /\ x = first + k * delta /\ x <= last.
Proof.
  intros Hd H x. unfold windows_of, py_range in H.
  destruct (delta =? 0) eqn:E0; [lia|]. destruct (delta <? 0) eqn:E1; [lia|]. inversion H; subst ws; clear H.
  rewrite (range_fuel_spec _ first (last + 1) delta Hd (le_n _)).
  split; intros [k [Hk [Hx Hl]]]; exists k; repeat split; auto; lia.
Qed.
