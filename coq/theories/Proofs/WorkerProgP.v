(* WorkerProcess.run as translated from /repo (Gen/GenCF_worker_run.v) behaves, on every script of
   environment answers, exactly like the hand-written step machine Model/Worker.v with [fixed = true].
   Hence the C20 theorems (proved about Model/Worker.v) hold of the translated code. *)
From Coq Require Import List Bool Arith ZArith Lia.
From TEV Require Import Model.PyProg Model.Worker Model.WorkerProg Gen.GenCF_worker_run.
From TEV Require Proofs.WorkerP.
Import ListNotations.

(* ---- the next answer of a given kind ---- *)
Fixpoint next_of (k : kind) (script : list ans) : option (ans * list ans) :=
  match script with
  | [] => None
  | a :: r => if kind_eqb (kind_of_ans a) k then Some (a, r) else next_of k r
  end.

Lemma next_of_spec k script a r : next_of k script = Some (a, r) -> kind_of_ans a = k /\ length r < length script.
Proof.
  revert a r. induction script as [|b s IH]; intros a r H; cbn [next_of] in H; [discriminate|].
  destruct (kind_eqb (kind_of_ans b) k) eqn:E.
  - inversion H; subst. split; [|cbn; lia]. destruct (kind_of_ans a), k; try discriminate; reflexivity.
  - destruct (IH _ _ H) as [H1 H2]. split; [exact H1|cbn; lia].
Qed.

(* ---- model side ---- *)
Definition pc_kind (p : wpc) : option kind :=
  match p with PTop => Some KStop | PSend => Some KPut | PGet => Some KGet | PExit _ => None end.

Lemma step_wrong_kind exec s a k : pc_kind (pc s) = Some k -> kind_eqb (kind_of_ans a) k = false -> step exec true s a = s.
Proof.
  unfold step. destruct (pc s) eqn:Ep; cbn [pc_kind]; intros Hk Hw; inversion Hk; subst;
    destruct a as [[|]|[|]|[j| |]]; cbn in Hw; try discriminate; reflexivity.
Qed.

Lemma run_next exec k : forall script s, pc_kind (pc s) = Some k ->
  fold_left (step exec true) script s =
  match next_of k script with None => s | Some (a, r) => fold_left (step exec true) r (step exec true s a) end.
Proof.
  induction script as [|b r IH]; intros s Hk; cbn [fold_left next_of]; [reflexivity|].
  destruct (kind_eqb (kind_of_ans b) k) eqn:E; [reflexivity|].
  rewrite (step_wrong_kind exec s b k Hk E). apply IH, Hk.
Qed.

Lemma run_exit exec script : forall s b, pc s = PExit b -> fold_left (step exec true) script s = s.
Proof.
  induction script as [|a r IH]; intros s b H; cbn [fold_left]; [reflexivity|].
  assert (Hs : step exec true s a = s) by (unfold step; rewrite H; destruct a as [[|]|[|]|[j| |]]; reflexivity).
  rewrite Hs. apply (IH s b H).
Qed.

(* ---- program side ---- *)
Lemma interp_vis : forall script ls q k g,
  interp script (Vis ls q k) g =
  match next_of (kind_of_query q) script with
  | None => (Vis ls q k, g)
  | Some (a, r) => interp r (k (answer_of a)) (upd q a g)
  end.
Proof.
  induction script as [|b r IH]; intros ls q k g; cbn [interp norm next_of]; [reflexivity|].
  destruct (kind_eqb (kind_of_ans b) (kind_of_query q)); [reflexivity|apply IH].
Qed.

Lemma interp_done script ls g : interp script (Done ls) g = (Done ls, g).
Proof. destruct script; reflexivity. Qed.

Lemma interp_act script a k g : interp script (Act a k) g = interp script k (do_act a g).
Proof. destruct script; reflexivity. Qed.

(* ---- one iteration of the translated loop against up to three steps of the model ---- *)
Definition pval (o : option nat) : val := match o with Some r => VItem r | None => VNone end.
Definition kdone : val * val -> prog := fun ls => let '(v_job, v_result) := ls in Done [v_job; v_result].

Ltac kind_of H :=
  let H1 := fresh in let H2 := fresh in
  destruct (next_of_spec _ _ _ _ H) as [H1 H2];
  match type of H1 with
  | kind_of_ans ?a = _ => destruct a as [[|]|[|]|[?j| |]]; cbn in H1; try discriminate H1
  end; clear H1.

Lemma loop_equiv exec : forall n script, length script <= n -> forall pend taken acc,
  obs gen_worker_run_ix_pending (interp script (gen_worker_run_loop1 exec (S n) kdone (VNone, pval pend)) (mkg taken acc 0))
  = mobs (fold_left (step exec true) script (mkw PTop pend taken acc 0)).
Proof.
  induction n as [|n IH]; intros script Hlen pend taken acc.
  - destruct script; [|cbn in Hlen; lia]. destruct pend; reflexivity.
  - remember (S n) as m eqn:Em. cbn -[obs mobs]. subst m. rewrite interp_vis, (run_next exec KStop) by reflexivity. cbn [kind_of_query].
    destruct (next_of KStop script) as [[a1 r1]|] eqn:E1; [|destruct pend; reflexivity].
    kind_of E1.
    + (* stop is set: leave the loop *)
      cbn -[gen_worker_run_loop1 obs mobs]. rewrite interp_done. rewrite (run_exit exec r1 _ false) by reflexivity. destruct pend; reflexivity.
    + (* not set *)
      destruct pend as [r|]; cbn [pval truthy negb is_none answer_of upd].
      * (* a result is pending: send it *)
        cbn -[gen_worker_run_loop1 obs mobs]. rewrite interp_vis, (run_next exec KPut) by reflexivity. cbn [kind_of_query].
        destruct (next_of KPut r1) as [[a2 r2]|] eqn:E2; [|reflexivity].
        kind_of E2.
        -- (* accepted: go on to take a job *)
           cbn -[gen_worker_run_loop1 obs mobs]. rewrite interp_vis, (run_next exec KGet) by reflexivity. cbn [kind_of_query].
           destruct (next_of KGet r2) as [[a3 r3]|] eqn:E3; [|reflexivity].
           kind_of E3; cbn -[gen_worker_run_loop1 obs mobs].
           ++ rewrite (IH r3 ltac:(lia) (Some (exec j))). reflexivity.
           ++ rewrite (IH r3 ltac:(lia) None). reflexivity.
           ++ rewrite interp_act, interp_done. rewrite (run_exit exec r3 _ true) by reflexivity. reflexivity.
        -- (* queue full: retry from the top with the result still pending *)
           cbn -[gen_worker_run_loop1 obs mobs]. rewrite (IH r2 ltac:(lia) (Some r)). reflexivity.
      * cbn -[gen_worker_run_loop1 obs mobs]. rewrite interp_vis, (run_next exec KGet) by reflexivity. cbn [kind_of_query].
        destruct (next_of KGet r1) as [[a3 r3]|] eqn:E3; [|reflexivity].
        kind_of E3; cbn -[gen_worker_run_loop1 obs mobs].
        ++ rewrite (IH r3 ltac:(lia) (Some (exec j))). reflexivity.
        ++ rewrite (IH r3 ltac:(lia) None). reflexivity.
        ++ rewrite interp_act, interp_done. rewrite (run_exit exec r3 _ true) by reflexivity. reflexivity.
Qed.

(* the translated WorkerProcess.run = Model.Worker.run on every script *)
Theorem gen_worker_run_ok exec script :
  obs gen_worker_run_ix_pending (interp script (gen_worker_run exec (S (length script))) (mkg [] [] 0))
  = mobs (run exec true script).
Proof. exact (loop_equiv exec (length script) script (le_n _) None [] []). Qed.

(* ---- the C20 statements, about the translated code itself ---- *)
Definition g0 : wg := mkg [] [] 0.
Definition run_code (exec : nat -> nat) (script : list ans) : prog * wg :=
  interp script (gen_worker_run exec (S (length script))) g0.
Notation opt_list := WorkerP.opt_list.

Lemma code_fields exec script :
  let pg := run_code exec script in let s := run exec true script in
  prog_code (fst pg) (snd pg) = pc_code (pc s) /\ g_sb (snd pg) = sentinel_back s /\
  prog_pending gen_worker_run_ix_pending (fst pg) = pending s /\ g_taken (snd pg) = taken s /\ g_acc (snd pg) = accepted s.
Proof.
  cbn zeta. pose proof (gen_worker_run_ok exec script) as H. unfold obs, mobs in H. fold (run_code exec script) in H.
  inversion H. repeat split; assumption.
Qed.

Theorem code_safety exec script : let pg := run_code exec script in
  g_acc (snd pg) ++ opt_list (prog_pending gen_worker_run_ix_pending (fst pg)) = map exec (g_taken (snd pg)).
Proof.
  cbn zeta. destruct (code_fields exec script) as (_ & _ & Hp & Ht & Ha). rewrite Hp, Ht, Ha.
  exact (WorkerP.c20_safety exec script).
Qed.

Theorem code_sentinel exec script : let pg := run_code exec script in
  prog_code (fst pg) (snd pg) = 4%Z -> g_acc (snd pg) = map exec (g_taken (snd pg)) /\ g_sb (snd pg) = 1.
Proof.
  cbn zeta. destruct (code_fields exec script) as (Hc & Hs & _ & Ht & Ha). rewrite Hc, Hs, Ht, Ha. intro H4.
  assert (Hpc : pc (run exec true script) = PExit true).
  { destruct (pc (run exec true script)) as [| | |[|]]; cbn in H4; try discriminate; reflexivity. }
  split; [exact (WorkerP.c20_sentinel exec script Hpc)|].
  exact (proj2 (proj1 (proj2 (WorkerP.c20_exits exec true script)) Hpc)).
Qed.

(* the fuel given is enough, no exception escapes and no answer is ill-typed: the run is always at one of
   the three queries of the loop or has returned *)
Theorem code_total exec script : let pg := run_code exec script in
  In (prog_code (fst pg) (snd pg)) [0; 1; 2; 3; 4]%Z.
Proof.
  cbn zeta. destruct (code_fields exec script) as (Hc & _). rewrite Hc.
  destruct (pc (run exec true script)) as [| | |[|]]; cbn; tauto.
Qed.
