(* C02: the revised annotation keeps each group's coverage and removes its self-overlap. *)
From Coq Require Import ZArith NArith List Bool Lia ZifyBool Permutation.
From TEV Require Import Base.Intervals Base.Count Model.Kernel Model.Revise Model.Pipeline
     Spec.Density Proofs.ReviseP Proofs.NameSort Proofs.Refine Proofs.RunP Proofs.Keys Proofs.C01P.
Import ListNotations. Open Scope Z_scope.

Lemma keyed_perm key k l l' : Permutation l l' -> Permutation (keyed key k l) (keyed key k l').
Proof.
  unfold keyed. intro H. induction H as [|x l l' H IH|x y l|l l' l'' H1 IH1 H2 IH2]; cbn [filter].
  - constructor.
  - destruct (_ =? _)%N; [constructor|]; exact IH.
  - destruct (key x =? k)%N, (key y =? k)%N; try apply perm_swap; apply Permutation_refl.
  - etransitivity; eassumption.
Qed.

Lemma ivs_of_perm l l' : Permutation l l' -> Permutation (ivs_of l) (ivs_of l').
Proof. apply Permutation_map. Qed.

Section R.
Variables rS rO rT : N.
Notation revise3 := (revise3 rS rO rT).
Notation revised := (revised rS rO rT).
Notation bookkeeping := (bookkeeping rS rO).

(* every row written for chromosome c carries chromosome c *)
Lemma revise3_chr c rows t : In t (revise3 c rows) -> t_chr t = c.
Proof.
  unfold Pipeline.revise3, Pipeline.pass_sup, Pipeline.pass_ord, Pipeline.pass_all, pass.
  rewrite !in_app_iff, !in_flat_map.
  intros [[k [_ H]]|[[k [_ H]]|[k [_ H]]]]; apply in_map_iff in H; destruct H as [i [<- _]]; reflexivity.
Qed.

Lemma on_chr_all c rows : (forall t, In t rows -> t_chr t = c) -> on_chr c rows = rows.
Proof.
  unfold on_chr, keyed. induction rows as [|t r IH]; intro H; cbn [filter]; [reflexivity|].
  rewrite (H t (or_introl eq_refl)), N.eqb_refl. f_equal. apply IH. intros x Hx. apply H. right. exact Hx.
Qed.
Lemma on_chr_none c rows : (forall t, In t rows -> t_chr t <> c) -> on_chr c rows = [].
Proof.
  unfold on_chr, keyed. induction rows as [|t r IH]; intro H; cbn [filter]; [reflexivity|].
  destruct (t_chr t =? c)%N eqn:E; [apply N.eqb_eq in E; exfalso; exact (H t (or_introl eq_refl) E)|].
  apply IH. intros x Hx. apply H. right. exact Hx.
Qed.

(* the rows of one chromosome in the whole revised annotation *)
Lemma on_chr_revised c tes : on_chr c (revised tes) = revise3 c (on_chr c tes).
Proof.
  unfold Pipeline.revised. unfold on_chr at 1, keyed. rewrite filter_flat_map.
  change (fun x : N => filter (fun t : te => (t_chr t =? c)%N) (revise3 x (on_chr x tes)))
    with (fun x : N => on_chr c (revise3 x (on_chr x tes))).
  rewrite (flat_map_ext_in _ (fun k => if (k =? c)%N then revise3 k (on_chr k tes) else [])).
  - rewrite (flat_map_pick (fun k => revise3 k (on_chr k tes)) c _ (nsortu_nodup _)).
    destruct (memN c (nsortu (map t_chr tes))) eqn:E; [reflexivity|].
    assert (Hn : on_chr c tes = []).
    { unfold on_chr. apply keyed_nil_notin. intro Hin. apply nsortu_in in Hin. apply memN_in in Hin. congruence. }
    rewrite Hn. reflexivity.
  - intros k _. destruct (k =? c)%N eqn:E.
    + apply N.eqb_eq in E. subst. apply on_chr_all. intros t Ht. eapply revise3_chr; eauto.
    + apply N.eqb_neq in E. apply on_chr_none. intros t Ht Hc. apply E. rewrite <- Hc. symmetry. eapply revise3_chr; eauto.
Qed.

(* the revised elements of one group *)
Definition rev_group (tes : list te) (c : N) (lv : level) (n : N) : list iv :=
  ivs_of (keyed (col lv) n (on_chr c (revised tes))).

Lemma rev_group_real tes c lv n : n <> bookkeeping lv -> n <> rT ->
  rev_group tes c lv n = revise (group_ivs tes c lv n).
Proof.
  intros Hb Ht. unfold rev_group, group_ivs. rewrite on_chr_revised.
  rewrite (keyed_revise3_group rS rO rT lv n c _ Hb Ht). apply ivs_of_blk.
Qed.

Lemma rev_group_total tes c lv : names_ok rS rO rT tes ->
  rev_group tes c lv rT = revise (chrom_ivs tes c).
Proof.
  intro Hn. destruct (names_ok_col rS rO rT lv tes Hn) as [Hbk Hreal].
  unfold rev_group, chrom_ivs. rewrite on_chr_revised.
  rewrite (keyed_revise3_total rS rO rT lv c _ Hbk (on_chr_forall _ c tes Hreal)). apply ivs_of_blk.
Qed.

Definition input_group (tes : list te) (c : N) (lv : level) (n : N) : list iv :=
  if (n =? rT)%N then chrom_ivs tes c else group_ivs tes c lv n.

Lemma rev_group_eq tes c lv n : names_ok rS rO rT tes -> n <> bookkeeping lv ->
  rev_group tes c lv n = revise (input_group tes c lv n).
Proof.
  intros Hn Hb. unfold input_group. destruct (n =? rT)%N eqn:E.
  - apply N.eqb_eq in E. subst. apply rev_group_total. exact Hn.
  - apply N.eqb_neq in E. apply rev_group_real; assumption.
Qed.

Lemma wf_input_group tes c lv n : Forall wf_te tes -> Forall wfi (input_group tes c lv n).
Proof.
  intro H. unfold input_group, chrom_ivs, group_ivs. destruct (n =? rT)%N; apply wf_ivs.
  - apply on_chr_forall. exact H.
  - apply wf_keyed. apply on_chr_forall. exact H.
Qed.

Theorem cover tes c lv n p : Forall wf_te tes -> names_ok rS rO rT tes -> n <> bookkeeping lv ->
  covered (rev_group tes c lv n) p = covered (input_group tes c lv n) p.
Proof. intros Hw Hn Hb. rewrite rev_group_eq by assumption. apply revise_cover. apply wf_input_group. exact Hw. Qed.

Theorem disjoint tes c lv n : Forall wf_te tes -> names_ok rS rO rT tes -> n <> bookkeeping lv ->
  separated (rev_group tes c lv n) /\ forall p, (length (filter (inb p) (rev_group tes c lv n)) <= 1)%nat.
Proof.
  intros Hw Hn Hb. rewrite rev_group_eq by assumption.
  assert (Hs := revise_separated _ (wf_input_group tes c lv n Hw)). split; [exact Hs|]. apply separated_disjoint. exact Hs.
Qed.

(* presence: a group has revised elements iff it has input elements (nothing dropped, nothing invented) *)
Theorem presence tes c lv n : Forall wf_te tes -> names_ok rS rO rT tes -> n <> bookkeeping lv ->
  (rev_group tes c lv n = [] <-> input_group tes c lv n = []).
Proof. intros Hw Hn Hb. rewrite rev_group_eq by assumption. apply revise_nil_iff. apply wf_input_group. exact Hw. Qed.

(* every revised element is a well-formed interval; the model writes Length = stop - start + 1 *)
Theorem lengths tes c lv n : Forall wf_te tes -> names_ok rS rO rT tes -> n <> bookkeeping lv ->
  Forall (fun i => 1 <= te_length (fst i) (snd i)) (rev_group tes c lv n).
Proof.
  intros Hw Hn Hb. destruct (disjoint tes c lv n Hw Hn Hb) as [Hs _]. apply separated_wfi in Hs.
  eapply Forall_impl; [|exact Hs]. intros [a b] H. unfold wfi, te_length in *. cbn [fst snd] in *. lia.
Qed.

(* chromosomes: the revision names exactly the chromosomes of the input *)
Theorem chroms tes c : Forall wf_te tes -> names_ok rS rO rT tes ->
  (on_chr c (revised tes) = [] <-> on_chr c tes = []).
Proof.
  intros Hw Hn. rewrite on_chr_revised. split.
  - intro H. destruct (on_chr c tes) as [|t r] eqn:E; [reflexivity|]. exfalso.
    destruct (names_ok_col rS rO rT LOrd tes Hn) as [Hbk Hreal].
    assert (Hw' : Forall wf_te (t :: r)) by (rewrite <- E; apply on_chr_forall; exact Hw).
    assert (Hr' : Forall (fun t => col LOrd t <> rT) (t :: r)) by (rewrite <- E; apply on_chr_forall; exact Hreal).
    assert (Hin := proj2 (names_total rS rO rT LOrd c (t :: r) Hw' Hbk Hr') ltac:(discriminate)).
    rewrite H in Hin. inversion Hin.
  - intros ->. reflexivity.
Qed.

(* independence of row order *)
Theorem order_free tes tes' c lv n p : Forall wf_te tes -> names_ok rS rO rT tes -> n <> bookkeeping lv ->
  Permutation tes tes' ->
  covered (rev_group tes c lv n) p = covered (rev_group tes' c lv n) p.
Proof.
  intros Hw Hn Hb HP.
  assert (Hw' : Forall wf_te tes') by (rewrite <- HP; exact Hw).
  assert (Hn' : names_ok rS rO rT tes').
  { destruct Hn as [H1 [H2 H3]]. repeat split; auto. rewrite <- HP. exact H3. }
  rewrite !cover by assumption. unfold input_group, chrom_ivs, group_ivs, on_chr.
  destruct (n =? rT)%N; apply covered_perm, ivs_of_perm; repeat apply keyed_perm; exact HP.
Qed.
End R.
