(* Invariant of the generic worker loop and the C20 theorems. *)
From Coq Require Import List Bool Arith Lia.
From TEV Require Import Model.Worker.
Import ListNotations.

Definition opt_list (o : option nat) := match o with Some x => [x] | None => [] end.

Definition Inv exec (s : wst) : Prop :=
  accepted s ++ opt_list (pending s) = map exec (taken s)
  /\ (pc s = PGet -> pending s = None)
  /\ (pc s = PExit true -> pending s = None).

Lemma inv_step exec s a : Inv exec s -> Inv exec (step exec true s a).
Proof.
  intros HI. pose proof HI as [H [Hg He]]. unfold step.
  destruct (pc s) eqn:Epc; destruct a as [[|]|[|]|[j| |]]; try exact HI;
    unfold Inv; cbn [pc pending taken accepted sentinel_back].
  - (* PTop, stop *) split; [exact H|split; intros; discriminate].
  - (* PTop, continue *)
    destruct (pending s) eqn:Ep; (split; [exact H|split; intros; try discriminate; reflexivity]).
  - (* PSend ok *)
    destruct (pending s) as [r|] eqn:Ep; cbn [opt_list] in *;
      (split; [rewrite ?app_nil_r in *; exact H|split; intros; reflexivity]).
  - (* PSend full: retry *) split; [exact H|split; intros; discriminate].
  - (* PGet job *)
    rewrite (Hg eq_refl) in H. cbn [opt_list] in *. rewrite app_nil_r in H.
    split; [rewrite map_app, H; reflexivity|split; intros; discriminate].
  - (* PGet empty *) split; [exact H|split; intros; discriminate].
  - (* PGet sentinel *) split; [exact H|split; intros; [discriminate|apply Hg; reflexivity]].
Qed.

Lemma inv_run exec script : Inv exec (run exec true script).
Proof.
  unfold run. assert (H0 : Inv exec (mkw PTop None [] [] 0)) by (unfold Inv; cbn; repeat split; intros; try discriminate; reflexivity).
  revert H0. generalize (mkw PTop None [] [] 0).
  induction script as [|a script IH]; intros s Hs; cbn [fold_left]; [exact Hs|]. apply IH, inv_step, Hs.
Qed.

(* C20: no loss, no duplication, no reordering; at most one result pending *)
Theorem c20_safety exec script : let s := run exec true script in
  accepted s ++ opt_list (pending s) = map exec (taken s).
Proof. exact (proj1 (inv_run exec script)). Qed.

(* C20: a run ended by the sentinel delivered exactly one result per job taken, in order *)
Theorem c20_sentinel exec script : let s := run exec true script in
  pc s = PExit true -> accepted s = map exec (taken s).
Proof.
  cbn zeta. intro Hx. destruct (inv_run exec script) as [H [_ He]]. rewrite (He Hx) in H. cbn in H. rewrite app_nil_r in H. exact H.
Qed.

(* ---- exits ---- *)
Lemma step_exit exec fixed s a b : pc s = PExit b -> step exec fixed s a = s.
Proof. intro H. unfold step. rewrite H. destruct a as [[|]|[|]|[j| |]]; reflexivity. Qed.

Lemma run_from_exit exec fixed script : forall s b, pc s = PExit b -> fold_left (step exec fixed) script s = s.
Proof.
  induction script as [|a r IH]; intros s b H; cbn [fold_left]; [reflexivity|].
  rewrite (step_exit exec fixed s a b H). apply (IH s b H).
Qed.

Definition InvX (script_seen : list ans) (s : wst) : Prop :=
  (pc s = PExit false -> In (AStop true) script_seen /\ sentinel_back s = 0) /\
  (pc s = PExit true -> In (AGet GSentinel) script_seen /\ sentinel_back s = 1) /\
  ((forall b, pc s <> PExit b) -> sentinel_back s = 0).

Lemma invx_step exec fixed seen s a : InvX seen s -> InvX (seen ++ [a]) (step exec fixed s a).
Proof.
  intros [H1 [H2 H3]].
  assert (Hmono : forall x, In x seen -> In x (seen ++ [a])) by (intros; apply in_or_app; left; assumption).
  assert (Hlast : In a (seen ++ [a])) by (apply in_or_app; right; left; reflexivity).
  destruct (pc s) eqn:Epc.
  4: { rewrite (step_exit exec fixed s a by_sentinel Epc). unfold InvX. rewrite Epc.
       split; [|split]; intros H.
       - destruct (H1 H) as [Ha Hb]. split; [apply Hmono; exact Ha|exact Hb].
       - destruct (H2 H) as [Ha Hb]. split; [apply Hmono; exact Ha|exact Hb].
       - exfalso. apply (H by_sentinel). reflexivity. }
  all: assert (H0 : sentinel_back s = 0) by (apply H3; intros b; discriminate).
  all: unfold InvX, step; rewrite Epc; destruct a as [[|]|[|]|[j| |]];
    try destruct (pending s); try destruct fixed;
    cbn [pc pending taken accepted sentinel_back]; rewrite ?Epc;
    (split; [|split]); intros H; try discriminate H; try exact H0;
    try (split; [exact Hlast|rewrite H0; reflexivity]);
    try (exfalso; apply (H true); reflexivity); try (exfalso; apply (H false); reflexivity).
Qed.

Lemma invx_run exec fixed script : InvX script (run exec fixed script).
Proof.
  unfold run.
  assert (G : forall seen s, InvX seen s -> InvX (seen ++ script) (fold_left (step exec fixed) script s)).
  { induction script as [|a r IH]; intros seen s H; cbn [fold_left]; [rewrite app_nil_r; exact H|].
    replace (seen ++ a :: r) with ((seen ++ [a]) ++ r) by (rewrite <- app_assoc; reflexivity).
    apply IH. apply invx_step. exact H. }
  apply (G [] (mkw PTop None [] [] 0)). unfold InvX; cbn. repeat split; intros; try discriminate; reflexivity.
Qed.

(* C20: the loop ends only on the stop signal or on the sentinel; the sentinel is put back exactly once *)
Theorem c20_exits exec fixed script : let s := run exec fixed script in
  (pc s = PExit false -> In (AStop true) script /\ sentinel_back s = 0) /\
  (pc s = PExit true -> In (AGet GSentinel) script /\ sentinel_back s = 1) /\
  ((forall b, pc s <> PExit b) -> sentinel_back s = 0).
Proof. exact (invx_run exec fixed script). Qed.
