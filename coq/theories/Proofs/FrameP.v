(* Facts about the data-frame operations of Model/Frame.v under unique index labels, and the row-level
   versions of Base.Intervals.absorb / merge_all. *)
From Coq Require Import ZArith List Bool Lia.
From TEV Require Import Base.Intervals Model.Frame.
Import ListNotations. Open Scope Z_scope.

Definition iv_of (r : row) : iv := (row_start r, row_stop r).
Definition hitrow (s e : Z) (r : row) : bool := hit s e (iv_of r).

Lemma memZ_In x l : memZ x l = true <-> In x l.
Proof.
  unfold memZ. rewrite existsb_exists. split.
  - intros (y & Hy & E). apply Z.eqb_eq in E. subst. exact Hy.
  - intro H. exists x. split; [exact H|apply Z.eqb_refl].
Qed.

Lemma nodup_label_inj S r r' : NoDup (labels S) -> In r S -> In r' S -> row_label r = row_label r' -> r = r'.
Proof.
  unfold labels. induction S as [|a S IH]; intros Hnd Hr Hr' E; [inversion Hr|].
  cbn [map] in Hnd. inversion Hnd as [|x l Hnin Hnd' Hx]; subst.
  destruct Hr as [->|Hr], Hr' as [->|Hr'].
  - reflexivity.
  - exfalso. apply Hnin. rewrite E. apply in_map. exact Hr'.
  - exfalso. apply Hnin. rewrite <- E. apply in_map. exact Hr.
  - apply IH; assumption.
Qed.

Lemma nodup_filter S P : NoDup (labels S) -> NoDup (labels (filter P S)).
Proof.
  unfold labels. induction S as [|a S IH]; intro H; cbn [filter map]; [constructor|].
  cbn [map] in H. inversion H as [|x l Hnin Hnd Hx]; subst.
  destruct (P a); cbn [map]; [|apply IH, Hnd].
  constructor; [|apply IH, Hnd]. intro Hin. apply Hnin.
  apply in_map_iff in Hin. destruct Hin as (r & E & Hr). apply filter_In in Hr. rewrite <- E. apply in_map, Hr.
Qed.

(* labels of the rows selected by a mask are labels of the frame *)
Lemma has_labels_where S P : has_labels S (labels_where P S) = true.
Proof.
  unfold has_labels, labels_where. apply forallb_forall. intros l Hl. unfold has_label. apply memZ_In.
  apply in_map_iff in Hl. destruct Hl as (r & E & Hr). apply filter_In in Hr. rewrite <- E. unfold labels. apply in_map, Hr.
Qed.

(* dropping the labels selected by a mask = keeping the rows outside the mask *)
Lemma drop_where S P : NoDup (labels S) -> drop_labels S (labels_where P S) = filter (fun r => negb (P r)) S.
Proof.
  intro Hnd. unfold drop_labels, labels_where. apply filter_ext_in. intros r Hr. f_equal.
  destruct (P r) eqn:EP.
  - apply memZ_In. apply in_map. apply filter_In. split; assumption.
  - destruct (memZ (row_label r) (map row_label (filter P S))) eqn:EM; [|reflexivity].
    apply memZ_In in EM. apply in_map_iff in EM. destruct EM as (r' & E & Hr'). apply filter_In in Hr'. destruct Hr' as [Hin HP].
    rewrite (nodup_label_inj S r r' Hnd Hr Hin (eq_sym E)) in EP. congruence.
Qed.

Lemma has_label_head r rest : has_labels (r :: rest) [row_label r] = true.
Proof. unfold has_labels, has_label. cbn [forallb]. rewrite andb_true_r. apply memZ_In. left. reflexivity. Qed.

Lemma drop_head r rest : NoDup (labels (r :: rest)) -> drop_labels (r :: rest) [row_label r] = rest.
Proof.
  intro Hnd. unfold drop_labels. cbn [filter].
  assert (H0 : memZ (row_label r) [row_label r] = true) by (apply memZ_In; left; reflexivity).
  rewrite H0. cbn [negb].
  unfold labels in Hnd. cbn [map] in Hnd. inversion Hnd as [|x l Hnin Hnd' Hx]; subst.
  assert (H : forall r', In r' rest -> negb (memZ (row_label r') [row_label r]) = true).
  { intros r' Hr'. destruct (memZ (row_label r') [row_label r]) eqn:E; [|reflexivity].
    apply memZ_In in E. destruct E as [E|[]]. exfalso. apply Hnin. rewrite E. apply in_map, Hr'. }
  clear Hnin Hnd' H0 Hnd. induction rest as [|a rest IH]; cbn [filter]; [reflexivity|].
  rewrite (H a (or_introl eq_refl)). f_equal. apply IH. intros r' Hr'. apply H. right. exact Hr'.
Qed.

Lemma loc_label S r : NoDup (labels S) -> In r S -> loc S (row_label r) = r.
Proof.
  intros Hnd Hr. unfold loc.
  destruct (find (fun r0 => row_label r0 =? row_label r) S) as [r'|] eqn:E.
  - apply find_some in E. destruct E as [Hin Heq]. apply Z.eqb_eq in Heq. exact (nodup_label_inj S r' r Hnd Hin Hr Heq).
  - exfalso. pose proof (find_none _ _ E r Hr) as H. cbn in H. rewrite Z.eqb_refl in H. discriminate.
Qed.

(* the loop of determine_seed_stop over the labels of the hits = maxstop over the hit intervals *)
Lemma fold_stop_spec S P e (g : Z -> Z -> Z) : NoDup (labels S) ->
  (forall acc h, g acc h = Z.max acc (row_stop (loc S h))) ->
  fold_left g (labels_where P S) e = maxstop e (map iv_of (filter P S)).
Proof.
  intros Hnd Hg. unfold labels_where, maxstop.
  assert (Hsub : forall r, In r (filter P S) -> In r S) by (intros r Hr; apply filter_In in Hr; apply Hr).
  revert e Hsub. generalize (filter P S) as L. induction L as [|r L IH]; intros e Hsub; cbn [map fold_left]; [reflexivity|].
  rewrite Hg, (loc_label S r Hnd (Hsub r (or_introl eq_refl))). apply IH. intros r' Hr'. apply Hsub. right. exact Hr'.
Qed.

Lemma labels_where_length S P : length (labels_where P S) = length (filter P S).
Proof. unfold labels_where. apply map_length. Qed.

(* ---- row-level absorb / merge_all ---- *)
Fixpoint rabsorb (fuel : nat) (s e : Z) (S : frame) : Z * frame :=
  match fuel with
  | O => (e, S)
  | Datatypes.S f =>
    match filter (hitrow s e) S with
    | [] => (e, S)
    | h :: hs => rabsorb f s (maxstop e (map iv_of (h :: hs))) (filter (fun r => negb (hitrow s e r)) S)
    end
  end.

Fixpoint rmerge (fuel : nat) (S : frame) : frame :=
  match fuel with
  | O => []
  | Datatypes.S f =>
    match S with
    | [] => []
    | r :: rest => let '(e', rest') := rabsorb (length rest) (row_start r) (row_stop r) rest in set_stop r e' :: rmerge f rest'
    end
  end.

Lemma map_filter_iv (P : iv -> bool) S : map iv_of (filter (fun r => P (iv_of r)) S) = filter P (map iv_of S).
Proof. induction S as [|r S IH]; cbn [filter map]; [reflexivity|]. destruct (P (iv_of r)); cbn [map]; rewrite IH; reflexivity. Qed.

Lemma rabsorb_spec fuel : forall s e S,
  let '(e', S') := rabsorb fuel s e S in absorb fuel s e (map iv_of S) = (e', map iv_of S').
Proof.
  induction fuel as [|f IH]; intros s e S; cbn [rabsorb absorb]; [reflexivity|].
  unfold hitrow. rewrite <- (map_filter_iv (hit s e) S).
  destruct (filter (fun r => hit s e (iv_of r)) S) as [|h hs] eqn:E; cbn [map]; [reflexivity|].
  specialize (IH s (maxstop e (iv_of h :: map iv_of hs)) (filter (fun r => negb (hit s e (iv_of r))) S)).
  rewrite <- (map_filter_iv (fun i => negb (hit s e i)) S).
  destruct (rabsorb f s (maxstop e (iv_of h :: map iv_of hs)) (filter (fun r => negb (hit s e (iv_of r))) S)) as [e' S'].
  exact IH.
Qed.

Lemma rmerge_spec fuel : forall S, map iv_of (rmerge fuel S) = merge_all fuel (map iv_of S).
Proof.
  induction fuel as [|f IH]; intros S; cbn [rmerge merge_all]; [reflexivity|].
  destruct S as [|r rest]; cbn [map]; [reflexivity|].
  pose proof (rabsorb_spec (length rest) (row_start r) (row_stop r) rest) as HA.
  destruct (rabsorb (length rest) (row_start r) (row_stop r) rest) as [e' rest'].
  change (iv_of r) with (row_start r, row_stop r). rewrite map_length, HA. cbn [map]. rewrite IH. reflexivity.
Qed.

Lemma rabsorb_props fuel : forall s e S, NoDup (labels S) ->
  let '(e', S') := rabsorb fuel s e S in NoDup (labels S') /\ (length S' <= length S)%nat.
Proof.
  induction fuel as [|f IH]; intros s e S Hnd; cbn [rabsorb]; [split; [exact Hnd|lia]|].
  destruct (filter (hitrow s e) S) as [|h hs] eqn:E; [split; [exact Hnd|lia]|].
  specialize (IH s (maxstop e (map iv_of (h :: hs))) (filter (fun r => negb (hitrow s e r)) S) (nodup_filter S _ Hnd)).
  destruct (rabsorb f s (maxstop e (map iv_of (h :: hs))) (filter (fun r => negb (hitrow s e r)) S)) as [e' S'].
  destruct IH as [H1 H2]. split; [exact H1|].
  pose proof (filter_length_le (fun r => negb (hitrow s e r)) S). lia.
Qed.
