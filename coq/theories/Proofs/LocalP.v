(* C04 / C05: a chromosome's file depends only on that chromosome's rows, as multisets. *)
From Coq Require Import ZArith NArith List Bool Lia ZifyBool Permutation.
From TEV Require Import Base.Intervals Base.Count Base.PyRange Model.Kernel Model.Revise Model.Pipeline
     Spec.Density Proofs.ReviseP Proofs.NameSort Proofs.Refine Proofs.RunP Proofs.Keys Proofs.C01P Proofs.C02P.
Import ListNotations. Open Scope Z_scope.

Lemma find_gene_none n gs : find_gene n gs = None -> forall g, In g gs -> g_name g <> n.
Proof.
  unfold find_gene. intros H g Hg Hn. apply (find_none _ _ H) in Hg. apply N.eqb_neq in Hg. contradiction.
Qed.

Lemma find_gene_perm n l l' : NoDup (map g_name l) -> Permutation l l' -> find_gene n l = find_gene n l'.
Proof.
  intros Hnd HP.
  assert (Hnd' : NoDup (map g_name l')) by (eapply Permutation_NoDup; [apply Permutation_map; exact HP|exact Hnd]).
  destruct (find_gene n l) as [g|] eqn:E.
  - apply find_gene_some in E. destruct E as [Hin Hn]. symmetry. apply find_gene_unique; auto.
    eapply Permutation_in; eauto.
  - destruct (find_gene n l') as [g'|] eqn:E'; [|reflexivity]. exfalso.
    apply find_gene_some in E'. destruct E' as [Hin Hn].
    apply (find_gene_none _ _ E g'); [|exact Hn]. eapply Permutation_in; [symmetry|]; eauto.
Qed.

Lemma spec_cell_perm l l' sd g w : Permutation l l' -> spec_cell l sd g w = spec_cell l' sd g w.
Proof.
  intro HP. unfold spec_cell, spec_num. f_equal. unfold cnt. apply cntn_ext. intro p. apply covered_perm. exact HP.
Qed.

Lemma filter_chr_nodup c genes : NoDup (map g_name genes) -> NoDup (map g_name (filter (fun g => (g_chr g =? c)%N) genes)).
Proof.
  induction genes as [|h r IH]; cbn [filter map]; intro Hnd; [constructor|].
  inversion Hnd as [|x y Hx Hr]; subst.
  destruct (g_chr h =? c)%N; [|apply IH; exact Hr]. cbn [map]. constructor; [|apply IH; exact Hr].
  intro Hin. apply Hx. apply in_map_iff in Hin. destruct Hin as [z [Hz Hin]]. apply filter_In in Hin.
  rewrite <- Hz. apply in_map. tauto.
Qed.

Lemma bool_iff (a b : bool) : (a = true <-> b = true) -> a = b.
Proof. destruct a, b; intuition; try (symmetry; auto); try discriminate. Qed.

Section R.
Variables rS rO rT : N.
Notation run := (run rS rO rT).
Notation revise3 := (revise3 rS rO rT).
Notation bookkeeping := (bookkeeping rS rO).

(* a cell depends on the rows of the chromosome only as a multiset *)
Lemma cell_perm c rows rows' lv n sd g w :
  Forall wf_te rows -> wf_gene g -> 0 <= w -> n <> bookkeeping lv ->
  bookkeeping lv <> rT -> Forall (fun t => col lv t <> rT) rows ->
  Permutation rows rows' ->
  cell (revise3 c rows) lv n sd g w = cell (revise3 c rows') lv n sd g w.
Proof.
  intros Hw Hg Hw0 Hb Hbk Hreal HP.
  assert (Hw' : Forall wf_te rows') by (rewrite <- HP; exact Hw).
  assert (Hreal' : Forall (fun t => col lv t <> rT) rows') by (rewrite <- HP; exact Hreal).
  destruct (N.eq_dec n rT) as [->|Hne].
  - rewrite !cell_total by assumption. apply spec_cell_perm, ivs_of_perm, HP.
  - rewrite !cell_group by assumption. apply spec_cell_perm, ivs_of_perm, keyed_perm, HP.
Qed.

Theorem file_local first delta last genes tes genes' tes' fs fs' f f' :
  wf_input rS rO rT genes tes -> wf_input rS rO rT genes' tes' -> 0 <= first -> 0 < delta ->
  run first delta last genes tes = inr fs -> run first delta last genes' tes' = inr fs' ->
  In f fs -> In f' fs' -> f_chr f' = f_chr f ->
  Permutation (on_chr (f_chr f) tes) (on_chr (f_chr f) tes') ->
  Permutation (filter (fun g => (g_chr g =? f_chr f)%N) genes) (filter (fun g => (g_chr g =? f_chr f)%N) genes') ->
  Permutation (f_genes f) (f_genes f') /\
  forall lv name sd w gname, name <> bookkeeping lv ->
    f_cell f lv name sd w gname = f_cell f' lv name sd w gname.
Proof.
  intros Hwf Hwf' Hf Hd Hr Hr' Hin Hin' Hc HPt HPg.
  destruct (run_file _ _ _ _ _ _ _ _ _ _ Hr Hin) as [ws [Hw [_ [Hgen [Hwin [Hrows Hnd]]]]]].
  destruct (run_file _ _ _ _ _ _ _ _ _ _ Hr' Hin') as [ws' [Hw' [_ [Hgen' [Hwin' [Hrows' Hnd']]]]]].
  assert (Hww : ws' = ws) by (rewrite Hw in Hw'; inversion Hw'; reflexivity).
  rewrite Hww in *. clear Hww Hw'. rewrite Hc in *.
  assert (HPfg : Permutation (f_genes f) (f_genes f')).
  { rewrite Hgen, Hgen'. rewrite !genes_on_perm. exact HPg. }
  split; [exact HPfg|]. intros lv name sd w gname Hb.
  unfold f_cell.
  assert (Hfg : find_gene gname (f_genes f) = find_gene gname (f_genes f')).
  { apply find_gene_perm; [|exact HPfg]. rewrite Hgen.
    eapply Permutation_NoDup; [apply Permutation_map; symmetry; apply genes_on_perm|]. apply filter_chr_nodup. exact Hnd. }
  rewrite <- Hfg. destruct (find_gene gname (f_genes f)) as [g|] eqn:Eg; [|reflexivity].
  assert (Hnames : memN name (f_names f lv) = memN name (f_names f' lv)).
  { apply bool_iff. rewrite !memN_in.
    rewrite (names rS rO rT _ _ _ _ _ _ _ _ _ Hwf Hr Hin Hb).
    rewrite (names rS rO rT _ _ _ _ _ _ _ _ _ Hwf' Hr' Hin' Hb). rewrite Hc.
    destruct (name =? rT)%N.
    - split; intros H E; apply H.
      + apply Permutation_length in HPt. rewrite E in HPt. destruct (on_chr (f_chr f) tes); [reflexivity|discriminate].
      + apply Permutation_length in HPt. rewrite E in HPt. destruct (on_chr (f_chr f) tes'); [reflexivity|discriminate].
    - split; intros [t [Ht [Hch Hcol]]].
      + assert (Hi : In t (on_chr (f_chr f) tes')).
        { eapply Permutation_in; [exact HPt|]. unfold on_chr. apply keyed_in. tauto. }
        unfold on_chr in Hi. apply keyed_in in Hi. exists t. tauto.
      + assert (Hi : In t (on_chr (f_chr f) tes)).
        { eapply Permutation_in; [symmetry; exact HPt|]. unfold on_chr. apply keyed_in. tauto. }
        unfold on_chr in Hi. apply keyed_in in Hi. exists t. tauto. }
  rewrite <- Hnames, Hwin, Hwin'.
  destruct (memN name (f_names f lv) && match sd with SI => true | _ => memZ w ws end) eqn:E; [|reflexivity].
  f_equal. rewrite Hrows, Hrows'.
  apply find_gene_some in Eg. destruct Eg as [Hgin _]. rewrite Hgen in Hgin. apply genes_on_in in Hgin.
  destruct Hwf as [Hwg [Hwt Hn]].
  assert (Hwfg : wf_gene g) by (rewrite Forall_forall in Hwg; apply Hwg; tauto).
  destruct (names_ok_col rS rO rT lv tes Hn) as [Hbk Hreal].
  assert (Hcellw : forall w0, 0 <= w0 -> cell (revise3 (f_chr f) (on_chr (f_chr f) tes)) lv name sd g w0
                                   = cell (revise3 (f_chr f) (on_chr (f_chr f) tes')) lv name sd g w0).
  { intros w0 Hw0. apply cell_perm; auto; apply on_chr_forall; assumption. }
  destruct sd.
  - apply Hcellw. apply andb_true_iff in E. destruct E as [_ E]. apply memZ_in in E. eapply window_nonneg; eauto.
  - rewrite (cell_intra_w _ _ _ _ w 0). rewrite (cell_intra_w (revise3 _ (on_chr _ tes')) _ _ _ w 0). apply Hcellw. lia.
  - apply Hcellw. apply andb_true_iff in E. destruct E as [_ E]. apply memZ_in in E. eapply window_nonneg; eauto.
Qed.

(* C04: permuting the rows of either file *)
Theorem perm_invariant first delta last genes tes genes' tes' fs fs' f f' :
  wf_input rS rO rT genes tes -> 0 <= first -> 0 < delta ->
  Permutation genes genes' -> Permutation tes tes' ->
  run first delta last genes tes = inr fs -> run first delta last genes' tes' = inr fs' ->
  In f fs -> In f' fs' -> f_chr f' = f_chr f ->
  Permutation (f_genes f) (f_genes f') /\
  forall lv name sd w gname, name <> bookkeeping lv ->
    f_cell f lv name sd w gname = f_cell f' lv name sd w gname.
Proof.
  intros Hwf Hf Hd HPg HPt Hr Hr' Hin Hin' Hc.
  assert (Hwf' : wf_input rS rO rT genes' tes').
  { destruct Hwf as [Hg [Ht [H1 [H2 H3]]]].
    split; [eapply Permutation_Forall; [exact HPg|exact Hg]|].
    split; [eapply Permutation_Forall; [exact HPt|exact Ht]|].
    split; [exact H1|]. split; [exact H2|]. eapply Permutation_Forall; [exact HPt|exact H3]. }
  apply (file_local first delta last genes tes genes' tes' fs fs' f f'); auto.
  - unfold on_chr. apply keyed_perm. exact HPt.
  - clear -HPg. induction HPg as [|x l l' H IH|x y l|l l' l'' H1 IH1 H2 IH2]; cbn [filter].
    + constructor.
    + destruct (_ =? _)%N; [constructor|]; exact IH.
    + destruct (g_chr x =? f_chr f)%N, (g_chr y =? f_chr f)%N; try apply perm_swap; apply Permutation_refl.
    + etransitivity; eassumption.
Qed.

(* C04: the permuted run succeeds whenever the original does, with files for the same chromosomes *)
Theorem perm_runs first delta last genes tes genes' tes' fs :
  Permutation genes genes' -> Permutation tes tes' ->
  run first delta last genes tes = inr fs ->
  exists fs', run first delta last genes' tes' = inr fs' /\ map f_chr fs' = map f_chr fs.
Proof.
  intros HPg HPt Hr. destruct (run_inr _ _ _ _ _ _ _ _ _ Hr) as [ws [Hw [Hd [Hs [Hc ->]]]]].
  unfold Pipeline.run. rewrite Hw.
  assert (Hd' : has_dup (map g_name genes') = false).
  { apply nodup_has_dup_false. eapply Permutation_NoDup; [apply Permutation_map; exact HPg|]. apply has_dup_false_nodup. exact Hd. }
  rewrite Hd'.
  assert (Hs' : forallb strand_ok genes' = true).
  { apply forallb_forall. intros g Hg. rewrite forallb_forall in Hs. apply Hs. eapply Permutation_in; [symmetry; exact HPg|exact Hg]. }
  rewrite Hs'. cbn [negb].
  rewrite <- (nsortu_perm _ _ (Permutation_map g_chr HPg)), <- (nsortu_perm _ _ (Permutation_map t_chr HPt)).
  rewrite (proj2 (validate_split_iff _ _) Hc). cbn [negb]. eexists. split; [reflexivity|].
  rewrite !map_map. cbn [f_chr]. reflexivity.
Qed.

(* C05: chromosome sets that differ are refused *)
Theorem reject_chroms first delta last genes tes ws :
  windows_of first delta last = Some ws -> NoDup (map g_name genes) -> forallb strand_ok genes = true ->
  ~ (forall c, In c (map g_chr genes) <-> In c (map t_chr tes)) ->
  run first delta last genes tes = inl ChromMismatch.
Proof.
  intros Hw Hnd Hs Hne. unfold Pipeline.run. rewrite Hw, (nodup_has_dup_false _ Hnd), Hs. cbn [negb].
  destruct (validate_split _ _) eqn:E; [|reflexivity]. exfalso. apply Hne.
  apply validate_split_iff in E. intro c. rewrite <- (nsortu_in (map g_chr genes)), <- (nsortu_in (map t_chr tes)). rewrite E. reflexivity.
Qed.
End R.
