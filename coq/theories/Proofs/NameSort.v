(* Facts about nsortu (sorted duplicate-free name lists). *)
From Coq Require Import ZArith NArith List Bool Lia Permutation.
From TEV Require Import Model.Pipeline.
Import ListNotations.

Inductive ssorted : list N -> Prop :=
| ss0 : ssorted []
| ss1 x l : Forall (fun y => (x < y)%N) l -> ssorted l -> ssorted (x :: l).

Lemma ninsert_in x l y : In y (ninsert x l) <-> y = x \/ In y l.
Proof.
  induction l as [|z r IH]; cbn [ninsert In].
  - intuition.
  - destruct (x <? z)%N eqn:E1; [cbn [In]; intuition|].
    destruct (x =? z)%N eqn:E2.
    + apply N.eqb_eq in E2. subst. cbn [In]. intuition.
    + cbn [In]. rewrite IH. intuition.
Qed.

Lemma nsortu_in l y : In y (nsortu l) <-> In y l.
Proof.
  induction l as [|x l IH]; cbn [nsortu fold_right In]; [reflexivity|].
  rewrite ninsert_in. fold (nsortu l). rewrite IH. intuition.
Qed.

Lemma ninsert_sorted x l : ssorted l -> ssorted (ninsert x l).
Proof.
  intro H. induction H as [|z r Hz Hs IH]; cbn [ninsert].
  - constructor; constructor.
  - destruct (x <? z)%N eqn:E1.
    + apply N.ltb_lt in E1. constructor; [|constructor; assumption].
      constructor; [exact E1|]. eapply Forall_impl; [|exact Hz]. cbn. intros a Ha. lia.
    + destruct (x =? z)%N eqn:E2; [constructor; assumption|].
      apply N.ltb_ge in E1. apply N.eqb_neq in E2.
      constructor; [|exact IH]. rewrite Forall_forall. intros y Hy.
      apply ninsert_in in Hy. destruct Hy as [->|Hy]; [lia|].
      rewrite Forall_forall in Hz. apply Hz. exact Hy.
Qed.

Lemma nsortu_sorted l : ssorted (nsortu l).
Proof. induction l as [|x l IH]; cbn [nsortu fold_right]; [constructor|]. apply ninsert_sorted. exact IH. Qed.

Lemma ssorted_nodup l : ssorted l -> NoDup l.
Proof.
  intro H; induction H as [|x l Hx Hs IH]; constructor; [|exact IH].
  intro Hin. rewrite Forall_forall in Hx. specialize (Hx x Hin). lia.
Qed.

Lemma nsortu_nodup l : NoDup (nsortu l).
Proof. apply ssorted_nodup, nsortu_sorted. Qed.

(* two strictly sorted lists with the same elements are equal *)
Lemma ssorted_ext l : forall l', ssorted l -> ssorted l' -> (forall y, In y l <-> In y l') -> l = l'.
Proof.
  induction l as [|x r IH]; intros l' Hs Hs' Hext.
  - destruct l' as [|y r']; [reflexivity|]. exfalso. apply (proj2 (Hext y)). left; reflexivity.
  - destruct l' as [|y r']; [exfalso; apply (proj1 (Hext x)); left; reflexivity|].
    inversion Hs as [|x0 r0 Hx Hr]; subst. inversion Hs' as [|y0 r0' Hy Hr']; subst.
    rewrite Forall_forall in Hx, Hy.
    assert (x = y).
    { destruct (proj1 (Hext x) (or_introl eq_refl)) as [->|Hin]; [reflexivity|].
      destruct (proj2 (Hext y) (or_introl eq_refl)) as [->|Hin2]; [reflexivity|].
      specialize (Hx y Hin2). specialize (Hy x Hin). lia. }
    subst y. f_equal. apply IH; try assumption.
    intro z. split; intro Hz.
    + destruct (proj1 (Hext z) (or_intror Hz)) as [->|H']; [|exact H'].
      specialize (Hx z Hz). lia.
    + destruct (proj2 (Hext z) (or_intror Hz)) as [->|H']; [|exact H'].
      specialize (Hy z Hz). lia.
Qed.

(* the name axis does not depend on row order or multiplicity *)
Lemma nsortu_ext l l' : (forall y, In y l <-> In y l') -> nsortu l = nsortu l'.
Proof.
  intro H. apply ssorted_ext; try apply nsortu_sorted.
  intro y. rewrite !nsortu_in. apply H.
Qed.

Lemma nsortu_perm l l' : Permutation l l' -> nsortu l = nsortu l'.
Proof.
  intro H. apply nsortu_ext. intro y. split; intro Hy.
  - eapply Permutation_in; eassumption.
  - eapply Permutation_in; [symmetry|]; eassumption.
Qed.

Lemma memN_in x l : memN x l = true <-> In x l.
Proof.
  unfold memN. rewrite existsb_exists. split.
  - intros [y [Hy E]]. apply N.eqb_eq in E. subst. exact Hy.
  - intro H. exists x. split; [exact H|apply N.eqb_refl].
Qed.
