(* C06: mirror symmetry, shift invariance, monotonicity in the window -- spec level and model level. *)
From Coq Require Import ZArith NArith List Bool Lia ZifyBool Permutation.
From TEV Require Import Base.Intervals Base.Count Model.Kernel Model.Revise Model.Pipeline
     Spec.Density Proofs.ReviseP Proofs.NameSort Proofs.Refine Proofs.RunP Proofs.Keys Proofs.C01P.
Import ListNotations. Open Scope Z_scope.

(* ---------- transformations of the input ---------- *)
Definition shift_iv (k : Z) (i : iv) : iv := (fst i + k, snd i + k).
Definition shift_te (k : Z) (t : te) : te := mkTE (t_chr t) (t_start t + k) (t_stop t + k) (t_ord t) (t_sup t).
Definition shift_gene (k : Z) (g : gene) : gene :=
  mkG (g_chr g) (g_name g) (g_start g + k) (g_stop g + k) (g_len g) (g_strand g).

(* reflection about M/2: position p goes to M - p *)
Definition mirror_iv (M : Z) (i : iv) : iv := (M - snd i, M - fst i).
Definition mirror_te (M : Z) (t : te) : te := mkTE (t_chr t) (M - t_stop t) (M - t_start t) (t_ord t) (t_sup t).
Definition mirror_gene (M : Z) (g : gene) : gene :=
  mkG (g_chr g) (g_name g) (M - g_stop g) (M - g_start g) (g_len g) (g_strand g).
Definition flip (sd : side) : side := match sd with SL => SR | SI => SI | SR => SL end.

(* the left window of g for window w is not truncated at coordinate 0 *)
Definition untruncated (g : gene) (w : Z) : Prop := 0 <= g_start g - 1 - w.

(* ---------- counting lemmas ---------- *)
Lemma cntn_nonneg P lo n : 0 <= cntn P lo n.
Proof. unfold cntn. lia. Qed.

Lemma cntn_app P : forall n m lo, cntn P lo (n + m) = cntn P lo n + cntn P (lo + Z.of_nat n) m.
Proof.
  induction n as [|n IH]; intros m lo.
  - cbn [Nat.add Z.of_nat]. rewrite Z.add_0_r. unfold cntn at 2. cbn [zrange filter length Z.of_nat]. lia.
  - cbn [Nat.add]. rewrite !cntn_S, IH.
    replace (lo + 1 + Z.of_nat n) with (lo + Z.of_nat (S n)) by lia. lia.
Qed.

Lemma cntn_snoc P n lo : cntn P lo (S n) = cntn P lo n + (if P (lo + Z.of_nat n) then 1 else 0).
Proof.
  replace (S n) with (n + 1)%nat by lia. rewrite cntn_app.
  rewrite (cntn_S P (lo + Z.of_nat n) 0).
  change (cntn P (lo + Z.of_nat n + 1) 0) with 0. lia.
Qed.

Lemma cntn_shift P k : forall n lo, cntn (fun p => P (p - k)) (lo + k) n = cntn P lo n.
Proof.
  induction n as [|n IH]; intro lo; [reflexivity|].
  rewrite !cntn_S. cbv beta. replace (lo + k + 1) with (lo + 1 + k) by lia. rewrite IH.
  replace (lo + k - k) with lo by lia. reflexivity.
Qed.

Lemma cntn_mirror P M : forall n lo,
  cntn (fun p => P (M - p)) (M - (lo + Z.of_nat n - 1)) n = cntn P lo n.
Proof.
  induction n as [|n IH]; intro lo; [reflexivity|].
  rewrite (cntn_snoc P n lo). rewrite cntn_S. cbv beta.
  replace (M - (lo + Z.of_nat (S n) - 1) + 1) with (M - (lo + Z.of_nat n - 1)) by lia.
  rewrite IH. replace (M - (M - (lo + Z.of_nat (S n) - 1))) with (lo + Z.of_nat n) by lia.
  destruct (P (lo + Z.of_nat n)); lia.
Qed.

Lemma cnt_shift P lo hi k : cnt (fun p => P (p - k)) (lo + k) (hi + k) = cnt P lo hi.
Proof.
  unfold cnt. replace (hi + k - (lo + k) + 1) with (hi - lo + 1) by lia. apply cntn_shift.
Qed.

Lemma cnt_mirror P lo hi M : lo <= hi + 1 -> cnt (fun p => P (M - p)) (M - hi) (M - lo) = cnt P lo hi.
Proof.
  intro H. unfold cnt. replace (M - lo - (M - hi) + 1) with (hi - lo + 1) by lia.
  replace (M - hi) with (M - (lo + Z.of_nat (Z.to_nat (hi - lo + 1)) - 1)) by lia.
  apply cntn_mirror.
Qed.

(* a larger range counts at least as much *)
Lemma cnt_range_mono P lo hi lo' hi' : lo' <= lo -> hi <= hi' -> lo <= hi + 1 -> cnt P lo hi <= cnt P lo' hi'.
Proof.
  intros H1 H2 H3. unfold cnt.
  replace (Z.to_nat (hi' - lo' + 1))
    with (Z.to_nat (lo - lo') + (Z.to_nat (hi - lo + 1) + Z.to_nat (hi' - hi)))%nat by lia.
  rewrite !cntn_app.
  replace (lo' + Z.of_nat (Z.to_nat (lo - lo'))) with lo by lia.
  pose proof (cntn_nonneg P lo' (Z.to_nat (lo - lo'))) as Ha.
  pose proof (cntn_nonneg P (lo + Z.of_nat (Z.to_nat (hi - lo + 1))) (Z.to_nat (hi' - hi))) as Hb.
  lia.
Qed.

Lemma covered_shift l k p : covered (map (shift_iv k) l) p = covered l (p - k).
Proof.
  unfold covered. induction l as [|i l IH]; cbn [map existsb]; [reflexivity|].
  rewrite IH. f_equal. unfold inb, shift_iv; cbn [fst snd]. lia.
Qed.
Lemma covered_mirror l M p : covered (map (mirror_iv M) l) p = covered l (M - p).
Proof.
  unfold covered. induction l as [|i l IH]; cbn [map existsb]; [reflexivity|].
  rewrite IH. f_equal. unfold inb, mirror_iv; cbn [fst snd]. lia.
Qed.

(* ---------- spec level ---------- *)
Theorem spec_shift ivs sd g w k :
  (sd = SL -> untruncated g w /\ untruncated (shift_gene k g) w) ->
  spec_cell (map (shift_iv k) ivs) sd (shift_gene k g) w = spec_cell ivs sd g w.
Proof.
  intro Hu. unfold spec_cell, spec_num, spec_den. unfold cnt.
  rewrite (cntn_ext _ _ (covered_shift ivs k)). fold (cnt (fun p => covered ivs (p - k))
    (fst (region sd (shift_gene k g) w)) (snd (region sd (shift_gene k g) w))).
  assert (Hr : region sd (shift_gene k g) w = (fst (region sd g w) + k, snd (region sd g w) + k)).
  { destruct sd; cbn [region shift_gene g_start g_stop fst snd].
    - destruct (Hu eq_refl) as [Ha Hb]. unfold untruncated in Ha, Hb. cbn [shift_gene g_start] in Hb.
      f_equal; lia.
    - reflexivity.
    - f_equal; lia. }
  rewrite Hr. cbn [fst snd]. rewrite cnt_shift. f_equal. lia.
Qed.

Theorem spec_mirror ivs sd g w M : g_start g <= g_stop g + 1 -> 0 <= w ->
  (sd = SL -> untruncated g w) -> (sd = SR -> untruncated (mirror_gene M g) w) ->
  spec_cell (map (mirror_iv M) ivs) (flip sd) (mirror_gene M g) w = spec_cell ivs sd g w.
Proof.
  intros Hg Hw HL HR. unfold spec_cell, spec_num, spec_den. unfold cnt at 1.
  rewrite (cntn_ext _ _ (covered_mirror ivs M)). fold (cnt (fun p => covered ivs (M - p))
    (fst (region (flip sd) (mirror_gene M g) w)) (snd (region (flip sd) (mirror_gene M g) w))).
  assert (Hr : region (flip sd) (mirror_gene M g) w = (M - snd (region sd g w), M - fst (region sd g w))
               /\ fst (region sd g w) <= snd (region sd g w) + 1).
  { destruct sd; cbn [flip region mirror_gene g_start g_stop fst snd].
    - specialize (HL eq_refl). unfold untruncated in HL. split; [f_equal; lia|lia].
    - split; [reflexivity|lia].
    - specialize (HR eq_refl). unfold untruncated in HR. cbn [mirror_gene g_start] in HR.
      split; [f_equal; lia|lia]. }
  destruct Hr as [Hr Hle]. rewrite Hr. cbn [fst snd]. rewrite cnt_mirror by exact Hle. f_equal. lia.
Qed.

Theorem spec_monotone ivs sd g w w' : 1 <= g_start g -> 0 <= w <= w' ->
  spec_num ivs sd g w <= spec_num ivs sd g w'.
Proof.
  intros Hg Hw. unfold spec_num. destruct sd; cbn [region fst snd].
  - apply cnt_range_mono; lia.
  - lia.
  - apply cnt_range_mono; lia.
Qed.

(* ---------- model level (transport through the C01 refinement) ---------- *)
Lemma ivs_of_keyed_shift lv n k rows :
  ivs_of (keyed (col lv) n (map (shift_te k) rows)) = map (shift_iv k) (ivs_of (keyed (col lv) n rows)).
Proof.
  unfold ivs_of, keyed. induction rows as [|t r IH]; cbn [map filter]; [reflexivity|].
  replace (col lv (shift_te k t)) with (col lv t) by (destruct lv; reflexivity).
  destruct (col lv t =? n)%N; cbn [map]; rewrite IH; reflexivity.
Qed.
Lemma ivs_of_keyed_mirror lv n M rows :
  ivs_of (keyed (col lv) n (map (mirror_te M) rows)) = map (mirror_iv M) (ivs_of (keyed (col lv) n rows)).
Proof.
  unfold ivs_of, keyed. induction rows as [|t r IH]; cbn [map filter]; [reflexivity|].
  replace (col lv (mirror_te M t)) with (col lv t) by (destruct lv; reflexivity).
  destruct (col lv t =? n)%N; cbn [map]; rewrite IH; reflexivity.
Qed.

Section R.
Variables rS rO rT : N.
Notation revise3 := (revise3 rS rO rT).
Notation bookkeeping := (bookkeeping rS rO).

(* [rows] are the TEs of one chromosome.  real-or-total group n; for n = rT the input names must not
   use the reserved label (as in cell_total). *)
Definition group_ok (lv : level) (n : N) (rows : list te) : Prop :=
  n <> bookkeeping lv /\ (n = rT -> bookkeeping lv <> rT /\ Forall (fun t => col lv t <> rT) rows).

(* the model's cell for a real group or the total, as the spec of the group's own intervals *)
Definition grp (lv : level) (n : N) (rows : list te) : list iv :=
  if (n =? rT)%N then ivs_of rows else ivs_of (keyed (col lv) n rows).

Lemma cell_spec lv n c rows sd g w :
  Forall wf_te rows -> wf_gene g -> 0 <= w -> group_ok lv n rows ->
  cell (revise3 c rows) lv n sd g w = spec_cell (grp lv n rows) sd g w.
Proof.
  intros Hwf Hg Hw [Hb Ht]. unfold grp. destruct (n =? rT)%N eqn:E.
  - apply N.eqb_eq in E. destruct (Ht E) as [Hbk Hreal]. subst n. apply cell_total; assumption.
  - apply N.eqb_neq in E. apply cell_group; assumption.
Qed.

Lemma group_ok_map lv n (f : te -> te) rows :
  (forall t, col lv (f t) = col lv t) -> group_ok lv n rows -> group_ok lv n (map f rows).
Proof.
  intros Hf [Hb Ht]. split; [exact Hb|]. intro E. destruct (Ht E) as [Hbk Hreal]. split; [exact Hbk|].
  clear Ht. induction Hreal as [|t r Ht' Hr IH]; cbn [map]; [constructor|].
  constructor; [rewrite Hf; exact Ht'|exact IH].
Qed.

Lemma grp_shift lv n k rows : grp lv n (map (shift_te k) rows) = map (shift_iv k) (grp lv n rows).
Proof.
  unfold grp. destruct (n =? rT)%N; [|apply ivs_of_keyed_shift].
  unfold ivs_of. rewrite !map_map. reflexivity.
Qed.

Lemma grp_mirror lv n M rows : grp lv n (map (mirror_te M) rows) = map (mirror_iv M) (grp lv n rows).
Proof.
  unfold grp. destruct (n =? rT)%N; [|apply ivs_of_keyed_mirror].
  unfold ivs_of. rewrite !map_map. reflexivity.
Qed.

Theorem cell_shift lv n c rows sd g w k :
  Forall wf_te rows -> Forall wf_te (map (shift_te k) rows) -> wf_gene g -> wf_gene (shift_gene k g) ->
  0 <= w -> group_ok lv n rows ->
  (sd = SL -> untruncated g w /\ untruncated (shift_gene k g) w) ->
  cell (revise3 c (map (shift_te k) rows)) lv n sd (shift_gene k g) w = cell (revise3 c rows) lv n sd g w.
Proof.
  intros Hwf Hwf' Hg Hg' Hw Hok Hu.
  rewrite (cell_spec lv n c rows sd g w Hwf Hg Hw Hok).
  rewrite cell_spec; [|assumption|assumption|assumption|apply group_ok_map; [intro t; destruct lv; reflexivity|exact Hok]].
  rewrite grp_shift. apply spec_shift. exact Hu.
Qed.

Theorem cell_mirror lv n c rows sd g w M :
  Forall wf_te rows -> Forall wf_te (map (mirror_te M) rows) -> wf_gene g -> wf_gene (mirror_gene M g) ->
  0 <= w -> group_ok lv n rows ->
  (sd = SL -> untruncated g w) -> (sd = SR -> untruncated (mirror_gene M g) w) ->
  cell (revise3 c (map (mirror_te M) rows)) lv n (flip sd) (mirror_gene M g) w = cell (revise3 c rows) lv n sd g w.
Proof.
  intros Hwf Hwf' Hg Hg' Hw Hok HL HR.
  rewrite (cell_spec lv n c rows sd g w Hwf Hg Hw Hok).
  rewrite cell_spec; [|assumption|assumption|assumption|apply group_ok_map; [intro t; destruct lv; reflexivity|exact Hok]].
  rewrite grp_mirror. apply spec_mirror; try assumption.
  destruct Hg as [Hg _]. lia.
Qed.

Theorem cell_monotone lv n c rows sd g w w' :
  Forall wf_te rows -> wf_gene g -> 0 <= w <= w' -> group_ok lv n rows ->
  fst (cell (revise3 c rows) lv n sd g w) <= fst (cell (revise3 c rows) lv n sd g w').
Proof.
  intros Hwf Hg Hw Hok.
  rewrite !cell_spec by (try assumption; lia). unfold spec_cell; cbn [fst].
  apply spec_monotone; [destruct Hg as [Hg _]; lia|exact Hw].
Qed.
End R.
