(* C14: identifiers are opaque.  Renaming chromosomes, genes, orders and superfamilies by injective
   maps (that avoid the pipeline's reserved labels) renames the labels of the result files and
   changes no number: the data path uses names only through equality. *)
From Coq Require Import ZArith NArith List Bool Lia ZifyBool Permutation.
From TEV Require Import Base.Intervals Base.Count Base.PyRange Model.Kernel Model.Revise Model.Pipeline
     Spec.Density Proofs.ReviseP Proofs.NameSort Proofs.Refine Proofs.RunP Proofs.Keys Proofs.C01P Proofs.LocalP.
Import ListNotations. Open Scope Z_scope.

Section Ren.
Variables rS rO rT : N.
Variables pc pg po ps : N -> N.
Hypothesis pc_inj : forall x y, pc x = pc y -> x = y.
Hypothesis pg_inj : forall x y, pg x = pg y -> x = y.
Hypothesis po_inj : forall x y, po x = po y -> x = y.
Hypothesis ps_inj : forall x y, ps x = ps y -> x = y.
Hypothesis po_ok : forall x, po x <> rS /\ po x <> rT.
Hypothesis ps_ok : forall x, ps x <> rO /\ ps x <> rT.
Notation run := (run rS rO rT).
Notation revise3 := (revise3 rS rO rT).
Notation bookkeeping := (bookkeeping rS rO).

Definition rn_te (t : te) : te := mkTE (pc (t_chr t)) (t_start t) (t_stop t) (po (t_ord t)) (ps (t_sup t)).
Definition rn_gene (g : gene) : gene := mkG (pc (g_chr g)) (pg (g_name g)) (g_start g) (g_stop g) (g_len g) (g_strand g).
Definition plv (lv : level) : N -> N := match lv with LOrd => po | LSup => ps end.

Lemma plv_inj lv x y : plv lv x = plv lv y -> x = y.
Proof. destruct lv; cbn [plv]; auto. Qed.
Lemma plv_ok lv x : plv lv x <> bookkeeping lv /\ plv lv x <> rT.
Proof. destruct lv; cbn [plv Refine.bookkeeping]; [apply po_ok|apply ps_ok]. Qed.
Lemma col_rn lv t : col lv (rn_te t) = plv lv (col lv t).
Proof. destruct lv; reflexivity. Qed.

Lemma eqb_inj (p : N -> N) (Hp : forall x y, p x = p y -> x = y) x y : (p x =? p y)%N = (x =? y)%N.
Proof.
  destruct (x =? y)%N eqn:E.
  - apply N.eqb_eq in E. subst. apply N.eqb_refl.
  - apply N.eqb_neq. intro H. apply Hp in H. apply N.eqb_neq in E. contradiction.
Qed.

Lemma filter_map_comm {A B} (f : A -> B) (p : B -> bool) (q : A -> bool) l :
  (forall x, p (f x) = q x) -> filter p (map f l) = map f (filter q l).
Proof.
  intro H. induction l as [|x r IH]; cbn [map filter]; [reflexivity|]. rewrite H. destruct (q x); cbn [map]; rewrite IH; reflexivity.
Qed.

Lemma on_chr_rn c tes : on_chr (pc c) (map rn_te tes) = map rn_te (on_chr c tes).
Proof. unfold on_chr, keyed. apply filter_map_comm. intro t. cbn [rn_te t_chr]. apply eqb_inj. exact pc_inj. Qed.
Lemma keyed_rn lv n rows : keyed (col lv) (plv lv n) (map rn_te rows) = map rn_te (keyed (col lv) n rows).
Proof. unfold keyed. apply filter_map_comm. intro t. rewrite col_rn. apply eqb_inj. apply plv_inj. Qed.
Lemma ivs_of_rn rows : ivs_of (map rn_te rows) = ivs_of rows.
Proof. unfold ivs_of. rewrite map_map. reflexivity. Qed.

Lemma insert_gene_rn g l : insert_gene (rn_gene g) (map rn_gene l) = map rn_gene (insert_gene g l).
Proof.
  induction l as [|h r IH]; cbn [map insert_gene]; [reflexivity|]. cbn [rn_gene g_start].
  destruct (g_start g <=? g_start h); cbn [map]; [reflexivity|]. f_equal. exact IH.
Qed.
Lemma sort_genes_rn l : sort_genes (map rn_gene l) = map rn_gene (sort_genes l).
Proof. induction l as [|h r IH]; cbn [map sort_genes fold_right]; [reflexivity|]. fold (sort_genes (map rn_gene r)). fold (sort_genes r). rewrite IH. apply insert_gene_rn. Qed.
Lemma genes_on_rn c genes : genes_on (pc c) (map rn_gene genes) = map rn_gene (genes_on c genes).
Proof.
  unfold genes_on. rewrite (filter_map_comm rn_gene _ (fun g => (g_chr g =? c)%N)).
  - apply sort_genes_rn.
  - intro g. cbn [rn_gene g_chr]. apply eqb_inj. exact pc_inj.
Qed.
Lemma find_gene_rn n l : find_gene (pg n) (map rn_gene l) = option_map rn_gene (find_gene n l).
Proof.
  unfold find_gene. induction l as [|h r IH]; cbn [map find]; [reflexivity|]. cbn [rn_gene g_name].
  rewrite (eqb_inj pg pg_inj). destruct (g_name h =? n)%N; [reflexivity|exact IH].
Qed.

Lemma spec_cell_rn ivs sd g w : spec_cell ivs sd (rn_gene g) w = spec_cell ivs sd g w.
Proof. destruct sd; reflexivity. Qed.
Lemma wf_gene_rn g : wf_gene g -> wf_gene (rn_gene g).
Proof. intro H. exact H. Qed.
Lemma wf_te_rn rows : Forall wf_te rows -> Forall wf_te (map rn_te rows).
Proof. intro H. induction H; cbn [map]; constructor; assumption. Qed.

Lemma names_ok_rn tes : rS <> rT -> rO <> rT -> names_ok rS rO rT (map rn_te tes).
Proof.
  intros H1 H2. split; [exact H1|]. split; [exact H2|]. apply Forall_forall. intros t Ht.
  apply in_map_iff in Ht. destruct Ht as [t0 [<- _]]. cbn [rn_te t_ord t_sup].
  destruct (po_ok (t_ord t0)), (ps_ok (t_sup t0)). repeat split; assumption.
Qed.
Lemma wf_input_rn genes tes : wf_input rS rO rT genes tes -> wf_input rS rO rT (map rn_gene genes) (map rn_te tes).
Proof.
  intros [Hg [Ht [H1 [H2 _]]]]. split; [|split].
  - clear -Hg. induction Hg; cbn [map]; constructor; auto.
  - apply wf_te_rn. exact Ht.
  - apply names_ok_rn; assumption.
Qed.

(* the renamed run labels the same numbers with the renamed names *)
Theorem rename_cells first delta last genes tes fs fs' f f' :
  wf_input rS rO rT genes tes -> 0 <= first -> 0 < delta ->
  run first delta last genes tes = inr fs ->
  run first delta last (map rn_gene genes) (map rn_te tes) = inr fs' ->
  In f fs -> In f' fs' -> f_chr f' = pc (f_chr f) ->
  f_genes f' = map rn_gene (f_genes f) /\ f_windows f' = f_windows f /\
  (forall lv name sd w gname, name <> bookkeeping lv -> name <> rT ->
     f_cell f' lv (plv lv name) sd w (pg gname) = f_cell f lv name sd w gname) /\
  (forall lv sd w gname, f_cell f' lv rT sd w (pg gname) = f_cell f lv rT sd w gname).
Proof.
  intros Hwf Hf Hd Hr Hr' Hin Hin' Hc.
  pose proof (wf_input_rn genes tes Hwf) as Hwf'.
  destruct (run_file _ _ _ _ _ _ _ _ _ _ Hr Hin) as [ws [Hw [_ [Hgen [Hwin [Hrows Hnd]]]]]].
  destruct (run_file _ _ _ _ _ _ _ _ _ _ Hr' Hin') as [ws' [Hw' [_ [Hgen' [Hwin' [Hrows' Hnd']]]]]].
  assert (Hww : ws' = ws) by (rewrite Hw in Hw'; inversion Hw'; reflexivity). subst ws'.
  rewrite Hc in Hgen', Hrows'. rewrite genes_on_rn in Hgen'. rewrite on_chr_rn in Hrows'.
  split; [rewrite Hgen', Hgen; reflexivity|]. split; [congruence|].
  destruct Hwf as [Hwg [Hwt Hn]].
  assert (Hwtc : Forall wf_te (on_chr (f_chr f) tes)) by (apply on_chr_forall; exact Hwt).
  (* every cell of a found gene *)
  assert (Hcells : forall lv n n' sd w g, In g (f_genes f) ->
            (match sd with SI => true | _ => memZ w ws end) = true ->
            ((n <> bookkeeping lv /\ n <> rT /\ n' = plv lv n) \/ (n = rT /\ n' = rT)) ->
            cell (f_rows f') lv n' sd (rn_gene g) w = cell (f_rows f) lv n sd g w).
  { intros lv n n' sd w g Hg Hsw Hcase. rewrite Hrows, Hrows'.
    rewrite Hgen in Hg. apply genes_on_in in Hg.
    assert (Hwfg : wf_gene g) by (rewrite Forall_forall in Hwg; apply Hwg; tauto).
    destruct (names_ok_col rS rO rT lv tes Hn) as [Hbk Hreal].
    assert (Hreal' : Forall (fun t => col lv t <> rT) (map rn_te (on_chr (f_chr f) tes))).
    { apply Forall_forall. intros t Ht. apply in_map_iff in Ht. destruct Ht as [t0 [<- _]]. rewrite col_rn. apply plv_ok. }
    assert (Hgo : forall w0, 0 <= w0 ->
              cell (revise3 (pc (f_chr f)) (map rn_te (on_chr (f_chr f) tes))) lv n' sd (rn_gene g) w0 =
              cell (revise3 (f_chr f) (on_chr (f_chr f) tes)) lv n sd g w0).
    { intros w0 Hw0. destruct Hcase as [[Hb [Ht ->]]|[-> ->]].
      - destruct (plv_ok lv n) as [Hb' Ht'].
        rewrite (cell_group rS rO rT lv (plv lv n)); auto; [|apply wf_te_rn; exact Hwtc].
        rewrite (cell_group rS rO rT lv n); auto.
        rewrite keyed_rn, ivs_of_rn. apply spec_cell_rn.
      - rewrite (cell_total rS rO rT lv); auto; [|apply wf_te_rn; exact Hwtc].
        rewrite (cell_total rS rO rT lv); auto; [|apply on_chr_forall; exact Hreal].
        rewrite ivs_of_rn. apply spec_cell_rn. }
    destruct sd.
    - apply Hgo. apply memZ_in in Hsw. exact (window_nonneg first delta last ws w Hf Hd Hw Hsw).
    - rewrite (cell_intra_w _ _ _ _ w 0). rewrite (cell_intra_w (revise3 (f_chr f) _) _ _ _ w 0). apply Hgo. lia.
    - apply Hgo. apply memZ_in in Hsw. exact (window_nonneg first delta last ws w Hf Hd Hw Hsw). }
  (* which names are on the axes *)
  assert (Hnames : forall lv n, n <> bookkeeping lv -> n <> rT ->
            memN (plv lv n) (f_names f' lv) = memN n (f_names f lv)).
  { intros lv n Hb Ht. destruct (plv_ok lv n) as [Hb' Ht'].
    apply bool_iff. rewrite !memN_in.
    rewrite (names rS rO rT _ _ _ _ _ _ _ _ _ Hwf' Hr' Hin' Hb').
    rewrite (names rS rO rT _ _ _ _ _ _ _ _ _ (conj Hwg (conj Hwt Hn)) Hr Hin Hb).
    apply N.eqb_neq in Ht. apply N.eqb_neq in Ht'. rewrite Ht, Ht', Hc. split.
    - intros [t [Hi [Hch Hcol]]]. apply in_map_iff in Hi. destruct Hi as [t0 [<- Hi]].
      exists t0. split; [exact Hi|]. split; [apply pc_inj; exact Hch|]. rewrite col_rn in Hcol. apply plv_inj in Hcol. exact Hcol.
    - intros [t [Hi [Hch Hcol]]]. exists (rn_te t). split; [apply in_map; exact Hi|]. split; [cbn [rn_te t_chr]; congruence|].
      rewrite col_rn. congruence. }
  assert (HnamesT : forall lv, memN rT (f_names f' lv) = memN rT (f_names f lv)).
  { intro lv. destruct (names_ok_col rS rO rT lv tes Hn) as [Hbk _].
    apply bool_iff. rewrite !memN_in.
    rewrite (names rS rO rT _ _ _ _ _ _ _ _ _ Hwf' Hr' Hin' (not_eq_sym Hbk)).
    rewrite (names rS rO rT _ _ _ _ _ _ _ _ _ (conj Hwg (conj Hwt Hn)) Hr Hin (not_eq_sym Hbk)).
    rewrite N.eqb_refl, Hc, on_chr_rn. split; intros H E; apply H.
    - rewrite E. reflexivity.
    - destruct (on_chr (f_chr f) tes); [reflexivity|discriminate]. }
  split.
  - intros lv name sd w gname Hb Ht. unfold f_cell. rewrite Hgen', <- Hgen, find_gene_rn.
    destruct (find_gene gname (f_genes f)) as [g|] eqn:Eg; cbn [option_map]; [|reflexivity].
    rewrite (Hnames lv name Hb Ht), Hwin, Hww.
    destruct (memN name (f_names f lv)); cbn [andb]; [|reflexivity].
    destruct (match sd with SI => true | _ => memZ w ws end) eqn:Es; [|reflexivity].
    f_equal. apply Hcells; auto.
    + unfold find_gene in Eg. apply find_some in Eg. tauto.
  - intros lv sd w gname. unfold f_cell. rewrite Hgen', <- Hgen, find_gene_rn.
    destruct (find_gene gname (f_genes f)) as [g|] eqn:Eg; cbn [option_map]; [|reflexivity].
    rewrite (HnamesT lv), Hwin, Hww.
    destruct (memN rT (f_names f lv)); cbn [andb]; [|reflexivity].
    destruct (match sd with SI => true | _ => memZ w ws end) eqn:Es; [|reflexivity].
    f_equal. apply Hcells; auto.
    + unfold find_gene in Eg. apply find_some in Eg. tauto.
Qed.

(* names are written back verbatim: the axes of the renamed run are the renamed axes *)
Theorem rename_axes first delta last genes tes fs fs' f f' lv n :
  wf_input rS rO rT genes tes ->
  run first delta last genes tes = inr fs ->
  run first delta last (map rn_gene genes) (map rn_te tes) = inr fs' ->
  In f fs -> In f' fs' -> f_chr f' = pc (f_chr f) -> n <> bookkeeping lv -> n <> rT ->
  (In (plv lv n) (f_names f' lv) <-> In n (f_names f lv)).
Proof.
  intros Hwf Hr Hr' Hin Hin' Hc Hb Ht.
  pose proof (wf_input_rn genes tes Hwf) as Hwf'. destruct (plv_ok lv n) as [Hb' Ht'].
  rewrite (names rS rO rT _ _ _ _ _ _ _ _ _ Hwf' Hr' Hin' Hb').
  rewrite (names rS rO rT _ _ _ _ _ _ _ _ _ Hwf Hr Hin Hb).
  apply N.eqb_neq in Ht. apply N.eqb_neq in Ht'. rewrite Ht, Ht', Hc. split.
  - intros [t [Hi [Hch Hcol]]]. apply in_map_iff in Hi. destruct Hi as [t0 [<- Hi]].
    exists t0. split; [exact Hi|]. split; [apply pc_inj; exact Hch|]. rewrite col_rn in Hcol. apply plv_inj in Hcol. exact Hcol.
  - intros [t [Hi [Hch Hcol]]]. exists (rn_te t). split; [apply in_map; exact Hi|]. split; [cbn [rn_te t_chr]; congruence|].
    rewrite col_rn. congruence.
Qed.

Lemma memN_map_inj (p : N -> N) (Hp : forall x y, p x = p y -> x = y) x l : memN (p x) (map p l) = memN x l.
Proof. unfold memN. induction l as [|y r IH]; cbn [map existsb]; [reflexivity|]. rewrite (eqb_inj p Hp), IH. reflexivity. Qed.
Lemma has_dup_map_inj (p : N -> N) (Hp : forall x y, p x = p y -> x = y) l : has_dup (map p l) = has_dup l.
Proof. induction l as [|y r IH]; cbn [map has_dup]; [reflexivity|]. rewrite (memN_map_inj p Hp), IH. reflexivity. Qed.

Lemma in_map_inj (p : N -> N) (Hp : forall x y, p x = p y -> x = y) z l : In (p z) (map p l) <-> In z l.
Proof. rewrite in_map_iff. split; [intros [x [Hx Hi]]; apply Hp in Hx; subst; exact Hi|intro Hi; exists z; auto]. Qed.
Lemma nsortu_map_inj a b : nsortu (map pc a) = nsortu (map pc b) <-> nsortu a = nsortu b.
Proof.
  split; intro H.
  - apply nsortu_ext. intro z. rewrite <- (in_map_inj pc pc_inj z a), <- (in_map_inj pc pc_inj z b).
    rewrite <- (nsortu_in (map pc a)), <- (nsortu_in (map pc b)). rewrite H. reflexivity.
  - assert (Hs : forall z, In z a <-> In z b) by (intro z; rewrite <- (nsortu_in a), <- (nsortu_in b); rewrite H; reflexivity).
    apply nsortu_ext. intro y. rewrite !in_map_iff. split; intros [x [Hx Hi]]; exists x; (split; [exact Hx|apply Hs; exact Hi]).
Qed.

(* the renamed run succeeds exactly when the original does *)
Theorem rename_runs first delta last genes tes :
  (exists fs, run first delta last genes tes = inr fs) <->
  (exists fs', run first delta last (map rn_gene genes) (map rn_te tes) = inr fs').
Proof.
  assert (Hstr : forallb strand_ok (map rn_gene genes) = forallb strand_ok genes).
  { induction genes as [|g r IH]; cbn [map forallb]; [reflexivity|]. rewrite IH. reflexivity. }
  assert (Hdup : has_dup (map g_name (map rn_gene genes)) = has_dup (map g_name genes)).
  { rewrite map_map. cbn [rn_gene g_name]. rewrite <- (map_map g_name pg). apply has_dup_map_inj. exact pg_inj. }
  assert (Hval : validate_split (nsortu (map g_chr (map rn_gene genes))) (nsortu (map t_chr (map rn_te tes)))
                 = validate_split (nsortu (map g_chr genes)) (nsortu (map t_chr tes))).
  { apply bool_iff. rewrite !validate_split_iff. rewrite !map_map. cbn [rn_gene rn_te g_chr t_chr].
    rewrite <- (map_map g_chr pc), <- (map_map t_chr pc). apply nsortu_map_inj. }
  unfold Pipeline.run. rewrite Hdup, Hstr, Hval.
  destruct (windows_of first delta last); [|split; intros [x Hx]; discriminate].
  destruct (has_dup (map g_name genes)); [split; intros [x Hx]; discriminate|].
  destruct (negb (forallb strand_ok genes)); [split; intros [x Hx]; discriminate|].
  destruct (negb (validate_split _ _)); [split; intros [x Hx]; discriminate|].
  split; intros _; eexists; reflexivity.
Qed.
End Ren.
