(* DensityData.__init__ / _swap_strand_vals / _index_of_gene / verify_h5_cache as translated from /repo
   (Gen/GenReader.v) against Model/Reader.v: the exchange loop is swap_all, the constructor leaves the raw file and
   the trusted sense-swapped copy exactly as Reader.load does and serves the same values (the temporary file, which no
   load ever trusts, is the only thing that may differ: after a failed exchange the code leaves it half exchanged). *)
From Coq Require Import List Bool Arith NArith ZArith.
From TEV Require Import Model.Reader Model.ReaderFS Gen.GenReader Proofs.ReaderP.
Import ListNotations.

Lemma swap_first_at n : forall f,
  swap_first n f = match first_index n (map fst f) with Some k => Some (swap_at k f) | None => None end.
Proof.
  induction f as [|[m c] r IH]; cbn [swap_first first_index map fst swap_at]; [reflexivity|].
  destruct (N.eqb m n); [reflexivity|]. rewrite IH.
  destruct (first_index n (map fst r)) as [k|]; reflexivity.
Qed.

Definition swap_step (acc : h5 * bool) (name : N) : h5 * bool :=
  let '(f, ok) := acc in
  if ok then match first_index name (map fst f) with Some k => (swap_at k f, true) | None => (f, false) end else acc.

Lemma fold_failed names : forall f, fold_left swap_step names (f, false) = (f, false).
Proof. induction names as [|n r IH]; intro f; cbn [fold_left swap_step]; [reflexivity|apply IH]. Qed.

Lemma fold_swap_spec names : forall f,
  match swap_all names f with
  | Some f' => fold_left swap_step names (f, true) = (f', true)
  | None => snd (fold_left swap_step names (f, true)) = false
  end.
Proof.
  induction names as [|n r IH]; intro f; cbn [swap_all fold_left]; [reflexivity|].
  rewrite swap_first_at.
  assert (Hs : swap_step (f, true) n = match first_index n (map fst f) with Some k => (swap_at k f, true) | None => (f, false) end) by reflexivity.
  rewrite Hs. clear Hs. destruct (first_index n (map fst f)) as [k|].
  - apply IH.
  - rewrite fold_failed. reflexivity.
Qed.

Theorem gen_swap_strand_vals_ok names f :
  match swap_all names f with
  | Some f' => gen_swap_strand_vals names f = (f', true)
  | None => snd (gen_swap_strand_vals names f) = false
  end.
Proof. exact (fold_swap_spec names f). Qed.

Definition same_files (a b : disk) : Prop := d_raw a = d_raw b /\ d_final a = d_final b.

Theorem gen_init_ok genes d :
  same_files (fst (gen_init true genes d)) (fst (load true genes ByCtor d))
  /\ snd (gen_init true genes d) = snd (load true genes ByCtor d).
Proof.
  unfold gen_init, load, same_files, swapped_copy. destruct d as [raw tmp fin]. cbn [d_raw d_tmp d_final].
  destruct fin as [c|]; cbn [exists_ read_ d_final d_raw d_tmp copy_ write_ put_].
  - repeat split.
  - pose proof (gen_swap_strand_vals_ok (minus_names genes) raw) as H.
    destruct (swap_all (minus_names genes) raw) as [c|].
    + rewrite H. cbn. repeat split.
    + destruct (gen_swap_strand_vals (minus_names genes) raw) as [f' ok]. cbn [snd] in H. subst ok. cbn. repeat split.
Qed.

Theorem gen_verify_h5_cache_ok genes d :
  same_files (fst (gen_verify_h5_cache genes d)) (fst (load true genes ByVerify d))
  /\ snd (gen_verify_h5_cache genes d) = snd (load true genes ByVerify d).
Proof.
  assert (E : load true genes ByVerify d = load true genes ByCtor d) by (unfold load; destruct (d_final d); reflexivity).
  rewrite E. exact (gen_init_ok genes d).
Qed.

(* without the strand-aware view the raw file is served and nothing is written *)
Theorem gen_init_noswap genes d : gen_init false genes d = (d, Some (d_raw d)).
Proof. reflexivity. Qed.

(* a load never modifies the raw result file and never leaves a copy under the trusted name that is not the complete exchange *)
Theorem gen_init_final genes d : d_final d = None ->
  d_raw (fst (gen_init true genes d)) = d_raw d /\
  (d_final (fst (gen_init true genes d)) = None \/ d_final (fst (gen_init true genes d)) = swapped_copy genes (d_raw d)).
Proof.
  intro Hf. destruct (gen_init_ok genes d) as [[H1 H2] _]. rewrite H1, H2. unfold load. rewrite Hf.
  destruct (swapped_copy genes (d_raw d)) as [c|] eqn:E; cbn [fst d_raw d_final].
  - split; [reflexivity|right; reflexivity].
  - split; [reflexivity|left; reflexivity].
Qed.

(* ------------------------------------------------------------------ histories of loads through the translated code *)
Definition gen_load (genes : list (N * N)) (w : how) (d : disk) : disk * option h5 :=
  match w with ByCtor => gen_init true genes d | ByVerify => gen_verify_h5_cache genes d end.
Fixpoint gen_history (genes : list (N * N)) (ws : list how) (d : disk) : list (option h5) :=
  match ws with
  | [] => []
  | w :: r => snd (gen_load genes w d) :: gen_history genes r (fst (gen_load genes w d))
  end.
Fixpoint gen_final_disk (genes : list (N * N)) (ws : list how) (d : disk) : disk :=
  match ws with [] => d | w :: r => gen_final_disk genes r (fst (gen_load genes w d)) end.

Lemma gen_load_ok genes w d :
  same_files (fst (gen_load genes w d)) (fst (load true genes w d)) /\ snd (gen_load genes w d) = snd (load true genes w d).
Proof. destruct w; [apply gen_init_ok | apply gen_verify_h5_cache_ok]. Qed.

Lemma good_disk_same genes raw v a b : same_files a b -> good_disk genes raw v b -> good_disk genes raw v a.
Proof. intros [Hr Hf] [G1 G2]. unfold good_disk. rewrite Hr, Hf. split; assumption. Qed.

(* every load of every sequence of loads through the translated constructor / verify_h5_cache serves the strand-aware view,
   and the raw file stays what it was *)
Theorem gen_loads_idempotent genes raw v ws : swapped_copy genes raw = Some v ->
  forall d, good_disk genes raw v d ->
    Forall (fun x => x = Some v) (gen_history genes ws d) /\ good_disk genes raw v (gen_final_disk genes ws d).
Proof.
  intros Hv. induction ws as [|w r IH]; intros d Hd; cbn [gen_history gen_final_disk].
  - split; [constructor | exact Hd].
  - destruct (gen_load_ok genes w d) as [Hs He].
    assert (Hd' : good_disk genes raw v (fst (gen_load genes w d))).
    { eapply good_disk_same; [exact Hs|]. exact (good_do_lop genes raw v d (Load w) Hv Hd). }
    destruct (IH _ Hd') as [H1 H2]. split; [|exact H2].
    constructor; [|exact H1]. rewrite He. exact (good_served genes raw v d w Hv Hd).
Qed.
