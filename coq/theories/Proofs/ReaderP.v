(* Proofs for C08, C09, C15, C16 over Model/Reader.v *)
From Coq Require Import List Bool Arith NArith ZArith Lia Permutation.
From TEV Require Import Model.Reader.
Import ListNotations.

(* ================================================================= C09 *)
(* the view served for a gene: its raw column, exchanged iff the gene is on the minus strand *)
Definition view_col (genes : list (N * N)) (n : N) (c : colv) : colv :=
  if memN n (minus_names genes) then swap_col c else c.

Lemma swap_col_involutive c : swap_col (swap_col c) = c.
Proof. destruct c; reflexivity. Qed.

Lemma memN_in_aux x l : memN x l = true <-> In x l.
Proof.
  unfold memN. rewrite existsb_exists. split.
  - intros [y [Hy E]]. apply N.eqb_eq in E. subst. exact Hy.
  - intros H. exists x. split; [exact H | apply N.eqb_refl].
Qed.

Lemma memN_notin x l : ~ In x l -> memN x l = false.
Proof.
  intros H. destruct (memN x l) eqn:E; [|reflexivity].
  apply memN_in_aux in E. contradiction.
Qed.

Lemma map_swap_notin n (r : h5) : ~ In n (map fst r) ->
  map (fun nc : N * colv => (fst nc, if N.eqb (fst nc) n then swap_col (snd nc) else snd nc)) r = r.
Proof.
  induction r as [|[m c] r IH]; simpl; intros H; [reflexivity|].
  destruct (N.eqb m n) eqn:E.
  - apply N.eqb_eq in E. subst. exfalso. apply H. left. reflexivity.
  - f_equal. apply IH. intros H'. apply H. right. exact H'.
Qed.

Lemma swap_first_spec n f : forall f', swap_first n f = Some f' -> NoDup (map fst f) ->
  f' = map (fun nc : N * colv => (fst nc, if N.eqb (fst nc) n then swap_col (snd nc) else snd nc)) f.
Proof.
  induction f as [|[m c] r IH]; simpl; intros f' H ND.
  - discriminate.
  - inversion ND as [|a l Hnin ND']; subst.
    destruct (N.eqb m n) eqn:E.
    + inversion H; subst. apply N.eqb_eq in E. subst.
      rewrite map_swap_notin by exact Hnin. reflexivity.
    + destruct (swap_first n r) as [r'|] eqn:Er; [|discriminate].
      inversion H; subst. f_equal. apply IH; [reflexivity | exact ND'].
Qed.

Lemma swap_first_fst n f : forall f', swap_first n f = Some f' -> map fst f' = map fst f.
Proof.
  induction f as [|[m c] r IH]; simpl; intros f' H.
  - discriminate.
  - destruct (N.eqb m n) eqn:E.
    + inversion H; subst. reflexivity.
    + destruct (swap_first n r) as [r'|] eqn:Er; [|discriminate].
      inversion H; subst. simpl. f_equal. apply IH. reflexivity.
Qed.

Lemma swap_first_defined n f : In n (map fst f) -> exists f', swap_first n f = Some f'.
Proof.
  induction f as [|[m c] r IH]; simpl; intros H.
  - contradiction.
  - destruct (N.eqb m n) eqn:E.
    + eexists; reflexivity.
    + destruct H as [H|H].
      * subst. rewrite N.eqb_refl in E. discriminate.
      * destruct (IH H) as [r' Hr']. rewrite Hr'. eexists; reflexivity.
Qed.

Lemma swap_all_spec names : forall f v, swap_all names f = Some v -> NoDup (map fst f) -> NoDup names ->
  v = map (fun nc : N * colv => (fst nc, if memN (fst nc) names then swap_col (snd nc) else snd nc)) f.
Proof.
  induction names as [|n r IH]; simpl; intros f v H NDf NDn.
  - injection H as <-. clear. induction f as [|[m c] f IH]; simpl; [reflexivity|]. f_equal. exact IH.
  - destruct (swap_first n f) as [f'|] eqn:Ef; [|discriminate].
    inversion NDn as [|a l Hnin NDr]; subst.
    pose proof (swap_first_fst _ _ _ Ef) as Hfst.
    pose proof (swap_first_spec _ _ _ Ef NDf) as Hf'.
    assert (NDf' : NoDup (map fst f')) by (rewrite Hfst; exact NDf).
    rewrite (IH f' v H NDf' NDr). rewrite Hf'. rewrite map_map.
    apply map_ext. intros [m c]. simpl.
    destruct (N.eqb m n) eqn:E.
    + apply N.eqb_eq in E. subst. rewrite (memN_notin _ _ Hnin). reflexivity.
    + simpl. reflexivity.
Qed.

Lemma swap_all_defined names : forall f, (forall n, In n names -> In n (map fst f)) ->
  exists v, swap_all names f = Some v.
Proof.
  induction names as [|n r IH]; simpl; intros f H.
  - eexists; reflexivity.
  - destruct (swap_first_defined n f (H n (or_introl eq_refl))) as [f' Hf']. rewrite Hf'.
    apply IH. intros k Hk. rewrite (swap_first_fst _ _ _ Hf'). apply H. right. exact Hk.
Qed.

Lemma NoDup_minus_names genes : NoDup (map fst genes) -> NoDup (minus_names genes).
Proof.
  unfold minus_names. induction genes as [|[g s] r IH]; simpl; intros H.
  - constructor.
  - inversion H as [|a l Hnin ND]; subst.
    destruct (N.eqb s 1).
    + simpl. constructor; [|apply IH; exact ND].
      intros Hin. apply Hnin. apply in_map_iff in Hin. destruct Hin as [x [Hx Hin]].
      apply filter_In in Hin. destruct Hin as [Hin _]. apply in_map_iff. exists x. split; assumption.
    + apply IH. exact ND.
Qed.

(* the copy has the same gene names in the same order, and every column is the strand-aware view of the
   raw column: minus genes exchanged, plus / unstranded genes and intragenic contents untouched *)
Theorem swapped_copy_spec genes raw v :
  NoDup (map fst raw) -> NoDup (map fst genes) -> swapped_copy genes raw = Some v ->
  v = map (fun nc => (fst nc, view_col genes (fst nc) (snd nc))) raw.
Proof.
  intros NDr NDg H. unfold swapped_copy in H. unfold view_col.
  apply (swap_all_spec _ _ _ H NDr (NoDup_minus_names _ NDg)).
Qed.

Theorem swapped_copy_defined genes raw :
  (forall n, In n (minus_names genes) -> In n (map fst raw)) -> exists v, swapped_copy genes raw = Some v.
Proof. intros H. unfold swapped_copy. apply swap_all_defined. exact H. Qed.

Theorem view_intra genes n c : c_intra (view_col genes n c) = c_intra c.
Proof. unfold view_col. destruct (memN n (minus_names genes)); reflexivity. Qed.
Theorem view_plus genes n c : memN n (minus_names genes) = false -> view_col genes n c = c.
Proof. intros H. unfold view_col. rewrite H. reflexivity. Qed.
Theorem view_minus genes n c : memN n (minus_names genes) = true ->
  c_left (view_col genes n c) = c_right c /\ c_right (view_col genes n c) = c_left c.
Proof. intros H. unfold view_col. rewrite H. split; reflexivity. Qed.

(* ================================================================= C15 *)
(* every load of every history over {constructor, verify_h5_cache} x crashes at any step serves the
   strand-aware view -- never the raw values, never a twice-swapped or half-made copy -- and the raw file
   never changes *)
Definition good_disk (genes : list (N * N)) (raw v : h5) (d : disk) : Prop :=
  d_raw d = raw /\ (d_final d = None \/ d_final d = Some v).

Lemma good_do_lop genes raw v d o : swapped_copy genes raw = Some v ->
  good_disk genes raw v d -> good_disk genes raw v (do_lop true genes d o).
Proof.
  intros Hv [Hraw Hfin]. unfold good_disk. destruct o as [w|k]; simpl.
  - unfold load. destruct Hfin as [Hfin|Hfin]; rewrite Hfin.
    + rewrite Hraw, Hv. simpl. split; [reflexivity | right; reflexivity].
    + destruct w; simpl; (split; [exact Hraw | right; exact Hfin]).
  - unfold crash. destruct Hfin as [Hfin|Hfin]; rewrite Hfin.
    + simpl. split; [exact Hraw | left; reflexivity].
    + split; [exact Hraw | right; exact Hfin].
Qed.

Lemma good_served genes raw v d w : swapped_copy genes raw = Some v ->
  good_disk genes raw v d -> snd (load true genes w d) = Some v.
Proof.
  intros Hv [Hraw Hfin]. unfold load. destruct Hfin as [Hfin|Hfin]; rewrite Hfin.
  - rewrite Hraw, Hv. reflexivity.
  - destruct w; reflexivity.
Qed.

Theorem loads_idempotent genes raw v ops : swapped_copy genes raw = Some v ->
  forall d, good_disk genes raw v d -> Forall (fun x => x = Some v) (history true genes ops d).
Proof.
  intros Hv. induction ops as [|o r IH]; intros d Hd; simpl.
  - constructor.
  - pose proof (good_do_lop genes raw v d o Hv Hd) as Hd'.
    destruct o as [w|k]; simpl.
    + constructor; [apply (good_served genes raw v d w Hv Hd) | apply IH; exact Hd'].
    + apply IH. exact Hd'.
Qed.

Theorem raw_untouched genes raw v ops : swapped_copy genes raw = Some v ->
  forall d, good_disk genes raw v d -> d_raw (fold_left (do_lop true genes) ops d) = raw.
Proof.
  intros Hv. induction ops as [|o r IH]; intros d Hd; simpl.
  - destruct Hd as [H _]. exact H.
  - apply IH. apply good_do_lop; assumption.
Qed.

(* the legacy behaviour is refuted: (a) a second load through verify_h5_cache serves the raw values,
   (b) a load interrupted after the copy but before any swap leaves a raw copy that later loads serve *)
Example legacy_verify_refuted :
  let genes := [(1, 1); (2, 0)]%N in let raw := [(1%N, mkCol 10 20 30); (2%N, mkCol 11 21 31)] in
  history false genes [Load ByCtor; Load ByVerify] (mkD raw None None)
  = [Some [(1%N, mkCol 20 10 30); (2%N, mkCol 11 21 31)]; Some raw].
Proof. vm_compute. reflexivity. Qed.
Example legacy_crash_refuted :
  let genes := [(1, 1); (2, 0)]%N in let raw := [(1%N, mkCol 10 20 30); (2%N, mkCol 11 21 31)] in
  history false genes [Crash 1; Load ByCtor] (mkD raw None None) = [Some raw].
Proof. vm_compute. reflexivity. Qed.

(* ================================================================= C16 *)
Lemma memN_in x l : memN x l = true <-> In x l.
Proof. exact (memN_in_aux x l). Qed.

Lemma has_dupN_false l : has_dupN l = false <-> NoDup l.
Proof.
  induction l as [|x r IH]; simpl.
  - split; [constructor | reflexivity].
  - rewrite orb_false_iff. split.
    + intros [Hm Hd]. constructor; [|apply IH; exact Hd].
      intros Hin. apply memN_in in Hin. rewrite Hin in Hm. discriminate.
    + intros H. inversion H as [|a l Hnin ND]; subst. split; [|apply IH; exact ND].
      apply memN_notin. exact Hnin.
Qed.

Definition pgo (gds : list N) : list N -> option (list (N * N)) :=
  fix go (hs : list N) : option (list (N * N)) :=
    match hs with
    | [] => Some []
    | h :: r => if memN h gds then match go r with Some ps => Some ((h, h) :: ps) | None => None end else None
    end.

Lemma pair_by_id_eq h5s gds : pair_by_id h5s gds = if has_dupN gds then None else pgo gds h5s.
Proof. destruct h5s; reflexivity. Qed.

Lemma pgo_sound gds h5s : forall ps, pgo gds h5s = Some ps ->
  map fst ps = h5s /\ Forall (fun p => fst p = snd p /\ In (snd p) gds) ps.
Proof.
  induction h5s as [|h r IH]; simpl; intros ps H.
  - inversion H; subst. split; [reflexivity | constructor].
  - destruct (memN h gds) eqn:Em; [|discriminate].
    destruct (pgo gds r) as [qs|] eqn:Eg; [|discriminate].
    inversion H; subst. destruct (IH qs eq_refl) as [H1 H2]. simpl. split.
    + f_equal. exact H1.
    + constructor; [|exact H2]. simpl. split; [reflexivity | apply memN_in; exact Em].
Qed.

Lemma pgo_complete gds h5s : (forall h, In h h5s -> In h gds) -> exists ps, pgo gds h5s = Some ps.
Proof.
  induction h5s as [|h r IH]; simpl; intros H.
  - eexists; reflexivity.
  - assert (Em : memN h gds = true) by (apply memN_in; apply H; left; reflexivity).
    rewrite Em. destruct IH as [qs Hq]; [intros k Hk; apply H; right; exact Hk|].
    rewrite Hq. eexists; reflexivity.
Qed.

Lemma pgo_reject gds h5s : (exists h, In h h5s /\ ~ In h gds) -> pgo gds h5s = None.
Proof.
  induction h5s as [|h r IH]; simpl; intros [k [Hk Hn]].
  - contradiction.
  - destruct (memN h gds) eqn:Em; [|reflexivity].
    destruct Hk as [Hk|Hk].
    + subst. apply memN_in in Em. contradiction.
    + rewrite IH; [reflexivity | exists k; split; assumption].
Qed.

(* the repaired pairing returns only pairs with equal chromosome, one per result file, in file order *)
Theorem pair_by_id_sound h5s gds ps : pair_by_id h5s gds = Some ps ->
  map fst ps = h5s /\ Forall (fun p => fst p = snd p /\ In (snd p) gds) ps /\ NoDup gds.
Proof.
  rewrite pair_by_id_eq. destruct (has_dupN gds) eqn:E; [discriminate|]. intros H.
  destruct (pgo_sound _ _ _ H) as [H1 H2]. split; [exact H1|]. split; [exact H2|].
  apply has_dupN_false. exact E.
Qed.
(* and it succeeds exactly when every file has its (unique) gene annotation *)
Theorem pair_by_id_complete h5s gds : NoDup gds -> (forall h, In h h5s -> In h gds) ->
  exists ps, pair_by_id h5s gds = Some ps.
Proof.
  intros ND H. rewrite pair_by_id_eq. apply has_dupN_false in ND. rewrite ND.
  apply pgo_complete. exact H.
Qed.
Theorem pair_by_id_reject h5s gds : (has_dupN gds = true \/ exists h, In h h5s /\ ~ In h gds) -> pair_by_id h5s gds = None.
Proof.
  intros [H|H]; rewrite pair_by_id_eq.
  - rewrite H. reflexivity.
  - destruct (has_dupN gds); [reflexivity | apply pgo_reject; exact H].
Qed.

(* the legacy pairing by sorted file names combines different chromosomes:
   genome "G", chromosomes "Chr1" (id 1) and "Chr10" (id 10) *)
Example legacy_pairs_refuted :
  legacy_pairs [71]%N [([67; 104; 114; 49]%N, 1%N); ([67; 104; 114; 49; 48]%N, 10%N)] = [(1, 10); (10, 1)]%N.
Proof. vm_compute. reflexivity. Qed.

(* ================================================================= C08 *)
Lemma first_index_some x l : forall k, first_index x l = Some k -> nth k l 0%N = x /\ (k < length l)%nat.
Proof.
  induction l as [|y r IH]; simpl; intros k H.
  - discriminate.
  - destruct (N.eqb y x) eqn:E.
    + inversion H; subst. apply N.eqb_eq in E. split; [exact E | lia].
    + destruct (first_index x r) as [i|] eqn:Ei; simpl in H; [|discriminate].
      inversion H; subst. destruct (IH i eq_refl) as [H1 H2]. split; [exact H1 | lia].
Qed.
Lemma first_index_none x l : first_index x l = None <-> ~ In x l.
Proof.
  induction l as [|y r IH]; simpl.
  - split; [intros _ H; exact H | reflexivity].
  - destruct (N.eqb y x) eqn:E.
    + apply N.eqb_eq in E. split; [discriminate | intros H; exfalso; apply H; left; exact E].
    + apply N.eqb_neq in E. destruct (first_index x r) as [i|] eqn:Ei; simpl.
      * split; [discriminate|]. intros H. exfalso. destruct IH as [_ IH].
        assert (Hn : ~ In x r) by (intros Hr; apply H; right; exact Hr). specialize (IH Hn). discriminate.
      * split; [|reflexivity]. intros _ [H|H]; [contradiction|]. destruct IH as [IH _]. apply (IH eq_refl). exact H.
Qed.
Lemma last_index_some x l : forall k, last_index x l = Some k -> nth k l 0%N = x /\ (k < length l)%nat.
Proof.
  induction l as [|y r IH]; simpl; intros k H.
  - discriminate.
  - destruct (last_index x r) as [i|] eqn:Ei.
    + inversion H; subst. destruct (IH i eq_refl) as [H1 H2]. split; [exact H1 | lia].
    + destruct (N.eqb y x) eqn:E; [|discriminate].
      inversion H; subst. apply N.eqb_eq in E. split; [exact E | lia].
Qed.
Lemma last_index_none x l : last_index x l = None <-> ~ In x l.
Proof.
  induction l as [|y r IH]; simpl.
  - split; [intros _ H; exact H | reflexivity].
  - destruct (last_index x r) as [i|] eqn:Ei.
    + split; [discriminate|]. intros H. exfalso. destruct IH as [_ IH].
      assert (Hn : ~ In x r) by (intros Hr; apply H; right; exact Hr). specialize (IH Hn). discriminate.
    + destruct IH as [IH _]. specialize (IH eq_refl). destruct (N.eqb y x) eqn:E.
      * apply N.eqb_eq in E. split; [discriminate | intros H; exfalso; apply H; left; exact E].
      * apply N.eqb_neq in E. split; [|reflexivity]. intros _ [H|H]; contradiction.
Qed.
Lemma last_indexZ_some x l : forall k, last_indexZ x l = Some k -> nth k l 0%Z = x /\ (k < length l)%nat.
Proof.
  induction l as [|y r IH]; simpl; intros k H.
  - discriminate.
  - destruct (last_indexZ x r) as [i|] eqn:Ei.
    + inversion H; subst. destruct (IH i eq_refl) as [H1 H2]. split; [exact H1 | lia].
    + destruct (Z.eqb y x) eqn:E; [|discriminate].
      inversion H; subst. apply Z.eqb_eq in E. split; [exact E | lia].
Qed.
Lemma last_indexZ_none x l : last_indexZ x l = None <-> ~ In x l.
Proof.
  induction l as [|y r IH]; simpl.
  - split; [intros _ H; exact H | reflexivity].
  - destruct (last_indexZ x r) as [i|] eqn:Ei.
    + split; [discriminate|]. intros H. exfalso. destruct IH as [_ IH].
      assert (Hn : ~ In x r) by (intros Hr; apply H; right; exact Hr). specialize (IH Hn). discriminate.
    + destruct IH as [IH _]. specialize (IH eq_refl). destruct (Z.eqb y x) eqn:E.
      * apply Z.eqb_eq in E. split; [discriminate | intros H; exfalso; apply H; left; exact E].
      * apply Z.eqb_neq in E. split; [|reflexivity]. intros _ [H|H]; contradiction.
Qed.

Lemma first_index_nth x l : In x l -> exists k, first_index x l = Some k /\ nth k l 0%N = x /\ (k < length l)%nat.
Proof.
  intros H. destruct (first_index x l) as [k|] eqn:E.
  - exists k. split; [reflexivity | apply first_index_some; exact E].
  - apply first_index_none in E. contradiction.
Qed.
Lemma last_index_nth x l : In x l -> exists k, last_index x l = Some k /\ nth k l 0%N = x /\ (k < length l)%nat.
Proof.
  intros H. destruct (last_index x l) as [k|] eqn:E.
  - exists k. split; [reflexivity | apply last_index_some; exact E].
  - apply last_index_none in E. contradiction.
Qed.
Lemma last_indexZ_nth x l : In x l -> exists k, last_indexZ x l = Some k /\ nth k l 0%Z = x /\ (k < length l)%nat.
Proof.
  intros H. destruct (last_indexZ x l) as [k|] eqn:E.
  - exists k. split; [reflexivity | apply last_indexZ_some; exact E].
  - apply last_indexZ_none in E. contradiction.
Qed.

(* looking a value up by gene name, TE name and window returns the cell those labels denote *)
Theorem lookup_labelled (V : Type) genes names windows (cellf : N -> Z -> N -> V) name w gene :
  In gene genes -> In name names -> In w windows ->
  lookup V genes names windows cellf name w gene = Some (cellf name w gene).
Proof.
  intros Hg Hn Hw. unfold lookup, arr.
  destruct (first_index_nth _ _ Hg) as [k [Ek [Nk _]]].
  destruct (last_index_nth _ _ Hn) as [i [Ei [Ni _]]].
  destruct (last_indexZ_nth _ _ Hw) as [j [Ej [Nj _]]].
  rewrite Ek, Ei, Ej, Nk, Ni, Nj. reflexivity.
Qed.

(* a query with an unknown gene or window is refused rather than answered with another cell *)
Theorem lookup_unknown (V : Type) genes names windows (cellf : N -> Z -> N -> V) name w gene :
  ~ In gene genes \/ ~ In name names \/ ~ In w windows ->
  lookup V genes names windows cellf name w gene = None.
Proof.
  intros H. unfold lookup.
  destruct H as [H|[H|H]].
  - apply first_index_none in H. rewrite H. reflexivity.
  - apply last_index_none in H. rewrite H. destruct (first_index gene genes); reflexivity.
  - apply last_indexZ_none in H. rewrite H.
    destruct (first_index gene genes); [|reflexivity]. destruct (last_index name names); reflexivity.
Qed.

Theorem table_value_spec (V : Type) (dflt : V) genes names windows (cellf : N -> Z -> N -> V) name w gene :
  In gene genes -> In w windows ->
  table_value V dflt genes names windows cellf name w gene = Some (if memN name names then cellf name w gene else dflt).
Proof.
  intros Hg Hw. unfold table_value. destruct (memN name names) eqn:Em.
  - apply memN_in in Em. apply lookup_labelled; assumption.
  - destruct (first_index_nth _ _ Hg) as [k [Ek _]]. rewrite Ek. reflexivity.
Qed.

(* with duplicate-free labels every array position is reached by exactly its own labels: the arrays and
   the label datasets have matching shapes and the correspondence position <-> labels is a bijection *)
Theorem index_bijection l : NoDup l -> forall k, (k < length l)%nat -> first_index (nth k l 0%N) l = Some k /\ last_index (nth k l 0%N) l = Some k.
Proof.
  induction l as [|y r IH]; intros ND k Hk; simpl in Hk; [lia|].
  inversion ND as [|a l Hnin ND']; subst.
  destruct k as [|k]; simpl.
  - rewrite N.eqb_refl. split; [reflexivity|].
    apply last_index_none in Hnin. rewrite Hnin. reflexivity.
  - assert (Hk' : (k < length r)%nat) by lia.
    destruct (IH ND' k Hk') as [H1 H2]. rewrite H1, H2.
    assert (E : N.eqb y (nth k r 0%N) = false).
    { apply N.eqb_neq. intros He. apply Hnin. rewrite He. apply nth_In. exact Hk'. }
    rewrite E. split; reflexivity.
Qed.
