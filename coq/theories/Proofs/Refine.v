(* C01 core: every labelled cell of the model equals the naive specification. *)
From Coq Require Import ZArith NArith List Bool Lia ZifyBool.
From TEV Require Import Base.Intervals Base.Count Model.Kernel Model.Revise Model.Pipeline
     Spec.Density Proofs.ReviseP Proofs.NameSort.
Import ListNotations. Open Scope Z_scope.

(* ---------- list plumbing ---------- *)
Lemma filter_flat_map {A B} (f : B -> bool) (g : A -> list B) l :
  filter f (flat_map g l) = flat_map (fun x => filter f (g x)) l.
Proof. induction l as [|a l IH]; cbn [flat_map]; [reflexivity|]. rewrite filter_app, IH. reflexivity. Qed.

Lemma flat_map_nil {A B} (g : A -> list B) l : (forall x, In x l -> g x = []) -> flat_map g l = [].
Proof.
  induction l as [|a l IH]; intro H; cbn [flat_map]; [reflexivity|].
  rewrite (H a (or_introl eq_refl)), IH; [reflexivity|]. intros x Hx. apply H. right. exact Hx.
Qed.

Lemma flat_map_pick {B} (G : N -> list B) n l : NoDup l ->
  flat_map (fun k => if (k =? n)%N then G k else []) l = if memN n l then G n else [].
Proof.
  intro Hnd. induction Hnd as [|x l Hx Hnd IH]; cbn [flat_map]; [reflexivity|].
  unfold memN in *. cbn [existsb]. rewrite IH. rewrite (N.eqb_sym n x).
  destruct (x =? n)%N eqn:E; cbn [orb].
  - apply N.eqb_eq in E. subst x.
    destruct (existsb (N.eqb n) l) eqn:E2.
    + exfalso. apply Hx. apply existsb_exists in E2. destruct E2 as [y [Hy E2]]. apply N.eqb_eq in E2. subst. exact Hy.
    + apply app_nil_r.
  - reflexivity.
Qed.

Lemma flat_map_ext_in {A B} (f g : A -> list B) l : (forall x, In x l -> f x = g x) -> flat_map f l = flat_map g l.
Proof.
  induction l as [|a l IH]; intro H; cbn [flat_map]; [reflexivity|].
  rewrite (H a (or_introl eq_refl)), IH; [reflexivity|]. intros x Hx; apply H; right; exact Hx.
Qed.

Lemma keyed_nil_notin key k rows : ~ In k (map key rows) -> keyed key k rows = [].
Proof.
  unfold keyed. induction rows as [|t r IH]; intro H; cbn [filter]; [reflexivity|].
  cbn [map In] in H. destruct (key t =? k)%N eqn:E.
  - apply N.eqb_eq in E. exfalso. apply H. left. exact E.
  - apply IH. intro Hin. apply H. right. exact Hin.
Qed.

Lemma nsortu_const (c : N) {A} (rows : list A) :
  nsortu (map (fun _ => c) rows) = match rows with [] => [] | _ => [c] end.
Proof.
  induction rows as [|a r IH]; [reflexivity|]. cbn [map nsortu fold_right]. fold (nsortu (map (fun _ : A => c) r)).
  rewrite IH. destruct r; cbn [ninsert]; [reflexivity|].
  rewrite N.ltb_irrefl, N.eqb_refl. reflexivity.
Qed.

Lemma keyed_const_true (c : N) rows : keyed (fun _ => c) c rows = rows.
Proof.
  unfold keyed. induction rows as [|t r IH]; cbn [filter]; [reflexivity|].
  destruct (c =? c)%N eqn:E; [f_equal; exact IH|rewrite N.eqb_refl in E; discriminate].
Qed.

(* ---------- blocks written by one revision pass ---------- *)
Definition blk (c : N) (oa sa : N) (l : list iv) : list te := map (fun i => mkTE c (fst i) (snd i) oa sa) l.

Lemma keyed_blk lv n c oa sa l :
  keyed (col lv) n (blk c oa sa l) = if ((match lv with LOrd => oa | LSup => sa end) =? n)%N then blk c oa sa l else [].
Proof.
  unfold keyed, blk. induction l as [|i l IH]; cbn [map filter].
  - destruct (_ =? n)%N; reflexivity.
  - rewrite IH. destruct lv; cbn [col t_ord t_sup]; destruct (_ =? n)%N; reflexivity.
Qed.

Lemma ivs_of_blk c oa sa l : ivs_of (blk c oa sa l) = l.
Proof. unfold ivs_of, blk. rewrite map_map. cbn [t_start t_stop]. induction l as [|[a b] l IH]; cbn [map fst snd]; [reflexivity|]. rewrite IH. reflexivity. Qed.

Lemma ovl_side_region sd g w c s e oa sa :
  ovl_side sd g w (mkTE c s e oa sa) = Count.ovl (fst (region sd g w)) (snd (region sd g w)) (s, e).
Proof.
  destruct sd; cbn [ovl_side region fst snd t_start t_stop];
    unfold ovl_left, ovl_intra, ovl_right, Kernel.ovl, Count.ovl, lwstart, rwstop, lws, rws; cbn [fst snd]; lia.
Qed.

Lemma cell_num_blk sd g w c oa sa l :
  fold_right (fun t a => ovl_side sd g w t + a) 0 (blk c oa sa l)
  = sum_ovl (fst (region sd g w)) (snd (region sd g w)) l.
Proof.
  unfold blk, sum_ovl. induction l as [|[s e] l IH]; cbn [map fold_right fst snd]; [reflexivity|].
  rewrite IH, ovl_side_region. reflexivity.
Qed.

Lemma region_ok sd g w : wf_gene g -> 0 <= w -> fst (region sd g w) <= snd (region sd g w) + 1.
Proof. intros [Hg _] Hw. destruct sd; cbn [region fst snd]; lia. Qed.

Lemma div_side_spec sd g w : wf_gene g -> 0 <= w -> div_side sd g w = spec_den sd g w.
Proof.
  intros [Hg [Hl _]] Hw. unfold spec_den. destruct sd; cbn [div_side region fst snd].
  - unfold div_left, lwstart, lws, winlen. destruct (Z.max 0 (g_start g - 1 - w) =? 0) eqn:E; lia.
  - unfold div_intra. lia.
  - unfold div_right, winlen. lia.
Qed.

Lemma wf_ivs rows : Forall wf_te rows -> Forall wfi (ivs_of rows).
Proof.
  unfold ivs_of. intro H. induction H as [|t r Ht Hr IH]; cbn [map]; constructor; [|exact IH].
  unfold wf_te in Ht. unfold wfi; cbn [fst snd]. lia.
Qed.

Lemma wf_keyed key k rows : Forall wf_te rows -> Forall wf_te (keyed key k rows).
Proof. unfold keyed. intro H. induction H as [|t r Ht Hr IH]; cbn [filter]; [constructor|]. destruct (_ =? _)%N; [constructor|]; assumption. Qed.

Section R.
Variables rS rO rT : N.
Notation pass_sup := (pass_sup rS).
Notation pass_ord := (pass_ord rO).
Notation pass_all := (pass_all rT).
Notation revise3 := (revise3 rS rO rT).

Lemma pass_as_blk c key lab rows :
  pass c key lab rows = flat_map (fun k => blk c (fst (lab k)) (snd (lab k)) (revise (ivs_of (keyed key k rows)))) (nsortu (map key rows)).
Proof. reflexivity. Qed.

Lemma keyed_pass lv n c key lab rows :
  keyed (col lv) n (pass c key lab rows) =
  flat_map (fun k => if ((match lv with LOrd => fst (lab k) | LSup => snd (lab k) end) =? n)%N
                     then blk c (fst (lab k)) (snd (lab k)) (revise (ivs_of (keyed key k rows))) else [])
           (nsortu (map key rows)).
Proof.
  rewrite pass_as_blk. unfold keyed at 1. rewrite filter_flat_map. apply flat_map_ext_in. intros k _.
  apply keyed_blk.
Qed.

(* a pass grouped by the very column we look at: pick the group's block *)
Lemma keyed_pass_own_ord n c rows :
  keyed t_ord n (pass_ord c rows) = blk c n rO (revise (ivs_of (keyed t_ord n rows))).
Proof.
  unfold Pipeline.pass_ord. rewrite (keyed_pass LOrd). cbn [fst snd].
  rewrite (flat_map_pick (fun k => blk c k rO (revise (ivs_of (keyed t_ord k rows)))) n _ (nsortu_nodup _)).
  destruct (memN n (nsortu (map t_ord rows))) eqn:E; [reflexivity|].
  rewrite keyed_nil_notin; [reflexivity|]. intro Hin. apply nsortu_in in Hin. apply memN_in in Hin. congruence.
Qed.

Lemma keyed_pass_own_sup n c rows :
  keyed t_sup n (pass_sup c rows) = blk c rS n (revise (ivs_of (keyed t_sup n rows))).
Proof.
  unfold Pipeline.pass_sup. rewrite (keyed_pass LSup). cbn [fst snd].
  rewrite (flat_map_pick (fun k => blk c rS k (revise (ivs_of (keyed t_sup k rows)))) n _ (nsortu_nodup _)).
  destruct (memN n (nsortu (map t_sup rows))) eqn:E; [reflexivity|].
  rewrite keyed_nil_notin; [reflexivity|]. intro Hin. apply nsortu_in in Hin. apply memN_in in Hin. congruence.
Qed.

(* a pass whose rows all carry a fixed label [m] in the column we look at *)
Lemma keyed_pass_fixed_other lv n c key lab rows m :
  (forall k, (match lv with LOrd => fst (lab k) | LSup => snd (lab k) end) = m) -> m <> n ->
  keyed (col lv) n (pass c key lab rows) = [].
Proof.
  intros Hm Hne. rewrite keyed_pass. apply flat_map_nil. intros k _. rewrite Hm.
  destruct (m =? n)%N eqn:E; [apply N.eqb_eq in E; contradiction|reflexivity].
Qed.

Lemma keyed_pass_all lv c rows :
  keyed (col lv) rT (pass_all c rows) = blk c rT rT (revise (ivs_of rows)).
Proof.
  unfold Pipeline.pass_all. rewrite keyed_pass. rewrite nsortu_const.
  destruct rows as [|t r]; [reflexivity|]. cbn [flat_map fst snd].
  rewrite app_nil_r, keyed_const_true. destruct lv; rewrite N.eqb_refl; reflexivity.
Qed.

(* ---------- C01 for a real group ---------- *)
Definition bookkeeping (lv : level) : N := match lv with LOrd => rS | LSup => rO end.

Lemma keyed_revise3_group lv n c rows : n <> bookkeeping lv -> n <> rT ->
  keyed (col lv) n (revise3 c rows) =
  blk c (match lv with LOrd => n | LSup => rS end) (match lv with LOrd => rO | LSup => n end)
      (revise (ivs_of (keyed (col lv) n rows))).
Proof.
  intros Hb Ht. unfold Pipeline.revise3, keyed. rewrite !filter_app.
  change (filter (fun t => (col lv t =? n)%N)) with (keyed (col lv) n).
  destruct lv; cbn [bookkeeping] in *.
  - unfold Pipeline.pass_sup, Pipeline.pass_all.
    rewrite (keyed_pass_fixed_other LOrd n c t_sup (fun k => (rS, k)) rows rS) by (intros; reflexivity || congruence).
    rewrite (keyed_pass_fixed_other LOrd n c (fun _ => rT) (fun _ => (rT, rT)) rows rT) by (intros; reflexivity || congruence).
    change (col LOrd) with t_ord. rewrite keyed_pass_own_ord.
    cbn [app]. apply app_nil_r.
  - unfold Pipeline.pass_ord, Pipeline.pass_all.
    rewrite (keyed_pass_fixed_other LSup n c t_ord (fun k => (k, rO)) rows rO) by (intros; reflexivity || congruence).
    rewrite (keyed_pass_fixed_other LSup n c (fun _ => rT) (fun _ => (rT, rT)) rows rT) by (intros; reflexivity || congruence).
    change (col LSup) with t_sup. rewrite keyed_pass_own_sup.
    apply app_nil_r.
Qed.

Theorem cell_group lv n c rows sd g w :
  Forall wf_te rows -> wf_gene g -> 0 <= w -> n <> bookkeeping lv -> n <> rT ->
  cell (revise3 c rows) lv n sd g w = spec_cell (ivs_of (keyed (col lv) n rows)) sd g w.
Proof.
  intros Hwf Hg Hw Hb Ht. unfold cell, spec_cell, cell_num, spec_num.
  rewrite (keyed_revise3_group lv n c rows Hb Ht), cell_num_blk.
  rewrite revise_sum_ovl; [|apply wf_ivs, wf_keyed; exact Hwf|apply region_ok; assumption].
  rewrite div_side_spec by assumption. reflexivity.
Qed.

(* ---------- C01 for the all-TE total ---------- *)
Lemma keyed_nil_forall key k rows : Forall (fun t => key t <> k) rows -> keyed key k rows = [].
Proof.
  unfold keyed. intro H. induction H as [|t r Ht Hr IH]; cbn [filter]; [reflexivity|].
  destruct (key t =? k)%N eqn:E; [apply N.eqb_eq in E; contradiction|exact IH].
Qed.

Lemma revise_nil : revise [] = [].
Proof. reflexivity. Qed.

Lemma keyed_revise3_total lv c rows :
  bookkeeping lv <> rT -> Forall (fun t => col lv t <> rT) rows ->
  keyed (col lv) rT (revise3 c rows) = blk c rT rT (revise (ivs_of rows)).
Proof.
  intros Hb Hreal. unfold Pipeline.revise3, keyed. rewrite !filter_app.
  change (filter (fun t => (col lv t =? rT)%N)) with (keyed (col lv) rT).
  rewrite keyed_pass_all.
  destruct lv; cbn [bookkeeping] in *.
  - unfold Pipeline.pass_sup.
    rewrite (keyed_pass_fixed_other LOrd rT c t_sup (fun k => (rS, k)) rows rS) by (intros; reflexivity || congruence).
    change (col LOrd) with t_ord in *. rewrite keyed_pass_own_ord. rewrite (keyed_nil_forall t_ord rT rows Hreal). reflexivity.
  - unfold Pipeline.pass_ord.
    rewrite (keyed_pass_fixed_other LSup rT c t_ord (fun k => (k, rO)) rows rO) by (intros; reflexivity || congruence).
    change (col LSup) with t_sup in *. rewrite keyed_pass_own_sup. rewrite (keyed_nil_forall t_sup rT rows Hreal).
    reflexivity.
Qed.

Theorem cell_total lv c rows sd g w :
  Forall wf_te rows -> wf_gene g -> 0 <= w -> bookkeeping lv <> rT -> Forall (fun t => col lv t <> rT) rows ->
  cell (revise3 c rows) lv rT sd g w = spec_cell (ivs_of rows) sd g w.
Proof.
  intros Hwf Hg Hw Hb Hreal. unfold cell, spec_cell, cell_num, spec_num.
  rewrite (keyed_revise3_total lv c rows Hb Hreal), cell_num_blk.
  rewrite revise_sum_ovl; [|apply wf_ivs; exact Hwf|apply region_ok; assumption].
  rewrite div_side_spec by assumption. reflexivity.
Qed.
End R.
