(* C19: re-opening a density store validates it against the expected layout. *)
From Coq Require Import List Bool Arith ZArith NArith Lia.
From TEV Require Import Model.Store2.
Import ListNotations.

Lemma eqbN_eq a : forall b, eqbN a b = true <-> a = b.
Proof.
  induction a as [|x a IH]; intros [|y b]; cbn; split; try easy.
  - rewrite andb_true_iff, N.eqb_eq, IH. intros [-> ->]; reflexivity.
  - intros H; injection H as -> ->. rewrite N.eqb_refl. cbn. apply IH; reflexivity.
Qed.
Lemma eqbZ_eq a : forall b, eqbZ a b = true <-> a = b.
Proof.
  induction a as [|x a IH]; intros [|y b]; cbn; split; try easy.
  - rewrite andb_true_iff, Z.eqb_eq, IH. intros [-> ->]; reflexivity.
  - intros H; injection H as -> ->. rewrite Z.eqb_refl. cbn. apply IH; reflexivity.
Qed.

Lemma shape_eqb_refl sh : shape_eqb sh sh = true.
Proof. destruct sh as [[a b] c]. cbn. rewrite !Nat.eqb_refl. reflexivity. Qed.

(* a group that holds data: all label datasets and the arrays present, no stored name empty, arrays shaped
   by the stored labels *)
Definition complete (g : grp) : Prop :=
  exists ge te wi v,
    g = mkGp (Some ge) (Some te) (Some wi) (Some (v, (length te, length wi, length ge)))
    /\ has_empty ge = false /\ has_empty te = false.

(* an acceptable configuration: identifiers are non-empty strings and there is at least one of each *)
Definition good_cfg (c : cfg) : Prop :=
  has_empty (c_genes c) = false /\ has_empty (c_tes c) = false.

Definition same_labels (c : cfg) (g : grp) : Prop :=
  s_genes g = Some (c_genes c) /\ s_tes g = Some (c_tes c) /\ s_windows g = Some (c_windows c).

(* C19, one open on a store that holds data: it succeeds iff the stored labels equal the expected ones,
   and in either case the stored data is left exactly as it was *)
Theorem open_complete c g : complete g ->
  (fst (open c g) = None <-> same_labels c g) /\ snd (open c g) = g.
Proof.
  intros (ge & te & wi & v & -> & Hg & Ht).
  unfold open, init_strings, init_windows, init_data, same_labels; cbn [s_genes s_tes s_windows s_data].
  rewrite Hg.
  destruct (Nat.eqb (length ge) (length (c_genes c))) eqn:E1; cbn [negb fst snd].
  2:{ split; [|reflexivity]. split; [discriminate|]. intros (H & _). injection H as ->.
      rewrite Nat.eqb_refl in E1. discriminate. }
  destruct (eqbN ge (c_genes c)) eqn:E2; cbn [negb fst snd s_genes s_tes s_windows s_data].
  2:{ split; [|reflexivity]. split; [discriminate|]. intros (H & _). injection H as ->.
      assert (eqbN (c_genes c) (c_genes c) = true) by (apply eqbN_eq; reflexivity). congruence. }
  rewrite Ht.
  destruct (Nat.eqb (length te) (length (c_tes c))) eqn:E3; cbn [negb fst snd].
  2:{ split; [|reflexivity]. split; [discriminate|]. intros (_ & H & _). injection H as ->.
      rewrite Nat.eqb_refl in E3. discriminate. }
  destruct (eqbN te (c_tes c)) eqn:E4; cbn [negb fst snd s_genes s_tes s_windows s_data].
  2:{ split; [|reflexivity]. split; [discriminate|]. intros (_ & H & _). injection H as ->.
      assert (eqbN (c_tes c) (c_tes c) = true) by (apply eqbN_eq; reflexivity). congruence. }
  destruct (Nat.eqb (length wi) (length (c_windows c))) eqn:E5; cbn [negb fst snd].
  2:{ split; [|reflexivity]. split; [discriminate|]. intros (_ & _ & H). injection H as ->.
      rewrite Nat.eqb_refl in E5. discriminate. }
  destruct (eqbZ wi (c_windows c)) eqn:E6; cbn [negb fst snd s_genes s_tes s_windows s_data].
  2:{ split; [|reflexivity]. split; [discriminate|]. intros (_ & _ & H). injection H as ->.
      assert (eqbZ (c_windows c) (c_windows c) = true) by (apply eqbZ_eq; reflexivity). congruence. }
  rewrite shape_eqb_refl. cbn [fst snd].
  apply eqbN_eq in E2, E4. apply eqbZ_eq in E6. subst.
  split; [|reflexivity]. split; auto.
Qed.

(* kind of error: a length mismatch is a TypeError, a content mismatch a ValueError *)
Theorem open_complete_error c g e : complete g -> fst (open c g) = Some e ->
  match s_genes g, s_tes g, s_windows g with
  | Some ge, Some te, Some wi =>
      if negb (Nat.eqb (length ge) (length (c_genes c))) then e = TypeErr
      else if negb (eqbN ge (c_genes c)) then e = ValueErr
      else if negb (Nat.eqb (length te) (length (c_tes c))) then e = TypeErr
      else if negb (eqbN te (c_tes c)) then e = ValueErr
      else if negb (Nat.eqb (length wi) (length (c_windows c))) then e = TypeErr
      else e = ValueErr
  | _, _, _ => False
  end.
Proof.
  intros (ge & te & wi & v & -> & Hg & Ht).
  unfold open, init_strings, init_windows, init_data; cbn [s_genes s_tes s_windows s_data].
  rewrite Hg.
  destruct (Nat.eqb (length ge) (length (c_genes c))) eqn:E1; cbn [negb fst snd].
  2:{ congruence. }
  destruct (eqbN ge (c_genes c)) eqn:E2; cbn [negb fst snd s_genes s_tes s_windows s_data].
  2:{ congruence. }
  rewrite Ht.
  destruct (Nat.eqb (length te) (length (c_tes c))) eqn:E3; cbn [negb fst snd].
  2:{ congruence. }
  destruct (eqbN te (c_tes c)) eqn:E4; cbn [negb fst snd s_genes s_tes s_windows s_data].
  2:{ congruence. }
  destruct (Nat.eqb (length wi) (length (c_windows c))) eqn:E5; cbn [negb fst snd].
  2:{ congruence. }
  destruct (eqbZ wi (c_windows c)) eqn:E6; cbn [negb fst snd s_genes s_tes s_windows s_data].
  2:{ congruence. }
  rewrite shape_eqb_refl. cbn [fst snd]. discriminate.
Qed.

(* first open of an absent group initialises it *)
Theorem open_empty c : good_cfg c ->
  fst (open c empty_grp) = None /\ complete (snd (open c empty_grp)) /\ same_labels c (snd (open c empty_grp))
  /\ exists sh, s_data (snd (open c empty_grp)) = Some (0, sh).
Proof.
  intros [Hg Ht]. unfold open, empty_grp, same_labels; cbn.
  repeat split; eauto.
  exists (c_genes c), (c_tes c), (c_windows c), 0. auto.
Qed.

Lemma write_complete v g : complete g -> complete (write v g) /\
  s_genes (write v g) = s_genes g /\ s_tes (write v g) = s_tes g /\ s_windows (write v g) = s_windows g
  /\ exists sh, s_data (write v g) = Some (v, sh).
Proof.
  intros (ge & te & wi & v0 & -> & Hg & Ht). unfold write; cbn.
  repeat split; eauto.
  exists ge, te, wi, v. auto.
Qed.

Lemma do_op_open_at f q c p :
  do_op f (OOpen q c) p = if N.eqb p q then snd (open c (f q)) else f p.
Proof. reflexivity. Qed.

(* histories: every group of the file is absent or complete *)
Definition Inv (f : file) : Prop := forall p, f p = empty_grp \/ complete (f p).
Definition good_op (o : op) : Prop := match o with OOpen _ c => good_cfg c | OWrite _ _ => True end.

Lemma inv_do_op f o : Inv f -> good_op o -> Inv (do_op f o).
Proof.
  intros HI Ho p. destruct o as [q c|q v]; cbn [do_op good_op] in *; unfold upd.
  - destruct (N.eqb p q) eqn:E; [|apply HI].
    destruct (HI q) as [H|H].
    + rewrite H. right. apply open_empty; assumption.
    + right. destruct (open_complete c _ H) as [_ ->]. assumption.
  - destruct (N.eqb p q) eqn:E; [|apply HI].
    destruct (HI q) as [H|H].
    + rewrite H. left. reflexivity.
    + right. apply write_complete; assumption.
Qed.

Theorem inv_run ops : forall f, Inv f -> Forall good_op ops -> Inv (run ops f).
Proof.
  induction ops as [|o ops IH]; intros f HI HF; cbn; [assumption|].
  inversion HF; subst. apply IH; [apply inv_do_op|]; assumption.
Qed.

Definition is_open (o : op) : bool := match o with OOpen _ _ => true | OWrite _ _ => false end.

(* any sequence of opens -- equal or differing configurations, any prefixes -- leaves a group that holds
   data exactly as it was: previously written densities and bitmap are exposed unchanged *)
Theorem opens_preserve ops : forall f p, Inv f -> Forall good_op ops -> forallb is_open ops = true ->
  complete (f p) -> run ops f p = f p.
Proof.
  induction ops as [|o ops IH]; intros f p HI HF Ho Hc; cbn; [reflexivity|].
  inversion HF; subst. cbn in Ho. apply andb_true_iff in Ho as [Ho1 Ho2].
  destruct o as [q c|q v]; [|discriminate].
  assert (E : do_op f (OOpen q c) p = f p).
  { rewrite do_op_open_at. destruct (N.eqb p q) eqn:E; [|reflexivity].
    apply N.eqb_eq in E; subst. apply open_complete; assumption. }
  unfold run in IH. rewrite IH; try assumption.
  - apply inv_do_op; assumption.
  - rewrite E; assumption.
Qed.

(* and along such a history every open of that group succeeds iff its labels equal the stored ones *)
Theorem reopen_accept_iff ops f p c : Inv f -> Forall good_op ops -> forallb is_open ops = true -> complete (f p) ->
  (fst (open c (run ops f p)) = None <-> same_labels c (f p)).
Proof.
  intros HI HF Ho Hc. rewrite opens_preserve by assumption.
  apply open_complete; assumption.
Qed.
