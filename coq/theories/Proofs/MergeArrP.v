(* What a summation of MergeData leaves in the density arrays (Model/MergeArr.v), stated for any function of the shape
   the translator emits (process_sum below is convertible with Gen/GenMerge.gen_process_sum) and any parameter set whose
   components answer as the three sets of _list_sum_input_outputs do. *)
From Coq Require Import ZArith NArith List Bool Lia Arith.
From TEV Require Import Model.Kernel Model.Pipeline Model.OverlapArr Model.MergeArr Proofs.OverlapArrP.
Import ListNotations.
Local Open Scope nat_scope.

(* ---- reading a log: when every assignment to the key carries the same value and there is one, that value is read *)
Lemma dread_fold k_lv k_sd t w g (l : dlog) : forall cur v,
  (forall e, In e l -> dkey k_lv k_sd t w g e = true -> dval e = v) ->
  fold_left (fun cur e => if dkey k_lv k_sd t w g e then Some (dval e) else cur) l cur
  = if existsb (dkey k_lv k_sd t w g) l then Some v else cur.
Proof.
  induction l as [|e r IH]; intros cur v Hall; cbn [fold_left existsb]; [reflexivity|].
  rewrite (IH _ v) by (intros e' Hin; apply Hall; right; exact Hin).
  destruct (dkey k_lv k_sd t w g e) eqn:E; cbn [orb].
  - rewrite (Hall e (or_introl eq_refl) E). destruct (existsb _ r); reflexivity.
  - reflexivity.
Qed.
Lemma dread_unique lv sd t w g (l : dlog) v :
  (exists e, In e l /\ dkey lv sd t w g e = true) ->
  (forall e, In e l -> dkey lv sd t w g e = true -> dval e = v) ->
  dread lv sd t w g l = Some v.
Proof.
  intros [e [Hin Hk]] Hall. unfold dread. rewrite (dread_fold lv sd t w g l None v Hall).
  replace (existsb (dkey lv sd t w g) l) with true; [reflexivity|].
  symmetry. apply existsb_exists. exists e. split; assumption.
Qed.
Lemma dread_none lv sd t w g (l : dlog) :
  (forall e, In e l -> dkey lv sd t w g e = false) -> dread lv sd t w g l = None.
Proof.
  intros Hall. unfold dread. induction l as [|e r IH]; cbn [fold_left]; [reflexivity|].
  rewrite (Hall e (or_introl eq_refl)). apply IH. intros e' Hin. apply Hall. right. exact Hin.
Qed.

(* ---- loops that append *)
Lemma fold_running {A} (F : dstate -> A -> dstate) (E : A -> dlog) (l : list A) :
  (forall x a, In x l -> F (DRunning a) x = DRunning (a ++ E x)) ->
  forall a, fold_left F l (DRunning a) = DRunning (a ++ flat_map E l).
Proof.
  induction l as [|x r IH]; intros H a; cbn [fold_left flat_map]; [rewrite app_nil_r; reflexivity|].
  rewrite (H x a (or_introl eq_refl)). rewrite IH by (intros y b Hy; apply H; right; exact Hy).
  rewrite <- app_assoc. reflexivity.
Qed.

(* ---- lists by position *)
Lemma map_nth_seq {A} (d : A) (l : list A) : l = map (fun i => nth i l d) (seq 0 (length l)).
Proof.
  induction l as [|x r IH]; cbn [length seq map]; [reflexivity|].
  f_equal. rewrite <- seq_shift, map_map. exact IH.
Qed.
Lemma map_by_pos {A B} (d : A) (f : A -> B) (l : list A) : map f l = map (fun i => f (nth i l d)) (seq 0 (length l)).
Proof.
  transitivity (map f (map (fun i => nth i l d) (seq 0 (length l)))); [f_equal; apply map_nth_seq|apply map_map].
Qed.
Lemma fold_left_map_gen {A B C} (F : C -> B -> C) (f : A -> B) (l : list A) (c : C) :
  fold_left F (map f l) c = fold_left (fun c x => F c (f x)) l c.
Proof. revert c; induction l as [|x r IH]; intros c; cbn [map fold_left]; [reflexivity|apply IH]. Qed.
Lemma flat_map_singleton {A B} (f : A -> B) (l : list A) : flat_map (fun x => [f x]) l = map f l.
Proof. induction l as [|x r IH]; cbn [flat_map map app]; [reflexivity|f_equal; exact IH]. Qed.
Lemma combine_map_self {A B} (f : A -> B) (l : list A) : combine (map f l) l = map (fun x => (f x, x)) l.
Proof. induction l as [|x r IH]; cbn [map combine]; [reflexivity|f_equal; exact IH]. Qed.
Lemma nth_split_at {A} (d : A) (l : list A) i : i < length l ->
  l = firstn i l ++ nth i l d :: skipn (S i) l /\ length (firstn i l) = i.
Proof.
  revert i; induction l as [|x r IH]; intros i Hi; cbn [length] in Hi; [lia|].
  destruct i as [|i]; cbn [firstn skipn nth app length]; [split; reflexivity|].
  destruct (IH i ltac:(lia)) as [H1 H2]. split; [f_equal; exact H1|f_equal; exact H2].
Qed.
Lemma last_index_nth (l : list N) i : NoDup l -> i < length l -> last_index (nth i l 0%N) l = Some i.
Proof.
  intros Hd Hi. destruct (nth_split_at 0%N l i Hi) as [H1 H2].
  rewrite H1 at 2. rewrite last_index_at by (rewrite <- H1; exact Hd). rewrite H2. reflexivity.
Qed.
Lemma last_indexZ_nth (l : list Z) i : NoDup l -> i < length l -> last_indexZ (nth i l 0%Z) l = Some i.
Proof.
  intros Hd Hi. destruct (nth_split_at 0%Z l i Hi) as [H1 H2].
  rewrite H1 at 2. rewrite last_indexZ_at by (rewrite <- H1; exact Hd). rewrite H2. reflexivity.
Qed.
Lemma all_some_map {A B} (f : A -> option B) (g : A -> B) (l : list A) :
  (forall x, In x l -> f x = Some (g x)) -> all_some (map f l) = Some (map g l).
Proof.
  induction l as [|x r IH]; intros H; cbn [map all_some]; [reflexivity|].
  rewrite (H x (or_introl eq_refl)). rewrite IH by (intros y Hy; apply H; right; exact Hy). reflexivity.
Qed.
Lemma combine_map_seq {A B} (f : nat -> A) (h : nat -> B) (js : list nat) :
  combine (map f js) (map h js) = map (fun j => (f j, h j)) js.
Proof. induction js as [|j r IH]; cbn [map combine]; [reflexivity|]. f_equal. exact IH. Qed.

Lemma masked_sum_cell_num tes lv name sd g w :
  masked_sum (map (fun t => (col lv t =? name)%N) tes) (map (ovl_side sd g w) tes) = cell_num tes lv name sd g w.
Proof.
  unfold masked_sum, cell_num, keyed. induction tes as [|t r IH]; cbn [map combine fold_right filter fst snd]; [reflexivity|].
  rewrite IH. destruct (col lv t =? name)%N; reflexivity.
Qed.

(* ---- the summation *)
Definition process_sum (sa : sumargs) (lv : level) (my_windows : list Z) (my_names : list N) (ov_names : list N)
    (te_indices : list (option nat)) (te_names : list N) (where_ : N -> list bool) (gd : N -> gene) (ov : oarrays) (T : nat)
    (acc : dlog) : dstate :=
  let w_indices := map (fun w : option Z => match w with Some z => last_indexZ z my_windows | None => None end) (sa_windows sa) in
  fold_left (fun (st_ : dstate) (gene_name : N) =>
    match st_ with DFailed => DFailed | DRunning a1 =>
      let gene_datum := gd gene_name in
      match last_index gene_name my_names with None => DFailed | Some g_idx =>
        match all_some (map (sa_div sa gene_datum) (sa_windows sa)) with None => DFailed | Some divisors =>
          fold_left (fun (st_ : dstate) (tn : option nat * N) =>
            match st_ with DFailed => DFailed | DRunning a2 =>
              match fst tn with None => DFailed | Some te_idx =>
                let mask := where_ (snd tn) in
                fold_left (fun (st_ : dstate) (wd : option nat * Z) =>
                  match st_ with DFailed => DFailed | DRunning a3 =>
                    match sa_slice_in sa (fst wd) g_idx with None => DFailed | Some gw =>
                      let overlap_sum := masked_sum mask (orow (side_arr (sa_side sa)) (fst gw) (snd gw) T ov) in
                      match sa_slice_out sa (fst wd) g_idx te_idx with None => DFailed | Some twg =>
                        DRunning (dassign lv (sa_side sa) (fst (fst twg)) (snd (fst twg)) (snd twg) overlap_sum (snd wd) a3)
                      end end end) (combine w_indices divisors) (DRunning a2)
              end end) (combine te_indices te_names) (DRunning a1)
        end end end) ov_names (DRunning acc).

Section Sum.
  Variables (names : list N) (windows : list Z) (gd : N -> gene) (tes : list te) (ov : oarrays).
  Hypothesis Hn : NoDup names.
  Hypothesis Hw : NoDup windows.
  (* the overlap arrays hold the labelled rows (Props/C01code.c01_code_rows) *)
  Hypothesis Hov : forall sd i j, i < length names -> (match sd with SI => j = 0 | _ => j < length windows end) ->
    oread (side_arr sd) i j ov = Some (map (ovl_side sd (gd (nth i names 0%N)) (nth j windows 0%Z)) tes).

  Definition jlist (sd : side) : list nat := match sd with SI => [0] | _ => seq 0 (length windows) end.
  Definition entry (lv : level) (sd : side) (gn : list N) (i t j : nat) : dentry :=
    (lv, sd, t, j, i, cell_num tes lv (nth t gn 0%N) sd (gd (nth i names 0%N)) (nth j windows 0%Z),
     div_side sd (gd (nth i names 0%N)) (nth j windows 0%Z)).
  Definition entries (lv : level) (sd : side) (gn : list N) : dlog :=
    flat_map (fun i => flat_map (fun t => map (entry lv sd gn i t) (jlist sd)) (seq 0 (length gn))) (seq 0 (length names)).

  (* a parameter set that answers as the set of side sd does *)
  Definition sa_like (sd : side) (sa : sumargs) : Prop :=
    sa_side sa = sd /\
    sa_windows sa = (match sd with SI => [None] | _ => map Some windows end) /\
    (forall w g, sa_slice_in sa w g = match sd, w with SI, _ => Some (g, 0) | _, Some wi => Some (g, wi) | _, None => None end) /\
    (forall w g t, sa_slice_out sa w g t = match sd, w with SI, None => Some (t, 0, g) | SI, Some _ => None
                                                         | _, Some wi => Some (t, wi, g) | _, None => None end) /\
    (forall g w, sa_div sa g w = match sd, w with SI, None => Some (div_side SI g 0%Z) | SI, Some _ => None
                                             | _, Some z => Some (div_side sd g z) | _, None => None end).

  Lemma w_indices_lr : map (fun w : option Z => match w with Some z => last_indexZ z windows | None => None end) (map Some windows)
                       = map Some (seq 0 (length windows)).
  Proof.
    rewrite map_map, (map_by_pos 0%Z).
    apply map_ext_in. intros j Hj. apply in_seq in Hj. apply last_indexZ_nth; [exact Hw|lia].
  Qed.

  Lemma process_sum_log sd sa lv (gn : list N) acc : sa_like sd sa -> NoDup gn ->
    process_sum sa lv windows names names (map (fun t => last_index t gn) gn) gn
                (fun name => map (fun t => (col lv t =? name)%N) tes) gd ov (length tes) acc
    = DRunning (acc ++ entries lv sd gn).
  Proof.
    intros [Hside [Hwin [Hin [Hout Hdiv]]]] Hgn.
    assert (E : names = map (fun i => nth i names 0%N) (seq 0 (length names))) by apply map_nth_seq.
    match goal with |- process_sum ?a ?b ?c ?d ?e ?f ?g ?h ?i ?j ?k ?l = _ =>
      replace (process_sum a b c d e f g h i j k l)
        with (process_sum a b c d (map (fun i => nth i names 0%N) (seq 0 (length names))) f g h i j k l) by (rewrite <- E; reflexivity) end.
    unfold process_sum. cbv zeta.
    rewrite fold_left_map_gen. unfold entries.
    apply fold_running. intros i a Hi. apply in_seq in Hi.
    rewrite (last_index_nth names i Hn) by lia.
    (* the divisors *)
    assert (Hdivs : all_some (map (sa_div sa (gd (nth i names 0%N))) (sa_windows sa))
                    = Some (map (fun j => div_side sd (gd (nth i names 0%N)) (nth j windows 0%Z)) (jlist sd))).
    { rewrite Hwin. destruct sd; cbn [jlist].
      - rewrite map_map, (map_by_pos 0%Z).
        apply all_some_map. intros j _. rewrite Hdiv. reflexivity.
      - cbn [map all_some]. rewrite Hdiv. reflexivity.
      - rewrite map_map, (map_by_pos 0%Z).
        apply all_some_map. intros j _. rewrite Hdiv. reflexivity. }
    rewrite Hdivs.
    (* the window indices *)
    assert (Hwi : map (fun w : option Z => match w with Some z => last_indexZ z windows | None => None end) (sa_windows sa)
                  = map (fun j => match sd with SI => None | _ => Some j end) (jlist sd)).
    { rewrite Hwin. destruct sd; cbn [jlist]; [rewrite w_indices_lr; reflexivity|reflexivity|rewrite w_indices_lr; reflexivity]. }
    rewrite Hwi. rewrite combine_map_seq.
    (* the groups *)
    assert (Hte : combine (map (fun t => last_index t gn) gn) gn = map (fun t => (Some t, nth t gn 0%N)) (seq 0 (length gn))).
    { rewrite combine_map_self, (map_by_pos 0%N).
      apply map_ext_in. intros t Ht. apply in_seq in Ht. rewrite (last_index_nth gn t Hgn) by lia. reflexivity. }
    rewrite Hte. rewrite fold_left_map_gen.
    apply fold_running. intros t a2 Ht. apply in_seq in Ht. cbn [fst snd].
    rewrite fold_left_map_gen.
    rewrite <- (flat_map_singleton (entry lv sd gn i t) (jlist sd)).
    apply fold_running. intros j a3 Hj. cbn [fst snd].
    assert (Hjr : match sd with SI => j = 0 | _ => j < length windows end).
    { destruct sd; cbn [jlist] in Hj; [apply in_seq in Hj; lia|destruct Hj as [<-|[]]; reflexivity|apply in_seq in Hj; lia]. }
    rewrite Hin, Hout, Hside.
    assert (Hrow : forall jj, jj = (match sd with SI => 0 | _ => j end) ->
                   orow (side_arr sd) i jj (length tes) ov = map (ovl_side sd (gd (nth i names 0%N)) (nth j windows 0%Z)) tes).
    { intros jj ->. unfold orow. destruct sd.
      - rewrite (Hov SL i j) by (try exact Hjr; lia). reflexivity.
      - subst j. rewrite (Hov SI i 0) by (try reflexivity; lia). reflexivity.
      - rewrite (Hov SR i j) by (try exact Hjr; lia). reflexivity. }
    unfold dassign, entry.
    destruct sd; cbn [fst snd].
    - rewrite (Hrow j eq_refl), masked_sum_cell_num. reflexivity.
    - subst j. rewrite (Hrow 0 eq_refl), masked_sum_cell_num. reflexivity.
    - rewrite (Hrow j eq_refl), masked_sum_cell_num. reflexivity.
  Qed.
End Sum.

(* ---- all six summations, in any order *)
Lemma level_eqb_eq a b : level_eqb a b = true -> a = b.  Proof. destruct a, b; cbn; congruence. Qed.
Lemma side_eqb_eq a b : side_eqb a b = true -> a = b.    Proof. destruct a, b; cbn; congruence. Qed.
Lemma level_eqb_refl a : level_eqb a a = true.  Proof. destruct a; reflexivity. Qed.
Lemma side_eqb_refl a : side_eqb a a = true.    Proof. destruct a; reflexivity. Qed.

Section All.
  Variables (names : list N) (windows : list Z) (gd : N -> gene) (tes : list te).
  Variable gn : level -> list N.

  Definition all_entries_d (order : list (level * side)) : dlog :=
    flat_map (fun ls : level * side => entries names windows gd tes (fst ls) (snd ls) (gn (fst ls))) order.

  Lemma in_entries lv sd e : In e (entries names windows gd tes lv sd (gn lv)) <->
    exists i t j, i < length names /\ t < length (gn lv) /\ In j (jlist windows sd) /\ e = entry names windows gd tes lv sd (gn lv) i t j.
  Proof.
    unfold entries. split.
    - intros H. apply in_flat_map in H. destruct H as [i [Hi H]]. apply in_flat_map in H. destruct H as [t [Ht H]].
      apply in_map_iff in H. destruct H as [j [He Hj]]. apply in_seq in Hi. apply in_seq in Ht.
      exists i, t, j. repeat split; try lia; [exact Hj|symmetry; exact He].
    - intros [i [t [j [Hi [Ht [Hj ->]]]]]]. apply in_flat_map. exists i. split; [apply in_seq; lia|].
      apply in_flat_map. exists t. split; [apply in_seq; lia|]. apply in_map. exact Hj.
  Qed.

  Theorem all_entries_d_read order lv sd t i j :
    In (lv, sd) order -> i < length names -> t < length (gn lv) -> (match sd with SI => j = 0 | _ => j < length windows end) ->
    dread lv sd t j i (all_entries_d order)
    = Some (cell tes lv (nth t (gn lv) 0%N) sd (gd (nth i names 0%N)) (nth j windows 0%Z)).
  Proof.
    intros Hord Hi Ht Hj. apply dread_unique.
    - exists (entry names windows gd tes lv sd (gn lv) i t j). split.
      + unfold all_entries_d. apply in_flat_map. exists (lv, sd). split; [exact Hord|]. cbn [fst snd].
        apply in_entries. exists i, t, j. repeat split; try assumption.
        destruct sd; cbn [jlist]; [apply in_seq; lia|left; symmetry; exact Hj|apply in_seq; lia].
      + unfold entry, dkey. rewrite level_eqb_refl, side_eqb_refl, !Nat.eqb_refl. reflexivity.
    - intros e Hin Hk. unfold all_entries_d in Hin. apply in_flat_map in Hin. destruct Hin as [[lv' sd'] [_ Hin]]. cbn [fst snd] in Hin.
      apply in_entries in Hin. destruct Hin as [i' [t' [j' [_ [_ [_ ->]]]]]].
      unfold entry, dkey in Hk. repeat (apply andb_prop in Hk; destruct Hk as [Hk ?]).
      apply level_eqb_eq in Hk. subst lv'.
      repeat match goal with H : side_eqb _ _ = true |- _ => apply side_eqb_eq in H | H : Nat.eqb _ _ = true |- _ => apply Nat.eqb_eq in H end.
      subst. unfold entry, dval, cell. reflexivity.
  Qed.

  (* nothing outside the arrays' shape is assigned *)
  Theorem all_entries_d_in_range order lv sd t w g num dv : In (lv, sd, t, w, g, num, dv) (all_entries_d order) ->
    t < length (gn lv) /\ g < length names /\ (match sd with SI => w = 0 | _ => w < length windows end).
  Proof.
    intros Hin. unfold all_entries_d in Hin. apply in_flat_map in Hin. destruct Hin as [[lv' sd'] [_ Hin]]. cbn [fst snd] in Hin.
    apply in_entries in Hin. destruct Hin as [i' [t' [j' [Hi [Ht [Hj He]]]]]]. unfold entry in He. inversion He; subst.
    repeat split; try assumption. destruct sd'; cbn [jlist] in Hj; [apply in_seq in Hj; lia|destruct Hj as [<-|[]]; reflexivity|apply in_seq in Hj; lia].
  Qed.
End All.
