(* Assembly of the C01 statements over [run]. *)
From Coq Require Import ZArith NArith List Bool Lia ZifyBool Permutation.
From TEV Require Import Base.Intervals Base.Count Base.PyRange Model.Kernel Model.Revise Model.Pipeline
     Spec.Density Proofs.ReviseP Proofs.NameSort Proofs.Refine Proofs.RunP Proofs.Keys.
Import ListNotations. Open Scope Z_scope.

Section R.
Variables rS rO rT : N.
Notation run := (run rS rO rT).
Notation bookkeeping := (bookkeeping rS rO).

(* identifiers of the input are not the pipeline's reserved labels *)
Definition names_ok (tes : list te) : Prop :=
  rS <> rT /\ rO <> rT /\
  Forall (fun t => t_ord t <> rS /\ t_ord t <> rT /\ t_sup t <> rO /\ t_sup t <> rT) tes.
Definition wf_input (genes : list gene) (tes : list te) : Prop :=
  Forall wf_gene genes /\ Forall wf_te tes /\ names_ok tes.

Lemma on_chr_forall P c tes : Forall P tes -> Forall P (on_chr c tes).
Proof. unfold on_chr, keyed. intro H. induction H as [|t r Ht Hr IH]; cbn [filter]; [constructor|]. destruct (_ =? _)%N; [constructor|]; assumption. Qed.

Lemma names_ok_col lv tes : names_ok tes -> bookkeeping lv <> rT /\ Forall (fun t => col lv t <> rT) tes.
Proof.
  intros [H1 [H2 H3]]. split; [destruct lv; assumption|].
  eapply Forall_impl; [|exact H3]. intros t [Ha [Hb [Hc Hd]]]. destruct lv; assumption.
Qed.

Lemma window_nonneg first delta last ws w : 0 <= first -> 0 < delta -> windows_of first delta last = Some ws -> In w ws -> 0 <= w.
Proof. intros Hf Hd Hw Hin. apply (windows_spec _ _ _ _ Hd Hw) in Hin. destruct Hin as [k [Hk [-> _]]]. nia. Qed.

Theorem cells first delta last genes tes fs f lv name sd w gname v :
  wf_input genes tes -> 0 <= first -> 0 < delta ->
  run first delta last genes tes = inr fs -> In f fs ->
  f_cell f lv name sd w gname = Some v -> name <> bookkeeping lv ->
  exists g, In g genes /\ g_chr g = f_chr f /\ g_name g = gname /\
    v = spec_cell (if (name =? rT)%N then chrom_ivs tes (f_chr f) else group_ivs tes (f_chr f) lv name) sd g w.
Proof.
  intros [Hg [Ht Hn]] Hf Hd Hr Hin Hc Hb.
  destruct (run_file _ _ _ _ _ _ _ _ _ _ Hr Hin) as [ws [Hw [_ [Hgen [Hwin [Hrows _]]]]]].
  destruct (f_cell_some _ _ _ _ _ _ _ Hc) as [g [Hfind [_ [Hsw ->]]]].
  apply find_gene_some in Hfind. destruct Hfind as [Hgin Hname]. rewrite Hgen in Hgin.
  apply genes_on_in in Hgin. destruct Hgin as [Hgin Hchr].
  exists g. repeat split; auto. rewrite Hrows.
  assert (Hwfg : wf_gene g) by (rewrite Forall_forall in Hg; apply Hg; exact Hgin).
  assert (Hwft : Forall wf_te (on_chr (f_chr f) tes)) by (apply on_chr_forall; exact Ht).
  assert (Hcell : forall w0, 0 <= w0 ->
     cell (revise3 rS rO rT (f_chr f) (on_chr (f_chr f) tes)) lv name sd g w0 =
     spec_cell (if (name =? rT)%N then chrom_ivs tes (f_chr f) else group_ivs tes (f_chr f) lv name) sd g w0).
  { intros w0 Hw0. destruct (name =? rT)%N eqn:E.
    - apply N.eqb_eq in E. subst name. destruct (names_ok_col lv tes Hn) as [Hbk Hreal].
      apply cell_total; auto. apply on_chr_forall. exact Hreal.
    - apply N.eqb_neq in E. apply cell_group; auto. }
  destruct Hsw as [->|Hsw].
  - rewrite (cell_intra_w _ _ _ _ w 0). rewrite (Hcell 0 ltac:(lia)). apply spec_cell_intra_w.
  - apply Hcell. rewrite Hwin in Hsw. eapply window_nonneg; eauto.
Qed.

(* which cells exist: exactly genes of the chromosome x names on the axis x configured windows *)
Theorem keys first delta last genes tes fs f lv name sd w g :
  run first delta last genes tes = inr fs -> In f fs ->
  In g genes -> g_chr g = f_chr f -> In name (f_names f lv) -> (sd = SI \/ In w (f_windows f)) ->
  f_cell f lv name sd w (g_name g) = Some (cell (f_rows f) lv name sd g w).
Proof.
  intros Hr Hin Hg Hc Hn Hw.
  destruct (run_file _ _ _ _ _ _ _ _ _ _ Hr Hin) as [ws [_ [_ [Hgen [_ [_ Hnd]]]]]].
  apply f_cell_defined; auto. rewrite Hgen. apply find_gene_unique; auto.
  - assert (HP := genes_on_perm (f_chr f) genes).
    apply (Permutation_NoDup (Permutation_sym (Permutation_map g_name HP))).
    clear -Hnd. induction genes as [|h r IH]; cbn [filter map]; [constructor|].
    cbn [map] in Hnd. inversion Hnd as [|x y Hx Hr]; subst.
    destruct (g_chr h =? f_chr f)%N; [|apply IH; exact Hr]. cbn [map]. constructor; [|apply IH; exact Hr].
    intro Hin. apply Hx. apply in_map_iff in Hin. destruct Hin as [z [Hz Hin]]. apply filter_In in Hin.
    rewrite <- Hz. apply in_map. tauto.
  - apply genes_on_in. auto.
Qed.

(* the axis of a level: real groups present on the chromosome, and the total *)
Theorem names first delta last genes tes fs f lv name :
  wf_input genes tes -> run first delta last genes tes = inr fs -> In f fs -> name <> bookkeeping lv ->
  (In name (f_names f lv) <->
   if (name =? rT)%N then on_chr (f_chr f) tes <> []
   else exists t, In t tes /\ t_chr t = f_chr f /\ col lv t = name).
Proof.
  intros [Hg [Ht Hn]] Hr Hin Hb.
  destruct (run_file _ _ _ _ _ _ _ _ _ _ Hr Hin) as [ws [_ [_ [_ [_ [Hrows _]]]]]].
  unfold f_names. rewrite nsortu_in, Hrows.
  assert (Hwft : Forall wf_te (on_chr (f_chr f) tes)) by (apply on_chr_forall; exact Ht).
  destruct (name =? rT)%N eqn:E.
  - apply N.eqb_eq in E. subst name. destruct (names_ok_col lv tes Hn) as [Hbk Hreal].
    apply names_total; auto. apply on_chr_forall. exact Hreal.
  - apply N.eqb_neq in E. rewrite names_group; auto. rewrite in_map_iff. split.
    + intros [t [Hc Hin']]. unfold on_chr in Hin'. apply keyed_in in Hin'. exists t. tauto.
    + intros [t [Hin' [Hc Hcol]]]. exists t. split; [exact Hcol|]. unfold on_chr. apply keyed_in. tauto.
Qed.
End R.
