(* Proofs about the cache model with the repaired reuse rules (fixed = true): an invariant of every
   reachable disk, the outcome of a run from any disk satisfying it, re-runs, refresh, interrupted
   and failed runs.  Unbounded in the versions, the number of chromosomes, the ties, the history. *)
From Coq Require Import List Bool Arith Lia.
From TEV Require Import Model.Cache.
Import ListNotations.

(* A cache that is newer than its source holds its source's version; an overlap file that is newer
   than a cache was calculated from that cache. *)
Definition goodc (g : nat) (r : option nat) (c : chrom) : Prop :=
  (forall x, GC c = Some x -> gF c = true -> x = g) /\
  (forall x, TC c = Some x -> tF c = true -> r = Some x) /\
  (forall og ot ow, OV c = Some (og, ot, ow) ->
     (oFG c = true -> GC c = Some og) /\ (oFT c = true -> TC c = Some ot)).
Definition good (s : disk) : Prop := forall j, goodc (gv s) (R s) (chs s j).

(* ---- every atomic write keeps the invariant ---- *)
Lemma good_cG g r tie c : goodc g r c -> goodc g r (cG g tie c).
Proof.
  intros [H1 [H2 H3]]. unfold goodc, cG; cbn [GC TC OV gF tF oFG oFT]. split; [|split].
  - intros x Hx _. congruence.
  - exact H2.
  - intros og ot ow Ho. split; [discriminate|]. exact (proj2 (H3 _ _ _ Ho)).
Qed.
Lemma good_cT g r tie c : goodc g (Some r) c -> goodc g (Some r) (cT r tie c).
Proof.
  intros [H1 [H2 H3]]. unfold goodc, cT; cbn [GC TC OV gF tF oFG oFT]. split; [|split].
  - exact H1.
  - intros x Hx _. congruence.
  - intros og ot ow Ho. split; [|discriminate]. exact (proj1 (H3 _ _ _ Ho)).
Qed.
Lemma good_cO g r w tg tt' c : goodc g r c -> goodc g r (cO w tg tt' c).
Proof.
  intros HG. pose proof HG as [H1 [H2 H3]]. unfold cO. destruct (GC c) as [x|] eqn:EG; [|exact HG].
  destruct (TC c) as [y|] eqn:ET; [|exact HG].
  unfold goodc; cbn [GC TC OV gF tF oFG oFT]. split; [|split].
  - intros x0 Hx Hf. inversion Hx; subst x0. apply H1; [reflexivity|exact Hf].
  - intros y0 Hy Hf. inversion Hy; subst y0. apply H2; [reflexivity|exact Hf].
  - intros og ot ow Ho. inversion Ho; subst. split; reflexivity.
Qed.
Lemma good_cR g r r' c : goodc g r c -> goodc g r' (cR c).
Proof.
  intros [H1 [H2 H3]]. unfold goodc, cR; cbn [GC TC OV gF tF oFG oFT]. split; [|split].
  - exact H1.
  - intros x _ Hf. discriminate.
  - exact H3.
Qed.
Lemma good_capply g r w a c : goodc g (Some r) c -> goodc g (Some r) (capply g r w a c).
Proof. destruct a; cbn [capply]; [apply good_cG | apply good_cT | apply good_cO]. Qed.
Lemma good_cexec g r w l : forall c, goodc g (Some r) c -> goodc g (Some r) (cexec g r w l c).
Proof.
  induction l as [|a l IH]; intros c H; [exact H|]. unfold cexec. cbn [fold_left]. apply IH, good_capply, H.
Qed.
Lemma good_unfresh_g g g' r c : goodc g r c -> goodc g' r (c_unfresh_g c).
Proof. intros [H1 [H2 H3]]. unfold goodc, c_unfresh_g; cbn [GC TC OV gF tF oFG oFT]. split; [|split]; [discriminate|exact H2|exact H3]. Qed.
Lemma good_unfresh_t g r c : goodc g r c -> goodc g r (c_unfresh_t c).
Proof. intros [H1 [H2 H3]]. unfold goodc, c_unfresh_t; cbn [GC TC OV gF tF oFG oFT]. split; [|split]; assumption. Qed.

(* ---- what one run does to one chromosome ---- *)
Lemma cexec_app g r w l1 l2 c : cexec g r w (l1 ++ l2) c = cexec g r w l2 (cexec g r w l1 c).
Proof. unfold cexec. apply fold_left_app. Qed.

(* phase 2 leaves both caches current; if it wrote anything the overlap file is no longer newer
   than the gene cache *)
Lemma phase2_spec reset ti g r w c : goodc g (Some r) c ->
  let p2a := plan2a reset ti in
  let c2a := cexec g r w p2a c in
  let p2b := plan2b true ti c2a in
  let c2 := cexec g r w p2b c2a in
  goodc g (Some r) c2 /\ GC c2 = Some g /\ TC c2 = Some r /\
  ((p2a ++ p2b = [] /\ c2 = c) \/ oFG c2 = false).
Proof.
  intros Hg p2a c2a p2b c2.
  assert (Hg2a : goodc g (Some r) c2a) by (apply good_cexec; exact Hg).
  assert (Hg2 : goodc g (Some r) c2) by (apply good_cexec; exact Hg2a).
  split; [exact Hg2|].
  assert (Ha : (p2a = [] /\ c2a = c) \/ (GC c2a = Some g /\ TC c2a = Some r /\ oFG c2a = false)).
  { subst p2a c2a. destruct reset; cbn [plan2a]; [right|left; split; reflexivity].
    unfold cexec; cbn [fold_left capply]. unfold cT, cG; cbn [GC TC oFG]. repeat split. }
  subst p2b c2. unfold plan2b.
  destruct (both c2a) eqn:Eb.
  - destruct (stale true c2a) eqn:Es.
    + unfold cexec; cbn [fold_left capply]. unfold cT, cG; cbn [GC TC oFG]. repeat split. right; reflexivity.
    + (* nothing is rewritten: both caches are newer than their sources *)
      unfold stale in Es. apply orb_false_iff in Es. destruct Es as [E1 E2].
      apply negb_false_iff in E1. apply negb_false_iff in E2.
      unfold both in Eb. destruct (GC c2a) as [x|] eqn:EG; [|discriminate]. destruct (TC c2a) as [y|] eqn:ET; [|discriminate].
      destruct Hg2a as [H1 [H2 _]]. pose proof (H1 _ EG E1) as ->. pose proof (H2 _ ET E2) as Hr. inversion Hr; subst y.
      unfold cexec; cbn [fold_left]. rewrite EG, ET. repeat split.
      destruct Ha as [[Hp Hc]|[_ [_ Ho]]]; [left|right; exact Ho]. rewrite Hp. split; [reflexivity|exact Hc].
  - unfold cexec; cbn [fold_left capply]. unfold cT, cG; cbn [GC TC oFG]. repeat split. right; reflexivity.
Qed.

Lemma crun_spec reset ti g r w c : goodc g (Some r) c ->
  let c' := crun true reset ti g r w c in
  goodc g (Some r) c' /\ GC c' = Some g /\ TC c' = Some r /\
  ((cplan true reset ti g r w c = [] /\ c' = c /\ exists ow, OV c = Some (g, r, ow)) \/ OV c' = Some (g, r, w)).
Proof.
  intros Hg. unfold crun, cplan.
  pose proof (phase2_spec reset ti g r w c Hg) as H. cbn zeta in H.
  set (p2a := plan2a reset ti) in *. set (c2a := cexec g r w p2a c) in *.
  set (p2b := plan2b true ti c2a) in *. set (c2 := cexec g r w p2b c2a) in *.
  destruct H as [Hg2 [HG [HT Hw]]]. cbn zeta.
  rewrite !cexec_app. fold c2a. fold c2.
  unfold plan3. destruct (reuse true c2) eqn:Er.
  - unfold cexec; cbn [fold_left]. split; [exact Hg2|]. split; [exact HG|]. split; [exact HT|].
    unfold reuse in Er. destruct (OV c2) as [[[og ot] ow]|] eqn:EO; [|discriminate].
    apply andb_prop in Er. destruct Er as [E1 E2].
    destruct Hg2 as [_ [_ H3]]. destruct (H3 _ _ _ EO) as [Hog Hot].
    specialize (Hog E1). specialize (Hot E2). rewrite HG in Hog. rewrite HT in Hot. inversion Hog; inversion Hot; subst og ot.
    destruct Hw as [[Hp Hc]|Ho]; [|congruence].
    left. rewrite app_nil_r. split; [exact Hp|]. split; [exact Hc|]. exists ow. rewrite <- Hc. exact EO.
  - unfold cexec; cbn [fold_left capply]. split; [apply good_cO; exact Hg2|].
    unfold cO. rewrite HG, HT. cbn [GC TC OV]. repeat split. right; reflexivity.
Qed.

(* a chromosome on which a run writes nothing: the decision did not depend on the ties *)
Lemma cplan_nil_ties fx reset ti ti' g r w c : cplan fx reset ti g r w c = [] -> cplan fx reset ti' g r w c = [].
Proof.
  unfold cplan. intro H. apply app_eq_nil in H. destruct H as [Ha H]. apply app_eq_nil in H. destruct H as [Hb Hc].
  unfold plan2a in *. destruct reset; [discriminate|]. cbn [app]. unfold cexec in *; cbn [fold_left] in *.
  unfold plan2b in *. destruct (both c); [|discriminate]. destruct (stale fx c); [discriminate|].
  cbn [app fold_left] in *. unfold plan3 in *. destruct (reuse fx c); [reflexivity|discriminate].
Qed.
Lemma cplan_tF_false reset ti g r w c : tF c = false -> cplan true reset ti g r w c <> [].
Proof.
  intros Ht H. unfold cplan in H. apply app_eq_nil in H. destruct H as [Ha H]. apply app_eq_nil in H. destruct H as [Hb _].
  unfold plan2a in Ha, Hb. destruct reset; [discriminate|]. unfold cexec in Hb; cbn [fold_left] in Hb.
  unfold plan2b in Hb. destruct (both c); [|discriminate]. unfold stale in Hb. rewrite Ht in Hb.
  rewrite orb_true_r in Hb. discriminate.
Qed.

(* ---- one run ---- *)
Lemma R_after1 revise s : R (after1 revise s) = Some (target revise s).
Proof.
  unfold after1, revises, target. destruct (R s) as [r|] eqn:E; [destruct revise|]; cbn [R]; rewrite ?E; reflexivity.
Qed.
Lemma good_after1 revise s : good s -> forall j, goodc (gv s) (Some (target revise s)) (chs (after1 revise s) j).
Proof.
  intros H j. pose proof (R_after1 revise s) as HR. unfold after1 in *.
  destruct (revises revise s); cbn [chs R] in *.
  - eapply good_cR. apply H.
  - rewrite <- HR. apply H.
Qed.

Lemma wv_run fx reset revise ti s : wv (run fx reset revise ti s) = wv s.
Proof. reflexivity. Qed.
Lemma gv_run fx reset revise ti s : gv (run fx reset revise ti s) = gv s.
Proof. reflexivity. Qed.
Lemma tv_run fx reset revise ti s : tv (run fx reset revise ti s) = tv s.
Proof. reflexivity. Qed.

Section Run.
Variable nm : nat -> nat.

Definition fresh_or_errw (s : disk) (revise : bool) (o : outcome) : Prop :=
  o = Ok (gv s) (target revise s) (gv s) (target revise s) (wv s) \/ o = ErrW.

Lemma cresult_same w g r ow c : GC c = Some g -> TC c = Some r -> OV c = Some (g, r, ow) ->
  cresult nm w c = if ow =? w then Ok g r g r ow else ErrW.
Proof. intros HG HT HO. unfold cresult. rewrite HO, HG, HT. destruct (ow =? w); cbn [negb]; [|reflexivity]. rewrite Nat.eqb_refl. reflexivity. Qed.

Theorem run_good reset revise ti s : good s -> good (run true reset revise ti s).
Proof.
  intros H j. unfold run; cbn [gv R chs]. rewrite R_after1.
  apply (crun_spec reset (ti j) (gv s) (target revise s) (wv s)). apply good_after1. exact H.
Qed.

(* the outcome of a run from a good disk: every chromosome either gets the numbers of the current
   gene annotation, the revised annotation the run was told to use, and the current windows - or an
   explicit window error (a current overlap file made with other windows) *)
Theorem run_outcome reset revise ti s j : good s ->
  fresh_or_errw s revise (result nm (run true reset revise ti s) j).
Proof.
  intros H. unfold result, run; cbn [wv chs].
  destruct (crun_spec reset (ti j) (gv s) (target revise s) (wv s) _ (good_after1 revise s H j)) as [_ [HG [HT Hd]]].
  destruct Hd as [[_ [Hc [ow Ho]]]|Ho].
  - rewrite Hc in *. rewrite (cresult_same _ _ _ ow _ HG HT Ho). destruct (ow =? wv s) eqn:E; [left|right; reflexivity].
    apply Nat.eqb_eq in E. subst ow. reflexivity.
  - rewrite (cresult_same _ _ _ _ _ HG HT Ho), Nat.eqb_refl. left. reflexivity.
Qed.

(* --reset_h5 --revise_anno: from ANY disk (no invariant needed, whatever was edited, touched or
   left behind) every chromosome gets the numbers of the current inputs *)
Theorem refresh_fresh ti s j :
  result nm (run true true true ti s) j = Ok (gv s) (tv s) (gv s) (tv s) (wv s).
Proof.
  unfold result, run; cbn [wv chs]. set (c := chs (after1 true s) j).
  assert (HT : target true s = tv s) by (unfold target; destruct (R s); reflexivity). rewrite HT.
  unfold crun, cplan. cbn [plan2a]. set (c2a := cexec (gv s) (tv s) (wv s) [CG (t_g1 (ti j)); CT (t_t1 (ti j))] c).
  assert (Ha : GC c2a = Some (gv s) /\ TC c2a = Some (tv s) /\ oFG c2a = false).
  { subst c2a. unfold cexec; cbn [fold_left capply]. unfold cT, cG; cbn [GC TC oFG]. repeat split. }
  destruct Ha as [HG [HTc Ho]].
  set (p2b := plan2b true (ti j) c2a). set (c2 := cexec (gv s) (tv s) (wv s) p2b c2a).
  assert (Hb : GC c2 = Some (gv s) /\ TC c2 = Some (tv s) /\ oFG c2 = false).
  { subst c2 p2b. unfold plan2b, both. rewrite HG, HTc.
    destruct (stale true c2a); unfold cexec; cbn [fold_left capply]; [unfold cT, cG; cbn [GC TC oFG]|]; repeat split; assumption. }
  destruct Hb as [HG2 [HT2 Ho2]].
  rewrite !cexec_app. fold c2a. fold c2.
  assert (Hr : reuse true c2 = false) by (unfold reuse; destruct (OV c2); [rewrite Ho2|]; reflexivity).
  unfold plan3. rewrite Hr. unfold cexec; cbn [fold_left capply].
  unfold cresult, cO. rewrite HG2, HT2. cbn [OV GC TC]. rewrite !Nat.eqb_refl. reflexivity.
Qed.

(* the j-th chromosome of a run depends on the disk only through the inputs, the revised file and
   that chromosome *)
Lemma run_local fx reset revise ti ti' s s' j :
  gv s' = gv s -> tv s' = tv s -> wv s' = wv s -> R s' = R s -> chs s' j = chs s j -> ti' j = ti j ->
  chs (run fx reset revise ti' s') j = chs (run fx reset revise ti s) j.
Proof.
  intros Hg Ht Hw HR Hc Hti. unfold run; cbn [chs]. rewrite Hg, Hw, Hti.
  assert (HT : target revise s' = target revise s) by (unfold target; rewrite HR, Ht; reflexivity). rewrite HT.
  f_equal. unfold after1, revises. rewrite HR. destruct (R s); [destruct revise|]; cbn [chs]; rewrite ?Hc; reflexivity.
Qed.

(* a run that writes nothing on chromosome j and does not revise leaves it as it was *)
Lemma run_idle fx reset revise ti s j :
  revises revise s = false -> cplan fx reset (ti j) (gv s) (target revise s) (wv s) (chs s j) = [] ->
  chs (run fx reset revise ti s) j = chs s j.
Proof.
  intros Hr Hp. unfold run; cbn [chs]. unfold after1. rewrite Hr. unfold crun. rewrite Hp. reflexivity.
Qed.

(* dichotomy used by the re-run and crash theorems *)
Lemma run_cases reset revise ti s j : good s ->
  let T := target revise s in
  result nm (run true reset revise ti s) j = Ok (gv s) T (gv s) T (wv s) \/
  (revises revise s = false /\ cplan true reset (ti j) (gv s) T (wv s) (chs s j) = [] /\
   chs (run true reset revise ti s) j = chs s j).
Proof.
  intros H T. unfold result. unfold run at 1; cbn [wv chs].
  destruct (crun_spec reset (ti j) (gv s) T (wv s) _ (good_after1 revise s H j)) as [_ [HG [HT Hd]]].
  destruct Hd as [[Hp [Hc [ow Ho]]]|Ho].
  - right. destruct (revises revise s) eqn:Er.
    + exfalso. revert Hp. apply cplan_tF_false. unfold after1. rewrite Er. reflexivity.
    + assert (Hs : chs (after1 revise s) j = chs s j) by (unfold after1; rewrite Er; reflexivity).
      rewrite Hs in Hp. split; [reflexivity|]. split; [exact Hp|]. apply run_idle; assumption.
  - left. fold T. rewrite (cresult_same _ _ _ _ _ HG HT Ho), Nat.eqb_refl. reflexivity.
Qed.

Lemma target_run_idem reset revise ti s : target revise (run true reset revise ti s) = target revise s.
Proof.
  unfold target at 1. unfold run; cbn [R tv]. rewrite R_after1. destruct revise; [|reflexivity].
  unfold target. destruct (R s); reflexivity.
Qed.

(* re-running the same command on unchanged inputs reproduces the outcome, chromosome by chromosome,
   whatever ties either run meets *)
Theorem rerun_same reset revise ti ti2 s j : good s ->
  result nm (run true reset revise ti2 (run true reset revise ti s)) j = result nm (run true reset revise ti s) j.
Proof.
  intros H. set (s1 := run true reset revise ti s).
  assert (H1 : good s1) by (apply run_good; exact H).
  destruct (run_cases reset revise ti s j H) as [Hok|[Hr [Hp Hc]]].
  - (* the first run made current numbers: the second finds or remakes exactly those *)
    fold s1 in Hok. rewrite Hok.
    destruct (run_outcome reset revise ti2 s1 j H1) as [Ho|Ho].
    + rewrite Ho. unfold s1 at 1 2 4. rewrite target_run_idem. reflexivity.
    + (* ErrW impossible: the overlap windows are the current ones *)
      exfalso. destruct (run_cases reset revise ti2 s1 j H1) as [Hok2|[Hr2 [Hp2 Hc2]]]; [congruence|].
      unfold result in Ho, Hok. rewrite Hc2, wv_run in Ho. congruence.
  - (* the first run did not touch chromosome j and did not revise: the second does the same *)
    fold s1 in Hc. unfold result. rewrite wv_run. f_equal.
    assert (HR : R s1 = R s).
    { unfold s1, run; cbn [R]. unfold after1. rewrite Hr. reflexivity. }
    rewrite (run_local true reset revise ti2 ti2 s s1 j); try reflexivity; try assumption.
    rewrite Hc. apply run_idle; [exact Hr|]. eapply cplan_nil_ties. exact Hp.
Qed.

(* ---- interrupted and failed runs ---- *)
Lemma firstn_cexec_good g r w l k c : goodc g (Some r) c -> goodc g (Some r) (cexec g r w (firstn k l) c).
Proof. apply good_cexec. Qed.

Theorem crash_good reset revise ti kR k s : good s -> good (crash true reset revise ti kR k s).
Proof.
  intros H. unfold crash. destruct kR; [|exact H]. intro j; cbn [gv R chs]. rewrite R_after1.
  apply good_cexec. apply good_after1. exact H.
Qed.

Lemma target_crash reset revise ti kR k s : target revise (crash true reset revise ti kR k s) = target revise s.
Proof.
  unfold crash. destruct kR; [|reflexivity]. unfold target at 1; cbn [R tv]. rewrite R_after1.
  destruct revise; [|reflexivity]. unfold target. destruct (R s); reflexivity.
Qed.

(* kill the run anywhere (any crash point, any interleaving of the workers, any ties), run the same
   command again: chromosome by chromosome the outcome is that of the uninterrupted run, or an error *)
Theorem crash_safe reset revise ti ti2 kR k s j : good s ->
  let o := result nm (run true reset revise ti s) j in
  let o' := result nm (run true reset revise ti2 (crash true reset revise ti kR k s)) j in
  o' = o \/ is_err o' = true.
Proof.
  intros H o o'. set (sc := crash true reset revise ti kR k s).
  assert (Hc : good sc) by (apply crash_good; exact H).
  assert (Hin : gv sc = gv s /\ tv sc = tv s /\ wv sc = wv s) by (unfold sc, crash; destruct kR; cbn; repeat split).
  destruct Hin as [Eg [Et Ew]].
  destruct (run_outcome reset revise ti2 sc j Hc) as [Ho'|Ho']; [|right; subst o'; fold sc; rewrite Ho'; reflexivity].
  assert (HT : target revise sc = target revise s) by apply target_crash.
  rewrite HT, Eg, Ew in Ho'.
  destruct (run_cases reset revise ti s j H) as [Hok|[Hr [Hp Hcj]]].
  - left. subst o o'. fold sc. rewrite Ho', Hok. reflexivity.
  - (* the uninterrupted run neither revises nor writes on chromosome j: nor did the killed one *)
    left. subst o o'. fold sc. unfold result. rewrite !wv_run, Ew. f_equal.
    assert (Hsc : R sc = R s /\ chs sc j = chs s j).
    { unfold sc, crash. destruct kR; [|split; reflexivity]. cbn [R chs]. unfold after1. rewrite Hr. rewrite Hp.
      split; [reflexivity|]. destruct (k j); reflexivity. }
    destruct Hsc as [HR Hch].
    rewrite (run_local true reset revise ti2 ti2 s sc j); try reflexivity; try assumption.
    rewrite Hcj. apply run_idle; [exact Hr|]. eapply cplan_nil_ties. exact Hp.
Qed.
End Run.

(* ---- every history keeps the invariant ---- *)
Lemma good_op o s : good s -> good (do_op true o s).
Proof.
  intro H. destruct o; cbn [do_op].
  - intro j. unfold editG; cbn [gv R chs]. eapply good_unfresh_g. apply H.
  - intro j. unfold editT; cbn [gv R chs]. apply good_unfresh_t. apply H.
  - exact H.
  - intro j. unfold touchG, map_chs; cbn [gv R chs]. eapply good_unfresh_g. apply H.
  - intro j. unfold touchT, map_chs; cbn [gv R chs]. apply good_unfresh_t. apply H.
  - apply run_good. exact H.
  - apply crash_good. exact H.
Qed.
Lemma good_empty g t w : good (empty_disk g t w).
Proof. intro j. unfold goodc, empty_disk, empty_chrom; cbn. repeat split; discriminate. Qed.
Theorem reachable_good h : forall s, good s -> good (history true h s).
Proof. induction h as [|o h IH]; intros s H; [exact H|]. unfold history. cbn [fold_left]. apply IH, good_op, H. Qed.

(* the first run in a fresh directory succeeds with the current inputs *)
Theorem first_run_ok nm reset revise ti g t w j :
  result nm (run true reset revise ti (empty_disk g t w)) j = Ok g t g t w.
Proof.
  destruct (run_cases nm reset revise ti (empty_disk g t w) j (good_empty g t w)) as [H|[Hr _]].
  - exact H.
  - discriminate Hr.
Qed.

(* any number of interrupted / failed runs of one command, then the command again *)
Lemma crash_inputs reset revise ti kR k s :
  let sc := crash true reset revise ti kR k s in gv sc = gv s /\ tv sc = tv s /\ wv sc = wv s.
Proof. unfold crash. destruct kR; cbn; repeat split. Qed.
Theorem faults_then_run nm s reset revise ti j (fs : list ((nat -> ties) * bool * (nat -> nat))) : good s ->
  let s' := fold_left (fun x f => crash true reset revise (fst (fst f)) (snd (fst f)) (snd f) x) fs s in
  result nm (run true reset revise ti s') j = Ok (gv s) (target revise s) (gv s) (target revise s) (wv s) \/
  result nm (run true reset revise ti s') j = ErrW.
Proof.
  revert s. induction fs as [|f fs IH]; intros s H; cbn [fold_left].
  - apply (run_outcome nm reset revise ti s j H).
  - set (sc := crash true reset revise (fst (fst f)) (snd (fst f)) (snd f) s).
    destruct (crash_inputs reset revise (fst (fst f)) (snd (fst f)) (snd f) s) as [Eg [Et Ew]]. fold sc in Eg, Et, Ew.
    assert (HT : target revise sc = target revise s) by apply target_crash.
    rewrite <- Eg, <- Ew, <- HT. apply IH. apply crash_good. exact H.
Qed.
