(* The recursion of ReviseAnno as translated from /repo (Gen/GenRevise.v: call_merge, merge_by_like with
   hit_scan_overlapping, determine_seed_stop, clear_array_by_index, set_seed_stop, update_data_frame inlined)
   computes, on every frame with unique index labels, the seed-and-absorb merge Base.Intervals.merge_all
   that Model/Revise.v is built on: it never raises, 2n+1 units of fuel (calls) suffice for n rows, the
   seed and search frames end empty and the output frame holds the merged elements in order. *)
From Coq Require Import ZArith List Bool Lia ZifyBool Permutation.
From TEV Require Import Base.Intervals Model.Frame Model.Revise Gen.GenRevise Proofs.FrameP.
Import ListNotations. Open Scope Z_scope.

Lemma labels_where_ext P Q S : (forall r, P r = Q r) -> labels_where P S = labels_where Q S.
Proof. intro H. unfold labels_where. rewrite (filter_ext P Q H). reflexivity. Qed.

Lemma forallb_has_label S Q : forallb (fun h => has_label S h) (labels_where Q S) = true.
Proof. exact (has_labels_where S Q). Qed.

Lemma set_stop_twice r a b : set_stop (set_stop r a) b = set_stop r b.
Proof. reflexivity. Qed.

Lemma row_start_set_stop r e : row_start (set_stop r e) = row_start r.
Proof. reflexivity. Qed.
Lemma row_stop_set_stop r e : row_stop (set_stop r e) = e.
Proof. reflexivity. Qed.

Lemma of_nat_pos n : (Z.of_nat (S n) >? 0) = true.
Proof. lia. Qed.

(* ---- one call of each translated function, from a state whose seed and search frames coincide ---- *)
Lemma cm_step f S O :
  gen_call_merge (Datatypes.S f) (mkR S S O) =
  match S with [] => Ok (mkR [] [] O) | r :: _ => gen_merge_by_like f (row_label r) r true (mkR S S O) end.
Proof. destruct S as [|r rest]; reflexivity. Qed.

Ltac use_hitrow S s e :=
  match goal with
  | |- context [labels_where ?P0 S] =>
      lazymatch P0 with
      | hitrow _ _ => fail
      | _ => let HP := fresh "HP" in
             assert (HP : forall r, P0 r = hitrow s e r) by (intro; unfold hitrow, hit, iv_of; cbn [fst snd]; lia);
             rewrite !(labels_where_ext _ _ S HP); clear HP
      end
  end.

Lemma mbl_false f idx row S O : NoDup (labels S) ->
  gen_merge_by_like (Datatypes.S f) idx row false (mkR S S O) =
  match filter (hitrow (row_start row) (row_stop row)) S with
  | [] => gen_call_merge f (mkR S S (O ++ [set_stop row (row_stop row)]))
  | h :: hs =>
      let S' := filter (fun r => negb (hitrow (row_start row) (row_stop row) r)) S in
      gen_merge_by_like f idx (set_stop row (maxstop (row_stop row) (map iv_of (h :: hs)))) false (mkR S' S' O)
  end.
Proof.
  intro Hnd. cbn [gen_merge_by_like]. cbv zeta. cbn [seed search out set_seed set_search set_out].
  use_hitrow S (row_start row) (row_stop row).
  rewrite ?forallb_has_label, ?has_labels_where, ?(drop_where S _ Hnd). cbn [negb].
  rewrite !labels_where_length.
  rewrite (fold_stop_spec S _ (row_stop row) _ Hnd) by (intros acc h; repeat match goal with |- context [if ?c then _ else _] => destruct c eqn:? end; lia).
  destruct (filter (hitrow (row_start row) (row_stop row)) S) as [|h hs] eqn:E; cbn [length].
  - reflexivity.
  - rewrite of_nat_pos. rewrite <- E. rewrite ?has_labels_where. reflexivity.
Qed.

Lemma mbl_true f r rest O : NoDup (labels (r :: rest)) ->
  gen_merge_by_like (Datatypes.S f) (row_label r) r true (mkR (r :: rest) (r :: rest) O) =
  gen_merge_by_like (Datatypes.S f) (row_label r) r false (mkR rest rest O).
Proof.
  intro Hnd. cbn [gen_merge_by_like]. cbv zeta. cbn [seed search out set_seed set_search set_out].
  rewrite !has_label_head, !(drop_head r rest Hnd). reflexivity.
Qed.

(* ---- the whole recursion ---- *)
Lemma rabsorb_nil k s e : rabsorb k s e [] = (e, []).
Proof. destruct k; reflexivity. Qed.
Lemma rmerge_nil F : rmerge F [] = [].
Proof. destruct F; reflexivity. Qed.

Definition Pcall (n : nat) : Prop := forall S O fuel F,
  (length S <= n)%nat -> NoDup (labels S) -> (2 * length S + 1 <= fuel)%nat -> (length S <= F)%nat ->
  gen_call_merge fuel (mkR S S O) = Ok (mkR [] [] (O ++ rmerge F S)).
Definition Pmerge (n : nat) : Prop := forall S O idx row fuel k F,
  (length S <= n)%nat -> NoDup (labels S) -> (2 * length S + 2 <= fuel)%nat -> (length S <= k)%nat -> (length S <= F)%nat ->
  gen_merge_by_like fuel idx row false (mkR S S O) =
  let '(e', S') := rabsorb k (row_start row) (row_stop row) S in Ok (mkR [] [] (O ++ set_stop row e' :: rmerge F S')).

Lemma Pmerge_from n : Pcall n -> (forall m, (m < n)%nat -> Pmerge m) -> Pmerge n.
Proof.
  intros HC HM S O idx row fuel k F Hn Hnd Hf Hk HF.
  destruct fuel as [|f]; [lia|]. rewrite (mbl_false f idx row S O Hnd).
  destruct k as [|k'].
  { (* no row at all *)
    destruct S; [|cbn in Hk; lia]. cbn [filter rabsorb]. rewrite (HC [] _ f F) by (cbn; try lia; constructor).
    rewrite rmerge_nil. rewrite <- app_assoc. reflexivity. }
  cbn [rabsorb].
  destruct (filter (hitrow (row_start row) (row_stop row)) S) as [|h hs] eqn:E.
  - (* no hit: the seed is emitted, call_merge goes on with the same frames *)
    rewrite (HC S _ f F Hn Hnd) by lia. rewrite <- app_assoc. reflexivity.
  - (* hits: absorbed, search again with the longer seed on strictly fewer rows *)
    cbv zeta.
    pose proof (filter_split_length (hitrow (row_start row) (row_stop row)) S) as Hsplit. rewrite E in Hsplit. cbn [length] in Hsplit.
    set (S' := filter (fun r => negb (hitrow (row_start row) (row_stop row) r)) S) in *.
    assert (Hlt : (length S' < n)%nat) by lia.
    rewrite (HM (length S') Hlt S' O idx _ f k' F (le_n _) (nodup_filter S _ Hnd)) by lia.
    rewrite row_start_set_stop, row_stop_set_stop.
    destruct (rabsorb k' (row_start row) (maxstop (row_stop row) (map iv_of (h :: hs))) S') as [e' S''].
    rewrite set_stop_twice. reflexivity.
Qed.

Lemma Pcall_from n : (forall m, (m < n)%nat -> Pmerge m) -> Pcall n.
Proof.
  intros HM S O fuel F Hn Hnd Hf HF.
  destruct fuel as [|f]; [lia|]. rewrite cm_step.
  destruct S as [|r rest].
  - rewrite rmerge_nil, app_nil_r. reflexivity.
  - cbn [length] in *. destruct f as [|f']; [lia|]. rewrite (mbl_true f' r rest O Hnd).
    assert (Hnd' : NoDup (labels rest)) by (unfold labels in *; cbn [map] in Hnd; inversion Hnd; assumption).
    destruct F as [|F']; [lia|]. cbn [rmerge].
    pose proof (rabsorb_props (length rest) (row_start r) (row_stop r) rest Hnd') as HP.
    rewrite (HM (length rest) ltac:(lia) rest O (row_label r) r (Datatypes.S f') (length rest) F' (le_n _) Hnd') by lia.
    destruct (rabsorb (length rest) (row_start r) (row_stop r) rest) as [e' rest']. reflexivity.
Qed.

Lemma both n : Pcall n /\ Pmerge n.
Proof.
  induction n as [n IH] using lt_wf_ind.
  assert (HM : forall m, (m < n)%nat -> Pmerge m) by (intros m Hm; apply (IH m Hm)).
  pose proof (Pcall_from n HM) as HC. split; [exact HC|exact (Pmerge_from n HC HM)].
Qed.

(* the translated recursion on a frame with unique labels: never raises, ends with empty seed and search
   frames, and its output is the row-level seed-and-absorb merge *)
Theorem gen_call_merge_ok S : NoDup (labels S) ->
  gen_call_merge (2 * length S + 1) (mkR S S []) = Ok (mkR [] [] (rmerge (length S) S)).
Proof. intro Hnd. exact (proj1 (both (length S)) S [] _ (length S) (le_n _) Hnd (le_n _) (le_n _)). Qed.

(* ... whose intervals are Base.Intervals.merge_all of the frame's intervals *)
Theorem gen_call_merge_intervals S : NoDup (labels S) ->
  exists O, gen_call_merge (2 * length S + 1) (mkR S S []) = Ok (mkR [] [] O)
            /\ map iv_of O = merge_all (length S) (map iv_of S).
Proof. intro Hnd. exists (rmerge (length S) S). split; [exact (gen_call_merge_ok S Hnd)|apply rmerge_spec]. Qed.

(* iterate_call_merge sorts the group by Start before the recursion: with the sort of Model/Revise.v the
   translated recursion yields Model.Revise.revise of the group's intervals *)
Fixpoint rinsert (r : row) (l : frame) : frame :=
  match l with
  | [] => [r]
  | j :: t => if row_start r <=? row_start j then r :: l else j :: rinsert r t
  end.
Definition rsort (l : frame) : frame := fold_right rinsert [] l.

Lemma rinsert_iv r l : map iv_of (rinsert r l) = insert_start (iv_of r) (map iv_of l).
Proof. induction l as [|j t IH]; cbn [rinsert insert_start map]; [reflexivity|]. cbn [iv_of fst]. destruct (row_start r <=? row_start j); cbn [map]; [reflexivity|rewrite IH; reflexivity]. Qed.
Lemma rsort_iv l : map iv_of (rsort l) = sort_start (map iv_of l).
Proof. induction l as [|r l IH]; cbn [rsort sort_start fold_right map]; [reflexivity|]. fold (rsort l). rewrite rinsert_iv, IH. reflexivity. Qed.

Lemma rinsert_perm r l : Permutation (rinsert r l) (r :: l).
Proof.
  induction l as [|j t IH]; cbn [rinsert]; [reflexivity|]. destruct (row_start r <=? row_start j); [reflexivity|].
  apply Permutation_trans with (j :: r :: t); [apply perm_skip, IH|apply perm_swap].
Qed.
Lemma rsort_perm l : Permutation (rsort l) l.
Proof. induction l as [|r l IH]; cbn [rsort fold_right]; [reflexivity|]. fold (rsort l). apply Permutation_trans with (r :: rsort l); [apply rinsert_perm|apply perm_skip, IH]. Qed.

Theorem gen_revise_ok (group : frame) : NoDup (labels group) ->
  exists O, gen_call_merge (2 * length group + 1) (mkR (rsort group) (rsort group) []) = Ok (mkR [] [] O)
            /\ map iv_of O = revise (map iv_of group).
Proof.
  intro Hnd.
  assert (Hl : length (rsort group) = length group) by (apply Permutation_length, rsort_perm).
  assert (Hnd' : NoDup (labels (rsort group))).
  { unfold labels. apply (Permutation_NoDup (l := map row_label group)); [|exact Hnd].
    apply Permutation_map, Permutation_sym, rsort_perm. }
  destruct (gen_call_merge_intervals (rsort group) Hnd') as (O & H1 & H2). rewrite Hl in H1, H2.
  exists O. split; [exact H1|]. rewrite H2. unfold revise. rewrite map_length, rsort_iv. reflexivity.
Qed.
