(* C11: no result is lost when the collector is stopped -- for every number of results and every schedule. *)
From Coq Require Import List Bool Arith Lia Permutation.
From TEV Require Import Model.Collector.
Import ListNotations.

(* the legacy loop loses a result: two puts, the flag set between a pop and the next flag test *)
Example legacy_refuted :
  exists sched, let s := run false sched (init [0; 1]) in pc s = CDone /\ col s = [0].
Proof. exists [W 0; W 0; C; C; M; C]. vm_compute. split; reflexivity. Qed.

Lemma take_nth_perm i : forall l r rest, take_nth i l = Some (r, rest) -> Permutation l (r :: rest).
Proof.
  induction i as [|j IH]; intros [|x t] r rest H; cbn in H; try discriminate.
  - inversion H; subst; reflexivity.
  - destruct (take_nth j t) as [[y t']|] eqn:E; [|discriminate]. inversion H; subst.
    rewrite (IH t _ _ E). apply perm_swap.
Qed.

Definition Inv (all : list nat) (s : st) : Prop :=
  Permutation (col s ++ q s ++ unput s) all
  /\ (stop s = true -> unput s = [])
  /\ (pc s = CDrain -> stop s = true)
  /\ (pc s = CDone -> stop s = true /\ q s = []).

Lemma inv_init all : Inv all (init all).
Proof.
  unfold Inv, init; cbn [unput q col pc stop].
  split; [reflexivity|split; [discriminate|split; discriminate]].
Qed.

Lemma inv_step all s a : Inv all s -> Inv all (step true s a).
Proof.
  intros HInv. pose proof HInv as [Hp [Hs [Hd Hdone]]]. destruct a as [i| |]; cbn [step].
  - destruct (take_nth i (unput s)) as [[r rest]|] eqn:E; [|exact HInv].
    pose proof (take_nth_perm _ _ _ _ E) as Hperm. unfold Inv; cbn [unput q col pc stop].
    split; [|split; [|split]].
    + rewrite <- Hp. rewrite Hperm.
      apply Permutation_app_head.
      rewrite <- app_assoc. apply Permutation_app_head. cbn. reflexivity.
    + intro Hst. specialize (Hs Hst). rewrite Hs in E. destruct i; discriminate.
    + exact Hd.
    + intro Hpc. destruct (Hdone Hpc) as [Hst _]. specialize (Hs Hst). rewrite Hs in E. destruct i; discriminate.
  - (* C *)
    destruct (pc s) eqn:Epc.
    + (* CCheck *)
      destruct (stop s) eqn:Est; unfold Inv; cbn [unput q col pc stop];
        (split; [exact Hp|split; [exact Hs|split]]).
      * intros _; reflexivity.
      * discriminate.
      * discriminate.
      * discriminate.
    + (* CPop *)
      destruct (q s) as [|r q'] eqn:Eq; unfold Inv; cbn [unput q col pc stop];
        (split; [|split; [exact Hs|split; discriminate]]).
      * exact Hp.
      * rewrite <- Hp. rewrite <- app_assoc. cbn. reflexivity.
    + (* CDrain *)
      assert (Hst : stop s = true) by (apply Hd; reflexivity).
      destruct (q s) as [|r q'] eqn:Eq; unfold Inv; cbn [unput q col pc stop];
        (split; [|split; [exact Hs|split]]).
      * exact Hp.
      * discriminate.
      * intros _. split; [exact Hst|reflexivity].
      * rewrite <- Hp. rewrite <- app_assoc. cbn. reflexivity.
      * intros _. exact Hst.
      * discriminate.
    + exact HInv.
  - (* M *)
    destruct (unput s) eqn:Eu; [|exact HInv].
    unfold Inv; cbn [unput q col pc stop]. split; [|split; [|split]].
    + rewrite <- Hp. reflexivity.
    + intros _; reflexivity.
    + intros _; reflexivity.
    + intro Hpc. destruct (Hdone Hpc) as [_ Hq]. split; [reflexivity|exact Hq].
Qed.

Lemma inv_run_gen all sched : forall s, Inv all s -> Inv all (run true sched s).
Proof.
  unfold run. induction sched as [|a sched IH]; intros s Hs; cbn [fold_left]; [exact Hs|].
  apply IH. apply inv_step. exact Hs.
Qed.

Lemma inv_run all sched : Inv all (run true sched (init all)).
Proof. apply inv_run_gen. apply inv_init. Qed.

(* every completed result is collected exactly once when the collector has terminated *)
Theorem all_collected all sched :
  pc (run true sched (init all)) = CDone -> Permutation (col (run true sched (init all))) all.
Proof.
  intro Hd. destruct (inv_run all sched) as [Hp [Hs [_ Hdone]]].
  destruct (Hdone Hd) as [Hst Hq].
  rewrite Hq, (Hs Hst) in Hp. cbn in Hp. rewrite app_nil_r in Hp. exact Hp.
Qed.

(* nothing is ever collected twice or invented, at any point of any schedule *)
Theorem never_more all sched : exists rest, Permutation (col (run true sched (init all)) ++ rest) all.
Proof.
  destruct (inv_run all sched) as [Hp _].
  exists (q (run true sched (init all)) ++ unput (run true sched (init all))). exact Hp.
Qed.

Lemma run_cons f a sched s : run f (a :: sched) s = run f sched (step f s a).
Proof. reflexivity. Qed.

Lemma done_stable n : forall s, pc s = CDone -> run true (repeat C n) s = s.
Proof.
  induction n as [|n IH]; intros s H; cbn [repeat]; [reflexivity|].
  rewrite run_cons. cbn [step]. rewrite H. apply IH. exact H.
Qed.

Lemma drain_done n : forall s, pc s = CDrain -> 1 + length (q s) <= n ->
  pc (run true (repeat C n) s) = CDone.
Proof.
  induction n as [|n IH]; intros s Hpc Hn; [lia|].
  cbn [repeat]. rewrite run_cons. cbn [step]. rewrite Hpc.
  destruct (q s) as [|r q'] eqn:Eq.
  - rewrite done_stable; reflexivity.
  - apply IH; cbn [pc q]; [reflexivity|]. cbn [length] in Hn. lia.
Qed.

Lemma check_done n s : pc s = CCheck -> stop s = true -> 2 + length (q s) <= n ->
  pc (run true (repeat C n) s) = CDone.
Proof.
  intros Hpc Hst Hn. destruct n as [|n]; [lia|].
  cbn [repeat]. rewrite run_cons. cbn [step]. rewrite Hpc, Hst.
  apply drain_done; cbn [pc q]; [reflexivity|lia].
Qed.

Lemma pop_done n s : pc s = CPop -> stop s = true -> 3 + length (q s) <= n ->
  pc (run true (repeat C n) s) = CDone.
Proof.
  intros Hpc Hst Hn. destruct n as [|n]; [lia|].
  cbn [repeat]. rewrite run_cons. cbn [step]. rewrite Hpc.
  destruct (q s) as [|r q'] eqn:Eq; cbn [length] in Hn.
  - apply check_done; cbn [pc q stop length]; [reflexivity|exact Hst|lia].
  - apply check_done; cbn [pc q stop]; [reflexivity|exact Hst|lia].
Qed.

(* liveness under a fair completion: once every result is put and the flag is set, 2 + |queue| further
   collector steps from the flag test reach CDone *)
Theorem terminates all sched : let s := run true sched (init all) in
  unput s = [] -> stop s = true -> pc (run true (repeat C (3 + length (q s))) s) = CDone.
Proof.
  cbn zeta. generalize (run true sched (init all)). intros s _ Hst.
  destruct (pc s) eqn:Epc.
  - apply check_done; [exact Epc|exact Hst|lia].
  - apply pop_done; [exact Epc|exact Hst|lia].
  - apply drain_done; [exact Epc|lia].
  - rewrite done_stable; exact Epc.
Qed.
