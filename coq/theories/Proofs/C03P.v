(* C03: every density of a real group (or the total) is a number in [0,1]: 0 <= N <= D, 0 < D. *)
From Coq Require Import ZArith NArith List Bool Lia ZifyBool.
From TEV Require Import Base.Intervals Base.Count Model.Kernel Model.Revise Model.Pipeline
     Spec.Density Proofs.Refine Proofs.RunP Proofs.Keys Proofs.C01P.
Import ListNotations. Open Scope Z_scope.

Lemma cntn_bounds P : forall n lo, 0 <= cntn P lo n <= Z.of_nat n.
Proof.
  induction n as [|k IH]; intro lo; [unfold cntn; cbn; lia|].
  rewrite cntn_S. specialize (IH (lo + 1)). destruct (P lo); lia.
Qed.

Lemma cnt_bounds P lo hi : lo <= hi + 1 -> 0 <= cnt P lo hi <= hi - lo + 1.
Proof. intro H. unfold cnt. pose proof (cntn_bounds P (Z.to_nat (hi - lo + 1)) lo). lia. Qed.

Theorem spec_range ivs sd g w : wf_gene g -> 0 <= w ->
  0 <= spec_num ivs sd g w <= spec_den sd g w /\ 0 < spec_den sd g w.
Proof.
  intros Hg Hw. pose proof (region_ok sd g w Hg Hw) as Hr. unfold spec_num, spec_den.
  pose proof (cnt_bounds (covered ivs) _ _ Hr) as Hb. destruct Hg as [Hg _].
  split; [exact Hb|]. destruct sd; cbn [region fst snd]; lia.
Qed.

Section R.
Variables rS rO rT : N.
Theorem range first delta last genes tes fs f lv name sd w gname n d :
  wf_input rS rO rT genes tes -> 0 <= first -> 0 < delta ->
  run rS rO rT first delta last genes tes = inr fs -> In f fs ->
  f_cell f lv name sd w gname = Some (n, d) -> name <> bookkeeping rS rO lv ->
  0 <= n <= d /\ 0 < d.
Proof.
  intros Hwf Hf Hd Hr Hin Hc Hb.
  destruct (cells rS rO rT _ _ _ _ _ _ _ _ _ _ _ _ _ Hwf Hf Hd Hr Hin Hc Hb) as [g [Hg [_ [_ Hv]]]].
  destruct Hwf as [Hwg _]. rewrite Forall_forall in Hwg. specialize (Hwg g Hg).
  unfold spec_cell in Hv. inversion Hv; subst n d.
  destruct (run_file _ _ _ _ _ _ _ _ _ _ Hr Hin) as [ws [Hw [_ [_ [Hwin _]]]]].
  destruct (f_cell_some _ _ _ _ _ _ _ Hc) as [g' [_ [_ [Hsw _]]]].
  destruct Hsw as [->|Hsw].
  - (* intragenic: the window argument is irrelevant *)
    change (spec_num ?i SI g w) with (spec_num i SI g 0). change (spec_den SI g w) with (spec_den SI g 0).
    apply spec_range; [exact Hwg|lia].
  - apply spec_range; [exact Hwg|]. rewrite Hwin in Hsw. eapply window_nonneg; eauto.
Qed.
End R.
