#!/bin/bash
# run every registered check (quick tier unless VERIF_TIER is set) and print one line each
cd /verif
ids=$(python3 -c "import json; print(' '.join(c['property_id'] for c in json.load(open('MANIFEST.json'))['checks']))")
fail=0
for i in $ids; do
  out=$(./check $i 2>&1); rc=$?
  echo "$i rc=$rc $(echo "$out" | tail -1)"
  [ $rc -ne 0 ] && { fail=1; echo "$out" | grep -E "VIOLATION|KNOWN|CHECK-ERROR|Traceback" | head -5; }
done
exit $fail
