#!/bin/bash
# usage: seedcheck.sh <patch.diff> <check-id> [more ids]   - only the checks (no demo / test-suite confirmation), in a scratch worktree
set -u
P="$(realpath "$1")"; shift
WT=$(mktemp -d /tmp/seedwt.XXXXXX); rmdir "$WT"
git -C /repo worktree add -q "$WT" HEAD || exit 9
trap 'git -C /repo worktree remove --force "$WT" 2>/dev/null; rm -rf "${CW:-/nonexistent}"' EXIT
( cd "$WT" && git apply "$P" ) || { echo PATCH-DOES-NOT-APPLY; exit 8; }
CW=$(mktemp -d /tmp/seedcoq.XXXXXX); cp -a /verif/coq "$CW/coq"; ln -s /verif/translator "$CW/translator"; rm -f "$CW/coq/.build.lock"
for id in "$@"; do
  out=$(cd /verif && VERIF_COQ_DIR="$CW/coq" VERIF_REPO="$WT" ./check "$id" 2>&1 | tail -4)
  echo "check $id on patched tree: $(echo "$out" | tr '\n' '|')"
done
