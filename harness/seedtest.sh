#!/bin/bash
# usage: seedtest.sh <seed-dir with patch.diff demo.py meta.json> <check-id> [more check ids]
# Confirms the seeded change in a scratch worktree (tests pass, demo fails with / passes without),
# then runs the named checks against the patched worktree. Prints a one-line verdict per step.
set -u
SD="$(realpath "$1")"; shift
WT=$(mktemp -d /tmp/seedwt.XXXXXX); rmdir "$WT"
git -C /repo worktree add -q "$WT" HEAD || exit 9
cleanup() { git -C /repo worktree remove --force "$WT" 2>/dev/null; rm -rf "${CW:-/nonexistent}"; }
trap cleanup EXIT
cd "$WT"
TQDM_DISABLE=1 PYTHONPATH="$WT" timeout 300 /venv/bin/python "$SD/demo.py" "$WT" >/tmp/seed_demo0.log 2>&1; echo "demo-without-patch rc=$?"
git apply "$SD/patch.diff" || { echo "PATCH-DOES-NOT-APPLY"; exit 8; }
TQDM_DISABLE=1 PYTHONPATH="$WT" timeout 300 /venv/bin/python "$SD/demo.py" "$WT" >/tmp/seed_demo1.log 2>&1; echo "demo-with-patch rc=$?"
r=$(cd "$WT" && timeout 900 /venv/bin/python -m pytest -q -p no:cacheprovider --timeout=900 2>&1 | tail -1); echo "tests-with-patch: $r"
git -C "$WT" clean -fdq
CW=$(mktemp -d /tmp/seedcoq.XXXXXX); cp -a /verif/coq "$CW/coq"; ln -s /verif/translator "$CW/translator"; rm -f "$CW/coq/.build.lock"
for id in "$@"; do
  out=$(cd /verif && VERIF_COQ_DIR="$CW/coq" VERIF_REPO="$WT" ./check "$id" 2>&1 | tail -4)
  echo "check $id on patched tree: $(echo "$out" | tr '\n' '|')"
done
