#!/usr/bin/env python3
"""Regenerates /verif/seeded/TABLE.md (seeded change -> property -> what it is -> which check caught it) from the meta.json files."""
import glob, json, os
V = os.path.abspath(os.path.join(os.path.dirname(__file__), ".."))
rows = ["| seeded change | property | what was changed | outcome of my checks |", "|---|---|---|---|"]
for f in sorted(glob.glob(os.path.join(V, "seeded", "*", "meta.json"))):
    m = json.load(open(f)); d = os.path.basename(os.path.dirname(f))
    summ = m["summary"].replace("|", "/").replace("\n", " ")
    summ = summ[:260] + ("..." if len(summ) > 260 else "")
    rows.append("| %s | %s | %s | %s |" % (d, m["property"], summ, m.get("checks_run_and_outcome", "").replace("|", "/")))
open(os.path.join(V, "seeded", "TABLE.md"), "w").write("\n".join(rows) + "\n")
print(len(rows) - 2, "seeded changes")
