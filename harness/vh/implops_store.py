"""Histories of opens / writes on the real transposon.density2._DensitySubset over scratch HDF5 files (C19)."""
import hashlib, os, shutil, tempfile
import numpy as np
import h5py

KEYS = ["GENE_NAMES", "TE_NAMES", "WINDOWS", "_LEFT", "_INTRA", "_RIGHT", "_BITMAP"]


def group_digest(f, prefix):
    """content of a group: per dataset shape, dtype kind and data"""
    if prefix not in f:
        return None
    g = f[prefix]
    out = {}
    for k in sorted(g.keys()):
        d = g[k]
        a = d[()]
        if a.dtype.kind in "OSU":
            data = [x.decode("utf-8") if isinstance(x, bytes) else str(x) for x in a.ravel().tolist()]
            h = hashlib.sha1(("\x00".join(data)).encode()).hexdigest()
        else:
            h = hashlib.sha1(np.ascontiguousarray(a).tobytes()).hexdigest()
        out[k] = [list(d.shape), str(d.dtype), h]
    return out


def labels(f, prefix):
    if prefix not in f:
        return None
    g = f[prefix]
    dec = lambda a: [x.decode("utf-8") if isinstance(x, bytes) else str(x) for x in a]
    return {"genes": dec(g["GENE_NAMES"][:]) if "GENE_NAMES" in g else None,
            "tes": dec(g["TE_NAMES"][:]) if "TE_NAMES" in g else None,
            "windows": [int(x) for x in g["WINDOWS"][:]] if "WINDOWS" in g else None,
            "content": (int(g["_LEFT"][(0,) * 3]) if "_LEFT" in g and g["_LEFT"].size else None)}


def run_history(ops):
    from transposon.density2 import _DensitySubset, _DensitySubsetConfig
    d = tempfile.mkdtemp(prefix="vh_store_")
    trace = []
    try:
        path = os.path.join(d, "store.h5")
        f = h5py.File(path, "a")
        try:
            for op in ops:
                if op[0] == "open":
                    prefix, cfg = op[1], op[2]
                    mode = op[3] if len(op) > 3 else "a"
                    if mode == "r":            # the store re-opened through a file handle opened for reading only (a plotting / summary script)
                        f.close(); f = h5py.File(path, "r")
                    before = group_digest(f, prefix)
                    lab = labels(f, prefix)
                    try:
                        _DensitySubset(f, prefix, _DensitySubsetConfig(windows=list(cfg["windows"]), te_names=list(cfg["tes"]),
                                                                      gene_names=list(cfg["genes"])))
                        out = "ok"
                    except TypeError:
                        out = "TypeError"
                    except ValueError:
                        out = "ValueError"
                    except Exception as e:   # noqa
                        out = "other:" + type(e).__name__
                    trace.append({"op": "open", "prefix": prefix, "outcome": out, "before": before, "after": group_digest(f, prefix),
                                  "labels_before": lab, "mode": mode})
                    if mode == "r":
                        f.close(); f = h5py.File(path, "a")
                else:
                    _, prefix, v = op
                    if prefix in f and "_LEFT" in f[prefix]:
                        g = f[prefix]
                        g["_LEFT"][...] = float(v)
                        g["_RIGHT"][...] = float(v) + 0.5
                        g["_INTRA"][...] = float(v) + 0.25
                        if v % 3 == 2:
                            # a writer that has marked only part of what it stored (stopped between storing a batch and marking it)
                            bm = np.zeros(g["_BITMAP"].shape, dtype=bool)
                            bm.reshape(-1)[::2] = True
                            if bm.all() or not bm.any():
                                bm = np.ones(g["_BITMAP"].shape, dtype=bool)
                            g["_BITMAP"][...] = bm
                        else:
                            g["_BITMAP"][...] = bool(v % 2)
                    trace.append({"op": "write", "prefix": prefix, "v": v})
            final = {p: labels(f, p) for p in sorted(set(o[1] for o in ops))}
        finally:
            f.close()
        return {"trace": trace, "final": final}
    finally:
        shutil.rmtree(d, ignore_errors=True)


def op_histories(req):
    return {"ok": True, "runs": [run_history(h) for h in req["histories"]]}


OPS = {"store.histories": op_histories}
