"""Deterministic-scheduler replay of the real transposon.overlap_manager._ProgressBars (C11).

Instrumented queue / event objects make every operation of the collector thread (flag test, pop),
of each worker (put) and of the main thread (set) wait for the scheduler, so that an interleaving
chosen from the Coq model is executed on the real class. No hook in /repo is needed."""
import queue, threading, time


class Sched:
    def __init__(self):
        self.cv = threading.Condition()
        self.waiting = {}      # actor -> op name
        self.grant = None
        self.done_ops = 0
        self.free = False
        self.finished = set()

    def gate(self, actor, opname):
        """called by an actor thread before a gated operation; returns when granted"""
        with self.cv:
            if self.free:
                return
            self.waiting[actor] = opname
            self.cv.notify_all()
            while self.grant != actor and not self.free:
                self.cv.wait(timeout=5)
            self.waiting.pop(actor, None)

    def op_done(self, actor):
        with self.cv:
            if self.grant == actor:
                self.grant = None
                self.done_ops += 1
            self.cv.notify_all()

    def step(self, actor, timeout=5.0):
        """scheduler side: let [actor] perform its next gated operation; False if it never shows up"""
        t0 = time.time()
        with self.cv:
            while actor not in self.waiting:
                if actor in self.finished or time.time() - t0 > timeout:
                    return False
                self.cv.wait(timeout=0.05)
            n = self.done_ops
            self.grant = actor
            self.cv.notify_all()
            while self.done_ops == n:
                if time.time() - t0 > timeout:
                    return False
                self.cv.wait(timeout=0.05)
        return True

    def free_run(self):
        with self.cv:
            self.free = True
            self.cv.notify_all()


def replay(schedule, k):
    """schedule: list of ["W", i] | ["C"] | ["M"]; k results 0..k-1. Returns the collected list."""
    from transposon.overlap_manager import _ProgressBars
    from transposon.overlap import OverlapResult
    sc = Sched()
    inner = queue.Queue()
    tl = threading.local()

    def me():
        return getattr(tl, "actor", None)

    class GQ:
        """result queue: gated for the collector thread and the workers"""
        def get(self, block=True, timeout=None):
            a = me() or ("C" if threading.current_thread() is pb._chrome_thread else None)
            if a is None:
                return inner.get(block, timeout)
            sc.gate(a, "get")
            try:
                return inner.get_nowait()       # an empty queue = the timeout expired
            finally:
                sc.op_done(a)

        def get_nowait(self):
            return self.get(False)

        def put(self, x, *a_, **k_):
            a = me()
            sc.gate(a, "put")
            inner.put(x)
            sc.op_done(a)

        def empty(self):
            return inner.empty()

        def qsize(self):
            return inner.qsize()

    class GE:
        def __init__(self):
            self.flag = False

        def is_set(self):
            if threading.current_thread() is not pb._chrome_thread:
                return self.flag
            sc.gate("C", "is_set")
            v = self.flag
            sc.op_done("C")
            return v

        def set(self):
            a = me()
            if a is None:
                self.flag = True
                return
            sc.gate(a, "set")
            self.flag = True
            sc.op_done(a)

        def clear(self):
            self.flag = False

        def wait(self, timeout=None):
            return self.flag

    pb = _ProgressBars(0, k, GQ(), queue.Queue())
    pb.stop_event = GE()
    results = [OverlapResult(genes_processed=i, overlap_file="f%d" % i, gene_file="g%d" % i, te_file="t%d" % i) for i in range(k)]
    pb.start()
    orig_target_done = threading.Event()

    def watch():
        pb._chrome_thread.join()
        with sc.cv:
            sc.finished.add("C")
            sc.cv.notify_all()
    threading.Thread(target=watch, daemon=True).start()

    def worker(i):
        tl.actor = ("W", i)
        pb.result_queue.put(results[i])
        with sc.cv:
            sc.finished.add(("W", i)); sc.cv.notify_all()

    def main_thread():
        tl.actor = "M"
        pb.stop()
        with sc.cv:
            sc.finished.add("M"); sc.cv.notify_all()
        orig_target_done.set()
    wthreads = [threading.Thread(target=worker, args=(i,), daemon=True) for i in range(k)]
    for t in wthreads:
        t.start()
    mth = threading.Thread(target=main_thread, daemon=True)
    unput = list(range(k))
    m_started = False
    executed = []
    for a in schedule:
        if a[0] == "W":
            if a[1] < len(unput):
                i = unput.pop(a[1])
                ok = sc.step(("W", i))
                executed.append(["W", i, ok])
        elif a[0] == "M":
            if not unput and not m_started:
                m_started = True
                mth.start()
                ok = sc.step("M")
                executed.append(["M", ok])
        else:
            ok = sc.step("C", timeout=2.0)
            executed.append(["C", ok])
    # completion: everything still pending runs freely
    sc.free_run()
    if not m_started:
        for t in wthreads:
            t.join(timeout=10)
        mth.start()
    orig_target_done.wait(timeout=20)
    collected = [r.genes_processed for r in pb.results]
    return {"collected": collected, "terminated": orig_target_done.is_set(), "executed": executed}


def op_replay(req):
    return {"ok": True, "runs": [replay(s, req["k"]) for s in req["schedules"]]}


OPS = {"collector.replay": op_replay}
