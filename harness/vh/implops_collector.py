"""Deterministic-scheduler replay of the real transposon.overlap_manager._ProgressBars (C11).

Instrumented queue / event objects make every operation of the collector thread (flag test, pop),
of each worker (put) and of the main thread (set) wait for the scheduler, so that an interleaving
chosen from the Coq model is executed on the real class. No hook in /repo is needed."""
import os, queue, threading, time


class Sched:
    def __init__(self):
        self.cv = threading.Condition()
        self.waiting = {}      # actor -> op name
        self.grant = None
        self.done_ops = 0
        self.free = False
        self.finished = set()

    def gate(self, actor, opname):
        """called by an actor thread before a gated operation; returns when granted"""
        with self.cv:
            if self.free:
                return
            self.waiting[actor] = opname
            self.cv.notify_all()
            while self.grant != actor and not self.free:
                self.cv.wait(timeout=5)
            self.waiting.pop(actor, None)

    def op_done(self, actor):
        with self.cv:
            if self.grant == actor:
                self.grant = None
                self.done_ops += 1
            self.cv.notify_all()

    def step(self, actor, timeout=5.0):
        """scheduler side: let [actor] perform its next gated operation; False if it never shows up"""
        t0 = time.time()
        with self.cv:
            while actor not in self.waiting:
                if actor in self.finished or time.time() - t0 > timeout:
                    return False
                self.cv.wait(timeout=0.05)
            n = self.done_ops
            self.grant = actor
            self.cv.notify_all()
            while self.done_ops == n:
                if time.time() - t0 > timeout:
                    return False
                self.cv.wait(timeout=0.05)
        return True

    def free_run(self):
        with self.cv:
            self.free = True
            self.cv.notify_all()


def replay(schedule, k):
    """schedule: list of ["W", i] | ["C"] | ["M"]; k results 0..k-1.
    Drives the real OverlapManager.calculate_overlap(): its pool is replaced by scripted workers that only
    put their result, its queues / stop event by gated ones. Returns the list calculate_overlap returned."""
    import tempfile, shutil
    import transposon.overlap_manager as om_mod
    from transposon.overlap import OverlapResult
    sc = Sched()
    tl = threading.local()
    ctx = {"pb": None}

    def me():
        return getattr(tl, "actor", None)

    def is_chrome():
        pb = ctx["pb"]
        return pb is not None and threading.current_thread() is pb._chrome_thread

    class GQ:
        """queue: gated for the collector thread and the scripted workers, direct for everybody else"""
        def __init__(self):
            self.inner = queue.Queue()

        def get(self, block=True, timeout=None):
            a = me() or ("C" if is_chrome() else None)
            if a is None:
                return self.inner.get(block, timeout)
            sc.gate(a, "get")
            try:
                return self.inner.get_nowait()       # an empty queue = the timeout expired
            finally:
                sc.op_done(a)

        def get_nowait(self):
            return self.get(False)

        def put(self, x, *a_, **k_):
            a = me()
            if a is None:
                self.inner.put(x); return
            sc.gate(a, "put")
            self.inner.put(x)
            sc.op_done(a)

        def put_nowait(self, x):
            self.put(x)

        def empty(self):
            return self.inner.empty()

        def qsize(self):
            return self.inner.qsize()

    class GE:
        def __init__(self):
            self.flag = False

        def is_set(self):
            if not is_chrome():
                return self.flag
            sc.gate("C", "is_set")
            v = self.flag
            sc.op_done("C")
            return v

        def set(self):
            a = me()
            if a is None:
                self.flag = True
                return
            sc.gate(a, "set")
            self.flag = True
            sc.op_done(a)

        def clear(self):
            self.flag = False

        def wait(self, timeout=None):
            return self.flag

    results = [OverlapResult(genes_processed=i, overlap_file="f%d" % i, gene_file="g%d" % i, te_file="t%d" % i) for i in range(k)]

    class FakePool:
        def __init__(self, processes=None):
            pass

        def __enter__(self):
            return self

        def __exit__(self, *a):
            return False

        def map(self, func, jobs):
            ths = []
            for i, job in enumerate(jobs):
                def work(i=i, job=job):
                    tl.actor = ("W", i)
                    job.result_queue.put(results[i])
                    with sc.cv:
                        sc.finished.add(("W", i)); sc.cv.notify_all()
                t = threading.Thread(target=work, daemon=True); t.start(); ths.append(t)
            for t in ths:
                t.join()
            return [None] * len(ths)

    class FakeMgr:
        def Queue(self, *a, **k_):
            return GQ()

    class FakeMP:
        managers = om_mod.multiprocessing.managers
        def Manager(self):
            return FakeMgr()
        def Event(self):
            return threading.Event()
        def cpu_count(self):
            return 2
        def Pool(self, processes=None):
            return FakePool(processes)

    real_mp = om_mod.multiprocessing
    d = tempfile.mkdtemp(prefix="vh_col_")
    returned = {"list": None, "exc": None}
    main_done = threading.Event()
    try:
        om_mod.multiprocessing = FakeMP()
        mgr = om_mod.OverlapManager([("g", "t")], d, range(0, 1))
        def fake_jobs():
            for i in range(k):
                yield om_mod._OverlapJob(gene_uid="c%d" % i, gene_path="g%d" % i, te_path="t%d" % i,
                                         output_filepath=os.path.join(d, "nonexistent_%d.h5" % i), window_range=range(0, 1),
                                         gene_names=["x"], progress_queue=mgr._progress_queue, result_queue=mgr._result_queue,
                                         stop_event=None)
        mgr._produce_jobs = fake_jobs
        orig_new = mgr._new_progress_bars
        def new_pb(jobs):
            pb = orig_new(jobs)
            pb.stop_event = GE()
            ctx["pb"] = pb
            def watch():
                while pb._chrome_thread is None or pb._chrome_thread.ident is None:
                    time.sleep(0.001)
                pb._chrome_thread.join()
                with sc.cv:
                    sc.finished.add("C"); sc.cv.notify_all()
            threading.Thread(target=watch, daemon=True).start()
            return pb
        mgr._new_progress_bars = new_pb

        def main_thread():
            tl.actor = "M"
            try:
                returned["list"] = mgr.calculate_overlap()
            except BaseException as e:   # noqa
                returned["exc"] = "%s: %s" % (type(e).__name__, e)
            with sc.cv:
                sc.finished.add("M"); sc.cv.notify_all()
            main_done.set()
        mth = threading.Thread(target=main_thread, daemon=True)
        mth.start()
        unput = list(range(k))
        m_done = False
        executed = []
        for a in schedule:
            if a[0] == "W":
                if a[1] < len(unput):
                    i = unput.pop(a[1])
                    executed.append(["W", i, sc.step(("W", i))])
            elif a[0] == "M":
                if not unput and not m_done:
                    m_done = True
                    executed.append(["M", sc.step("M")])
            elif a[0] == "S":
                time.sleep(float(a[1]))          # nobody is scheduled: the collector thread is starved for a while
                executed.append(["S", a[1]])
            else:
                executed.append(["C", sc.step("C", timeout=2.0)])
        sc.free_run()
        main_done.wait(timeout=20)
        lst = returned["list"]
        collected = [r.genes_processed for r in lst] if lst is not None else []
        return {"collected": collected, "terminated": main_done.is_set() and returned["exc"] is None, "executed": executed,
                "exc": returned["exc"]}
    finally:
        om_mod.multiprocessing = real_mp
        shutil.rmtree(d, ignore_errors=True)


def op_replay(req):
    return {"ok": True, "runs": [replay(s, req["k"]) for s in req["schedules"]]}


OPS = {"collector.replay": op_replay}
