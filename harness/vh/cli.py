"""Driver for the real command line (process_genome.py) in a scratch directory."""
import os, shutil, tempfile, json
from . import common, gen


def read_results(outdir):
    """parse every <genome>_<chrom>.h5 directly under outdir -> list of file dicts (as implworker.read_result_h5)"""
    from .implworker_lib import read_result_h5
    files = []
    for fn in sorted(os.listdir(outdir)):
        p = os.path.join(outdir, fn)
        if fn.endswith(".h5") and os.path.isfile(p):
            try:
                r = read_result_h5(p)
                r["file"] = fn
            except Exception as e:
                r = {"file": fn, "unreadable": "%s: %s" % (type(e).__name__, e), "cells": [], "chrom": None}
            files.append(r)
    return files


def run_cli(workdir, gene_path, te_path, cfg_path, outdir, genome="G", nproc=2, flags=(), env=None, timeout=180):
    cmd = [common.PY, os.path.join(common.REPO, "process_genome.py"), gene_path, te_path, genome, "-c", cfg_path,
           "-o", outdir] + (["-n", str(nproc)] if nproc else []) + list(flags)
    rc, out, err = common.run_child(cmd, timeout=timeout, cwd=workdir, env=common.child_env(env))
    return rc, (out + err)[-3000:]


def run_case_cli(case, nproc=2, flags=(), env=None, genome="G", keep=None, timeout=180):
    """Fresh scratch dir, one CLI run; returns {"rc":..., "log":..., "files":[...]}"""
    d = keep or tempfile.mkdtemp(prefix="vhcli_")
    try:
        g, t, c = os.path.join(d, "genes.tsv"), os.path.join(d, "tes.tsv"), os.path.join(d, "cfg.ini")
        gen.write_pair(case, g, t, c)
        out = os.path.join(d, "out")
        rc, log = run_cli(d, g, t, c, out, genome=genome, nproc=nproc, flags=flags, env=env, timeout=timeout)
        files = read_results(out) if os.path.isdir(out) else []
        return {"rc": rc, "log": log, "files": files, "ok": rc == 0}
    finally:
        if not keep:
            shutil.rmtree(d, ignore_errors=True)
