"""Generators of well-formed annotation pairs and window configurations.
Every choice is drawn from the random.Random instance passed in."""
import random

RESERVED = ["S_Revision", "O_Revision", "Total_TE_Density"]
MAXC = 2**31 - 1

ORDER_POOL = ["LTR", "TIR", "Helitron", "LINE", "DNA"]
SUPER_POOL = {"LTR": ["Gypsy", "Copia", "Unknown_LTR"], "TIR": ["Mutator", "hAT", "PIF_Harbinger"],
              "Helitron": ["Helitron"], "LINE": ["L1", "Unknown_LINE"], "DNA": ["CACTA", "hAT"]}


def gen_windows(r):
    k = r.random()
    if k < 0.25:
        first, delta, last = r.choice([0, 1, 5]), r.choice([1, 3, 50]), 0
        last = first + delta * r.randint(0, 3) + r.choice([0, 0, delta - 1])
    elif k < 0.6:
        first = r.choice([100, 250, 500])
        delta = r.choice([100, 250, 500, 777])
        last = first + delta * r.randint(0, 3) + r.choice([0, 0, 1, delta - 1])
    else:
        first = r.randint(0, 2000)
        delta = r.randint(1, 1500)
        last = first + r.randint(0, 4 * delta)
    return first, delta, last


def windows_list(first, delta, last):
    return list(range(first, last + 1, delta))


def gen_chromosome(r, cname, base, span, n_genes, n_tes, groups, maxw, feats):
    """Genes and TEs on one chromosome inside [base+1, base+span]."""
    genes, tes = [], []
    lo, hi = base + 1, base + span
    # genes
    for gi in range(n_genes):
        k = r.random()
        if k < 0.12 and base == 0:
            s = r.choice([1, 1, 2, 3, maxw, maxw + 1, maxw + 2, max(1, maxw - 1)])   # left window truncated / exactly at 0 / one short
            feats.add("gene_near_origin")
        else:
            s = r.randint(lo, hi - 1)
        ln = r.choice([1, 2, 10, 100, 500, 1500, r.randint(1, 3000)])
        s = max(1, min(s, hi))
        e = max(s, min(hi, s + ln - 1))
        genes.append({"name": "%s_g%d" % (cname, gi), "chrom": cname, "start": s, "stop": e,
                      "strand": r.choice(["+", "-", "+", "-", "."])})
    if n_genes >= 2 and r.random() < 0.3:          # overlapping genes
        g = dict(r.choice(genes)); g["name"] = "%s_gx" % cname
        g["start"] = max(lo, g["start"] - r.randint(0, 50)); genes.append(g)
        feats.add("overlapping_genes")
    if genes and r.random() < 0.3:                 # gene models sharing a start (different stops), in either file order
        g0 = r.choice(genes)
        g = dict(g0); g["name"] = "%s_gy" % cname
        g["stop"] = min(hi, g0["stop"] + r.choice([1, 7, 150, r.randint(1, 900)]))
        if g["stop"] == g0["stop"] and g0["stop"] > g0["start"]:
            g["stop"] = g0["stop"] - 1
        if g["stop"] != g0["stop"]:
            genes.insert(genes.index(g0) + r.choice([0, 1]), g)
            feats.add("genes_same_start")
    # region boundaries of interest, for TE placement
    marks = []
    for g in genes:
        for w in (0, maxw, r.randint(0, maxw + 1)):
            marks += [g["start"] - 1 - w, g["start"] - 1, g["start"], g["stop"], g["stop"] + 1, g["stop"] + 1 + w]
    marks = [m for m in marks if lo <= m <= hi] or [lo]
    def clampiv(s, e):
        s = max(lo, min(hi, s)); e = max(s, min(hi, e))
        return s, e
    while len(tes) < n_tes:
        o, sf = r.choice(groups)
        k = r.random()
        made = []
        if k < 0.22:       # chain of partial overlaps, last link maybe nested
            s = r.choice(marks) - r.randint(0, 300)
            ln = r.randint(1, 400)
            for _ in range(r.randint(2, 5)):
                made.append(clampiv(s, s + ln))
                s = s + r.randint(0, ln + 1)       # next start inside (or abutting: +ln+1) the previous
                ln = r.randint(1, 400)
            if r.random() < 0.5:
                a, b = made[0]
                made.append(clampiv(a + r.randint(0, max(0, b - a)), a + r.randint(0, max(0, b - a))))
            feats.add("chain")
        elif k < 0.36:     # nesting to depth up to 5
            s = r.choice(marks) - r.randint(0, 200); e = s + r.randint(20, 800)
            for _ in range(r.randint(2, 5)):
                made.append(clampiv(s, e))
                s += r.randint(0, 5); e -= r.randint(0, 5)
                if e < s: e = s
            feats.add("nesting")
        elif k < 0.46:     # identical starts, different stops; exact duplicates
            s = r.choice(marks) - r.randint(0, 100)
            for _ in range(r.randint(2, 4)):
                made.append(clampiv(s, s + r.choice([0, 10, 200, r.randint(0, 500)])))
            if r.random() < 0.5:
                made.append(made[0])
            feats.add("identical_start")
        elif k < 0.56:     # single-position and abutting TEs
            s = r.choice(marks) + r.randint(-2, 2)
            made.append(clampiv(s, s))
            made.append(clampiv(s + 1, s + 1 + r.randint(0, 50)))
            feats.add("abutting")
        elif k < 0.78:     # straddle a region boundary by -1/0/+1
            m = r.choice(marks)
            s = m + r.choice([-1, 0, 1]) - r.choice([0, 0, 30, 500]); e = m + r.choice([-1, 0, 1]) + r.choice([0, 0, 30, 500])
            if e < s: s, e = e, s
            made.append(clampiv(s, e))
            feats.add("boundary")
        else:
            s = r.randint(lo, hi); made.append(clampiv(s, s + r.randint(0, 1000)))
        same_group = r.random() < 0.75
        for (s, e) in made:
            oo, ss = (o, sf) if same_group else r.choice(groups)
            tes.append({"chrom": cname, "start": s, "stop": e, "order": oo, "superfam": ss,
                        "strand": r.choice(["+", "-"])})
    if genes and r.random() < 0.2:        # gene equal to a TE
        g = r.choice(genes); o, sf = r.choice(groups)
        tes.append({"chrom": cname, "start": g["start"], "stop": g["stop"], "order": o, "superfam": sf, "strand": "+"})
        feats.add("gene_equals_te")
    return genes, tes[: max(n_tes, 1) + 8]


def gen_groups(r):
    orders = r.sample(ORDER_POOL, r.randint(2, 3))
    groups = []
    for o in orders:
        for sf in r.sample(SUPER_POOL[o], r.randint(1, min(3, len(SUPER_POOL[o])))):
            groups.append((o, sf))
    if r.random() < 0.35 and len(orders) >= 2:
        # a name used on both axes with different members: superfamily named like order a, carried by order b
        a, b = r.sample(orders, 2)
        groups.append((b, a))
        if r.random() < 0.5:
            groups.append((a, a))
    if r.random() < 0.2:
        # identifiers are opaque: a name that differs from another only by a trailing blank is another group
        o, sf = r.choice(groups)
        groups.append((o, sf + " ") if r.random() < 0.6 else (o + " ", sf))
    return groups


def gen_pair(r, max_chrom=3, max_genes=6, max_tes=30, chrom_names=None, min_chrom=1):
    """A well-formed annotation pair + window config. Returns dict."""
    feats = set()
    first, delta, last = gen_windows(r)
    maxw = windows_list(first, delta, last)[-1]
    nchrom = r.randint(min_chrom, max_chrom)
    names = chrom_names or ["Chr%d" % (i + 1) for i in range(nchrom)]
    names = names[:nchrom]
    groups = gen_groups(r)
    kb = r.random()
    if kb < 0.6:
        base = 0
    elif kb < 0.8:
        base = r.randint(10**6, 10**7)
        feats.add("offset_1e6")
    else:
        base = None
        feats.add("offset_near_2^31")
    # a third of the near-limit inputs reach the limit itself: every coordinate <= 2^31-1, but right windows run past it
    at_limit = base is None and r.random() < 0.34
    if at_limit:
        feats.add("offset_at_2^31_windows_beyond")
    genes, tes = [], []
    for cn in names:
        span = r.choice([3000, 8000, 20000])
        b = base if base is not None else (MAXC - span if at_limit else MAXC - span - maxw - 2)
        g, t = gen_chromosome(r, cn, b, span, r.randint(1, max_genes), r.randint(0, max_tes), groups, maxw, feats)
        genes += g
        tes += t
    # every chromosome needs at least one TE (chromosome sets must agree)
    for cn in names:
        if not any(t["chrom"] == cn for t in tes):
            o, sf = r.choice(groups)
            b = base if base is not None else MAXC - 5000
            tes.append({"chrom": cn, "start": b + 10, "stop": b + 20, "order": o, "superfam": sf, "strand": "+"})
    if len(names) >= 2 and r.random() < 0.3:
        # the same element (coordinates and type) annotated on two chromosomes: they are different elements
        src = [t for t in tes if t["chrom"] == names[0]]
        for t in r.sample(src, min(len(src), r.randint(1, 3))):
            c = dict(t); c["chrom"] = r.choice(names[1:]); tes.append(c)
        feats.add("same_element_on_two_chromosomes")
    if r.random() < 0.12:
        tes = cross_order_only(r, tes, groups, feats)
    shuffled = r.random() < 0.5
    if shuffled:
        r.shuffle(genes); r.shuffle(tes)
        feats.add("shuffled_rows")
    else:
        genes.sort(key=lambda g: (g["chrom"], g["start"])); tes.sort(key=lambda t: (t["chrom"], t["start"]))
    return {"genes": genes, "tes": tes, "windows": [first, delta, last], "features": sorted(feats)}


def cross_order_only(r, tes, groups, feats):
    """re-label the TEs so that no two elements of one ORDER overlap while elements of different orders do (nesting and partial
    overlap across orders only): the all-TE total is then the only level at which anything has to be merged"""
    orders = sorted(set(o for o, _ in groups))
    if len(orders) < 2:
        return tes
    sf_of = {o: [sf for oo, sf in groups if oo == o] for o in orders}
    out = []
    for ch in sorted(set(t["chrom"] for t in tes)):
        mine = sorted((t for t in tes if t["chrom"] == ch), key=lambda t: (t["start"], t["stop"]))
        last_stop = {o: 0 for o in orders}
        for t in mine:
            free = [o for o in orders if last_stop[o] < t["start"]]
            if not free:
                continue                      # would overlap an element of every order: leave it out
            o = r.choice(free)
            last_stop[o] = t["stop"]
            t = dict(t); t["order"] = o; t["superfam"] = r.choice(sf_of[o])
            out.append(t)
        if not any(t["chrom"] == ch for t in out):
            t = dict(mine[0]); out.append(t)
    feats.add("overlap_across_orders_only")
    return out


def gen_large_group(r, n=700, supers=("Gypsy",)):
    """one chromosome, one gene in the middle of one group of n elements: long elements with many short ones nested in them
    (so that a scan has far more hits than a block of a few dozen), chains, true gaps; a few elements of another order across them"""
    tes, pos = [], 1000
    while len(tes) < n:
        k = r.random()
        if k < 0.15:       # a long element with 70-120 fragments nested in it
            L = r.randint(20000, 40000)
            tes.append((pos, pos + L))
            for _ in range(r.randint(70, 120)):
                a = pos + r.randint(0, L - 50)
                tes.append((a, min(pos + L, a + r.randint(1, 400))))
            pos += L + r.choice([1, 2, 50, 300])
        elif k < 0.6:      # a chain
            for _ in range(r.randint(2, 6)):
                ln = r.randint(1, 300)
                tes.append((pos, pos + ln)); pos += r.randint(0, ln + 1)
            pos += r.randint(2, 200)
        else:
            ln = r.randint(1, 200)
            tes.append((pos, pos + ln)); pos += ln + r.randint(2, 500)
    tes = tes[:n + 60]
    mid = tes[len(tes) // 2][0]
    lo_, hi_ = min(a for a, _ in tes), max(b for _, b in tes)
    ngen = 24                                   # genes all along the group: wherever a block boundary might fall
    genes = [{"name": "big_g%d" % i, "chrom": "ChrBig", "start": lo_ + (hi_ - lo_) * (i + 1) // (ngen + 1), "stop": lo_ + (hi_ - lo_) * (i + 1) // (ngen + 1) + 450,
              "strand": "+-."[i % 3]} for i in range(ngen)]
    rows = [{"chrom": "ChrBig", "start": a, "stop": b, "order": "LTR", "superfam": supers[i % len(supers)] if len(supers) > 1 else supers[0], "strand": "+"}
            for i, (a, b) in enumerate(tes)]
    for i in range(12):
        a = mid - 3000 + 600 * i
        rows.append({"chrom": "ChrBig", "start": a, "stop": a + 350, "order": "DNA", "superfam": "hAT", "strand": "-"})
    r.shuffle(rows)
    return {"genes": genes, "tes": rows, "windows": [500, 1500, 3500], "features": ["large_group_%d" % len(tes)]}


def gen_big_files(r, ngenes=260, ntes=420):
    """one chromosome whose cached intermediates are each larger than a buffered writer's buffer (8 KiB, often 64 KiB for pandas):
    many short genes and many TEs that mostly do not touch (so that the revision keeps them), a few overlapping pairs"""
    genes, tes, pos = [], [], 2000
    orders = [("LTR", "Gypsy"), ("LTR", "Copia"), ("DNA", "hAT"), ("DNA", "MULE"), ("LINE", "L1")]
    for i in range(ngenes):
        ln = r.randint(200, 900)
        genes.append({"name": "bigfile_gene_%04d" % i, "chrom": "ChrF", "start": pos, "stop": pos + ln, "strand": "+-."[i % 3]})
        pos += ln + r.randint(300, 1500)
    end = pos
    pos = 1
    for i in range(ntes):
        ln = r.randint(50, 700)
        o, s_ = orders[r.randrange(len(orders))]
        tes.append({"chrom": "ChrF", "start": pos, "stop": pos + ln, "order": o, "superfam": s_, "strand": "+"})
        pos += r.choice([ln + r.randint(1, max(2, (end // ntes) - 300)), ln // 2])
    r.shuffle(tes)
    return {"genes": genes, "tes": tes, "windows": [400, 400, 800], "features": ["big_files"]}


def has_same_group_overlap(tes):
    by = {}
    for t in tes:
        by.setdefault((t["chrom"], t["order"]), []).append((t["start"], t["stop"]))
    for l in by.values():
        l.sort()
        for (a, b), (c, d) in zip(l, l[1:]):
            if c <= b:
                return True
    return False


def write_pair(case, gene_path, te_path, cfg_path=None):
    """case may carry drop_gene_cols / drop_te_cols (lists of column names to omit), rename_gene_cols / rename_te_cols ({name: other
    name}: the data stay, under a header the pipeline does not know) and extra_gene_cols / extra_te_cols (names of additional columns)"""
    gcols = ["Gene_Name", "Chromosome", "Feature", "Start", "Stop", "Strand", "Length"]
    tcols = ["Chromosome", "Start", "Stop", "Strand", "Order", "SuperFamily", "Length"]
    gcols = [c for c in gcols if c not in case.get("drop_gene_cols", [])]
    tcols = [c for c in tcols if c not in case.get("drop_te_cols", [])]
    gren, tren = case.get("rename_gene_cols", {}), case.get("rename_te_cols", {})
    gext, text_ = list(case.get("extra_gene_cols", [])), list(case.get("extra_te_cols", []))
    with open(gene_path, "w") as f:
        f.write("\t".join([gren.get(c, c) for c in gcols] + gext) + "\n")
        for i, g in enumerate(case["genes"]):
            row = {"Gene_Name": g["name"], "Chromosome": g["chrom"], "Feature": "gene", "Start": "%d" % g["start"], "Stop": "%d" % g["stop"],
                   "Strand": g["strand"], "Length": "%d" % g.get("length", g["stop"] - g["start"] + 1)}
            f.write("\t".join([row[c] for c in gcols] + ["note_%d" % i for _ in gext]) + "\n")
    with open(te_path, "w") as f:
        f.write("\t".join([tren.get(c, c) for c in tcols] + text_) + "\n")
        for i, t in enumerate(case["tes"]):
            row = {"Chromosome": t["chrom"], "Start": "%d" % t["start"], "Stop": "%d" % t["stop"], "Strand": t.get("strand", "+"),
                   "Order": t["order"], "SuperFamily": t["superfam"], "Length": "%d" % (t["stop"] - t["start"] + 1)}
            f.write("\t".join([row[c] for c in tcols] + ["note_%d" % i for _ in text_]) + "\n")
    if cfg_path:
        first, delta, last = case["windows"]
        with open(cfg_path, "w") as f:
            f.write("[density_parameters]\nfirst_window_size = %d\nwindow_delta = %d\nlast_window_size = %d\n" % (first, delta, last))


def gen_pileup(r):
    """Deep pile-ups of same-group TEs on one gene flank (C03)."""
    c = gen_pair(r, max_chrom=2, max_genes=3, max_tes=10)
    g = r.choice(c["genes"])
    o, sf = r.choice([(t["order"], t["superfam"]) for t in c["tes"]])
    w = windows_list(*c["windows"])[-1]
    for _ in range(r.randint(20, 45)):
        side = r.random()
        if side < 0.4:
            a = g["start"] - 1 - r.randint(0, w + 5)
        elif side < 0.8:
            a = g["stop"] + 1 + r.randint(0, w + 5)
        else:
            a = r.randint(g["start"], g["stop"])
        a = min(MAXC, max(1, a))
        b = max(a, min(MAXC, a + r.choice([0, 1, 10, w, 3 * w + 7])))
        c["tes"].append({"chrom": g["chrom"], "start": a, "stop": b, "order": o, "superfam": sf, "strand": "+"})
    c["features"] = sorted(set(c["features"]) | {"pileup"})
    if r.random() < 0.15:
        # the same pile, but stacked across the orders only: no order overlaps itself anywhere in the annotation
        feats = set(c["features"])
        groups = sorted(set((t["order"], t["superfam"]) for t in c["tes"]))
        if len(set(o_ for o_, _ in groups)) < 2:
            groups.append(("Helitron" if groups[0][0] != "Helitron" else "LINE", "Xfam"))
        c["tes"] = cross_order_only(r, c["tes"], groups, feats)
        c["features"] = sorted(feats)
    r.shuffle(c["tes"])
    return c


def permutations_of(r, case, k):
    """k row orders of the same annotation pair: sorted, reversed, last-row-first, chromosome-interleaved, random."""
    out = []
    def mk(genes, tes, tag):
        c = dict(case); c["genes"] = list(genes); c["tes"] = list(tes); c["order_tag"] = tag
        return c
    gs = sorted(case["genes"], key=lambda g: (g["chrom"], g["start"], g["name"]))
    ts = sorted(case["tes"], key=lambda t: (t["chrom"], t["start"], t["stop"]))
    out.append(mk(gs, ts, "sorted"))
    out.append(mk(gs[::-1], ts[::-1], "reversed"))
    out.append(mk(gs[-1:] + gs[:-1], ts[-1:] + ts[:-1], "last_row_first"))
    gi = sorted(case["genes"], key=lambda g: (g["start"], g["chrom"]))
    ti = sorted(case["tes"], key=lambda t: (t["start"], t["chrom"]))
    out.append(mk(gi, ti, "chromosome_interleaved"))
    while len(out) < k:
        g2, t2 = list(case["genes"]), list(case["tes"])
        r.shuffle(g2); r.shuffle(t2)
        out.append(mk(g2, t2, "random"))
    return out[:k]
