"""Scripted execution of the real transposon.worker.WorkerProcess.run() (C20) with stub queues."""
import queue


class _ScriptEnd(BaseException):
    pass


class Script:
    """Answers are consumed in order; an answer of the wrong kind is dropped (as in the model)."""

    def __init__(self, answers):
        self.answers = list(answers)
        self.i = 0

    def next(self, kind):
        while self.i < len(self.answers):
            a = self.answers[self.i]
            self.i += 1
            if a[0] == kind:
                return a
        raise _ScriptEnd()


def run_worker_script(answers):
    from transposon.worker import WorkerProcess, Sentinel
    sc = Script(answers)
    trace = {"taken": [], "accepted": [], "sentinel_back": 0, "exited": None}

    class Ev:
        def is_set(self):
            return bool(sc.next("stop")[1])

        def wait(self, timeout=None):
            return self.is_set()

        def set(self):              # a worker that sets the shared stop signal itself: recorded, see run_siblings for what it does to a sibling
            trace["stop_set_by_worker"] = trace.get("stop_set_by_worker", 0) + 1

        def clear(self):
            pass

    class InQ:
        def get(self, timeout=None, block=True):
            a = sc.next("get")
            if a[1] == "empty":
                raise queue.Empty()
            if a[1] == "sentinel":
                return Sentinel()
            trace["taken"].append(a[2])
            return a[2]

        def put_nowait(self, x):
            if isinstance(x, Sentinel):
                trace["sentinel_back"] += 1

        def put(self, x, *a, **k):
            self.put_nowait(x)

        def get_nowait(self):
            return self.get(block=False)

        def empty(self):
            return False

        def full(self):
            return False

        def qsize(self):
            return 1

    class OutQ:
        # what a query of the queue's filling level says is out of date by the time of the next put (sibling producers):
        # "there is room" is always a possible answer, the put itself follows the script
        def full(self):
            return False

        def empty(self):
            return True

        def qsize(self):
            return 0

        def put(self, x, timeout=None, block=True):
            a = sc.next("put")
            if not a[1]:
                raise queue.Full()
            trace["accepted"].append(x)

        def put_nowait(self, x):
            self.put(x)

    class W(WorkerProcess):
        def execute_job(self, job):
            # every fourth job has a result that is falsy in Python without being None (a count of 0): a result like any other
            return 0 if job % 4 == 3 else job + 100

    w = W(InQ(), OutQ(), Ev())
    try:
        w.run()
        trace["exited"] = "sentinel" if trace["sentinel_back"] else "stop"
    except _ScriptEnd:
        trace["exited"] = None
    except Exception as e:      # run() itself let an exception escape: the worker process would die
        trace["exited"] = "exception"
        trace["exception"] = "%s: %s" % (type(e).__name__, e)
    return trace


def run_siblings(jobs, when):
    """Two real WorkerProcess objects sharing one job queue, one result queue and one stop signal, run in one thread under a
    fixed schedule: worker B runs; while B is inside execute_job of its `when`-th job, sibling A runs to its end (it takes the
    remaining jobs and the sentinel); then B resumes.  Nobody but the workers touches the stop signal."""
    from transposon.worker import WorkerProcess, Sentinel
    import collections
    inq, outq = collections.deque(list(jobs) + [Sentinel()]), []
    tr = {"taken": {"A": [], "B": []}, "accepted": [], "stop_set": False, "exited": {}, "sentinels_left": None}

    class Ev:
        def is_set(self):
            return tr["stop_set"]

        def wait(self, timeout=None):
            return tr["stop_set"]

        def set(self):
            tr["stop_set"] = True

        def clear(self):
            tr["stop_set"] = False

    class InQ:
        def __init__(self, who):
            self.who = who

        def get(self, timeout=None, block=True):
            if not inq:
                raise queue.Empty()
            x = inq.popleft()
            if not isinstance(x, Sentinel):
                tr["taken"][self.who].append(x)
            return x

        def get_nowait(self):
            return self.get(block=False)

        def put(self, x, *a, **k):
            inq.append(x)

        def put_nowait(self, x):
            inq.append(x)

        def empty(self):
            return not inq

        def full(self):
            return False

        def qsize(self):
            return len(inq)

    class OutQ:
        def put(self, x, timeout=None, block=True):
            outq.append(x)

        def put_nowait(self, x):
            outq.append(x)

        def full(self):
            return False

        def empty(self):
            return not outq

        def qsize(self):
            return len(outq)

    ev, out = Ev(), OutQ()
    state = {"n": 0}

    class A(WorkerProcess):
        def execute_job(self, job):
            return job + 100

    def run_one(w, who):
        try:
            w.run()
            tr["exited"][who] = "returned"
        except Exception as e:
            tr["exited"][who] = "exception %s: %s" % (type(e).__name__, e)

    class B(WorkerProcess):
        def execute_job(self, job):
            state["n"] += 1
            if state["n"] == when:
                run_one(A(InQ("A"), out, ev), "A")
            return job + 100

    run_one(B(InQ("B"), out, ev), "B")
    tr["accepted"] = list(outq)
    tr["sentinels_left"] = sum(1 for x in inq if isinstance(x, Sentinel))
    tr["jobs_left"] = [x for x in inq if not isinstance(x, Sentinel)]
    return tr


def op_worker_siblings(req):
    return {"ok": True, "traces": [run_siblings(c["jobs"], c["when"]) for c in req["cases"]]}


def op_worker_scripts(req):
    return {"ok": True, "traces": [run_worker_script(s) for s in req["scripts"]]}


def op_realproc(req):
    """A real WorkerProcess in a real process, real multiprocessing queues: n jobs then the sentinel, results of `size` bytes,
    a consumer that starts reading `delay` seconds late. Returns what arrived, in order, and whether the sentinel came back."""
    import multiprocessing as mp, time
    from transposon.worker import WorkerProcess, Sentinel
    n, size, delay = req["n"], req["size"], req["delay"]

    class W(WorkerProcess):
        def execute_job(self, job):
            return (job, b"x" * size)

    jq, rq, ev = mp.Queue(), mp.Queue(maxsize=req.get("maxsize", 0)), mp.Event()
    for j in range(n):
        jq.put(j)
    jq.put(Sentinel())
    w = W(jq, rq, ev)
    w.start()
    got, t0 = [], time.time()
    try:
        time.sleep(delay)
        while len(got) < n and time.time() - t0 < req.get("patience", 15):
            try:
                got.append(rq.get(timeout=0.5)[0])
            except queue.Empty:
                if not w.is_alive() and time.time() - t0 > delay + 3:
                    break
        w.join(timeout=5)
        alive = w.is_alive()
        back = None
        try:
            back = isinstance(jq.get(timeout=1), Sentinel)
        except queue.Empty:
            back = False
        return {"ok": True, "got": got, "exitcode": w.exitcode, "still_alive": alive, "sentinel_back": back, "seconds": round(time.time() - t0, 2)}
    finally:
        if w.is_alive():
            w.kill()
        for q_ in (jq, rq):
            q_.cancel_join_thread()


OPS = {"worker.scripts": op_worker_scripts, "worker.siblings": op_worker_siblings, "worker.realproc": op_realproc}
