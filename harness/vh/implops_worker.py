"""Scripted execution of the real transposon.worker.WorkerProcess.run() (C20) with stub queues."""
import queue


class _ScriptEnd(BaseException):
    pass


class Script:
    """Answers are consumed in order; an answer of the wrong kind is dropped (as in the model)."""

    def __init__(self, answers):
        self.answers = list(answers)
        self.i = 0

    def next(self, kind):
        while self.i < len(self.answers):
            a = self.answers[self.i]
            self.i += 1
            if a[0] == kind:
                return a
        raise _ScriptEnd()


def run_worker_script(answers):
    from transposon.worker import WorkerProcess, Sentinel
    sc = Script(answers)
    trace = {"taken": [], "accepted": [], "sentinel_back": 0, "exited": None}

    class Ev:
        def is_set(self):
            return bool(sc.next("stop")[1])

    class InQ:
        def get(self, timeout=None, block=True):
            a = sc.next("get")
            if a[1] == "empty":
                raise queue.Empty()
            if a[1] == "sentinel":
                return Sentinel()
            trace["taken"].append(a[2])
            return a[2]

        def put_nowait(self, x):
            if isinstance(x, Sentinel):
                trace["sentinel_back"] += 1

        def put(self, x, *a, **k):
            self.put_nowait(x)

    class OutQ:
        def put(self, x, timeout=None, block=True):
            a = sc.next("put")
            if not a[1]:
                raise queue.Full()
            trace["accepted"].append(x)

        def put_nowait(self, x):
            self.put(x)

    class W(WorkerProcess):
        def execute_job(self, job):
            return job + 100

    w = W(InQ(), OutQ(), Ev())
    try:
        w.run()
        trace["exited"] = "sentinel" if trace["sentinel_back"] else "stop"
    except _ScriptEnd:
        trace["exited"] = None
    return trace


def op_worker_scripts(req):
    return {"ok": True, "traces": [run_worker_script(s) for s in req["scripts"]]}


OPS = {"worker.scripts": op_worker_scripts}
