"""Independent property oracles (plain Python, no model): the brute-force statement of C01/C02."""


def merged(ivs):
    """canonical covered set of a list of closed intervals: maximal runs"""
    out = []
    for s, e in sorted(ivs):
        if out and s <= out[-1][1] + 1:
            out[-1][1] = max(out[-1][1], e)
        else:
            out.append([s, e])
    return [tuple(x) for x in out]


def covered_count(runs, lo, hi):
    n = 0
    for s, e in runs:
        a, b = max(s, lo), min(e, hi)
        if b >= a:
            n += b - a + 1
    return n


def region(side, gs, ge, w):
    if side == 0:
        return max(0, gs - 1 - w), gs - 1
    if side == 1:
        return gs, ge
    return ge + 1, ge + 1 + w


def spec_cells(case, windows):
    """dict (chrom, level, name, side, window|-1, gene) -> (N, D) for real groups and the total."""
    out = {}
    chroms = sorted(set(g["chrom"] for g in case["genes"]))
    for c in chroms:
        tes = [t for t in case["tes"] if t["chrom"] == c]
        groups = {}
        for t in tes:
            groups.setdefault((0, t["order"]), []).append((t["start"], t["stop"]))
            groups.setdefault((1, t["superfam"]), []).append((t["start"], t["stop"]))
            groups.setdefault((0, "Total_TE_Density"), []).append((t["start"], t["stop"]))
            groups.setdefault((1, "Total_TE_Density"), []).append((t["start"], t["stop"]))
        for (lv, name), ivs in groups.items():
            runs = merged(ivs)
            for g in case["genes"]:
                if g["chrom"] != c:
                    continue
                for side in (0, 1, 2):
                    for w in ([-1] if side == 1 else windows):
                        lo, hi = region(side, g["start"], g["stop"], w)
                        out[(c, lv, name, side, w, g["name"])] = (covered_count(runs, lo, hi), hi - lo + 1)
    return out


def value_matches(v, n, d):
    """float acceptance rule of DESIGN 2.4"""
    if d <= 0 or v != v:
        return False
    if abs(v - n / d) > 2.0 ** -22:
        return False
    if d <= 2 ** 21 and round(v * d) != n:
        return False
    return True
