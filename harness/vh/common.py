"""Shared plumbing of the /verif checks: paths, PRNG, subprocess hygiene, Coq build and
model evaluation, evidence, known findings, violation reporting."""
import json, os, re, signal, subprocess, sys, time, random, hashlib, shutil, tempfile, fcntl

VERIF = os.path.abspath(os.path.join(os.path.dirname(__file__), "..", ".."))
REPO = os.environ.get("VERIF_REPO", "/repo")
COQ = os.environ.get("VERIF_COQ_DIR") or os.path.join(VERIF, "coq")     # a private copy (with ../translator beside it) lets runs against scratch worktrees go in parallel
BUILD = os.path.join(VERIF, "build")
PY = "/venv/bin/python"
GUARD = "TE_DENSITY_VERIF"

TRUSTED_BASE = [
    "Coq 8.16.1 kernel + coqc; vm_compute (bytecode VM) used for Examples, refutation witnesses and model evaluation; no native_compute",
    "axioms: none declared; every Props theorem must print 'Closed under the global context' (checked on every run), except Props/C03float.v (Flocq over Coq's reals), whose theorems depend on exactly the standard library's ClassicalDedekindReals.sig_forall_dec, ClassicalDedekindReals.sig_not_dec, FunctionalExtensionality.functional_extensionality_dep, Classical_Prop.classic (also checked on every run)",
    "translator /verif/translator/py2gallina.py (Python ast -> Gallina; pointwise reading of numpy array expressions; np.clip(x,0,None)=max 0 x; Python range)",
    "the other translators under /verif/translator, each fail-closed, each with the table of its trusted readings in its docstring: py2gallina_cache (cache decisions over an abstract file system), _revise (pandas idioms of the revision's recursion), _guards (refusal guards as boolean functions), _reader (loading protocol over symbolic file names), _writers (writers as file-action lists), _store (h5py require_dataset), _overlap (assignment log of the overlap loop), _merge (recogniser of the summation), _lookup (lookup by labels), _jobs (file names through the job tuples), _pair (dicts, sets, list(s)[0] as an oracle), _flow (which statements may raise; polls of a queue are not failures; an uncaught exception of the main block is a non-zero exit status; pool.map re-raises), _cf (queue/event loops as interaction programs)",
    "correspondence harness /verif/harness (generators, drivers, abstraction functions, float acceptance rule |v-N/D|<=2^-22 and round(v*D)=N, parser of Coq's printed list Z); no OCaml extraction",
    "CPython 3.12, pandas 3.0.6, numpy 2.5.3, h5py 3.16/HDF5, multiprocessing, the file system",
    "modelled not verified: int32/float32 narrowing (theorems over Z; coordinates <= 2^31-1, regions <= 2^21 in the harness), pandas/h5py semantics tied by execution only",
]


def child_env(extra=None):
    env = dict(os.environ)
    env["PYTHONPATH"] = REPO + os.pathsep + os.path.join(VERIF, "harness")
    env.setdefault("PYTHONHASHSEED", "0")
    env["TQDM_DISABLE"] = "1"
    env[GUARD] = "1"
    env["PYTHONDONTWRITEBYTECODE"] = "1"
    env["OMP_NUM_THREADS"] = "1"
    env["NUMEXPR_MAX_THREADS"] = "1"
    env["NUMEXPR_NUM_THREADS"] = "1"
    if extra:
        env.update(extra)
    return env


def run_child(cmd, timeout, cwd=None, env=None, stdin_data=None):
    """Run a child in its own session; kill the whole group afterwards (a killed pipeline
    leaves multiprocessing.Manager servers behind otherwise). Returns (rc, out, err).
    The output goes to scratch files, not pipes, and the wait is for the MAIN process: descendants that outlive it
    (pool workers and manager servers of a main process that was terminated) cannot hold the call up."""
    fo = tempfile.TemporaryFile(); fe = tempfile.TemporaryFile()
    p = subprocess.Popen(cmd, cwd=cwd, env=env or child_env(), stdin=subprocess.PIPE if stdin_data is not None else subprocess.DEVNULL,
                         stdout=fo, stderr=fe, start_new_session=True)
    timed_out = False
    try:
        if stdin_data is not None:
            try:
                p.stdin.write(stdin_data); p.stdin.close()
            except (BrokenPipeError, OSError):
                pass
        try:
            rc = p.wait(timeout=timeout)
        except subprocess.TimeoutExpired:
            rc, timed_out = -999, True
    finally:
        try:
            os.killpg(p.pid, signal.SIGKILL)
        except (ProcessLookupError, PermissionError):
            pass
        try:
            p.wait(timeout=5)
        except Exception:
            pass
    fo.seek(0); fe.seek(0)
    out, err = fo.read(), fe.read()
    fo.close(); fe.close()
    if timed_out:
        out, err = b"", b"TIMEOUT"
    return rc, out.decode("utf-8", "replace"), err.decode("utf-8", "replace")


# ---------------------------------------------------------------- Coq
def coq_build(targets=()):
    """Translate the kernel and the cache decisions of /repo, then make the given targets
    (relative to /verif/coq, e.g. theories/Props/C01.vo) - full .vo build, never -vos.
    Returns (ok, text, failing_file_or_None)."""
    os.makedirs(BUILD, exist_ok=True)
    t0 = time.time()
    env = dict(os.environ); env["VERIF_REPO"] = REPO
    r = subprocess.run([os.path.join(COQ, "build.sh")] + list(targets), capture_output=True, text=True, env=env)
    text = r.stdout + r.stderr
    if r.returncode != 0:
        m = re.search(r'File "\./(theories/[^"]+)"', text)
        return False, text[-3000:], (m.group(1) if m else "unknown")
    return True, "built in %.1fs" % (time.time() - t0), None


def translator_status(which):
    """(ok, message) of the last translation: which = 'kernel' | 'cache'"""
    p = os.path.join(COQ, "theories", "Gen", which + ".status")
    try:
        txt = open(p).read()
    except OSError:
        return False, "no status file"
    return txt.strip().endswith("exit 0"), txt[-1500:]


HYGIENE_RE = re.compile(r"\b(Admitted|admit|Axiom|Axioms|Parameter|Parameters|Conjecture|Hypothesis|Variable[s]?)\b|Unset\s+Guard|bypass_check|type-in-type|impredicative-set|Admit Obligations")


def hygiene():
    """grep the sources for anything that would declare an axiom or weaken the kernel.
    Variable/Hypothesis are allowed inside Sections only (checked by section depth)."""
    bad = []
    for root, _d, files in os.walk(os.path.join(COQ, "theories")):
        for f in files:
            if not f.endswith(".v"):
                continue
            path = os.path.join(root, f)
            depth = 0
            src = open(path).read()
            src = re.sub(r"\(\*.*?\*\)", "", src, flags=re.S)
            for ln, line in enumerate(src.split("\n"), 1):
                if re.match(r"\s*Section\b", line):
                    depth += 1
                if re.match(r"\s*End\b", line) and depth > 0:
                    depth -= 1
                for m in HYGIENE_RE.finditer(line):
                    w = m.group(0)
                    if w.startswith(("Variable", "Hypothesis")) and depth > 0:
                        continue
                    bad.append("%s:%d: %s" % (os.path.relpath(path, VERIF), ln, w))
    return bad


def props_assumptions(prop_file):
    """Compile-time output of Print Assumptions for Props/<id>.v: returns list of
    (theorem, closed?) by re-running coqc on the props file."""
    path = os.path.join(COQ, "theories", "Props", prop_file)
    pa = os.path.join(BUILD, "pa")
    os.makedirs(pa, exist_ok=True)
    shutil.copyfile(path, os.path.join(pa, prop_file))
    r = subprocess.run(["coqc", "-R", os.path.join(COQ, "theories"), "TEV", "-w", "-notation-overridden", prop_file],
                       capture_output=True, text=True, cwd=pa, timeout=600)
    out = r.stdout + r.stderr
    if r.returncode != 0:
        return None, out
    closed = out.count("Closed under the global context")
    blocks = re.findall(r"Axioms:\n((?:.+\n?)+?)(?=Axioms:|\Z|Closed under)", out)
    axioms = []
    for b in blocks:
        axioms.append(sorted(set(re.findall(r"^([A-Za-z_][\w.']*)\s*(?::|$)", b, flags=re.M))))
    src = open(path).read()
    n_print = len(re.findall(r"^Print Assumptions", src, flags=re.M))
    thms = re.findall(r"^(?:Theorem|Corollary)\s+(\w+)", src, flags=re.M)
    return {"theorems": thms, "n_print": n_print, "closed": closed, "axioms": axioms}, out


def coqchk(modules, timeout=1800):
    """independent re-check of compiled files (and everything they depend on) with coqchk -o; returns (ok, summary dict, text)"""
    r = subprocess.run(["coqchk", "-silent", "-o", "-R", os.path.join(COQ, "theories"), "TEV"] + list(modules),
                       capture_output=True, text=True, cwd=COQ, timeout=timeout)
    out = r.stdout + r.stderr
    m = re.search(r"CONTEXT SUMMARY(.*)", out, flags=re.S)
    summ = {}
    if m:
        for key, label in (("axioms", "Axioms"), ("type_in_type", "Constants/Inductives relying on type-in-type"),
                           ("unsafe_fix", "Constants/Inductives relying on unsafe (co)fixpoints"), ("positivity", "Inductives whose positivity is assumed")):
            mm = re.search(r"\* " + re.escape(label) + r":(.*?)(?=\n\* |\Z)", m.group(1), flags=re.S)
            txt = mm.group(1).strip() if mm else "?"
            summ[key] = [] if txt == "<none>" else [x.strip() for x in txt.split("\n") if x.strip()]
    return r.returncode == 0 and bool(m), summ, out[-3000:]


def coq_eval(tag, imports, defs, exprs, chunk=8, timeout=600):
    """Evaluate closed Gallina expressions of type list Z with vm_compute, in parallel
    chunks. Returns a list (one per expr) of list[int], or raises RuntimeError."""
    d = os.path.join(BUILD, "cases", tag)
    shutil.rmtree(d, ignore_errors=True)
    os.makedirs(d)
    files = []
    for k in range(0, len(exprs), chunk):
        name = "cases_%d" % (k // chunk)
        with open(os.path.join(d, name + ".v"), "w") as f:
            f.write(imports + "\nFrom Coq Require Import ZArith NArith List.\nImport ListNotations.\nOpen Scope Z_scope.\n"
                    "Set Printing Depth 100000000.\nSet Printing Width 100000.\n" + defs + "\n")
            for i, e in enumerate(exprs[k:k + chunk]):
                f.write("Definition case_%d : list Z := %s.\n" % (i, e))
                f.write("Eval vm_compute in (777777 :: case_%d).\n" % i)
        files.append(name)
    procs = []
    results = {}
    maxpar = 16
    pending = list(files)
    running = []
    while pending or running:
        while pending and len(running) < maxpar:
            name = pending.pop(0)
            p = subprocess.Popen("ulimit -s unlimited; exec timeout %d coqc -R %s TEV -w -notation-overridden %s.v" %
                                 (timeout, os.path.join(COQ, "theories"), name), shell=True, cwd=d,
                                 stdout=subprocess.PIPE, stderr=subprocess.PIPE, text=True)
            running.append((name, p))
        name, p = running.pop(0)
        out, errt = p.communicate()
        if p.returncode != 0:
            raise RuntimeError("coqc failed on %s/%s.v: %s" % (d, name, (out + errt)[-2000:]))
        parts = out.split("777777")[1:]
        results[name] = [[int(x) for x in re.findall(r"-?\d+", part.split(": list Z")[0])] for part in parts]
    res = []
    for name in files:
        res.extend(results[name])
    if len(res) != len(exprs):
        raise RuntimeError("coq_eval: expected %d results, got %d" % (len(exprs), len(res)))
    shutil.rmtree(d, ignore_errors=True)
    return res


# ---------------------------------------------------------------- literals
def zlit(x):
    return "(%d)" % x if x < 0 else "%d" % x


def nlit(x):
    return "%d%%N" % x


def zlist(xs):
    return "[" + "; ".join(zlit(x) for x in xs) + "]"


# ---------------------------------------------------------------- findings / evidence
def load_findings():
    p = os.path.join(VERIF, "known_findings.json")
    if not os.path.exists(p):
        return {"open": [], "fixed": []}
    return json.load(open(p))


class Check:
    """One run of one property's check: collects obligations, correspondence counts,
    violations; writes evidence; prints VIOLATION / KNOWN-FINDING lines; exit status."""

    def __init__(self, pid, tier, seed):
        self.pid, self.tier, self.seed = pid, tier, seed
        self.t0 = time.time()
        self.obligations = []      # (name, ok, detail)
        self.violations = []       # dicts
        self.known_hits = []
        self.cov = {"evaluations": 0, "distinct_nontrivial": 0, "traces_validated_against_impl": 0,
                    "samples": [], "histogram": {}}
        self.assumptions = []
        self.notes = []
        self.findings = load_findings()
        self._distinct = set()

    def rng(self, *salt):
        h = hashlib.sha256(("%d|%s|" % (self.seed, self.pid) + "|".join(map(str, salt))).encode()).digest()
        return random.Random(int.from_bytes(h[:8], "big"))

    def oblige(self, name, ok, detail=""):
        self.obligations.append((name, bool(ok), detail))

    def count(self, key, n=1):
        self.cov["histogram"][key] = self.cov["histogram"].get(key, 0) + n

    def case_seen(self, canon, nontrivial):
        self.cov["evaluations"] += 1
        if nontrivial:
            h = hashlib.sha1(json.dumps(canon, sort_keys=True, default=str).encode()).hexdigest()
            if h not in self._distinct:
                self._distinct.add(h)
                self.cov["distinct_nontrivial"] += 1

    def sample(self, s, limit=3):
        if len(self.cov["samples"]) < limit:
            self.cov["samples"].append(s)

    def violation(self, what, replay, signature=None, found_input=True):
        """signature: string matched against known_findings 'open' entries of this property."""
        for k in self.findings.get("open", []):
            if k["property"] == self.pid and signature is not None and k["signature"] == signature:
                self.known_hits.append((k, what))
                return
        rdir = os.path.join(VERIF, "replays", self.pid)
        os.makedirs(rdir, exist_ok=True)
        path = os.path.join(rdir, "%d-%d.json" % (self.seed, len(self.violations)))
        replay = dict(replay)
        replay.update({"property": self.pid, "what": what, "signature": signature, "seed": self.seed, "tier": self.tier,
                       "failing_input_found": found_input})
        with open(path, "w") as f:
            json.dump(replay, f, indent=1, default=str)
        self.violations.append({"what": what, "path": path, "found_input": found_input})

    def finish(self, level="proof", checker_cmd="cd /verif/coq && ./build.sh (coq_makefile + make, full .vo) ; coqc Props/<id>.v (Print Assumptions)", rule="", exhaustive=None, extra=None):
        n_obl = len(self.obligations)
        n_ok = sum(1 for o in self.obligations if o[1])
        broken = [o for o in self.obligations if not o[1]]
        if broken and not self.violations:
            # a proof obligation or tie broke and no failing input was exhibited
            self.violation("obligation(s) no longer check: " + "; ".join(o[0] for o in broken),
                           {"broken_obligations": [{"name": o[0], "detail": o[2][-3000:]} for o in broken]},
                           signature=None, found_input=False)
        cov = dict(self.cov)
        cov.update({"obligations": n_obl, "discharged": n_ok, "checker_cmd": checker_cmd,
                    "trusted_base": TRUSTED_BASE, "rule": rule,
                    "obligation_list": [{"name": o[0], "ok": o[1]} for o in self.obligations]})
        if exhaustive is not None:
            cov["exhaustive"] = exhaustive
        if extra:
            cov.update(extra)
        if not cov["samples"]:
            cov["samples"] = [{"note": "no correspondence case was run"}]
        ev = {"property_id": self.pid, "tier": self.tier, "seed": self.seed, "level": level, "coverage": cov,
              "assumptions": self.assumptions + self.notes, "wall_s": round(time.time() - self.t0, 2),
              "violations": len(self.violations)}
        # evidence under /verif/evidence describes /repo itself; a run against another tree (seeded changes) is kept apart
        evdir = os.path.join(VERIF, "evidence") if os.path.realpath(REPO) == "/repo" else os.path.join(BUILD, "evidence_other_tree")
        os.makedirs(evdir, exist_ok=True)
        with open(os.path.join(evdir, self.pid + ".json"), "w") as f:
            json.dump(ev, f, indent=1, default=str)
        for k, what in self.known_hits[:20]:
            print("KNOWN-FINDING: property=%s %s" % (self.pid, k.get("what", what)))
        for v in self.violations:
            line = "VIOLATION property=%s replay=%s" % (self.pid, v["path"])
            if not v["found_input"]:
                line += " no-failing-input-found"
            print(line)
        print("%s %s: obligations %d/%d, evaluations %d (nontrivial distinct %d), violations %d, %.1fs" %
              (self.pid, self.tier, n_ok, n_obl, cov["evaluations"], cov["distinct_nontrivial"], len(self.violations),
               time.time() - self.t0))
        return 1 if self.violations else 0
