"""Encoding of annotation pairs as Gallina literals and decoding of the model's flat output."""
from .common import zlit, nlit, coq_eval
from . import gen

IMPORTS = "From TEV Require Import Model.Pipeline."
STRAND = {"+": 0, "-": 1, ".": 2}


def ranks(case):
    names = set(gen.RESERVED)
    for g in case["genes"]:
        names.add(g["chrom"]); names.add(g["name"])
    for t in case["tes"]:
        names.add(t["chrom"]); names.add(t["order"]); names.add(t["superfam"])
    order = sorted(names)            # Python str order = code-point order
    return {n: i for i, n in enumerate(order)}, order


def te_lit(t, rk):
    return "mkTE %s %s %s %s %s" % (nlit(rk[t["chrom"]]), zlit(t["start"]), zlit(t["stop"]), nlit(rk[t["order"]]), nlit(rk[t["superfam"]]))


def gene_lit(g, rk):
    return "mkG %s %s %s %s %s %s" % (nlit(rk[g["chrom"]]), nlit(rk[g["name"]]), zlit(g["start"]), zlit(g["stop"]),
                                      zlit(g.get("length", g["stop"] - g["start"] + 1)), nlit(STRAND.get(g["strand"], 9)))


def lits(case, rk):
    gl = "[" + "; ".join(gene_lit(g, rk) for g in case["genes"]) + "]"
    tl = "[" + "; ".join(te_lit(t, rk) for t in case["tes"]) + "]"
    res = " ".join(nlit(rk[x]) for x in gen.RESERVED)
    return gl, tl, res


def run_expr(case, rk):
    gl, tl, res = lits(case, rk)
    f, d, l = case["windows"]
    return "flat_run %s %s %s %s %s %s" % (res, zlit(f), zlit(d), zlit(l), gl, tl)


def revised_expr(case, rk):
    gl, tl, res = lits(case, rk)
    return "flat_revised %s %s" % (res, tl)


def decode_run(flat, order):
    """-> ('err', code) or ('ok', {(chrom, lv, name, side, w, gene): (N, D)})"""
    if flat[0] != 0:
        return "err", flat[0]
    body = flat[1:]
    cells = {}
    i, n = 0, len(body)
    c = lv = name = sd = w = None
    while i < n:
        t = body[i]
        if t == -100:
            c = order[body[i + 1]]; i += 2
        elif t == -101:
            lv, name = body[i + 1], order[body[i + 2]]; i += 3
        elif t == -102:
            sd, w = body[i + 1], body[i + 2]; i += 3
        else:
            cells[(c, lv, name, sd, w, order[t])] = (body[i + 1], body[i + 2]); i += 3
    return "ok", cells


def decode_revised(flat, order):
    rows = []
    for i in range(0, len(flat), 6):
        c, s, e, o, sf, ln = flat[i:i + 6]
        rows.append({"chrom": order[c], "start": s, "stop": e, "order": order[o], "superfam": order[sf], "length": ln})
    return rows


def eval_cases(tag, cases, what="run"):
    exprs, orders = [], []
    for c in cases:
        rk, order = ranks(c)
        exprs.append(run_expr(c, rk) if what == "run" else revised_expr(c, rk))
        orders.append(order)
    flats = coq_eval(tag, IMPORTS, "", exprs)
    if what == "run":
        return [decode_run(f, o) for f, o in zip(flats, orders)]
    return [decode_revised(f, o) for f, o in zip(flats, orders)]
