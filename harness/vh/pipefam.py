"""Shared machinery of the data-path properties (C01-C07, C14a): run annotation pairs through the
library stages of the implementation and through the Coq model, abstract, compare."""
import copy, json, os
from . import gen, oracle, modelio, pool, common


def impl_cells(rep):
    """impl reply -> ({key: float}, {chrom: file-info}, problems)"""
    cells, files, problems = {}, {}, []
    for f in rep["files"]:
        if "unreadable" in f or "cells" not in f:
            problems.append("result file %s cannot be read back: %s" % (f.get("file"), str(f.get("unreadable"))[:200]))
            continue
        files[f["chrom"]] = f
        for ch, lv, name, side, w, g, v in f["cells"]:
            if name == "__SHAPE__":
                problems.append("array shape does not match axis labels in %s: %s" % (f["file"], f["shapes"]))
                continue
            k = (ch, lv, name, side, w, g)
            if k in cells:
                problems.append("duplicate label %r in %s" % (k, f["file"]))
            cells[k] = v
    return cells, files, problems


def real_names(case):
    o = set(t["order"] for t in case["tes"])
    s = set(t["superfam"] for t in case["tes"])
    return o, s


def is_real_key(k, onames, snames):
    _c, lv, name, _sd, _w, _g = k
    if name == "Total_TE_Density":
        return True
    return name in (onames if lv == 0 else snames)


def check_c01_case(case, rep, model):
    """Compare implementation output with the model and with the brute-force statement.
    Returns (list of property failures, list of model/impl differences)."""
    prop_fail, diffs = [], []
    ws = gen.windows_list(*case["windows"])
    spec = oracle.spec_cells(case, ws)
    if not rep.get("ok"):
        prop_fail.append({"kind": "run_failed", "exc": rep.get("exc"), "msg": rep.get("msg")})
        if model[0] == "ok":
            diffs.append("model succeeds, implementation raised %s" % rep.get("exc"))
        return prop_fail, diffs
    cells, files, problems = impl_cells(rep)
    for p in problems:
        prop_fail.append({"kind": "layout", "msg": p})
    onames, snames = real_names(case)
    # windows listed
    for ch, f in files.items():
        if f["windows"] != ws:
            prop_fail.append({"kind": "windows", "chrom": ch, "expected": ws, "got": f["windows"]})
    # key set: every (gene, real group present on the chromosome, window, side) exactly
    real_impl = {k for k in cells if is_real_key(k, onames, snames)}
    missing = sorted(set(spec) - real_impl)
    extra = sorted(real_impl - set(spec))
    if missing:
        prop_fail.append({"kind": "missing_cells", "n": len(missing), "first": list(missing[0])})
    if extra:
        prop_fail.append({"kind": "extra_cells", "n": len(extra), "first": list(extra[0])})
    nbad = 0
    for k, (n, d) in spec.items():
        if k in cells and not oracle.value_matches(cells[k], n, d):
            nbad += 1
            if nbad <= 3:
                prop_fail.append({"kind": "value", "key": list(k), "expected_N": n, "expected_D": d, "got": cells[k],
                                  "got_times_D": cells[k] * d})
    if nbad > 3:
        prop_fail.append({"kind": "value_more", "n": nbad})
    # model vs implementation (all real keys)
    if model[0] != "ok":
        diffs.append("implementation succeeds, model returns error code %s" % (model[1],))
    else:
        mcells = {k: v for k, v in model[1].items() if is_real_key(k, onames, snames)}
        if set(mcells) != real_impl:
            diffs.append("key sets differ: model-only %d, impl-only %d" % (len(set(mcells) - real_impl), len(real_impl - set(mcells))))
        nd = 0
        for k, (n, d) in mcells.items():
            if k in cells and not oracle.value_matches(cells[k], n, d):
                nd += 1
        if nd:
            diffs.append("%d cells differ between model and implementation" % nd)
    return prop_fail, diffs


def run_impl(cases, opts=None, timeout=180):
    reqs = []
    for c in cases:
        r = {"op": "pipeline", "case": c}
        if opts:
            r.update(opts)
        reqs.append(r)
    return pool.run_requests(reqs, timeout=timeout)


def shrink(case, still_fails, budget=60):
    """Greedy reduction of an annotation pair while `still_fails(case)` holds."""
    best = copy.deepcopy(case)
    spent = [0]

    def attempt(c):
        if spent[0] >= budget:
            return False
        spent[0] += 1
        try:
            return still_fails(c)
        except Exception:
            return False
    # chromosomes
    chroms = sorted(set(g["chrom"] for g in best["genes"]))
    for ch in chroms:
        if len(set(g["chrom"] for g in best["genes"])) <= 1:
            break
        c = copy.deepcopy(best)
        c["genes"] = [g for g in c["genes"] if g["chrom"] != ch]
        c["tes"] = [t for t in c["tes"] if t["chrom"] != ch]
        if c["genes"] and c["tes"] and attempt(c):
            best = c
    # windows -> a single window
    f, d, l = best["windows"]
    for w in gen.windows_list(f, d, l):
        c = copy.deepcopy(best); c["windows"] = [w, 1, w]
        if attempt(c):
            best = c
            break
    for key, minimum in (("genes", 1), ("tes", 1)):
        changed = True
        while changed and spent[0] < budget:
            changed = False
            n = len(best[key])
            step = max(1, n // 2)
            while step >= 1 and spent[0] < budget:
                i = 0
                while i < len(best[key]) and spent[0] < budget:
                    c = copy.deepcopy(best)
                    del c[key][i:i + step]
                    chs_g = set(g["chrom"] for g in c["genes"]); chs_t = set(t["chrom"] for t in c["tes"])
                    if len(c[key]) >= minimum and chs_g == chs_t and attempt(c):
                        best = c; changed = True
                    else:
                        i += step
                step //= 2
    return best


def load_corpus(pid):
    d = os.path.join(common.VERIF, "corpus", pid)
    out = []
    if os.path.isdir(d):
        for fn in sorted(os.listdir(d)):
            if fn.endswith(".json"):
                c = json.load(open(os.path.join(d, fn)))
                c["_corpus"] = fn
                out.append(c)
    return out


def nontrivial(case):
    return gen.has_same_group_overlap(case["tes"]) and "boundary" in case.get("features", ["boundary"])


GEN = {"kernel": ("theories/Gen/GenEquiv.vo", "kernel of /repo (gene_datum.py, overlap.py, revise_annotation.py, process_genome.py windows): 15 equivalence lemmas"),
       "cache": ("theories/Gen/GenCacheEquiv.vo", "cache decisions of /repo (verify_chromosome_h5_cache, revise_annotation, _is_current, _filter_jobs): 3 equivalence lemmas"),
       "revise": ("theories/Props/C02code.vo", "recursion of /repo's ReviseAnno (call_merge, merge_by_like + 5 helpers) over data frames: equal to Model.Revise.revise on every group with unique row labels, never raises, 2n+1 calls (Proofs/ReviseCodeP.v)"),
       "guards": ("theories/Proofs/GuardsP.vo", "guard functions of /repo (MergeData._validate_chromosome/_windows/_gene_names, PreProcessor._validate_split, check_strand; the calls of the guards by MergeData.sum and import_filtered_genes): accept exactly what the models accept (Proofs/GuardsP.v)"),
       "reader": ("theories/Props/C15code.vo", "loading protocol of /repo's DensityData (__init__, _swap_strand_vals, _index_of_gene, verify_h5_cache) over symbolic file names: same raw file, same trusted copy, same values served as Model.Reader.load; exchange loop = swap_all (Proofs/ReaderCodeP.v)"),
       "writers": ("theories/Props/C12code.vo", "writers of the reused intermediates of /repo (ReviseAnno._write, GeneData.write, TransposonData.write, _calculate_overlap_job, error path of _process_overlap_job) as lists of file actions: atomic at every crash point (Props/C12code.v)"),
       "store": ("theories/Props/C19code.vo", "opening of /repo's density store (_DensitySubset.__init__ and the six methods it calls), executed symbolically over h5py's require_dataset: equal to Model.Store2.open for every configuration and stored group (Proofs/StoreCodeP.v)"),
       "cf_worker_run": ("theories/Props/C20code.vo", "control flow of /repo's WorkerProcess.run (+ _send_result) as an interaction program: equal to Model/Worker.v on every script (Proofs/WorkerProgP.v)"),
       "cf_handle_chrome": ("theories/Props/C11code.vo", "control flow of /repo's _ProgressBars.handle_chrome (+ _pop, _collect) as an interaction program: in lockstep with Model/Collector.v under every schedule (Proofs/CollectorProgP.v)")}
# further property files (theorems about the translated code) whose theorems and Print Assumptions are checked with the property's own
EXTRA_PROPS = {"C20": ["C20code.v"], "C11": ["C11code.v"], "C02": ["C02code.v"], "C03": ["C03float.v"], "C13": ["C13code.v"], "C18": ["C18code.v"], "C15": ["C15code.v"], "C09": ["C15code.v"], "C12": ["C12code.v"], "C17": ["C12code.v"], "C19": ["C19code.v"],
               "C05": ["C18code.v"]}
# axioms of Coq's standard library that the theorems of a property file may depend on (everything else: none)
STDLIB_REALS = {"ClassicalDedekindReals.sig_forall_dec", "ClassicalDedekindReals.sig_not_dec",
                "FunctionalExtensionality.functional_extensionality_dep", "Classical_Prop.classic"}
ALLOWED_AXIOMS = {"C03float.v": STDLIB_REALS}
# which translated parts each property's theorems rest on
NEEDS = {"C01": ["kernel", "revise"], "C02": ["kernel", "revise"], "C03": ["kernel"], "C04": ["kernel", "revise"], "C05": ["kernel", "guards"], "C06": ["kernel"], "C07": ["kernel"],
         "C10": ["kernel"], "C14": ["kernel", "cache"], "C12": ["cache", "guards", "writers"], "C13": ["cache", "guards"], "C17": ["cache", "guards", "writers"],
         "C18": ["guards"], "C19": ["store"], "C09": ["reader"], "C15": ["reader"], "C16": ["reader"],
         "C20": ["cf_worker_run"], "C11": ["cf_handle_chrome"]}


def standard_obligations(chk, props_file):
    """translate + make (the property's own theorems and the generated equivalences they rest on) + hygiene +
    Print Assumptions of Props/<file>. A break elsewhere in the development does not concern this property."""
    needs = NEEDS.get(chk.pid, [])
    targets = ["theories/Props/" + props_file + "o"] + [GEN[n][0] for n in needs] + ["theories/Props/" + x + "o" for x in EXTRA_PROPS.get(chk.pid, [])]
    ok, text, where = common.coq_build(targets)
    for n in needs:
        tok, msg = common.translator_status(n)
        chk.oblige("translator: %s within the supported grammar" % GEN[n][1].split(":")[0], tok, msg)
    if not ok:
        chk.oblige("make: full .vo build of Props/%s and what it rests on (%s)" % (props_file, where), False, text)
        return False
    chk.oblige("make: full .vo build of Props/%s and everything it imports%s" % (props_file, "".join("; " + GEN[n][1] for n in needs)), True)
    bad = common.hygiene()
    chk.oblige("hygiene: no Admitted/admit/Axiom/Parameter/Conjecture/kernel-weakening flags", not bad, "; ".join(bad))
    for pf in [props_file] + EXTRA_PROPS.get(chk.pid, []):
        info, out = common.props_assumptions(pf)
        if info is None:
            chk.oblige("Props/%s compiles" % pf, False, out[-2000:])
            return False
        for t in info["theorems"]:
            chk.oblige("theorem %s (Props/%s)" % (t, pf), True)
        allowed = ALLOWED_AXIOMS.get(pf, set())
        used = set(a for blk in info["axioms"] for a in blk)
        if allowed:
            chk.oblige("Print Assumptions (Props/%s): the %d property theorems depend only on the standard library's real-number axioms %s" %
                       (pf, info["n_print"], sorted(used)),
                       info["n_print"] > 0 and info["closed"] + len(info["axioms"]) == info["n_print"] and used <= allowed and
                       all(blk for blk in info["axioms"]), out[-1500:])
            chk.assumptions.append("Props/%s depends on the standard-library axioms %s" % (pf, sorted(used)))
        else:
            chk.oblige("Print Assumptions (Props/%s): all %d property theorems closed under the global context" % (pf, info["n_print"]),
                       info["n_print"] > 0 and info["closed"] == info["n_print"] and not info["axioms"], out[-1500:])
    if chk.tier == "thorough":
        # the independent checker on the compiled property files and everything they depend on
        mods = ["TEV.Props." + pf[:-2] for pf in [props_file] + EXTRA_PROPS.get(chk.pid, [])]
        try:
            ok_, summ, text_ = common.coqchk(mods)
        except Exception as e:      # noqa
            ok_, summ, text_ = False, {}, str(e)
        allowed = set()
        for pf in [props_file] + EXTRA_PROPS.get(chk.pid, []):
            allowed |= ALLOWED_AXIOMS.get(pf, set())
        ax = [a.split(" ")[0].rstrip(":") for a in summ.get("axioms", [])]
        # coqchk prints kernel names (Coq.Logic.Classical_Prop.classic): compare by suffix
        extra_ax = [a for a in ax if not any(a.endswith(x) for x in allowed)]
        chk.oblige("coqchk -o %s: re-checked; axioms %s; nothing relies on type-in-type, unsafe fixpoints or assumed positivity" % (" ".join(mods), ax or "none"),
                   ok_ and not extra_ax and not summ.get("type_in_type") and not summ.get("unsafe_fix") and not summ.get("positivity"), text_)
        chk.cov["coqchk"] = summ
    return True
