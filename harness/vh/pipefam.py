"""Shared machinery of the data-path properties (C01-C07, C14a): run annotation pairs through the
library stages of the implementation and through the Coq model, abstract, compare."""
import copy, json, os
from . import gen, oracle, modelio, pool, common


def impl_cells(rep):
    """impl reply -> ({key: float}, {chrom: file-info}, problems)"""
    cells, files, problems = {}, {}, []
    for f in rep["files"]:
        if "unreadable" in f or "cells" not in f:
            problems.append("result file %s cannot be read back: %s" % (f.get("file"), str(f.get("unreadable"))[:200]))
            continue
        files[f["chrom"]] = f
        for ch, lv, name, side, w, g, v in f["cells"]:
            if name == "__SHAPE__":
                problems.append("array shape does not match axis labels in %s: %s" % (f["file"], f["shapes"]))
                continue
            k = (ch, lv, name, side, w, g)
            if k in cells:
                problems.append("duplicate label %r in %s" % (k, f["file"]))
            cells[k] = v
    return cells, files, problems


def real_names(case):
    o = set(t["order"] for t in case["tes"])
    s = set(t["superfam"] for t in case["tes"])
    return o, s


def is_real_key(k, onames, snames):
    _c, lv, name, _sd, _w, _g = k
    if name == "Total_TE_Density":
        return True
    return name in (onames if lv == 0 else snames)


def check_c01_case(case, rep, model):
    """Compare implementation output with the model and with the brute-force statement.
    Returns (list of property failures, list of model/impl differences)."""
    prop_fail, diffs = [], []
    ws = gen.windows_list(*case["windows"])
    spec = oracle.spec_cells(case, ws)
    if not rep.get("ok"):
        prop_fail.append({"kind": "run_failed", "exc": rep.get("exc"), "msg": rep.get("msg")})
        if model[0] == "ok":
            diffs.append("model succeeds, implementation raised %s" % rep.get("exc"))
        return prop_fail, diffs
    cells, files, problems = impl_cells(rep)
    for p in problems:
        prop_fail.append({"kind": "layout", "msg": p})
    onames, snames = real_names(case)
    # windows listed
    for ch, f in files.items():
        if f["windows"] != ws:
            prop_fail.append({"kind": "windows", "chrom": ch, "expected": ws, "got": f["windows"]})
    # key set: every (gene, real group present on the chromosome, window, side) exactly
    real_impl = {k for k in cells if is_real_key(k, onames, snames)}
    missing = sorted(set(spec) - real_impl)
    extra = sorted(real_impl - set(spec))
    if missing:
        prop_fail.append({"kind": "missing_cells", "n": len(missing), "first": list(missing[0])})
    if extra:
        prop_fail.append({"kind": "extra_cells", "n": len(extra), "first": list(extra[0])})
    nbad = 0
    for k, (n, d) in spec.items():
        if k in cells and not oracle.value_matches(cells[k], n, d):
            nbad += 1
            if nbad <= 3:
                prop_fail.append({"kind": "value", "key": list(k), "expected_N": n, "expected_D": d, "got": cells[k],
                                  "got_times_D": cells[k] * d})
    if nbad > 3:
        prop_fail.append({"kind": "value_more", "n": nbad})
    # model vs implementation (all real keys)
    if model[0] != "ok":
        diffs.append("implementation succeeds, model returns error code %s" % (model[1],))
    else:
        mcells = {k: v for k, v in model[1].items() if is_real_key(k, onames, snames)}
        if set(mcells) != real_impl:
            diffs.append("key sets differ: model-only %d, impl-only %d" % (len(set(mcells) - real_impl), len(real_impl - set(mcells))))
        nd = 0
        for k, (n, d) in mcells.items():
            if k in cells and not oracle.value_matches(cells[k], n, d):
                nd += 1
        if nd:
            diffs.append("%d cells differ between model and implementation" % nd)
    return prop_fail, diffs


def run_impl(cases, opts=None, timeout=180):
    reqs = []
    for c in cases:
        r = {"op": "pipeline", "case": c}
        if opts:
            r.update(opts)
        reqs.append(r)
    return pool.run_requests(reqs, timeout=timeout)


def shrink(case, still_fails, budget=60, seconds=90):
    """Greedy reduction of an annotation pair while `still_fails(case)` holds (at most `budget` attempts and `seconds` of wall time)."""
    import time
    best = copy.deepcopy(case)
    spent = [0]
    t_end = time.time() + seconds

    def attempt(c):
        if spent[0] >= budget or time.time() > t_end:
            spent[0] = budget
            return False
        spent[0] += 1
        try:
            return still_fails(c)
        except Exception:
            return False
    # chromosomes
    chroms = sorted(set(g["chrom"] for g in best["genes"]))
    for ch in chroms:
        if len(set(g["chrom"] for g in best["genes"])) <= 1:
            break
        c = copy.deepcopy(best)
        c["genes"] = [g for g in c["genes"] if g["chrom"] != ch]
        c["tes"] = [t for t in c["tes"] if t["chrom"] != ch]
        if c["genes"] and c["tes"] and attempt(c):
            best = c
    # windows -> a single window
    f, d, l = best["windows"]
    for w in gen.windows_list(f, d, l):
        c = copy.deepcopy(best); c["windows"] = [w, 1, w]
        if attempt(c):
            best = c
            break
    for key, minimum in (("genes", 1), ("tes", 1)):
        changed = True
        while changed and spent[0] < budget:
            changed = False
            n = len(best[key])
            step = max(1, n // 2)
            while step >= 1 and spent[0] < budget:
                i = 0
                while i < len(best[key]) and spent[0] < budget:
                    c = copy.deepcopy(best)
                    del c[key][i:i + step]
                    chs_g = set(g["chrom"] for g in c["genes"]); chs_t = set(t["chrom"] for t in c["tes"])
                    if len(c[key]) >= minimum and chs_g == chs_t and attempt(c):
                        best = c; changed = True
                    else:
                        i += step
                step //= 2
    return best


def load_corpus(pid):
    d = os.path.join(common.VERIF, "corpus", pid)
    out = []
    if os.path.isdir(d):
        for fn in sorted(os.listdir(d)):
            if fn.endswith(".json"):
                c = json.load(open(os.path.join(d, fn)))
                c["_corpus"] = fn
                out.append(c)
    return out


def nontrivial(case):
    return gen.has_same_group_overlap(case["tes"]) and "boundary" in case.get("features", ["boundary"])


GEN = {"kernel": ("theories/Gen/GenEquiv.vo", "kernel of /repo (gene_datum.py, overlap.py, revise_annotation.py, process_genome.py windows): 15 equivalence lemmas"),
       "cache": ("theories/Gen/GenCacheEquiv.vo", "cache decisions of /repo (verify_chromosome_h5_cache, revise_annotation, _is_current, _filter_jobs): 3 equivalence lemmas"),
       "revise": ("theories/Props/C02code.vo", "recursion of /repo's ReviseAnno (call_merge, merge_by_like + 5 helpers) over data frames: equal to Model.Revise.revise on every group with unique row labels, never raises, 2n+1 calls (Proofs/ReviseCodeP.v)"),
       "guards": ("theories/Proofs/GuardsP.vo", "guard functions of /repo (MergeData._validate_chromosome/_windows/_gene_names, PreProcessor._validate_split, check_strand, the required-column test of import_filtered_TEs; the calls of the guards by MergeData.sum and import_filtered_genes): accept exactly what the models accept (Proofs/GuardsP.v)"),
       "reader": ("theories/Props/C15code.vo", "loading protocol of /repo's DensityData (__init__, _swap_strand_vals, _index_of_gene, verify_h5_cache) over symbolic file names: same raw file, same trusted copy, same values served as Model.Reader.load; exchange loop = swap_all (Proofs/ReaderCodeP.v)"),
       "writers": ("theories/Props/C12code.vo", "writers of the reused intermediates of /repo (ReviseAnno._write, GeneData.write, TransposonData.write, _calculate_overlap_job, error path of _process_overlap_job) as lists of file actions: atomic at every crash point (Props/C12code.v)"),
       "overlap": ("theories/Props/C01code.vo", "the loop of /repo's OverlapWorker.calculate with _reset, the filters, the index dictionaries and the slice functions: the assignment log equals Model.OverlapArr.calc_with by conversion, and for unique known names and unique non-negative windows every labelled row holds the overlaps Pipeline.cell_num sums and nothing outside the index ranges is assigned (Proofs/OverlapArrP.v)"),
       "merge": ("theories/Props/C01merge.vo", "MergeData.sum of /repo after its guards (_process_sum, the three parameter sets of _list_sum_input_outputs for both group axes, the slice functions, the labels of _open_new_file), in any order of the six summations: "
                 "from overlap arrays holding the labelled rows, the density cell (axis, side, group index, window index, gene index) is Pipeline.cell of the group, gene and window of those NAMES, and nothing outside the arrays' shape is assigned (Proofs/MergeArrP.v)"),
       "lookup": ("theories/Props/C08code.vo", "the lookup by labels of /repo's reader (density_utils.get_specific_slice with the four verifications, the three index dictionaries, _index_of_gene, the binding of the six array attributes): "
                  "equal to Proofs/LookupP.slice_spec for every category, direction, TE name, window and label lists; on the arrays left by the translated MergeData.sum a lookup by names returns the cell of those names"),
       "jobs": ("theories/Props/C05code.vo", "the gene cache, TE cache and overlap file of a chromosome followed through /repo's _OverlapJob, OverlapResult (computed and reused) and MergeJob tuples to the readers of the density stage: "
                "the density stage of an overlap job opens exactly that job's own three files"),
       "pair": ("theories/Props/C16code.vo", "DensityData._pair_by_chromosome of /repo, statement by statement (the dictionary of the GeneData, the set of stored chromosome identifiers of every result file, list(ids)[0] as an oracle), and the use of its result by both directory constructors: "
                "equal to Model.Pair.pair_spec for every list of files and GeneData; returns only pairs of a file storing exactly one chromosome with the GeneData of that chromosome, refuses everything else (Proofs/PairP.v)"),
       "flow": ("theories/Props/C17code.vo", "failure propagation in /repo (every def of process_genome.py, overlap_manager, overlap, merge_data, preprocess, verify_cache, revise_annotation, gene_data, transposon_data, the two importers, transposon/__init__, density_data, density2, and the __main__ block with its three stages): "
                "try / except / else / finally, with, loops, return / break / continue, raise, sys.exit as programs of Model/Flow.v; no handler, finally clause or __exit__ swallows an exception, and the main block starts density jobs only after preprocessing and the overlap stage have completed - for every execution of the big-step semantics (Proofs/FlowP.v)"),
       "store": ("theories/Props/C19code.vo", "opening of /repo's density store (_DensitySubset.__init__ and the six methods it calls), executed symbolically over h5py's require_dataset: equal to Model.Store2.open for every configuration and stored group (Proofs/StoreCodeP.v)"),
       "cf_worker_run": ("theories/Props/C20code.vo", "control flow of /repo's WorkerProcess.run (+ _send_result) as an interaction program: equal to Model/Worker.v on every script (Proofs/WorkerProgP.v)"),
       "cf_handle_chrome": ("theories/Props/C11code.vo", "control flow of /repo's _ProgressBars.handle_chrome (+ _pop, _collect) as an interaction program: in lockstep with Model/Collector.v under every schedule (Proofs/CollectorProgP.v)")}
# further property files (theorems about the translated code) whose theorems and Print Assumptions are checked with the property's own
EXTRA_PROPS = {"C01": ["C01code.v", "C01merge.v", "C01e2e.v", "CodeCell.v"], "C04": ["C01code.v", "CodeCell.v"], "C07": ["C01code.v", "C01merge.v", "C07code.v"], "C08": ["C01code.v", "C01merge.v", "C08code.v"], "C20": ["C20code.v"], "C11": ["C11code.v", "C05code.v", "C17code.v"], "C02": ["C02code.v"], "C03": ["C03float.v", "C03code.v"], "C13": ["C13code.v"], "C18": ["C18code.v", "C17code.v"], "C15": ["C15code.v"], "C09": ["C15code.v", "C09code.v"], "C12": ["C12code.v"], "C17": ["C12code.v", "C17code.v"], "C19": ["C19code.v", "C17code.v"],
               "C05": ["C18code.v", "C05code.v", "CodeCell.v"], "C06": ["C06code.v"], "C16": ["C16code.v", "C17code.v"], "C14": ["C14code.v"], "C10": ["C14code.v"]}
# axioms of Coq's standard library that the theorems of a property file may depend on (everything else: none)
STDLIB_REALS = {"ClassicalDedekindReals.sig_forall_dec", "ClassicalDedekindReals.sig_not_dec",
                "FunctionalExtensionality.functional_extensionality_dep", "Classical_Prop.classic"}
ALLOWED_AXIOMS = {"C03float.v": STDLIB_REALS}
# which translated parts each property's theorems rest on
NEEDS = {"C01": ["kernel", "revise", "overlap", "merge", "lookup"], "C02": ["kernel", "revise"], "C03": ["kernel", "overlap", "merge"], "C04": ["kernel", "revise", "overlap", "merge", "lookup"], "C08": ["kernel", "overlap", "merge", "lookup"], "C05": ["kernel", "guards", "jobs", "overlap", "merge", "lookup"], "C06": ["kernel", "overlap", "merge", "lookup"], "C07": ["kernel", "overlap", "merge", "lookup"],
         "C10": ["kernel", "overlap", "merge", "lookup"], "C14": ["kernel", "cache", "overlap", "merge", "lookup"], "C12": ["cache", "guards", "writers"], "C13": ["cache", "guards"], "C17": ["cache", "guards", "writers", "flow"],
         "C18": ["guards", "flow"], "C19": ["store", "flow"], "C09": ["reader"], "C15": ["reader"], "C16": ["reader", "pair", "flow"],
         "C20": ["cf_worker_run"], "C11": ["cf_handle_chrome", "cache", "jobs", "flow"]}


def standard_obligations(chk, props_file):
    """translate + make (the property's own theorems and the generated equivalences they rest on) + hygiene +
    Print Assumptions of Props/<file>. A break elsewhere in the development does not concern this property."""
    needs = NEEDS.get(chk.pid, [])
    targets = ["theories/Props/" + props_file + "o"] + [GEN[n][0] for n in needs] + ["theories/Props/" + x + "o" for x in EXTRA_PROPS.get(chk.pid, [])]
    ok, text, where = common.coq_build(targets)
    for n in needs:
        tok, msg = common.translator_status(n)
        chk.oblige("translator: %s within the supported grammar" % GEN[n][1].split(":")[0], tok, msg)
    if not ok:
        chk.oblige("make: full .vo build of Props/%s and what it rests on (%s)" % (props_file, where), False, text)
        return False
    chk.oblige("make: full .vo build of Props/%s and everything it imports%s" % (props_file, "".join("; " + GEN[n][1] for n in needs)), True)
    bad = common.hygiene()
    chk.oblige("hygiene: no Admitted/admit/Axiom/Parameter/Conjecture/kernel-weakening flags", not bad, "; ".join(bad))
    for pf in [props_file] + EXTRA_PROPS.get(chk.pid, []):
        info, out = common.props_assumptions(pf)
        if info is None:
            chk.oblige("Props/%s compiles" % pf, False, out[-2000:])
            return False
        for t in info["theorems"]:
            chk.oblige("theorem %s (Props/%s)" % (t, pf), True)
        allowed = ALLOWED_AXIOMS.get(pf, set())
        used = set(a for blk in info["axioms"] for a in blk)
        if allowed:
            chk.oblige("Print Assumptions (Props/%s): the %d property theorems depend only on the standard library's real-number axioms %s" %
                       (pf, info["n_print"], sorted(used)),
                       info["n_print"] > 0 and info["closed"] + len(info["axioms"]) == info["n_print"] and used <= allowed and
                       all(blk for blk in info["axioms"]), out[-1500:])
            chk.assumptions.append("Props/%s depends on the standard-library axioms %s" % (pf, sorted(used)))
        else:
            chk.oblige("Print Assumptions (Props/%s): all %d property theorems closed under the global context" % (pf, info["n_print"]),
                       info["n_print"] > 0 and info["closed"] == info["n_print"] and not info["axioms"], out[-1500:])
    if chk.tier == "thorough":
        # the independent checker on the compiled property files and everything they depend on
        mods = ["TEV.Props." + pf[:-2] for pf in [props_file] + EXTRA_PROPS.get(chk.pid, [])]
        try:
            ok_, summ, text_ = common.coqchk(mods)
        except Exception as e:      # noqa
            ok_, summ, text_ = False, {}, str(e)
        allowed = set()
        for pf in [props_file] + EXTRA_PROPS.get(chk.pid, []):
            allowed |= ALLOWED_AXIOMS.get(pf, set())
        ax = [a.split(" ")[0].rstrip(":") for a in summ.get("axioms", [])]
        # coqchk prints kernel names (Coq.Logic.Classical_Prop.classic): compare by suffix
        extra_ax = [a for a in ax if not any(a.endswith(x) for x in allowed)]
        chk.oblige("coqchk -o %s: re-checked; axioms %s; nothing relies on type-in-type, unsafe fixpoints or assumed positivity" % (" ".join(mods), ax or "none"),
                   ok_ and not extra_ax and not summ.get("type_in_type") and not summ.get("unsafe_fix") and not summ.get("positivity"), text_)
        chk.cov["coqchk"] = summ
    return True


def overlap_unit(chk, r, n=None):
    """The translator's reading of the loop of OverlapWorker.calculate (dictionaries, slices, filters), exercised: small containers
    through the REAL calculate (arrays read back from the file it wrote) and through the TRANSLATED gen_calculate (vm_compute);
    every cell of the three arrays compared, and the stored labels with gen_stored_*.  Most requests are the pipeline's (all
    names of the container, in its order); the others are subsets, re-orderings, repetitions, unknown names, negative and
    repeated windows."""
    import json
    from . import pool
    n = n or (120 if chk.tier == "quick" else 2000)
    cases = []
    for k in range(n):
        ng = r.randint(1, 6)
        ids = r.sample(range(1, 40), ng)
        genes = []
        for i in ids:
            s = r.randint(1, 6000)
            genes.append([i, s, s + r.randint(0, 900)])
        tes = []
        for _ in range(r.randint(1, 7)):      # no TE at all: h5py refuses the zero-sized chunk (every chromosome of a run has a TE, _validate_split)
            s = r.randint(1, 7000)
            tes.append([s, s + r.randint(0, 1500)])
        windows = sorted(r.sample(range(0, 3000, 100), r.randint(1, 4)))
        requested = list(ids)
        kind = "pipeline"
        x = r.random()
        if x < 0.12:
            requested = r.sample(ids, r.randint(1, ng)); kind = "subset_or_reordered"
        elif x < 0.2:
            requested = ids + [r.choice(ids)]; kind = "repeated_name"
        elif x < 0.28:
            requested = ids[:1] + [77] + ids[1:]; kind = "unknown_name"
        elif x < 0.36:
            windows = windows + [-100]; r.shuffle(windows); kind = "negative_window"
        elif x < 0.44:
            windows = windows + [windows[0]]; kind = "repeated_window"
        elif x < 0.5:
            r.shuffle(windows); kind = "unsorted_windows"
        cases.append({"genes": genes, "tes": tes, "windows": windows, "requested": requested, "kind": kind})
    reps = pool.run_requests([{"op": "overlap.unit", "cases": cases[i:i + 30]} for i in range(0, len(cases), 30)], timeout=240)
    real = []
    for rep in reps:
        real += rep["results"] if rep.get("ok") else [None] * 30
    real = real[:len(cases)]
    chk.oblige("real OverlapWorker.calculate executed on every small container", all(x is not None for x in real),
               json.dumps([rep for rep in reps if not rep.get("ok")][:1])[:1500])
    exprs = []
    for c in cases:
        G = "[" + "; ".join("mkG 0 %d%%N %s %s %s 0" % (i, common.zlit(s), common.zlit(e), common.zlit(e - s + 1)) for i, s, e in c["genes"]) + "]"
        T = "[" + "; ".join("mkTE 0 %s %s 0 0" % (common.zlit(s), common.zlit(e)) for s, e in c["tes"]) + "]"
        known = "[" + "; ".join("%d%%N" % i for i, _, _ in c["genes"]) + "]"
        reqd = "[" + "; ".join("%d%%N" % i for i in c["requested"]) + "]"
        W = "[" + "; ".join(common.zlit(w) for w in c["windows"]) + "]"
        nw = len([w for w in c["windows"] if w >= 0])
        exprs.append("oflat %d %d %d (gen_calculate %s %s %s (gd_of %s) %s) ++ [-9] ++ map Z.of_N (gen_stored_gene_names %s) ++ [-9] ++ gen_stored_windows (filter (fun w => negb (w <? 0)) %s)"
                     % (len(c["genes"]), nw, len(c["tes"]), known, reqd, W, G, T, known, W))
    try:
        flats = common.coq_eval("ovunit_%s" % chk.pid, "From TEV Require Import Model.Pipeline Model.OverlapArr Gen.GenOverlap.", "", exprs, chunk=40)
        chk.oblige("translated loop of OverlapWorker.calculate evaluated (vm_compute) on every small container", True)
    except Exception as e:
        chk.oblige("translated loop of OverlapWorker.calculate evaluated (vm_compute) on every small container", False, str(e)[-1500:])
        return
    nd, first = 0, None
    for c, rr, f in zip(cases, real, flats):
        if rr is None:
            continue
        chk.cov["evaluations"] += 1
        chk.count("overlap_unit:%s" % c["kind"])
        i1 = f.index(-9)
        i2 = f.index(-9, i1 + 1)
        mflat, mnames, mwins = f[:i1], f[i1 + 1:i2], f[i2 + 1:]
        if rr["outcome"] == "raised":
            same = mflat in ([-1], [-2])
        else:
            same = (mflat == rr["flat"] and rr["whole_numbers"] and ["g%d" % x for x in mnames] == rr["gene_names"] and mwins == rr["windows"])
        if not same:
            nd += 1
            first = first or {"case": c, "real": rr, "translated": {"flat": mflat, "gene_names": mnames, "windows": mwins}}
    chk.oblige("translated loop = real OverlapWorker.calculate on every small container: every cell of the three arrays, stored names and windows (%d containers, %d differ)"
               % (len(cases), nd), nd == 0, json.dumps(first)[:2500] if first else "")


def merge_unit(chk, r, n=None):
    """The translator's reading of MergeData.sum, exercised: small containers through the REAL OverlapWorker.calculate and the REAL
    MergeData.sum (arrays read back from the file) and through the TRANSLATED gen_calculate / gen_sum (vm_compute): every cell of the six
    density arrays must be the correctly rounded quotient of the model's (numerator, divisor), and the stored labels the model's."""
    import json
    import numpy as np
    from . import pool
    n = n or (60 if chk.tier == "quick" else 1200)
    cases = []
    for k in range(n):
        ng = r.randint(1, 5)
        ids = r.sample(range(1, 40), ng)
        genes = []
        for i in ids:
            s = r.randint(1, 6000)
            genes.append([i, s, s + r.randint(0, 900)])
        tes = []
        norders = r.randint(1, 3)
        for _ in range(r.randint(1, 8)):
            s = r.randint(1, 7000)
            o = r.randint(1, norders)
            tes.append([s, s + r.randint(0, 1500), o, r.choice([o * 10, o * 10 + 1, 5])])     # superfamily 5 is shared by orders
        windows = sorted(r.sample(range(0, 3000, 100), r.randint(1, 3)))
        if r.random() < 0.2:
            r.shuffle(windows)
        cases.append({"genes": genes, "tes": tes, "windows": windows})
    reps = pool.run_requests([{"op": "merge.unit", "cases": cases[i:i + 15]} for i in range(0, len(cases), 15)], timeout=300)
    real = []
    for rep in reps:
        real += rep["results"] if rep.get("ok") else [None] * 15
    real = real[:len(cases)]
    chk.oblige("real OverlapWorker.calculate + MergeData.sum executed on every small container", all(x is not None and x.get("outcome") == "ok" for x in real),
               json.dumps([x for x in real if x is None or x.get("outcome") != "ok"][:1] + [rep for rep in reps if not rep.get("ok")][:1])[:1500])
    exprs = []
    order = "[(LOrd, SR); (LSup, SI); (LOrd, SL); (LSup, SL); (LOrd, SI); (LSup, SR)]"
    for c in cases:
        G = "[" + "; ".join("mkG 0 %d%%N %s %s %s 0" % (i, common.zlit(s), common.zlit(e), common.zlit(e - s + 1)) for i, s, e in c["genes"]) + "]"
        T = "[" + "; ".join("mkTE 0 %s %s %d%%N %d%%N" % (common.zlit(s), common.zlit(e), o, sf) for s, e, o, sf in c["tes"]) + "]"
        names = "[" + "; ".join("%d%%N" % i for i, _, _ in c["genes"]) + "]"
        W = "[" + "; ".join(common.zlit(w) for w in c["windows"]) + "]"
        nw, ng = len(c["windows"]), len(c["genes"])
        nord, nsup = len(set(t[2] for t in c["tes"])), len(set(t[3] for t in c["tes"]))
        parts = []
        for lv, cnt in (("LSup", nsup), ("LOrd", nord)):
            parts.append("map Z.of_N (gen_group_names %s tes)" % lv)
            for sd, w_ in (("SL", nw), ("SI", 1), ("SR", nw)):
                parts.append("dflat %s %s %d %d %d st" % (lv, sd, cnt, w_, ng))
        exprs.append("let tes := %s in let gd := gd_of %s in match gen_calculate %s (gen_job_gene_names %s) %s gd tes with Failed => [-7] | Running ov => "
                     "let st := gen_sum %s %s %s (gen_stored_gene_names %s) (gen_stored_windows %s) gd tes ov in %s end"
                     % (T, G, names, names, W, order, W, names, names, W, " ++ [-9] ++ ".join(parts)))
    try:
        flats = common.coq_eval("mgunit_%s" % chk.pid, "From TEV Require Import Model.Pipeline Model.OverlapArr Model.MergeArr Gen.GenOverlap Gen.GenMerge.", "", exprs, chunk=20)
        chk.oblige("translated MergeData.sum evaluated (vm_compute) on every small container", True)
    except Exception as e:
        chk.oblige("translated MergeData.sum evaluated (vm_compute) on every small container", False, str(e)[-1500:])
        return
    nd, first, ncells = 0, None, 0
    for c, rr, f in zip(cases, real, flats):
        if rr is None or rr.get("outcome") != "ok":
            continue
        chk.cov["evaluations"] += 1
        chk.count("merge_unit_containers")
        segs, cur = [], []
        for x in f:
            if x == -9:
                segs.append(cur); cur = []
            else:
                cur.append(x)
        segs.append(cur)
        bad = None
        if len(segs) != 8:
            bad = "model failed: %s" % f[:5]
        else:
            for axis, off, fmt in (("sup", 0, "s%03d"), ("ord", 4, "o%03d")):
                if [fmt % x for x in segs[off]] != rr[axis + "_names"]:
                    bad = bad or "%s names: model %s, stored %s" % (axis, segs[off], rr[axis + "_names"])
                for si, side in enumerate("LIR"):
                    pairs = segs[off + 1 + si]
                    stored = rr[axis + side]["flat"]
                    if len(pairs) != 2 * len(stored):
                        bad = bad or "%s%s: %d model cells, %d stored (shape %s)" % (axis, side, len(pairs) // 2, len(stored), rr[axis + side]["shape"])
                        continue
                    for q, v in enumerate(stored):
                        num, div = pairs[2 * q], pairs[2 * q + 1]
                        ncells += 1
                        if div <= 0 or (v != float(np.float32(num / div)) and v != num / div):
                            bad = bad or "%s%s cell %d: stored %r, model %d/%d" % (axis, side, q, v, num, div)
            if rr["gene_names"] != ["g%d" % i for i, _, _ in c["genes"]] or rr["windows"] != c["windows"]:
                bad = bad or "stored gene names / windows differ from the container's"
        if bad:
            nd += 1
            first = first or {"case": c, "difference": bad}
    chk.cov["merge_unit_cells"] = ncells
    chk.oblige("translated summation = real MergeData.sum on every small container: every cell of the six density arrays is the correctly rounded "
               "quotient of the model's numerator and divisor, group names as stored (%d containers, %d cells, %d containers differ)" % (len(cases), ncells, nd),
               nd == 0, json.dumps(first)[:2500] if first else "")
