"""Entry point: ./check <id> [--tier quick|thorough] [--replay file]"""
import argparse, importlib, os, sys, json, traceback
from . import common


def main():
    ap = argparse.ArgumentParser()
    ap.add_argument("pid")
    ap.add_argument("--tier", default=os.environ.get("VERIF_TIER", "quick"), choices=["quick", "thorough"])
    ap.add_argument("--replay", default=None)
    a = ap.parse_args()
    seed = int(os.environ.get("VERIF_SEED", "20260929"))
    pid = a.pid.upper()
    mod = importlib.import_module("vh.props.%s" % pid.lower())
    chk = common.Check(pid, a.tier, seed)
    if a.replay:
        return mod.replay(chk, json.load(open(a.replay)))
    try:
        return mod.run(chk)
    except Exception:
        # a crash of the machinery is not a verdict on the property: report and fail loudly
        traceback.print_exc()
        print("CHECK-ERROR %s: the check itself failed (see traceback); no verdict" % pid)
        return 2


if __name__ == "__main__":
    sys.exit(main())
