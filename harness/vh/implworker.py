"""Worker process that executes operations on the real implementation (/repo on PYTHONPATH).
Protocol: one JSON request per line on stdin, one JSON reply per line on fd 3 (stdout is
redirected to /dev/null because the pipeline prints)."""
import json, os, sys, io, shutil, tempfile, traceback, logging

REPLY = os.fdopen(os.dup(1), "w")
devnull = os.open(os.devnull, os.O_WRONLY)
os.dup2(devnull, 1)
os.dup2(devnull, 2)
sys.stdout = open(os.devnull, "w")
sys.stderr = open(os.devnull, "w")
logging.disable(logging.CRITICAL)

import numpy as np
import h5py


class _StubQ:
    def put_nowait(self, x):
        pass

    def put(self, x, *a, **k):
        pass


def read_result_h5(path):
    """All labelled cells of one result file -> list of [chrom, level, name, side, window, gene, value]."""
    cells = []
    with h5py.File(path, "r") as f:
        dec = lambda a: [x.decode("utf-8") if isinstance(x, bytes) else str(x) for x in a]
        genes = dec(f["GENE_NAMES"][:])
        chrom = dec(f["CHROMOSOME_ID"][:])[0]
        windows = [int(x) for x in dec(f["WINDOWS"][:])]
        names = {0: dec(f["ORDER_NAMES"][:]), 1: dec(f["SUPERFAMILY_NAMES"][:])}
        keys = {0: "RHO_ORDERS", 1: "RHO_SUPERFAMILIES"}
        shapes = {}
        for lv in (0, 1):
            for side, suffix in ((0, "_LEFT"), (1, "_INTRA"), (2, "_RIGHT")):
                arr = f[keys[lv] + suffix][()]
                shapes[keys[lv] + suffix] = list(arr.shape)
                ws = [-1] if side == 1 else windows
                if arr.shape != (len(names[lv]), len(ws), len(genes)):
                    cells.append([chrom, lv, "__SHAPE__", side, -1, "", float("nan")])
                    continue
                for ni, name in enumerate(names[lv]):
                    for wi, w in enumerate(ws):
                        for gi, g in enumerate(genes):
                            cells.append([chrom, lv, name, side, w, g, float(arr[ni, wi, gi])])
    return {"chrom": chrom, "genes": genes, "windows": windows, "orders": names[0], "supers": names[1],
            "cells": cells, "shapes": shapes}


def read_tsv(path):
    import csv
    with open(path, newline="") as f:
        rd = csv.DictReader(f, delimiter="\t")
        return [dict(r) for r in rd]


def op_pipeline(req):
    """Library stages in-process: PreProcessor.process -> _calculate_overlap_job -> calc_merge."""
    from vh import gen
    from transposon.preprocess import PreProcessor
    from transposon.overlap_manager import _OverlapJob, _calculate_overlap_job
    from transposon.gene_data import GeneData
    import process_genome
    d = tempfile.mkdtemp(prefix="vh_")
    try:
        gpath, tpath = os.path.join(d, "genes.tsv"), os.path.join(d, "tes.tsv")
        gen.write_pair(req["case"], gpath, tpath)
        out = os.path.join(d, "out")
        ovl = os.path.join(out, "tmp", "overlap")
        os.makedirs(ovl)
        first, delta, last = req["case"]["windows"]
        windows = range(first, last + 1, delta)
        genome = req.get("genome", "G")
        pre = PreProcessor(gpath, tpath, out, req.get("reset_h5", False), genome, req.get("revise_anno", False))
        pre.process()
        files = []
        for g_path, t_path in pre.data_filepaths():
            gd = GeneData.read(g_path)
            opath = os.path.join(ovl, gd.genome_id + "_" + gd.chromosome_unique_id + "_overlap.h5")
            job = _OverlapJob(gene_uid=gd.chromosome_unique_id, gene_path=g_path, te_path=t_path, output_filepath=opath,
                              window_range=windows, gene_names=list(gd.names), progress_queue=_StubQ(),
                              result_queue=_StubQ(), stop_event=None)
            res = _calculate_overlap_job(job)
            mjob = process_genome.result_to_job(res, windows, out, None)
            process_genome.calc_merge(mjob)
        for fn in sorted(os.listdir(out)):
            if fn.endswith(".h5"):
                r = read_result_h5(os.path.join(out, fn))
                r["file"] = fn
                files.append(r)
        rev = read_tsv(pre.te_revised)
        caches = {}
        for fn in sorted(os.listdir(pre.cache_dir)):
            if fn.endswith("_TEData.tsv"):
                caches[fn] = read_tsv(os.path.join(pre.cache_dir, fn))
        return {"ok": True, "files": files, "revised": rev, "te_caches": caches}
    finally:
        shutil.rmtree(d, ignore_errors=True)


def op_preprocess(req):
    """Only PreProcessor.process: revised annotation and per-chromosome caches."""
    from vh import gen
    from transposon.preprocess import PreProcessor
    d = tempfile.mkdtemp(prefix="vh_")
    try:
        gpath, tpath = os.path.join(d, "genes.tsv"), os.path.join(d, "tes.tsv")
        gen.write_pair(req["case"], gpath, tpath)
        out = os.path.join(d, "out")
        os.makedirs(out)
        pre = PreProcessor(gpath, tpath, out, req.get("reset_h5", False), req.get("genome", "G"), req.get("revise_anno", False))
        pre.process()
        caches = {}
        for fn in sorted(os.listdir(pre.cache_dir)):
            if fn.endswith("_TEData.tsv"):
                caches[fn] = read_tsv(os.path.join(pre.cache_dir, fn))
        return {"ok": True, "revised": read_tsv(pre.te_revised), "te_caches": caches}
    finally:
        shutil.rmtree(d, ignore_errors=True)


OPS = {"pipeline": op_pipeline, "preprocess": op_preprocess}


def main():
    sys.setrecursionlimit(10000)
    for line in sys.stdin:
        req = json.loads(line)
        try:
            op = req["op"]
            if op not in OPS:
                mod = __import__("vh.implops_" + op.split(".")[0], fromlist=["OPS"])
                OPS.update(mod.OPS)
            rep = OPS[op](req)
        except BaseException as e:  # noqa
            rep = {"ok": False, "exc": type(e).__name__, "msg": str(e)[:500], "tb": traceback.format_exc()[-1500:]}
        REPLY.write(json.dumps(rep) + "\n")
        REPLY.flush()


if __name__ == "__main__":
    main()
