"""Worker process that executes operations on the real implementation (/repo on PYTHONPATH).
Protocol: one JSON request per line on stdin, one JSON reply per line on fd 3 (stdout is
redirected to /dev/null because the pipeline prints)."""
import json, os, sys, io, shutil, tempfile, traceback, logging

REPLY = os.fdopen(os.dup(1), "w")
devnull = os.open(os.devnull, os.O_WRONLY)
os.dup2(devnull, 1)
os.dup2(devnull, 2)
sys.stdout = open(os.devnull, "w")
sys.stderr = open(os.devnull, "w")
logging.disable(logging.CRITICAL)

import numpy as np
import h5py


class _StubQ:
    def put_nowait(self, x):
        pass

    def put(self, x, *a, **k):
        pass


from vh.implworker_lib import read_result_h5, read_tsv


def op_pipeline(req):
    """Library stages in-process: PreProcessor.process -> _calculate_overlap_job -> calc_merge."""
    from vh import gen
    from transposon.preprocess import PreProcessor
    from transposon.overlap_manager import _OverlapJob, _calculate_overlap_job
    from transposon.gene_data import GeneData
    import process_genome
    d = tempfile.mkdtemp(prefix="vh_")
    try:
        gpath, tpath = os.path.join(d, "genes.v2.tsv"), os.path.join(d, "tes.v2.mod.TEanno.tsv")
        cpath = os.path.join(d, "cfg.ini")
        gen.write_pair(req["case"], gpath, tpath, cpath)
        out = os.path.join(d, "out")
        ovl = os.path.join(out, "tmp", "overlap")
        os.makedirs(ovl)
        # the windows are what the code's own configuration parser makes of (first, delta, last)
        windows = process_genome.parse_algorithm_config(cpath)["window_range"]
        genome = req.get("genome", "G")
        snap = {}
        try:
            skip = set()
            before = req["case"].get("before")
            if before:
                # the output directory has been used before, for another annotation pair under other file names and
                # the same or another genome id
                import time
                g0, t0, c0 = os.path.join(d, "genes.v1.tsv"), os.path.join(d, "tes.v1.mod.TEanno.tsv"), os.path.join(d, "cfg_earlier.ini")
                if before.get("same_names"):        # the annotation files are edited in place
                    g0, t0 = gpath, tpath
                gen.write_pair(before["case"], g0, t0, c0)
                w0 = process_genome.parse_algorithm_config(c0)["window_range"]
                _pipeline_body({}, d, g0, t0, out, ovl, w0, before["genome"])
                # result files the earlier run left behind for chromosomes (or a genome) that are not part of this run
                skip = set("%s_%s.h5" % (before["genome"], c) for c in set(g["chrom"] for g in before["case"]["genes"])) - \
                    set("%s_%s.h5" % (genome, c) for c in set(g["chrom"] for g in req["case"]["genes"]))
                time.sleep(0.03)
                gen.write_pair(req["case"], gpath, tpath, cpath)
                if before.get("backdate_inputs"):
                    # the new annotation files carry modification times older than every intermediate of the earlier run (cp -p, rsync -t)
                    old = time.time() - 86400
                    os.utime(gpath, (old, old)); os.utime(tpath, (old, old))
            snap = {fn: os.stat(os.path.join(out, fn)).st_mtime_ns for fn in os.listdir(out) if fn.endswith(".h5")} if os.path.isdir(out) else {}
            return _pipeline_body(req, d, gpath, tpath, out, ovl, windows, genome, skip)
        except BaseException as e:  # noqa
            # result files written (or rewritten) by THIS run
            left = sorted(fn for fn in os.listdir(out) if fn.endswith(".h5") and os.stat(os.path.join(out, fn)).st_mtime_ns != snap.get(fn)) \
                if os.path.isdir(out) else []
            return {"ok": False, "exc": type(e).__name__, "msg": str(e)[:500], "tb": traceback.format_exc()[-1500:], "result_files": left}
    finally:
        shutil.rmtree(d, ignore_errors=True)


def _pipeline_body(req, d, gpath, tpath, out, ovl, windows, genome, skip=()):
    from transposon.preprocess import PreProcessor
    from transposon.overlap_manager import _OverlapJob, _calculate_overlap_job
    from transposon.gene_data import GeneData
    import process_genome
    if True:
        pre = PreProcessor(gpath, tpath, out, req.get("reset_h5", False), genome, req.get("revise_anno", False))
        pre.process()
        files = []
        pairs = list(pre.data_filepaths())
        order = req.get("merge_order", "sorted")
        if order == "reversed":
            pairs = pairs[::-1]
        elif isinstance(order, int):
            import random as _r
            _r.Random(order).shuffle(pairs)
        if req.get("random_seed") is not None:
            import random as _r
            _r.seed(req["random_seed"])
        jobs_then_merge = req.get("two_phase", False)
        mjobs = []
        for g_path, t_path in pairs:
            gd = GeneData.read(g_path)
            opath = os.path.join(ovl, gd.genome_id + "_" + gd.chromosome_unique_id + "_overlap.h5")
            job = _OverlapJob(gene_uid=gd.chromosome_unique_id, gene_path=g_path, te_path=t_path, output_filepath=opath,
                              window_range=windows, gene_names=list(gd.names), progress_queue=_StubQ(),
                              result_queue=_StubQ(), stop_event=None)
            res = _calculate_overlap_job(job)
            mjob = process_genome.result_to_job(res, windows, out, None)
            if jobs_then_merge:
                mjobs.append(mjob)
            else:
                process_genome.calc_merge(mjob)
        for mjob in mjobs:
            process_genome.calc_merge(mjob)
        for fn in sorted(os.listdir(out)):
            if fn.endswith(".h5") and fn not in skip:
                r = read_result_h5(os.path.join(out, fn))
                r["file"] = fn
                files.append(r)
        rev = read_tsv(pre.te_revised)
        caches = {}
        mine = set(os.path.basename(t_path) for _g, t_path in pre.data_filepaths())
        for fn in sorted(os.listdir(pre.cache_dir)):
            if fn.endswith("_TEData.tsv") and fn in mine:
                caches[fn] = read_tsv(os.path.join(pre.cache_dir, fn))
        return {"ok": True, "files": files, "revised": rev, "te_caches": caches}


def op_preprocess(req):
    """Only PreProcessor.process: revised annotation and per-chromosome caches."""
    from vh import gen
    from transposon.preprocess import PreProcessor
    d = tempfile.mkdtemp(prefix="vh_")
    try:
        out = os.path.join(d, "out")
        os.makedirs(out)
        if req.get("before") is not None:
            # the output directory has been used before: another annotation pair, under other file names, same genome id
            import time
            g0, t0 = os.path.join(d, "genes.v1.tsv"), os.path.join(d, "tes.v1.mod.TEanno.tsv")     # same stem before the first dot as the current pair
            gen.write_pair(req["before"], g0, t0)
            PreProcessor(g0, t0, out, False, req.get("before_genome") or req.get("genome", "G"), False).process()
            time.sleep(0.03)
        gpath, tpath = os.path.join(d, "genes.v2.tsv"), os.path.join(d, "tes.v2.mod.TEanno.tsv")
        gen.write_pair(req["case"], gpath, tpath)
        pre = PreProcessor(gpath, tpath, out, req.get("reset_h5", False), req.get("genome", "G"), req.get("revise_anno", False))
        pre.process()
        caches = {}
        mine = set("%s_%s_TEData.tsv" % (req.get("genome", "G"), c) for c in set(t["chrom"] for t in req["case"]["tes"]))
        for fn in sorted(os.listdir(pre.cache_dir)):
            if fn.endswith("_TEData.tsv") and fn in mine:
                caches[fn] = read_tsv(os.path.join(pre.cache_dir, fn))
        return {"ok": True, "revised": read_tsv(pre.te_revised), "te_caches": caches}
    finally:
        shutil.rmtree(d, ignore_errors=True)


def op_revise_unit(req):
    """The recursion of ReviseAnno on ONE group given as rows (label, start, stop): the object is set up as
    iterate_call_merge does (seed and search frame = the group sorted by Start, an empty output frame), call_merge() is
    called, and the output rows are returned with their index labels, together with the order the sort produced."""
    import logging
    import pandas as pd
    from transposon.revise_annotation import ReviseAnno
    out = []
    for rows in req["groups"]:
        fr = pd.DataFrame({"Chromosome": "C", "Start": [float(r[1]) for r in rows], "Stop": [float(r[2]) for r in rows], "Strand": "+",
                           "Order": "O", "SuperFamily": "S", "Length": [float(r[2] - r[1] + 1) for r in rows]}, index=[r[0] for r in rows])
        ra = ReviseAnno.__new__(ReviseAnno)
        ra.logger = logging.getLogger("vh")
        ra.current_te_identity = "X"
        ra.seed_frame = fr.copy(deep=True).sort_values(by=["Start"])
        ra.search_frame = fr.copy(deep=True).sort_values(by=["Start"])
        ra.seed_max_index = int(ra.seed_frame.index.values.max())
        ra.chrom_specific_frame_dict = {"X": pd.DataFrame()}
        sorted_rows = [[int(l), int(r_.Start), int(r_.Stop)] for l, r_ in ra.seed_frame.iterrows()]
        try:
            ra.call_merge()
            res = ra.chrom_specific_frame_dict["X"]
            out.append({"sorted": sorted_rows, "outcome": "ok", "rows": [[int(l), int(r_.Start), int(r_.Stop)] for l, r_ in res.iterrows()],
                        "seed_left": len(ra.seed_frame), "search_left": len(ra.search_frame)})
        except Exception as e:   # noqa
            out.append({"sorted": sorted_rows, "outcome": "raised", "exc": "%s: %s" % (type(e).__name__, str(e)[:200])})
    return {"ok": True, "results": out}


def op_guards_unit(req):
    """the real guard functions on plain arguments: does each accept (True) or raise (False)?"""
    import logging, types
    import pandas as pd
    from transposon.merge_data import MergeData
    from transposon.preprocess import PreProcessor
    from transposon import check_strand
    log = logging.getLogger("vh")
    log.setLevel(logging.CRITICAL + 1)

    def accepts(f):
        try:
            f()
            return True
        except (ValueError, TypeError, AttributeError):
            return False
    out = {"ok": True, "merge": [], "split": [], "strand": []}
    attr = {"windows": ("windows", "_validate_windows"), "gene_names": ("gene_names", "_validate_gene_names"), "chromosome": ("chromosome_id", "_validate_chromosome")}
    for kind, a, b in req["merge"]:
        field, meth = attr[kind]
        me = MergeData.__new__(MergeData)
        setattr(me, field, a)
        other = types.SimpleNamespace(**{field: b})
        out["merge"].append(accepts(lambda: getattr(me, meth)(other)))
    pp = PreProcessor.__new__(PreProcessor)
    pp._logger = log
    for g, t in req["split"]:
        gf = [pd.DataFrame({"Chromosome": [c, c]}) for c in g]
        tf = [pd.DataFrame({"Chromosome": [c]}) for c in t]
        out["split"].append(accepts(lambda: pp._validate_split(gf, tf)))
    for s in req["strand"]:
        df = pd.DataFrame({"Strand": pd.Series(s, dtype=str)})
        out["strand"].append(accepts(lambda: check_strand(df, log)))
    return out


def op_overlap_unit(req):
    """The real OverlapWorker.calculate on small containers: genes [[id, start, stop]...] (container order), tes [[start, stop]...],
    windows, requested ids. Returns the three arrays of the file it wrote, flattened gene by gene (intra row, then per window left, right),
    with the stored gene names and windows; or that it raised."""
    import logging, tempfile
    import numpy as np
    import pandas as pd
    from transposon.gene_data import GeneData
    from transposon.transposon_data import TransposonData
    from transposon.overlap import OverlapWorker, OverlapData
    logging.getLogger("transposon.overlap").setLevel(logging.CRITICAL + 1)
    out = []
    for c in req["cases"]:
        gf = pd.DataFrame([["g%d" % i, s, e, e - s + 1, "C"] for i, s, e in c["genes"]], columns=["Gene_Name", "Start", "Stop", "Length", "Chromosome"])
        gf.set_index("Gene_Name", inplace=True)
        tf = pd.DataFrame([["C", s, e, "+", "O", "S", e - s + 1] for s, e in c["tes"]], columns=["Chromosome", "Start", "Stop", "Strand", "Order", "SuperFamily", "Length"])
        d = tempfile.mkdtemp(prefix="vhov_")
        try:
            w = OverlapWorker(os.path.join(d, "o.h5"))
            try:
                path = w.calculate(GeneData(gf, "G"), TransposonData(tf, "G"), list(c["windows"]), ["g%d" % i for i in c["requested"]])
            except Exception as e:  # noqa
                out.append({"outcome": "raised", "exc": "%s: %s" % (type(e).__name__, str(e)[:200])})
                continue
            with OverlapData.from_file(os.path.join(d, "o.h5")) as o:
                L, I, R = o.left[:], o.intra[:], o.right[:]
                flat = []
                for g in range(L.shape[0]):
                    flat += [int(x) for x in I[g, 0, :]]
                    for wi in range(L.shape[1]):
                        flat += [int(x) for x in L[g, wi, :]] + [int(x) for x in R[g, wi, :]]
                whole = bool(np.all(L == np.floor(L)) and np.all(I == np.floor(I)) and np.all(R == np.floor(R)))
                out.append({"outcome": "ok", "flat": flat, "whole_numbers": whole, "shape": list(L.shape), "intra_shape": list(I.shape),
                            "gene_names": [str(x) for x in o.gene_names], "windows": [int(x) for x in o.windows]})
        finally:
            shutil.rmtree(d, ignore_errors=True)
    return {"ok": True, "results": out}


def op_merge_unit(req):
    """The real OverlapWorker.calculate followed by the real MergeData.sum on small containers: genes [[id, start, stop]...],
    tes [[start, stop, order id, superfamily id]...], windows. Returns, per group axis, the stored names and the three density arrays
    flattened [group][window][gene], with the stored gene names and windows; or that a stage raised."""
    import logging, tempfile
    import numpy as np
    import pandas as pd
    from transposon.gene_data import GeneData
    from transposon.transposon_data import TransposonData
    from transposon.overlap import OverlapWorker, OverlapData
    from transposon.merge_data import MergeData
    for n in ("transposon.overlap", "transposon.merge_data"):
        logging.getLogger(n).setLevel(logging.CRITICAL + 1)
    out = []
    for c in req["cases"]:
        gf = pd.DataFrame([["g%d" % i, s, e, e - s + 1, "C"] for i, s, e in c["genes"]], columns=["Gene_Name", "Start", "Stop", "Length", "Chromosome"])
        gf.set_index("Gene_Name", inplace=True)
        tf = pd.DataFrame([["C", s, e, "+", "o%03d" % o, "s%03d" % sf, e - s + 1] for s, e, o, sf in c["tes"]],
                          columns=["Chromosome", "Start", "Stop", "Strand", "Order", "SuperFamily", "Length"])
        d = tempfile.mkdtemp(prefix="vhmg_")
        try:
            genes, tes = GeneData(gf, "G"), TransposonData(tf, "G")
            try:
                OverlapWorker(os.path.join(d, "o.h5")).calculate(genes, tes, list(c["windows"]), list(genes.names))
                md = MergeData.from_param(tes, genes, list(c["windows"]), d)
                with md as sink:
                    with OverlapData.from_file(os.path.join(d, "o.h5")) as ov:
                        sink.sum(ov, genes, None)
                    res = {"outcome": "ok", "gene_names": [str(x) for x in sink.gene_names], "windows": [int(x) for x in sink.windows]}
                    for axis, names, dens in (("sup", sink.superfamily_names, sink.superfamily), ("ord", sink.order_names, sink.order)):
                        res[axis + "_names"] = [str(x) for x in names]
                        for side, arr in (("L", dens.left), ("I", dens.intra), ("R", dens.right)):
                            a = arr[:]
                            res[axis + side] = {"shape": list(a.shape), "flat": [float(x) for x in a.reshape(-1)]}
                out.append(res)
            except Exception as e:  # noqa
                out.append({"outcome": "raised", "exc": "%s: %s" % (type(e).__name__, str(e)[:200])})
        finally:
            shutil.rmtree(d, ignore_errors=True)
    return {"ok": True, "results": out}


def op_overlap_putfault(req):
    """The real _process_overlap_job on the cached pair of every chromosome of a generated annotation pair, with a result queue whose
    put fails once (the connection to the manager process is gone: BrokenPipeError / ConnectionResetError / EOFError) or works:
    did the function end normally, and did the queue receive the result?"""
    from vh import gen
    from transposon.preprocess import PreProcessor
    from transposon.overlap_manager import _OverlapJob, _process_overlap_job
    from transposon.gene_data import GeneData
    import process_genome, errno
    d = tempfile.mkdtemp(prefix="vh_pf_")
    try:
        gpath, tpath, cpath = os.path.join(d, "genes.v2.tsv"), os.path.join(d, "tes.v2.mod.TEanno.tsv"), os.path.join(d, "cfg.ini")
        gen.write_pair(req["case"], gpath, tpath, cpath)
        out = os.path.join(d, "out"); ovl = os.path.join(out, "tmp", "overlap"); os.makedirs(ovl)
        windows = process_genome.parse_algorithm_config(cpath)["window_range"]
        pre = PreProcessor(gpath, tpath, out, False, "G", False)
        pre.process()
        res = []
        for ji, (g_path, t_path) in enumerate(pre.data_filepaths()):
            gd = GeneData.read(g_path)
            opath = os.path.join(ovl, "G_" + gd.chromosome_unique_id + "_overlap.h5")
            fault = req["faults"][ji % len(req["faults"])]
            class RQ:
                def __init__(self):
                    self.items, self.calls = [], 0
                def put(self, x, *a, **k):
                    self.calls += 1
                    if fault == "EPIPE":
                        raise BrokenPipeError(errno.EPIPE, "Broken pipe (injected)")
                    if fault == "ECONNRESET":
                        raise ConnectionResetError(errno.ECONNRESET, "Connection reset by peer (injected)")
                    if fault == "EOF":
                        raise EOFError("injected")
                    self.items.append(x)
                put_nowait = put
            rq = RQ()
            job = _OverlapJob(gene_uid=gd.chromosome_unique_id, gene_path=g_path, te_path=t_path, output_filepath=opath, window_range=windows,
                              gene_names=list(gd.names), progress_queue=_StubQ(), result_queue=rq, stop_event=None)
            try:
                _process_overlap_job(job)
                ended = "normally"
            except BaseException as e:  # noqa
                ended = type(e).__name__
            res.append({"chrom": gd.chromosome_unique_id, "fault": fault, "ended": ended, "put_calls": rq.calls,
                        "results_received": len([x for x in rq.items if getattr(x, "exception", None) is None])})
        return {"ok": True, "jobs": res}
    except BaseException as e:  # noqa
        return {"ok": False, "exc": type(e).__name__, "msg": str(e)[:300], "tb": traceback.format_exc()[-1200:]}
    finally:
        shutil.rmtree(d, ignore_errors=True)


OPS = {"overlap.putfault": op_overlap_putfault, "merge.unit": op_merge_unit, "overlap.unit": op_overlap_unit, "pipeline": op_pipeline, "preprocess": op_preprocess, "revise.unit": op_revise_unit, "guards.unit": op_guards_unit}


def main():
    sys.setrecursionlimit(10000)
    for line in sys.stdin:
        req = json.loads(line)
        try:
            op = req["op"]
            if op not in OPS:
                mod = __import__("vh.implops_" + op.split(".")[0], fromlist=["OPS"])
                OPS.update(mod.OPS)
            rep = OPS[op](req)
        except BaseException as e:  # noqa
            rep = {"ok": False, "exc": type(e).__name__, "msg": str(e)[:500], "tb": traceback.format_exc()[-1500:]}
        REPLY.write(json.dumps(rep) + "\n")
        REPLY.flush()


if __name__ == "__main__":
    main()
