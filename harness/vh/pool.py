"""Pool of implementation workers with per-request timeout and kill-on-hang."""
import json, os, signal, subprocess, threading, queue, select, time
from . import common


class Worker:
    def __init__(self, env=None):
        self.env = env
        self.start()

    def start(self):
        self.p = subprocess.Popen([common.PY, "-m", "vh.implworker"], stdin=subprocess.PIPE, stdout=subprocess.PIPE,
                                  stderr=subprocess.DEVNULL, env=common.child_env(self.env), start_new_session=True,
                                  cwd=common.REPO)

    def kill(self):
        try:
            os.killpg(self.p.pid, signal.SIGKILL)
        except (ProcessLookupError, PermissionError):
            pass
        try:
            self.p.wait(timeout=5)
        except Exception:
            pass

    def call(self, req, timeout):
        try:
            self.p.stdin.write((json.dumps(req) + "\n").encode())
            self.p.stdin.flush()
        except (BrokenPipeError, OSError):
            self.kill(); self.start()
            return {"ok": False, "exc": "WorkerDied", "msg": "broken pipe"}
        deadline = time.time() + timeout
        buf = b""
        fd = self.p.stdout.fileno()
        while True:
            left = deadline - time.time()
            if left <= 0:
                self.kill(); self.start()
                return {"ok": False, "exc": "Timeout", "msg": "no reply within %ss" % timeout}
            r, _, _ = select.select([fd], [], [], min(left, 1.0))
            if r:
                chunk = os.read(fd, 1 << 20)
                if not chunk:
                    rc = self.p.poll()
                    self.kill(); self.start()
                    return {"ok": False, "exc": "WorkerDied", "msg": "exit %s" % rc}
                buf += chunk
                if buf.endswith(b"\n"):
                    return json.loads(buf.decode())


def run_requests(reqs, nworkers=16, timeout=120, env=None):
    """Execute requests on a pool; returns replies in order."""
    n = max(1, min(nworkers, len(reqs)))
    q = queue.Queue()
    for i, r in enumerate(reqs):
        q.put((i, r))
    out = [None] * len(reqs)

    def loop():
        w = Worker(env)
        try:
            while True:
                try:
                    i, r = q.get_nowait()
                except queue.Empty:
                    return
                out[i] = w.call(r, timeout)
        finally:
            w.kill()
    ths = [threading.Thread(target=loop) for _ in range(n)]
    for t in ths:
        t.start()
    for t in ths:
        t.join()
    return out
