"""Shared pieces of the reader properties (C08, C09, C15, C16)."""
import copy
from . import gen, pool

STRAND_MIXES = ["all_plus", "all_minus", "with_dot", "mixed", "mixed"]


def strand_case(r, mix, max_chrom=2, names=None, min_chrom=1):
    c = gen.gen_pair(r, max_chrom=max_chrom, max_genes=4, max_tes=8, chrom_names=names, min_chrom=min_chrom)
    for g in c["genes"]:
        g["strand"] = {"all_plus": "+", "all_minus": "-"}.get(mix) or (r.choice(["+", "-", "."]) if mix == "with_dot" else r.choice(["+", "-"]))
    if mix in ("mixed", "with_dot") and not any(g["strand"] == "-" for g in c["genes"]):
        c["genes"][0]["strand"] = "-"
    if mix == "mixed":
        # a chromosome with two or more genes has both strands: which gene is exchanged is then visible
        for ch in sorted(set(g["chrom"] for g in c["genes"])):
            mine = [g for g in c["genes"] if g["chrom"] == ch]
            if len(mine) >= 2 and len(set(g["strand"] for g in mine)) == 1:
                mine[-1]["strand"] = "+" if mine[0]["strand"] == "-" else "-"
    # every gene gets an element just left of it (of a length of its own): its left and right contents differ, so an exchange that was
    # not made, or made for another gene, shows in the values served
    o, sf = (c["tes"][0]["order"], c["tes"][0]["superfam"]) if c["tes"] else ("LTR", "Gypsy")
    for i, g in enumerate(c["genes"]):
        if g["start"] > 12 + i:
            c["tes"].append({"chrom": g["chrom"], "start": g["start"] - 3 - (i % 7), "stop": g["start"] - 2, "order": o, "superfam": sf, "strand": "+"})
    r.shuffle(c["genes"])          # positional iloc / name round trip
    c["mix"] = mix
    return c


def expected_codes(case, chrom):
    """gene -> [left, right, intra] codes of the strand-aware view"""
    return {g["name"]: (["R", "L", "I"] if g["strand"] == "-" else ["L", "R", "I"]) for g in case["genes"] if g["chrom"] == chrom}


def codes_match(exp, got):
    def ok(e, g):
        return g == e or g == "LR"
    return all(ok(e, g) for e, g in zip(exp, got))


def view_failures(case, loaded):
    """the C09 statement on one completed load (list of per-chromosome records)"""
    fails = []
    for l in loaded:
        exp = expected_codes(case, l["chrom"])
        if l["cols"] is None:
            fails.append({"kind": "unknown_file", "chrom": l["chrom"]}); continue
        if sorted(exp) != sorted(l["cols"]):
            fails.append({"kind": "gene_set", "chrom": l["chrom"], "expected": sorted(exp), "got": sorted(l["cols"])}); continue
        for g, e in exp.items():
            if not codes_match(e, l["cols"][g]):
                fails.append({"kind": "wrong_view", "chrom": l["chrom"], "gene": g,
                              "strand": [x["strand"] for x in case["genes"] if x["name"] == g][0],
                              "expected[left,right,intra]": e, "got": l["cols"][g],
                              "legend": "L/R = raw left/right contents, I = raw intragenic, ? = something else"})
    return fails


def model_genes_raw(case, chrom, raw_gene_order):
    """literals for Model.Reader: gene annotation rows (name, strand) and the raw file columns"""
    idx = {g: i + 1 for i, g in enumerate(raw_gene_order)}
    code = {"+": 0, "-": 1, ".": 2}
    genes = "[" + "; ".join("(%d, %d)%%N" % (idx[g["name"]], code[g["strand"]]) for g in case["genes"] if g["chrom"] == chrom) + "]"
    raw = "[" + "; ".join("(%d%%N, mkCol %d %d %d)" % (idx[g], 2 * idx[g], 2 * idx[g] + 1, 1000 + idx[g]) for g in raw_gene_order) + "]"
    return genes, raw, idx


def decode_cols(flat, idx):
    """flat_cols output -> {gene: [codes]} or None"""
    if flat[0] != 0:
        return None
    inv = {v: k for k, v in idx.items()}
    out = {}
    body = flat[1:]
    for i in range(0, len(body), 4):
        n, l, r, it = body[i:i + 4]
        def code(x):
            return "L" if x == 2 * n else "R" if x == 2 * n + 1 else "?"
        out[inv[n]] = [code(l), code(r), "I" if it == 1000 + n else "?"]
    return out
