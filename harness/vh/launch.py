"""Crash / fault launcher: runs a script of /repo (process_genome.py) with file operations and
per-gene computation steps instrumented FROM OUTSIDE (no hook in /repo).

  python -m vh.launch <spec.json> <script> <args...>

spec = {"mode": "observe" | "crash" | "fault",
        "log": path or null,                       every instrumented operation is appended as a JSON line
        "target": {"kind": K, "base": B, "n": N},  the N-th operation of kind K on the file named B
        "byte": b,                                 csv only: bytes of the file written before the event
        "variant": "before" | "after" | "flush"}   replace: die before / after; h5: flush the file first

Operation kinds (base = basename of the file concerned):
  csv       pandas.DataFrame.to_csv(path)          replace   os.replace(src, dst) (base of dst)
  h5create  h5py.File(name, 'w')                   h5ds      Group.create_dataset
  h5set     Dataset.__setitem__                    h5flush / h5close   File.flush / File.close (writable)
  ovgene    per-gene step of OverlapWorker.calculate (base of the overlap file being calculated)
  mergesum  MergeData._process_sum (base of the result file)
  fwrite    a text intermediate (*.tsv, *.tsv.tmp) opened for writing through builtins.open: the raw file under the buffered writer
            fails with ENOSPC once "byte" bytes have reached it (base = the name without ".tmp"); the device stays full (fault mode only)
crash  = SIGKILL to the whole process group (main process, pool workers, manager servers) at the event; variant "term" (per-gene steps of the
         overlap stage): SIGTERM to the main process only, the harness removes whatever is left of the group once the main process has ended
fault  = OSError raised by the file operation - errno of the spec ("errno": "ENOSPC" by default, also "EACCES" = PermissionError, "EIO") - /
         RuntimeError raised by the computation step."""
import errno, json, os, runpy, signal, sys

SPEC = json.load(open(sys.argv[1]))
SCRIPT, ARGS = sys.argv[2], sys.argv[3:]
MODE = SPEC["mode"]
TARGET = SPEC.get("target")
VARIANT = SPEC.get("variant", "before")
LOGFD = os.open(SPEC["log"], os.O_WRONLY | os.O_APPEND | os.O_CREAT, 0o644) if SPEC.get("log") else None
COUNT = {}


def _log(ev):
    if LOGFD is not None:
        os.write(LOGFD, (json.dumps(ev) + "\n").encode())


def hit(kind, base, **extra):
    n = COUNT.get((kind, base), 0)
    COUNT[(kind, base)] = n + 1
    ev = {"kind": kind, "base": base, "n": n, "pid": os.getpid()}
    ev.update(extra)
    _log(ev)
    return TARGET is not None and TARGET["kind"] == kind and TARGET["base"] == base and TARGET["n"] == n


def die():
    _log({"kind": "DIE", "pid": os.getpid()})
    if VARIANT == "term":
        # a polite kill (kill <pid>, the time limit of a batch scheduler, shutdown): SIGTERM to the MAIN process only - the launcher runs
        # in its own session, so the process group id is the main process - while this process carries on until it is stopped
        os.kill(os.getpgrp(), signal.SIGTERM)
        return
    os.killpg(os.getpgrp(), signal.SIGKILL)
    os._exit(137)


def enospc(what):
    """the fault: OSError with the errno of the spec (default ENOSPC; EACCES gives a PermissionError, EIO a plain OSError)"""
    _log({"kind": "FAULT", "what": what, "pid": os.getpid()})
    code = getattr(errno, SPEC.get("errno", "ENOSPC"))
    raise OSError(code, "%s (injected by vh.launch at %s)" % (os.strerror(code), what))


def event(what, h5file=None):
    """the targeted operation has been reached"""
    if MODE == "crash":
        if VARIANT == "flush" and h5file is not None:
            try:
                h5file.flush()
            except Exception:
                pass
        die()
    elif MODE == "fault":
        enospc(what)


def install():
    import pandas as pd
    import h5py

    base = os.path.basename
    o_to_csv = pd.DataFrame.to_csv

    def to_csv(self, path_or_buf=None, *a, **k):
        if not isinstance(path_or_buf, (str, os.PathLike)):
            return o_to_csv(self, path_or_buf, *a, **k)
        path = os.fspath(path_or_buf)
        if not hit("csv", base(path)):
            r = o_to_csv(self, path, *a, **k)
            try:
                raw = open(path, "rb").read()
                nl = [i + 1 for i, c in enumerate(raw) if c == 10][:400]
            except Exception:
                raw, nl = b"", []
            _log({"kind": "csvlen", "base": base(path), "len": len(raw), "rows": nl})
            return r
        data = o_to_csv(self, None, *a, **k).encode("utf-8")
        b = SPEC.get("byte", 0)
        if b is None or b < 0 or b > len(data):
            b = len(data)
        if SPEC.get("nocreate"):
            event("create " + base(path))
        with open(path, "wb") as f:
            f.write(data[:b])
            f.flush()
            os.fsync(f.fileno())
        event("write %s at byte %d of %d" % (base(path), b, len(data)))
        return None
    pd.DataFrame.to_csv = to_csv

    # the raw file under Python's buffered text writer: a full device shows when the buffer is flushed - possibly only at close
    import builtins, io
    o_open = builtins.open

    class FaultyRaw(io.FileIO):
        def __init__(self, path, mode, label, limit):
            super().__init__(path, mode)
            self._vh = {"n": 0, "label": label, "limit": limit}

        def write(self, b):
            st = self._vh
            b = bytes(b)
            if st["limit"] is not None and st["n"] + len(b) > st["limit"]:
                k = max(0, st["limit"] - st["n"])
                if k:
                    super().write(b[:k]); st["n"] += k; st["limit"] = st["n"]
                enospc("write %s after %d bytes" % (st["label"], st["n"]))
            st["n"] += len(b)
            return super().write(b)

        def close(self):
            if not self.closed and self._vh is not None and self._vh["limit"] is None:
                _log({"kind": "fwlen", "base": self._vh["label"], "len": self._vh["n"]})
            return super().close()

    def vh_open(file, mode="r", buffering=-1, encoding=None, errors=None, newline=None, closefd=True, opener=None):
        try:
            name = os.fspath(file) if isinstance(file, (str, os.PathLike)) else None
        except Exception:
            name = None
        if name is None or "w" not in mode or "b" in mode or opener is not None or not (name.endswith(".tsv") or name.endswith(".tsv.tmp")):
            return o_open(file, mode, buffering, encoding, errors, newline, closefd, opener)
        label = base(name)[:-4] if name.endswith(".tmp") else base(name)
        targeted = hit("fwrite", label)
        limit = SPEC.get("byte", 0) if (targeted and MODE == "fault") else None
        raw = FaultyRaw(name, "w", label, limit)
        buf = io.BufferedWriter(raw) if buffering in (-1, 1) else io.BufferedWriter(raw, buffering)
        return io.TextIOWrapper(buf, encoding=encoding, errors=errors, newline=newline, line_buffering=(buffering == 1))
    builtins.open = vh_open

    o_replace = os.replace

    def replace(src, dst, *a, **k):
        h = hit("replace", base(os.fspath(dst)))
        if h and VARIANT != "after":
            event("replace -> " + base(os.fspath(dst)))
        r = o_replace(src, dst, *a, **k)
        if h:
            event("after replace -> " + base(os.fspath(dst)))
        return r
    os.replace = replace

    o_init = h5py.File.__init__

    def f_init(self, name, mode="r", *a, **k):
        if isinstance(name, (str, os.PathLike)) and mode in ("w", "w-", "x", "a"):
            if hit("h5create", base(os.fspath(name))):
                event("create " + base(os.fspath(name)))
        return o_init(self, name, mode, *a, **k)
    h5py.File.__init__ = f_init

    def fname(obj):
        try:
            return base(obj.file.filename)
        except Exception:
            return "?"

    o_cds = h5py.Group.create_dataset

    def create_dataset(self, name, *a, **k):
        if hit("h5ds", fname(self), ds=str(name)):
            event("create_dataset %s in %s" % (name, fname(self)), self.file)
        return o_cds(self, name, *a, **k)
    h5py.Group.create_dataset = create_dataset

    o_set = h5py.Dataset.__setitem__

    def ds_set(self, *a, **k):
        if hit("h5set", fname(self)):
            event("write into %s of %s" % (self.name, fname(self)), self.file)
        return o_set(self, *a, **k)
    h5py.Dataset.__setitem__ = ds_set

    o_flush = h5py.File.flush

    def f_flush(self):
        if self.mode != "r" and hit("h5flush", base(self.filename)):
            event("flush " + base(self.filename), None)
        return o_flush(self)
    h5py.File.flush = f_flush

    o_close = h5py.File.close

    def f_close(self):
        try:
            writable = bool(self.id.valid) and self.mode != "r"
            nm = base(self.filename) if writable else None
        except Exception:
            writable, nm = False, None
        if writable and hit("h5close", nm):
            if MODE == "crash":
                event("close " + nm, self if VARIANT == "flush" else None)
            else:
                o_close(self)          # the handle is released, the error is what the caller sees
                enospc("close " + nm)
        return o_close(self)
    h5py.File.close = f_close

    # computation steps
    from transposon.overlap import OverlapWorker
    from transposon.merge_data import MergeData
    o_calc = OverlapWorker.calculate

    def calculate(self, genes, transposons, windows, gene_names, stop=None, progress=None):
        nm = base(self.output_filepath)

        def prog():
            if hit("ovgene", nm):
                if MODE == "crash":
                    die()
                elif MODE == "fault":
                    _log({"kind": "FAULT", "what": "gene step of " + nm})
                    raise RuntimeError("injected failure in a per-gene overlap step of %s" % nm)
            if progress:
                progress()
        return o_calc(self, genes, transposons, windows, gene_names, stop=stop, progress=prog)
    OverlapWorker.calculate = calculate

    o_psum = MergeData._process_sum

    def _process_sum(self, overlap, gene_data, sum_args):
        nm = base(self._h5_file.filename)
        if hit("mergesum", nm):
            if MODE == "crash":
                if VARIANT == "flush":
                    self._h5_file.flush()
                die()
            elif MODE == "fault":
                _log({"kind": "FAULT", "what": "summation step of " + nm})
                raise RuntimeError("injected failure in a summation step of %s" % nm)
        return o_psum(self, overlap, gene_data, sum_args)
    MergeData._process_sum = _process_sum


def main():
    install()
    sys.argv = [SCRIPT] + ARGS
    runpy.run_path(SCRIPT, run_name="__main__")


if __name__ == "__main__":
    main()
