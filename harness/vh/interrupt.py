"""Interrupted and failed runs (C12, C17): scenarios, enumeration of crash / fault points from an observed
run, execution of each point on a copy of the scenario's directory, atomicity check, abstraction of the
directory left behind against the model's crash states, re-run and comparison with the uninterrupted run."""
import copy, json, os, shutil, tempfile, time
from . import common, gen, cachefam

# (name, history that builds the directory, flags of the command that is interrupted and repeated)
SCENARIOS = [
    ("fresh_directory", [], (False, False)),
    ("edit_both_then_revise", [("run", False, False), ("editG", 1), ("editT", 1)], (False, True)),      # D16
    ("edit_TEs_then_refresh", [("run", False, False), ("editT", 2)], (True, True)),
    ("edit_genes_plain", [("run", False, False), ("editG", 2)], (False, False)),
    ("unchanged_rerun", [("run", False, False)], (False, False)),
    ("windows_changed_reset", [("run", False, False), ("editW", 1)], (True, False)),
    ("windows_changed_plain", [("run", False, False), ("editW", 1)], (False, False)),                   # uninterrupted run is an error
    ("touch_genes_revise", [("run", True, True), ("touchG",)], (False, True)),
    ("move_genes_plain", [("run", False, False), ("editG", 1)], (False, False)),       # same gene names: a stale overlap file would be accepted by the merge
    ("move_TEs_revise", [("run", False, False), ("editT", 1)], (False, True)),
    ("fresh_directory_single_process", [], (False, False)),      # the same command with --single_process: the stages run in the main process
]
EXTRA_FLAGS = {"fresh_directory_single_process": ["--single_process"]}


def clone(w, dst=None):
    """copy of a world's directory (mtimes preserved) with its own World object"""
    dst = dst or tempfile.mkdtemp(prefix="vhc_")
    os.rmdir(dst)
    shutil.copytree(w.root, dst, copy_function=shutil.copy2)
    c = cachefam.World.__new__(cachefam.World)
    c.__dict__.update({k: v for k, v in w.__dict__.items()})
    c.root = dst
    for a in ("genes_in", "tes_in", "cfg", "out"):
        setattr(c, a, os.path.join(dst, os.path.relpath(getattr(w, a), w.root)))
    return c


def intermediates(w):
    d = {"R": w.p_revised()}
    rdir = os.path.dirname(w.p_revised())
    for k in ("superfam", "order", "nameless"):
        d["pass_" + k] = os.path.join(rdir, "%s_%s_revision_cache.tsv" % (cachefam.GENOME, k))
    for ch in w.chroms:
        d["G_" + ch], d["T_" + ch], d["O_" + ch] = w.p_g(ch), w.p_t(ch), w.p_o(ch)
    return d


def raw_contents(w):
    out = {}
    for k, p in intermediates(w).items():
        if not os.path.exists(p):
            out[k] = None
        elif k.startswith("O_"):
            out[k] = cachefam.safe(cachefam.overlap_canon, p)
        else:
            out[k] = open(p, "rb").read().hex() if os.path.getsize(p) < 200000 else cachefam.tsv_canon(p)
    return out


def points_from_ops(ops, mode, tier, r):
    """crash / fault points of one observed run"""
    by = {}
    lens, rows = {}, {}
    for e in ops:
        if e["kind"] == "csvlen":
            lens[e["base"]] = e["len"]
            rows[e["base"]] = e.get("rows", [])
        elif e["kind"] == "fwlen":
            lens["fw:" + e["base"]] = e["len"]
        elif e["kind"] == "fwrite" and mode == "fault":
            by.setdefault((e["kind"], e["base"]), []).append(e["n"])
        elif e["kind"] in ("csv", "replace", "h5create", "h5ds", "h5set", "h5flush", "h5close", "ovgene", "mergesum"):
            by.setdefault((e["kind"], e["base"]), []).append(e["n"])
    pts = []
    full = tier != "quick"
    for (kind, base), ns in sorted(by.items()):
        nmax = max(ns)
        pick = sorted(set([0, nmax] + ([nmax // 2] if nmax > 1 else [])))
        if kind == "csv":
            ln = lens.get(base, 200)
            rb = [b for b in rows.get(base, []) if b < ln]        # row boundaries: the file stays parseable
            offs = [0, ln // 3, ln - 1, ln] + (r.sample(rb, min(3, len(rb))) if not full else rb)
            if full:
                offs += list(range(0, ln + 1, max(1, ln // 40)))
            pts.append({"target": {"kind": kind, "base": base, "n": 0}, "nocreate": True, "byte": 0})
            for b in sorted(set(offs)):
                pts.append({"target": {"kind": kind, "base": base, "n": 0}, "byte": b})
        elif kind == "fwrite":
            # a full device after b bytes of the raw file: inside the last buffered block (only the flush at close sees it),
            # at a block boundary, early
            ln = lens.get("fw:" + base, 0)
            blk = 8192
            offs = {0, ln // 2, max(0, ln - 1), max(0, ln - 40), (ln // blk) * blk, max(0, (ln // blk) * blk - 1), min(ln, (ln // blk) * blk + 1)}
            if full:
                offs |= set(range(0, ln + 1, max(1, ln // 12)))
            for b in sorted(offs):
                pts.append({"target": {"kind": kind, "base": base, "n": 0}, "byte": b})
        elif kind == "replace":
            for v in (["before", "after"] if mode == "crash" else ["before"]):
                pts.append({"target": {"kind": kind, "base": base, "n": 0}, "variant": v})
        elif kind in ("h5set", "h5ds", "mergesum", "ovgene"):
            if full and kind != "h5set":
                pick = sorted(set(ns))
            elif full:
                pick = sorted(set(pick + r.sample(sorted(set(ns)), min(6, len(set(ns))))))
            for n in pick:
                for v in (["before", "flush"] if mode == "crash" and kind != "ovgene" else ["before", "term"] if mode == "crash" else ["before"]):
                    pts.append({"target": {"kind": kind, "base": base, "n": n}, "variant": v})
        else:   # h5create, h5flush, h5close
            for n in sorted(set(ns)):
                for v in (["before", "flush"] if mode == "crash" and kind == "h5close" else ["before"]):
                    pts.append({"target": {"kind": kind, "base": base, "n": n}, "variant": v})
    if mode == "fault":
        # the same failures with other error numbers: a handler written for one class of OSError must not treat the step as done
        extra = []
        for p in pts:
            k_ = p["target"]["kind"]
            if k_ in ("replace", "h5create", "h5close") or (k_ in ("csv", "fwrite") and p.get("byte", 0) == 0):
                for en in ("EACCES", "EIO"):
                    q = dict(p); q["errno"] = en
                    extra.append(q)
        pts += extra
    for p in pts:
        p["mode"] = mode
    return pts


def build_scenario(base_world, hist):
    """play the scenario's history in a clone of the (fresh) base world"""
    from .props import c13
    w = clone(base_world)
    c13.play(w, hist)
    return w


def match_crash_state(w, pre, st, prefixes, target_R):
    """is the directory left behind one of the model's crash states? returns list of problems"""
    probs = []
    r_ok_pre = cachefam.content_eq(w, None, "R", pre["R"], st["R"])
    r_ok_post = cachefam.content_eq(w, None, "R", target_R, st["R"])
    if not (r_ok_pre or r_ok_post):
        probs.append("revised annotation is neither the old nor the new one (version %s)" % st["R"])
    progressed = False
    for ci, ch in enumerate(w.chroms):
        o = st["chroms"][ci]
        ks = [k for k, m in enumerate(prefixes[ci])
              if cachefam.content_eq(w, ch, "G", m["GC"], o["GC"]) and cachefam.content_eq(w, ch, "T", m["TC"], o["TC"])
              and cachefam.content_eq(w, ch, "O", m["OV"], o["OV"])]
        if not ks:
            probs.append("%s: caches/overlap left behind (%s, %s, %s) are no prefix of the run's writes" % (ch, o["GC"], o["TC"], o["OV"]))
        elif min(ks) > 0:
            progressed = True
    if progressed and not r_ok_post:
        probs.append("per-chromosome writes happened before the revised annotation was in place")
    return probs


def run_point(args):
    """one crash / fault point on a clone of the scenario directory"""
    scen_world, flags, specs, ref = args
    w = clone(scen_world)
    rec = {"specs": specs, "flags": flags}
    try:
        reset, revise = flags
        pre = scen_world._pre
        rec["interrupted"] = []
        for spec in specs:
            run1 = w.run(reset=reset, revise=revise, spec=dict(spec))
            fired = any(e["kind"] in ("DIE", "FAULT") for e in run1["ops"])
            rec["interrupted"].append({"rc": run1["rc"], "fired": fired, "log": run1["log"][-600:]})
            if not fired:
                rec["not_reached"] = True
                return rec
        rec["raw_after"] = raw_contents(w)
        rec["leftover"] = sorted(os.path.basename(p) for p in _walk(w.out) if p.endswith(".tmp") or os.path.basename(p).startswith("partial_"))
        rec["state_after"] = w.abstract()
        time.sleep(0.01)
        run2 = w.run(reset=reset, revise=revise)
        rec["rerun_rc"] = run2["rc"]
        rec["rerun_log"] = run2["log"][-600:]
        rec["rerun_run"] = {"rc": run2["rc"], "log": run2["log"], "errw": run2["errw"], "ops": [e for e in run2["ops"] if e["kind"] == "replace"]}
        rec["rerun_post"] = w.abstract()
        rec["rerun_results"] = w.results() if run2["rc"] == 0 else {}
        return rec
    finally:
        w.close()


def _walk(d):
    for root, _dirs, files in os.walk(d):
        for f in files:
            yield os.path.join(root, f)


def reference(scen_world, flags):
    """the uninterrupted run on a clone: ops, exit status, results, contents afterwards"""
    w = clone(scen_world)
    try:
        run = w.run(reset=flags[0], revise=flags[1])
        return {"rc": run["rc"], "log": run["log"][-600:], "errw": run["errw"], "ops": run["ops"], "results": w.results() if run["rc"] == 0 else {},
                "raw": raw_contents(w), "post": w.abstract()}
    finally:
        w.close()


def run_family(chk, mode, props_file, rule):
    """the whole check for C12 (mode 'crash') or C17 (mode 'fault')"""
    import random
    from concurrent.futures import ThreadPoolExecutor
    from . import pipefam
    built = pipefam.standard_obligations(chk, props_file)
    r = chk.rng("interrupt")
    quick = chk.tier == "quick"
    nworlds = 2 if quick else 3
    per_scen = (22 if mode == "crash" else 28) if quick else 300
    per_big = 24 if quick else 120
    scen_idx = {0: [0, 1, 2, 6, 9, 10], 1: [3, 4, 5, 7, 8]} if quick else {i: list(range(len(SCENARIOS))) for i in range(nworlds)}
    if quick and not built:
        # a proof obligation or the translated cache decisions no longer check: widen the search for a failing crash point
        chk.notes.append("obligations broken: every scenario in both worlds, 60 points per scenario")
        per_scen = 60
        scen_idx = {i: list(range(len(SCENARIOS))) for i in range(nworlds)}
    jobs, scen_recs, worlds = [], [], []
    try:
        for wi in range(nworlds + 1):
            big = wi == nworlds
            if big:
                # a world whose cached intermediates are larger than the buffer of a buffered writer: a file renamed before its
                # last block is flushed is then cut, not empty
                case = gen.gen_big_files(r)
                base = cachefam.World(case, versions=([case["genes"]], [case["tes"]], [tuple(case["windows"])]))
            else:
                case = gen.gen_pair(r, max_chrom=2, max_genes=3, max_tes=9, min_chrom=1 + (wi % 2))
                base = cachefam.World(case, r)
            worlds.append(base)
            base.all_refs()
            bad = [k for k, v in base.refs.items() if v["rc"] != 0]
            if bad:
                chk.oblige("reference runs in fresh directories succeed", False, base.refs[bad[0]]["log"][-500:])
                continue
            for si in ([0] if big else scen_idx[wi % len(scen_idx)]):
                name, hist, flags = SCENARIOS[si]
                if big:
                    name = "big_files_" + name
                sw = build_scenario(base, hist)
                sw.extra_flags = EXTRA_FLAGS.get(SCENARIOS[si][0], [])
                worlds.append(sw)
                sw._pre = sw.abstract()
                sw._raw = raw_contents(sw)
                ref = reference(sw, flags)
                pts = points_from_ops(ref["ops"], mode, chk.tier, r)
                if big:
                    keep_kinds = ("replace", "csv", "fwrite")
                    pts = [p for p in pts if p["target"]["kind"] in keep_kinds]
                if len(pts) > (per_big if big else per_scen):
                    # keep every kind represented: round-robin over kinds
                    bykind = {}
                    for p in pts:
                        bykind.setdefault(p["target"]["kind"] + ("_term" if p.get("variant") == "term" else "") + ("_" + p["errno"] if p.get("errno") else ""), []).append(p)
                    for l in bykind.values():
                        r.shuffle(l)
                    pick = bykind.pop("replace", [])       # every rename: these are the boundaries between the crash states
                    if mode == "fault":
                        pick += bykind.pop("replace_EACCES", [])
                    lim = per_big if big else per_scen
                    while len(pick) < lim and any(bykind.values()):
                        for k in ["csv", "fwrite"] + sorted(bykind):      # text caches get a double share
                            if bykind.get(k) and len(pick) < lim:
                                pick.append(bykind[k].pop())
                    pts = pick
                sr = {"name": name, "hist": hist, "flags": flags, "world": sw, "ref": ref, "case": case, "base": base, "points": []}
                scen_recs.append(sr)
                for p in pts:
                    jobs.append((sr, [p]))
                if mode == "fault" and len(pts) >= 2:      # pairs of faults: two failed runs in a row
                    for _ in range(2 if quick else 30):
                        jobs.append((sr, r.sample(pts, 2)))
        with ThreadPoolExecutor(max_workers=16) as ex:
            recs = list(ex.map(run_point, [(sr["world"], sr["flags"], specs, sr["ref"]) for sr, specs in jobs]))
        for (sr, specs), rec in zip(jobs, recs):
            sr["points"].append(rec)
        # model side
        exprs, idx = [], []
        for sr in scen_recs:
            exprs.append(cachefam.prefixes_expr(sr["world"]._pre, *sr["flags"])); idx.append((sr, "prefixes", None))
            exprs.append(cachefam.step_expr(sr["world"]._pre, *sr["flags"])); idx.append((sr, "step", None))
            for rec in sr["points"]:
                if "state_after" in rec:
                    exprs.append(cachefam.step_expr(rec["state_after"], *sr["flags"])); idx.append((sr, "rerun", rec))
        try:
            flats = common.coq_eval(chk.pid.lower(), cachefam.IMPORTS, "", exprs, chunk=40) if exprs else []
            chk.oblige("model evaluation (vm_compute) of crash states and re-runs", True)
        except Exception as e:
            flats = None
            chk.oblige("model evaluation (vm_compute) of crash states and re-runs", False, str(e)[-1500:])
        if flats is not None:
            for flat, (sr, what, rec) in zip(flats, idx):
                n = len(sr["world"].chroms)
                if what == "prefixes":
                    sr["prefixes"] = cachefam.decode_prefixes(flat, n)
                elif what == "step":
                    sr["model_ref"] = cachefam.decode_step(flat, n)
                else:
                    rec["model_rerun"] = cachefam.decode_step(flat, n)
        n_atomic_bad = n_state_bad = n_step_bad = n_ref_bad = 0
        first = {}
        nviol = 0
        for sr in scen_recs:
            w, ref = sr["world"], sr["ref"]
            sw = cachefam.shell_world(w.chroms, sr["base"].refs)
            if flats is not None:
                d = cachefam.compare_step(sw, w._pre, sr["flags"], ref, ref["post"], ref["results"], sr["model_ref"])
                if d:
                    n_ref_bad += 1
                    first.setdefault("uninterrupted", {"scenario": sr["name"], "differences": d[:5]})
            for rec in sr["points"]:
                kinds = "+".join(s["target"]["kind"] for s in rec["specs"])
                if rec.get("not_reached"):
                    chk.count("point_not_reached")
                    continue
                chk.count("scenario:" + sr["name"])
                chk.count("point:" + kinds)
                chk.cov["traces_validated_against_impl"] += 1
                chk.case_seen([sr["name"], rec["specs"]], bool(sr["hist"]))
                fails = []
                if mode == "fault":
                    for s_, it in zip(rec["specs"], rec["interrupted"]):
                        if it["rc"] == 0:
                            fails.append({"kind": "failure_not_reported", "fault": s_, "exit_status": 0, "log": it["log"][-300:]})
                # atomicity of the writers
                bad_atomic = [k for k, v in rec["raw_after"].items() if v != w._raw[k] and v != ref["raw"][k]]
                if bad_atomic:
                    n_atomic_bad += 1
                    first.setdefault("atomic", {"scenario": sr["name"], "point": rec["specs"], "files": bad_atomic})
                if flats is not None:
                    ps = match_crash_state(sw, w._pre, rec["state_after"], sr["prefixes"], sr["model_ref"]["R"])
                    if ps:
                        n_state_bad += 1
                        first.setdefault("state", {"scenario": sr["name"], "point": rec["specs"], "problems": ps, "state": rec["state_after"]})
                    d = cachefam.compare_step(sw, rec["state_after"], sr["flags"], rec["rerun_run"], rec["rerun_post"], rec["rerun_results"], rec["model_rerun"])
                    if d:
                        n_step_bad += 1
                        first.setdefault("rerun", {"scenario": sr["name"], "point": rec["specs"], "differences": d[:5], "state": rec["state_after"]})
                # the property itself, on the implementation's own outputs
                if ref["rc"] == 0:
                    if rec["rerun_rc"] == 0 and rec["rerun_results"] != ref["results"]:
                        badf = sorted(f for f in set(ref["results"]) | set(rec["rerun_results"]) if ref["results"].get(f) != rec["rerun_results"].get(f))
                        fails.append({"kind": "rerun_succeeds_with_different_results", "files": badf})
                elif rec["rerun_rc"] == 0:
                    fails.append({"kind": "rerun_succeeds_where_uninterrupted_run_fails", "uninterrupted_exit": ref["rc"]})
                if fails:
                    nviol += 1
                    if nviol <= 3:
                        chk.violation("%s: %s" % ("interrupted run" if mode == "crash" else "failed run", fails[0]["kind"]),
                                      {"case": sr["case"], "versions": sr["base"].versions(), "scenario": sr["name"], "history": sr["hist"],
                                       "flags": sr["flags"], "extra_flags": getattr(sr["world"], "extra_flags", []), "points": rec["specs"], "failures": fails,
                                       "left_behind": rec["state_after"], "rerun_exit": rec["rerun_rc"], "rerun_log": rec["rerun_log"][-400:]})
        chk.oblige("writers are atomic: after every interruption each final-named intermediate is its old or its complete new content (%d not)" % n_atomic_bad,
                   n_atomic_bad == 0, json.dumps(first.get("atomic"), default=str)[:2500])
        chk.oblige("every directory left behind is a crash state of Model.Cache (%d not)" % n_state_bad, n_state_bad == 0,
                   json.dumps(first.get("state"), default=str)[:2500])
        chk.oblige("correspondence: uninterrupted runs = Model.Cache.run (%d differ)" % n_ref_bad, n_ref_bad == 0, json.dumps(first.get("uninterrupted"), default=str)[:2500])
        chk.oblige("correspondence: re-runs after the interruption = Model.Cache.run on the observed state (%d differ)" % n_step_bad, n_step_bad == 0,
                   json.dumps(first.get("rerun"), default=str)[:2500])
        for k, v in first.items():
            chk.notes.append("first difference (%s): %s" % (k, json.dumps(v, default=str)[:1200]))
        if scen_recs and scen_recs[0]["points"]:
            chk.sample({"scenario": scen_recs[0]["name"], "point": scen_recs[0]["points"][0]["specs"], "rerun_exit": scen_recs[0]["points"][0].get("rerun_rc")})
    finally:
        for w in worlds:
            w.close()
    return chk.finish(rule=rule)


def replay_family(chk, rp, mode):
    w0 = cachefam.World(rp["case"], versions=rp["versions"])
    try:
        sw = build_scenario(w0, [tuple(o) for o in rp["history"]])
        sw.extra_flags = rp.get("extra_flags", [])
        try:
            sw._pre = sw.abstract()
            flags = tuple(rp["flags"])
            ref = reference(sw, flags)
            rec = run_point((sw, flags, rp["points"], ref))
            out = {"uninterrupted_exit": ref["rc"], "interrupted": rec.get("interrupted"), "rerun_exit": rec.get("rerun_rc")}
            bad = False
            if mode == "fault" and any(it["rc"] == 0 for it in rec.get("interrupted", [])):
                bad = True
            if "rerun_rc" in rec:
                if ref["rc"] == 0 and rec["rerun_rc"] == 0 and rec["rerun_results"] != ref["results"]:
                    bad = True
                if ref["rc"] != 0 and rec["rerun_rc"] == 0:
                    bad = True
            out["property_fails"] = bad
            print(json.dumps(out, indent=1, default=str))
            return 1 if bad else 0
        finally:
            sw.close()
    finally:
        w0.close()
