"""Shared machinery of the cache / crash / fault properties (C12, C13, C14b, C17): a scratch world with
versioned inputs and one output directory, the real command line run through the launcher, the
abstraction of the directory into the state of Model/Cache.v, and the per-run correspondence
(observed pre-state -> writes, post-state, outcome) against the model evaluated in Coq."""
import copy, csv, hashlib, json, os, shutil, tempfile, time
import numpy as np
import h5py
from . import common, gen, cli

GENOME = "G"
UNKNOWN = 99


# ----------------------------------------------------------------- inputs in versions
def gene_versions(r, case, n=3):
    """version 0 = the case; later versions move one gene per chromosome (names unchanged; version 1 also leaves their order unchanged);
    the last one also adds a gene per chromosome and lists the rows in the opposite order"""
    out = [copy.deepcopy(case["genes"])]
    chroms = sorted(set(g["chrom"] for g in case["genes"]))
    for v in range(1, n):
        gs = copy.deepcopy(out[0])
        for ch in chroms:
            mine = [g for g in gs if g["chrom"] == ch]
            g = mine[(v - 1) % len(mine)]
            if v == 1:
                # version 1 keeps names AND order of the genes of every chromosome (the right-most gene moves further right): nothing but
                # the modification times tells a stale overlap file from a current one
                g = max(mine, key=lambda x: (x["start"], x["stop"]))
            d = 7 * v + r.randint(1, 5)
            g["start"] += d; g["stop"] += d + v
            if v == n - 1:
                gs.append({"name": "%s_new%d" % (ch, v), "chrom": ch, "start": g["stop"] + 40, "stop": g["stop"] + 90, "strand": "+"})
        if v == 2:
            gs.reverse()        # the genes listed in the opposite order (matters only to code that trusts row order)
        out.append(gs)
    return out


def te_versions(r, case, n=3):
    """version 0 = the case; later versions move a TE next to a gene of every chromosome, add one, remove one"""
    out = [copy.deepcopy(case["tes"])]
    chroms = sorted(set(g["chrom"] for g in case["genes"]))
    for v in range(1, n):
        ts = copy.deepcopy(out[0])
        for ch in chroms:
            g = [g for g in case["genes"] if g["chrom"] == ch][0]
            mine = [t for t in ts if t["chrom"] == ch]
            t = mine[(v - 1) % len(mine)]
            t["start"] = max(1, g["start"] - 30 * v); t["stop"] = t["start"] + 25 * v
            ts.append({"chrom": ch, "start": g["stop"] + 3 * v, "stop": g["stop"] + 3 * v + 17, "order": t["order"], "superfam": t["superfam"], "strand": "+"})
            if v >= 2 and len(mine) > 2:
                ts.remove(mine[-1] if mine[-1] is not t else mine[0])
        out.append(ts)
    return out


MAXC = 2**31 - 1


def enrich_case(case, r):
    """make the results of the world sensitive to every layer of cache: next to one gene of every chromosome put TEs inside the
    smallest window on both sides and between consecutive windows of the window list (and just beyond it), so that every window
    of every window version has its own value and a moved gene or TE changes numbers"""
    case = copy.deepcopy(case)
    f, d, l = case["windows"]
    ws = list(range(f, l + 1, d))
    # the versions of a world move and add genes and TEs: keep every coordinate they can produce within 1 .. 2^31-1
    headroom = 3 * (ws[-1] + d) + 100000
    mx = max([g["stop"] for g in case["genes"]] + [t["stop"] for t in case["tes"]])
    if mx + headroom > MAXC:
        shift = mx + headroom - MAXC
        for x in case["genes"] + case["tes"]:
            x["start"] -= shift; x["stop"] -= shift
    marks = sorted(set([min(ws[0], 40) // 2 + 1] + [w + max(1, d // 2) for w in ws] + [ws[-1] + d + max(1, d // 2), ws[-1] + 3 + max(1, d // 3)]))
    for ch in sorted(set(g["chrom"] for g in case["genes"])):
        gs = sorted((g for g in case["genes"] if g["chrom"] == ch), key=lambda g: g["start"])
        g = gs[len(gs) // 2]
        mine = [t for t in case["tes"] if t["chrom"] == ch]
        groups = sorted(set((t["order"], t["superfam"]) for t in mine))
        if not any(x is not g and x["chrom"] == ch and x["start"] == g["start"] for x in case["genes"]):
            # a second gene model with the same start: their relative order is decided by the order of the file's rows only
            case["genes"].append({"name": "%s_gtwin" % ch, "chrom": ch, "start": g["start"], "stop": g["stop"] + 37, "strand": "-"})
        for i, m in enumerate(marks):
            o, sf = groups[i % len(groups)]
            a = g["stop"] + m
            if a + 9 <= MAXC:
                case["tes"].append({"chrom": ch, "start": a, "stop": a + 9, "order": o, "superfam": sf, "strand": "+"})
            b = g["start"] - m
            if b - 6 >= 1:
                case["tes"].append({"chrom": ch, "start": b - 6, "stop": b, "order": o, "superfam": sf, "strand": "-"})
    return case


WINDOW_KINDS = ("shift", "superset", "subset", "drop_first", "same_count", "same_ends")


def window_variant(base, kind):
    """a window configuration that differs from `base` in a particular way (what a guard comparing the windows of an overlap
    file with the request might wrongly accept: a sub- or superset, the same number of windows, the same first and last)"""
    f, d, l = base
    ws = list(range(f, l + 1, d))
    if kind == "superset":
        return [f, d, ws[-1] + d]
    if kind == "subset" and len(ws) >= 2:
        return [f, d, ws[-2]]
    if kind == "drop_first" and len(ws) >= 2:      # a subset whose array positions are shifted
        return [ws[1], d, ws[-1]]
    if kind == "same_count" and len(ws) >= 2:
        return [f, d + 1, f + (len(ws) - 1) * (d + 1)]
    if kind == "same_ends" and len(ws) >= 3 and (ws[-1] - f) % 2 == 0 and (ws[-1] - f) // 2 != d:
        return [f, (ws[-1] - f) // 2, ws[-1]]
    return [f + 3, d, l + 3 + d]


def window_versions(case, kinds=("shift", "superset")):
    base = list(case["windows"])
    out = [base]
    for k in kinds:
        v = window_variant(base, k)
        n = 0
        while any(list(range(v[0], v[2] + 1, v[1])) == list(range(o[0], o[2] + 1, o[1])) for o in out):
            n += 1
            v = [base[0] + 3 + n, base[1], base[2] + 3 + n + base[1]]
        out.append(v)
    return out


# ----------------------------------------------------------------- canonical content
def tsv_canon(path):
    """semantic content of a TSV written by the pipeline: rows as dicts, numbers as integers"""
    with open(path, newline="") as f:
        rows = list(csv.DictReader(f, delimiter="\t"))
    out = []
    for r_ in rows:
        d = {}
        for k, v in r_.items():
            if k in ("Start", "Stop", "Length"):
                try:
                    v = str(int(float(v)))
                except (TypeError, ValueError):
                    pass
            d[k] = v
        out.append(sorted(d.items()))
    return hashlib.sha1(json.dumps(out).encode()).hexdigest()


def overlap_canon(path):
    with h5py.File(path, "r") as f:
        h = hashlib.sha1()
        for k in sorted(f.keys()):
            a = f[k][()]
            h.update(k.encode())
            h.update(repr(a.shape).encode())
            h.update(np.ascontiguousarray(a).tobytes() if a.dtype.kind in "fiu" else repr(a.tolist()).encode())
        return h.hexdigest()


def safe(fn, path):
    if not os.path.exists(path):
        return None
    try:
        return fn(path)
    except Exception as e:  # unreadable / partial
        return "UNREADABLE:%s" % type(e).__name__


def results_summary(outdir):
    """{file: sorted cells} of the result files directly under outdir (NaN-safe)"""
    out = {}
    for f in cli.read_results(outdir):
        if "unreadable" in f:
            out[f["file"]] = "UNREADABLE"
        else:
            out[f["file"]] = {"genes": f["genes"], "windows": f["windows"], "orders": f["orders"], "supers": f["supers"],
                              "cells": sorted((tuple(c[:6]), round(c[6], 7)) for c in f["cells"])}
    return out


# ----------------------------------------------------------------- the world
class World:
    def __init__(self, case, r=None, root=None, nver=3, versions=None, wkinds=None):
        self.root = root or tempfile.mkdtemp(prefix="vhw_")
        self.case = case
        self.chroms = sorted(set(g["chrom"] for g in case["genes"]))
        if versions is not None:
            self.G, self.T, self.W = copy.deepcopy(versions)
        else:
            case = enrich_case(case, r)
            self.G = gene_versions(r, case, nver)
            self.T = te_versions(r, case, nver)
            self.W = window_versions(case, wkinds or tuple(r.sample(WINDOW_KINDS, 2)))
        self.genes_in = os.path.join(self.root, "genes.tsv")
        self.tes_in = os.path.join(self.root, "tes.tsv")
        self.cfg = os.path.join(self.root, "cfg.ini")
        self.out = os.path.join(self.root, "out")
        self.gv = self.tv = self.wv = 0
        self.refs = {}
        self.write_inputs(0, 0, 0)

    # -- inputs
    def _case(self, g, t, w):
        return {"genes": self.G[g], "tes": self.T[t], "windows": self.W[w]}

    def write_inputs(self, g=None, t=None, w=None):
        if g is not None:
            self.gv = g
            gen.write_pair(self._case(g, self.tv, self.wv), self.genes_in, os.devnull)
        if t is not None:
            self.tv = t
            gen.write_pair(self._case(self.gv, t, self.wv), os.devnull, self.tes_in)
        if w is not None:
            self.wv = w
            f, d, l = self.W[w]
            with open(self.cfg, "w") as fh:
                fh.write("[density_parameters]\nfirst_window_size = %d\nwindow_delta = %d\nlast_window_size = %d\n" % (f, d, l))

    # -- paths
    def p_revised(self):
        return os.path.join(self.out, "filtered_input_data", "revised_input_data", "Revised_tes.tsv")

    def p_g(self, ch):
        return os.path.join(self.out, "filtered_input_data", "input_cache", "%s_%s_GeneData.tsv" % (GENOME, ch))

    def p_t(self, ch):
        return os.path.join(self.out, "filtered_input_data", "input_cache", "%s_%s_TEData.tsv" % (GENOME, ch))

    def p_o(self, ch):
        return os.path.join(self.out, "tmp", "overlap", "%s_%s_overlap.h5" % (GENOME, ch))

    def p_res(self, ch):
        return os.path.join(self.out, "%s_%s.h5" % (GENOME, ch))

    # -- reference: the same inputs in a fresh directory
    def ref(self, g, t, w):
        key = (g, t, w)
        if key in self.refs:
            return self.refs[key]
        d = tempfile.mkdtemp(prefix="vhref_")
        try:
            gp, tp, cp = os.path.join(d, "genes.tsv"), os.path.join(d, "tes.tsv"), os.path.join(d, "cfg.ini")
            gen.write_pair(self._case(g, t, w), gp, tp, cp)
            out = os.path.join(d, "out")
            rc, log = cli.run_cli(d, gp, tp, cp, out, genome=GENOME, nproc=2)
            ref = {"rc": rc, "log": log[-800:], "results": results_summary(out) if rc == 0 else {}}
            w2 = World.__new__(World)
            w2.out = out
            ref["R"] = safe(tsv_canon, w2.p_revised())
            ref["G"] = {ch: safe(tsv_canon, w2.p_g(ch)) for ch in self.chroms}
            ref["T"] = {ch: safe(tsv_canon, w2.p_t(ch)) for ch in self.chroms}
            ref["O"] = {ch: safe(overlap_canon, w2.p_o(ch)) for ch in self.chroms}
        finally:
            shutil.rmtree(d, ignore_errors=True)
        self.refs[key] = ref
        return ref

    def all_refs(self):
        for g in range(len(self.G)):
            for t in range(len(self.T)):
                for w in range(len(self.W)):
                    self.ref(g, t, w)

    # -- abstraction of the output directory into Model/Cache.v's state
    def _ver(self, content, table):
        """smallest version whose reference content equals `content` (None stays None)"""
        if content is None:
            return None
        for v, c in table:
            if c == content:
                return v
        return UNKNOWN

    def abstract(self):
        mt = os.path.getmtime
        nG, nT, nW = len(self.G), len(self.T), len(self.W)
        Rc = safe(tsv_canon, self.p_revised())
        st = {"gv": self.gv, "tv": self.tv, "wv": self.wv, "nm": self.name_classes(),
              "R": self._ver(Rc, [(t, self.ref(0, t, 0)["R"]) for t in range(nT)]), "chroms": []}
        for ch in self.chroms:
            pg, pt, po = self.p_g(ch), self.p_t(ch), self.p_o(ch)
            gc = self._ver(safe(tsv_canon, pg), [(g, self.ref(g, 0, 0)["G"][ch]) for g in range(nG)])
            tc = self._ver(safe(tsv_canon, pt), [(t, self.ref(0, t, 0)["T"][ch]) for t in range(nT)])
            oc = safe(overlap_canon, po)
            ov = None
            if oc is not None:
                # two versions may give the same overlap file: prefer the reading consistent with the caches
                cands = [(g, t, w) for g in range(nG) for t in range(nT) for w in range(nW) if self.ref(g, t, w)["O"][ch] == oc]
                cands.sort(key=lambda c: (c[0] != gc, c[1] != tc, c))
                ov = cands[0] if cands else (UNKNOWN, UNKNOWN, UNKNOWN)
            c = {"GC": gc, "TC": tc, "OV": ov,
                 "gF": gc is not None and mt(pg) > mt(self.genes_in),
                 "tF": tc is not None and os.path.exists(self.p_revised()) and mt(pt) > mt(self.p_revised()),
                 "tFT": tc is not None and mt(pt) > mt(self.tes_in),
                 "oFG": ov is not None and gc is not None and mt(po) > mt(pg),
                 "oFT": ov is not None and tc is not None and mt(po) > mt(pt)}
            st["chroms"].append(c)
        return st

    # -- running the real command line through the launcher
    def run(self, reset=False, revise=False, spec=None, nproc=2, timeout=240):
        """returns {"rc", "log", "ops": [launcher events]}"""
        os.makedirs(self.root, exist_ok=True)
        logp = os.path.join(self.root, "ops_%d.log" % int(time.time() * 1e6))
        sp = dict(spec or {"mode": "observe"})
        sp["log"] = logp
        specp = logp + ".spec.json"
        with open(specp, "w") as f:
            json.dump(sp, f)
        cmd = [common.PY, "-m", "vh.launch", specp, os.path.join(common.REPO, "process_genome.py"), self.genes_in, self.tes_in,
               GENOME, "-c", self.cfg, "-o", self.out, "-n", str(nproc)]
        if reset:
            cmd.append("--reset_h5")
        if revise:
            cmd.append("--revise_anno")
        cmd += list(getattr(self, "extra_flags", []))
        # every run of a history in another interpreter state: the string-hash salt differs from run to run, as it does between
        # two invocations by a user (nothing kept on disk may depend on the iteration order of a set or dict of strings)
        self._nruns = getattr(self, "_nruns", 0) + 1
        env = common.child_env({"PYTHONHASHSEED": str((17 * self._nruns + len(self.root)) % 1000)})
        rc, out, err = common.run_child(cmd, timeout=timeout, cwd=self.root, env=env)
        ops = []
        if os.path.exists(logp):
            for line in open(logp):
                try:
                    ops.append(json.loads(line))
                except ValueError:
                    pass
            os.unlink(logp)
        os.unlink(specp)
        full = out + err
        return {"rc": rc, "log": full[-3000:], "ops": ops, "errw": "window" in full.lower()}

    def written(self, ops):
        """which final names were (re)placed during a run: (revised?, [per chromosome set of {1 G, 2 T, 3 O}])"""
        rep = set(e["base"] for e in ops if e["kind"] == "replace")
        per = []
        for ch in self.chroms:
            s_ = set()
            if os.path.basename(self.p_g(ch)) in rep: s_.add(1)
            if os.path.basename(self.p_t(ch)) in rep: s_.add(2)
            if os.path.basename(self.p_o(ch)) in rep: s_.add(3)
            per.append(s_)
        return ("Revised_tes.tsv" in rep), per

    def results(self):
        return results_summary(self.out)

    def versions(self):
        return [self.G, self.T, self.W]

    def name_classes(self):
        """gene version -> class of its gene-name set (what MergeData._validate_gene_names compares)"""
        seen, out = [], []
        for gs in self.G:
            key = sorted(g["name"] for g in gs)
            if key not in seen:
                seen.append(key)
            out.append(seen.index(key))
        return out

    def close(self):
        shutil.rmtree(self.root, ignore_errors=True)


def shell_world(chroms, refs):
    """a World without a directory: enough for compare_step on recorded runs"""
    w = World.__new__(World)
    w.chroms, w.refs, w.out = chroms, refs, "/nonexistent"
    w.ref = lambda g, t, wv: refs[(g, t, wv)]
    return w


# ----------------------------------------------------------------- the model side
def nat(x):
    return "%d" % x


def onat(v):
    return "None" if v is None else "(Some %d%%nat)" % (v + 1 if v != UNKNOWN else UNKNOWN)


def ver(v):
    return v + 1 if v != UNKNOWN else UNKNOWN


def chrom_lit(c):
    ov = "None" if c["OV"] is None else "(Some (%d, %d, %d)%%nat)" % tuple(ver(x) for x in c["OV"])
    b = lambda x: "true" if x else "false"
    return "(mkC %s %s %s %s %s %s %s %s)" % (onat(c["GC"]), onat(c["TC"]), ov, b(c["gF"]), b(c["tF"]), b(c["tFT"]), b(c["oFG"]), b(c["oFT"]))


def disk_lit(st):
    return "(disk_of %d%%nat %d%%nat %d%%nat %s [%s])" % (st["gv"] + 1, st["tv"] + 1, st["wv"] + 1, onat(st["R"]), "; ".join(chrom_lit(c) for c in st["chroms"]))


IMPORTS = "From TEV Require Import Model.Cache."


def step_expr(st, reset, revise, fixed=True):
    b = lambda x: "true" if x else "false"
    # index 0 unused (versions are 1-based in the model)
    nml = "[" + "; ".join("%d%%nat" % x for x in [0] + [c + 1 for c in st.get("nm", [])]) + "]"
    return "map Z.of_nat (flat_step %s %s %s %s %s %s)" % (b(fixed), b(reset), b(revise), nml, disk_lit(st), "%d%%nat" % len(st["chroms"]))


def prefixes_expr(st, reset, revise, fixed=True):
    b = lambda x: "true" if x else "false"
    return "map Z.of_nat (flat_prefixes %s %s %s %s %s)" % (b(fixed), b(reset), b(revise), disk_lit(st), "%d%%nat" % len(st["chroms"]))


def unver(v):
    return UNKNOWN if v == UNKNOWN else v - 1


def dec_chrom(a):
    """13 numbers -> chromosome dict (versions back to 0-based)"""
    gc = unver(a[1]) if a[0] else None
    tc = unver(a[3]) if a[2] else None
    ov = tuple(unver(x) for x in a[5:8]) if a[4] else None
    return {"GC": gc, "TC": tc, "OV": ov, "gF": bool(a[8]), "tF": bool(a[9]), "tFT": bool(a[10]), "oFG": bool(a[11]), "oFT": bool(a[12])}


def dec_outcome(a):
    if a[0] == 0:
        return ("Ok",) + tuple(unver(x) for x in a[1:6])
    return ({1: "ErrW", 2: "ErrG", 3: "ErrMissing"}[a[0]],)


def decode_step(flat, n):
    revises = bool(flat[0])
    R = unver(flat[2]) if flat[1] else None
    i = 3
    per = []
    for _ in range(n):
        kinds = []
        while flat[i] != 9:
            kinds.append(flat[i]); i += 1
        i += 1
        ch = dec_chrom(flat[i:i + 13]); i += 13
        oc = dec_outcome(flat[i:i + 6]); i += 6
        per.append({"kinds": kinds, "post": ch, "outcome": oc})
    return {"revises": revises, "R": R, "chroms": per}


def decode_prefixes(flat, n):
    i = 0
    out = []
    for _ in range(n):
        ln = flat[i]; i += 1
        states = []
        for _k in range(ln + 1):
            states.append(dec_chrom(flat[i:i + 13])); i += 13
        out.append(states)
    return out


def content_eq(w, ch, kind, model_v, obs_v):
    """compare a model version with an observed one BY CONTENT (two versions may have the same file)"""
    if model_v is None or obs_v is None:
        return model_v is None and obs_v is None
    if model_v == obs_v:
        return True
    if UNKNOWN in (model_v, obs_v):
        return False
    if kind == "G":
        return w.ref(model_v, 0, 0)["G"][ch] == w.ref(obs_v, 0, 0)["G"][ch]
    if kind == "T":
        return w.ref(0, model_v, 0)["T"][ch] == w.ref(0, obs_v, 0)["T"][ch]
    if kind == "R":
        return w.ref(0, model_v, 0)["R"] == w.ref(0, obs_v, 0)["R"]
    if kind == "O":
        if UNKNOWN in model_v or UNKNOWN in obs_v:
            return False
        return w.ref(*model_v)["O"][ch] == w.ref(*obs_v)["O"][ch]
    raise ValueError(kind)


def compare_step(w, pre, flags, run, post, results, model):
    """model = decode_step(...) ; returns list of differences between the model's run and the real one"""
    diffs = []
    rev_obs, per_obs = w.written(run["ops"])
    if model["revises"] != rev_obs:
        diffs.append("revised annotation rewritten: model %s, implementation %s" % (model["revises"], rev_obs))
    if not content_eq(w, None, "R", model["R"], post["R"]):
        diffs.append("revised annotation afterwards: model version %s, implementation %s" % (model["R"], post["R"]))
    all_ok = all(c["outcome"][0] == "Ok" for c in model["chroms"])
    any_errw = any(c["outcome"][0] == "ErrW" for c in model["chroms"])
    for ci, ch in enumerate(w.chroms):
        m = model["chroms"][ci]
        if set(m["kinds"]) != per_obs[ci]:
            diffs.append("%s: files rewritten: model %s, implementation %s (1 gene cache, 2 TE cache, 3 overlap)" % (ch, sorted(set(m["kinds"])), sorted(per_obs[ci])))
        # an overlap job fails the run before later chromosomes are merged; post-state of caches is still comparable
        o = post["chroms"][ci]
        if not content_eq(w, ch, "G", m["post"]["GC"], o["GC"]):
            diffs.append("%s: gene cache afterwards: model %s, implementation %s" % (ch, m["post"]["GC"], o["GC"]))
        if not content_eq(w, ch, "T", m["post"]["TC"], o["TC"]):
            diffs.append("%s: TE cache afterwards: model %s, implementation %s" % (ch, m["post"]["TC"], o["TC"]))
        if not content_eq(w, ch, "O", m["post"]["OV"], o["OV"]):
            diffs.append("%s: overlap file afterwards: model %s, implementation %s" % (ch, m["post"]["OV"], o["OV"]))
    if all_ok:
        if run["rc"] != 0:
            diffs.append("model: every chromosome succeeds; implementation exit status %s: %s" % (run["rc"], run["log"][-300:]))
        else:
            for ci, ch in enumerate(w.chroms):
                oc = model["chroms"][ci]["outcome"]
                _ok, g, t, og, ot, ow = oc
                if g == og and t == ot and UNKNOWN not in oc[1:]:
                    want = w.ref(g, t, ow)["results"].get("%s_%s.h5" % (GENOME, ch))
                    got = results.get("%s_%s.h5" % (GENOME, ch))
                    if want != got:
                        diffs.append("%s: result file differs from a fresh run on (genes v%d, TEs v%d, windows v%d)" % (ch, g, t, ow))
    else:
        if run["rc"] == 0:
            diffs.append("model: %s; implementation exit status 0" % ([c["outcome"][0] for c in model["chroms"]],))
        elif any_errw and not run.get("errw", "windows" in run["log"]):
            diffs.append("model: window mismatch error; implementation failed otherwise: %s" % run["log"][-300:])
    return diffs
