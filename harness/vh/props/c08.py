"""C08 - result files are self-describing; lookups by name return the labelled cell."""
import json
from .. import common, gen, oracle, pool, pipefam, readerfam

RULE = ("generated pairs whose group names differ by case, contain non-ASCII letters, look like numbers (so that sort orders differ), are longer than 16 characters "
        "or need more UTF-8 bytes than characters; gene names with non-ASCII letters; "
        "gene rows shuffled; real library stages -> (a) shapes and labels of every result file, every gene exactly once, names verbatim; "
        "(b) EVERY (gene, group, window, direction) query through DensityData + get_specific_slice, (c) the table helpers "
        "add_hdf5_indices_..._from_list_hdf5 / add_te_vals_..._from_list_hdf5 on a gene table in its own row order, incl. a TE name absent "
        "from a chromosome; each answer compared with the array cell of those labels and with the C01 value; non-trivial = >= 2 group names "
        "whose case-insensitive and code-point orders differ or non-ASCII; distinct = canonical JSON")
NAME_POOLS = [["LTR", "ltr", "Ltr", "TIR", "dna", "DNA"], ["Éle", "ele", "Zeta", "alpha", "Ångström", "Beta"], ["hAT", "Helitron", "helitron", "HAT", "Mutator", "mutator"],
              ["LTR", "TIR", "LINE", "Helitron", "DNA", "SINE"],
              # longer than the always-present label Total_TE_Density, and more UTF-8 bytes than characters
              ["Rétrotransposon_Gypsy_é", "Rétrotransposon_Copia_è", "Élément_à_ADN_transposable", "転移因子の超科の名前その一二三四五六", "Ω" * 17, "Ж" * 19],
              ["Transposable_Element_Family_Alpha", "Transposable_Element_Family_Alphb", "L" * 40, "L" * 39 + "M", "Sixteen_chars_xy ", "Sixteen_chars_xy"]]
GENE_POOLS = [None, None, ["gène_%d", "Os01g0100%d00_α", "遺伝子%d番", "ÅÄÖ_%d_åäö"], None, ["gène_%d", "gêne_%d", "g%d_ñ"], None]


def rename_groups(r, case, poolnames):
    orders = sorted(set(t["order"] for t in case["tes"])); supers = sorted(set(t["superfam"] for t in case["tes"]))
    pn = list(poolnames); r.shuffle(pn)
    om = {o: pn[i % len(pn)] + ("" if i < len(pn) else str(i)) for i, o in enumerate(orders)}
    pn2 = list(poolnames); r.shuffle(pn2)
    sm = {s: pn2[i % len(pn2)] + "_s" * (i // len(pn2)) for i, s in enumerate(supers)}
    for t in case["tes"]:
        t["order"] = om[t["order"]]; t["superfam"] = sm[t["superfam"]]
    return case


def failures(case, rep):
    if not rep.get("ok"):
        return [{"kind": "session_failed", "exc": rep.get("exc"), "msg": rep.get("msg")}]
    fails = []
    ws = gen.windows_list(*case["windows"])
    spec = oracle.spec_cells(case, ws)
    cells, files, problems = pipefam.impl_cells(rep)
    for p in problems:
        fails.append({"kind": "layout", "msg": p})
    # (a) labels
    for ch, f in files.items():
        want = sorted(g["name"] for g in case["genes"] if g["chrom"] == ch)
        if sorted(f["genes"]) != want:
            fails.append({"kind": "gene_axis", "chrom": ch, "expected": want, "got": f["genes"]})
        if f["windows"] != ws:
            fails.append({"kind": "window_axis", "chrom": ch, "expected": ws, "got": f["windows"]})
        tes = [t for t in case["tes"] if t["chrom"] == ch]
        for lv, key, col in ((0, "orders", "order"), (1, "supers", "superfam")):
            real = set(t[col] for t in tes)
            got = [n for n in f[key] if n in real or n == "Total_TE_Density"]
            if sorted(got) != sorted(real | {"Total_TE_Density"}) or len(set(f[key])) != len(f[key]):
                fails.append({"kind": "name_axis", "chrom": ch, "level": lv, "expected_real": sorted(real), "got": f[key]})
    onames, snames = pipefam.real_names(case)
    nbad = 0
    for k, (n, d) in spec.items():
        if k in cells and not oracle.value_matches(cells[k], n, d):
            nbad += 1
            if nbad <= 2:
                fails.append({"kind": "array_cell_not_the_labelled_value", "key": list(k), "expected_N": n, "expected_D": d, "got": cells[k]})
    st = rep["steps"][0]
    if st.get("error"):
        return fails + [{"kind": "load_raised", "error": st["error"]}]
    # (b) queries (noswap reader: Upstream = left)
    nq = 0
    for q in st.get("queries", []):
        ch, lv, name, direction, w, g, v = q
        k = (ch, lv, name, direction, w, g)
        if k in cells:
            nq += 1
            if not isinstance(v, float) or v != cells[k]:
                fails.append({"kind": "lookup_differs_from_array_cell", "query": q[:6], "lookup": v, "array_cell": cells[k]})
                if len(fails) > 12:
                    break
    if nq < len([k for k in cells]):
        fails.append({"kind": "queries_missing", "answered": nq, "cells": len(cells)})
    # (c) tables
    for tab in st.get("tables", []):
        cat, name, direction, w = tab["query"]
        lv = 0 if cat == "Order" else 1
        sd = {"Upstream": 0, "Intra": 1, "Downstream": 2}[direction]
        for gname, chrom, idx, val in tab["rows"]:
            if files[chrom]["genes"][idx] != gname:
                fails.append({"kind": "table_index_wrong", "gene": gname, "index": idx})
            k = (chrom, lv, name, sd, -1 if w is None else w, gname)
            want = cells.get(k)
            names_here = files[chrom]["orders" if lv == 0 else "supers"]
            if name not in names_here:
                want = 0.0
            if want is None or val != want:
                fails.append({"kind": "table_value_wrong", "query": tab["query"], "gene": gname, "table": val, "array_cell": want})
                break
    return fails


def make_session(r, i):
    c = gen.gen_pair(r, max_chrom=2, max_genes=4, max_tes=14, min_chrom=1)
    c = rename_groups(r, c, NAME_POOLS[i % len(NAME_POOLS)])
    gp = GENE_POOLS[i % len(GENE_POOLS)]
    if gp:      # gene names with non-ASCII letters, all of (nearly) the same length
        for k, g in enumerate(c["genes"]):
            g["name"] = gp[k % len(gp)] % k
    r.shuffle(c["genes"])
    ws = gen.windows_list(*c["windows"])
    t0 = r.choice(c["tes"])
    tables = [["Order", t0["order"], "Upstream", ws[0]], ["Superfamily", t0["superfam"], "Downstream", ws[-1]], ["Order", t0["order"], "Intra", None],
              ["Superfamily", "Total_TE_Density", "Upstream", ws[-1]]]
    # a TE name present on one chromosome only (if any)
    chs = sorted(set(g["chrom"] for g in c["genes"]))
    if len(chs) > 1:
        only = [t for t in c["tes"] if t["superfam"] not in set(x["superfam"] for x in c["tes"] if x["chrom"] != t["chrom"])]
        if only:
            tables.append(["Superfamily", only[0]["superfam"], "Upstream", ws[0]])
    return c, [{"how": "noswap", "queries": True, "tables": tables}]


CATS = {"Order": 0, "Superfamily": 1}
DIRS = {"Upstream": 0, "Intra": 1, "Downstream": 2}


def lookup_unit(chk, r):
    """The translator's reading of get_specific_slice, exercised: label lists (names repeated on an axis, a name on both axes, windows in
    any order) with arrays whose cells name their own position; valid and invalid queries through the REAL function and through the
    TRANSLATED gen_get_specific_slice / gen_index_of_gene (vm_compute): the same cell selected, or both refuse."""
    n = 60 if chk.tier == "quick" else 1500
    cases = []
    for _ in range(n):
        pool_names = ["LTR", "DNA", "Gypsy", "hAT", "ltr", "Hélitron", "LINE", "Total_TE_Density"]
        orders = r.sample(pool_names, r.randint(1, 4))
        supers = r.sample(pool_names, r.randint(1, 5))
        if r.random() < 0.2:
            orders.append(orders[0])                 # a label twice on an axis: the dictionary keeps the last position
        windows = r.sample(range(0, 4000, 250), r.randint(1, 4))
        genes = ["g%d" % i for i in r.sample(range(30), r.randint(1, 5))]
        if r.random() < 0.15:
            genes.append(genes[0])                   # list.index gives the first position
        qs = []
        for _q in range(12):
            cat = r.choice(["Order", "Superfamily", "Order", "Superfamily", "order", "Family"])
            direction = r.choice(["Upstream", "Intra", "Downstream", "Upstream", "Downstream", "upstream", "Left"])
            name = r.choice(orders + supers + ["Absent"])
            w = r.choice(windows + windows + [None, 123])
            qs.append([cat, name, direction, w])
        cases.append({"orders": orders, "supers": supers, "windows": windows, "genes": genes, "queries": qs,
                      "gene_queries": [r.choice(genes + ["nope"]) for _ in range(4)]})
    reps = pool.run_requests([{"op": "reader.lookup_unit", "cases": cases[i:i + 30]} for i in range(0, len(cases), 30)], timeout=120)
    real = []
    for rep in reps:
        real += rep["results"] if rep.get("ok") else [None] * 30
    real = real[:len(cases)]
    chk.oblige("real get_specific_slice executed on every label layout", all(x is not None for x in real), json.dumps([x for x in reps if not x.get("ok")][:1])[:1500])
    exprs = []
    for c in cases:
        ids = {}
        def nm(s_):
            return "%d%%N" % ids.setdefault(s_, len(ids) + 1)
        O = "[" + "; ".join(nm(x) for x in c["orders"]) + "]"
        S = "[" + "; ".join(nm(x) for x in c["supers"]) + "]"
        W = "[" + "; ".join(common.zlit(w) for w in c["windows"]) + "]"
        gids = {}
        def gm(s_):
            return "%d%%N" % gids.setdefault(s_, len(gids) + 1)
        G = "[" + "; ".join(gm(x) for x in c["genes"]) + "]"
        parts = []
        for cat, name, direction, w in c["queries"]:
            parts.append("match gen_get_specific_slice %d %d %s %s %s %s %s with Some (lv, sd, t, j) => "
                         "[match lv, sd with LOrd, SL => 1 | LOrd, SI => 2 | LOrd, SR => 3 | LSup, SL => 4 | LSup, SI => 5 | LSup, SR => 6 end; Z.of_nat t; Z.of_nat j] | None => [0; 0; 0] end"
                         % (CATS.get(cat, 7), DIRS.get(direction, 7), nm(name), "None" if w is None else "(Some %s)" % common.zlit(w), O, S, W))
        for g in c["gene_queries"]:
            parts.append("[match gen_index_of_gene %s %s with Some i => Z.of_nat i | None => -1 end]" % (G, gm(g)))
        exprs.append(" ++ ".join(parts))
    try:
        flats = common.coq_eval("c08lookup", "From TEV Require Import Model.Pipeline Model.Reader Gen.GenLookup.", "", exprs, chunk=20)
        chk.oblige("translated get_specific_slice evaluated (vm_compute) on every query", True)
    except Exception as e:
        chk.oblige("translated get_specific_slice evaluated (vm_compute) on every query", False, str(e)[-1500:])
        return
    nd, first, nq = 0, None, 0
    for c, rr, f in zip(cases, real, flats):
        if rr is None:
            continue
        ng = len(c["genes"])
        for qi, (q, res) in enumerate(zip(c["queries"], rr["queries"])):
            nq += 1
            chk.cov["evaluations"] += 1
            aid, t, j = f[3 * qi:3 * qi + 3]
            if res["ok"]:
                want = [((aid * 100 + t) * 100 + j) * 100 + g for g in range(ng)]
                same = aid != 0 and res["cells"] == want
            else:
                same = aid == 0
            chk.count("lookup_unit:%s" % ("selected" if res["ok"] else "refused"))
            if not same:
                nd += 1
                first = first or {"layout": {k: c[k] for k in ("orders", "supers", "windows", "genes")}, "query": q, "real": res, "translated": [aid, t, j]}
        base = 3 * len(c["queries"])
        for gi, (g, ri) in enumerate(zip(c["gene_queries"], rr["gene_indices"])):
            m = f[base + gi]
            if (ri if ri is not None else -1) != m:
                nd += 1
                first = first or {"genes": c["genes"], "gene": g, "real": ri, "translated": m}
    chk.oblige("translated lookup = real get_specific_slice / _index_of_gene on every query: same array, group index and window index selected, or both refuse (%d queries, %d differ)"
               % (nq, nd), nd == 0, json.dumps(first)[:2500] if first else "")


def run(chk):
    pipefam.standard_obligations(chk, "C08.v")
    pipefam.overlap_unit(chk, chk.rng("overlap_unit"))
    lookup_unit(chk, chk.rng("lookup_unit"))
    n = 24 if chk.tier == "quick" else 400
    r = chk.rng("cases")
    sessions = [make_session(r, i) for i in range(n)]
    reps = pool.run_requests([{"op": "reader.session", "case": c, "steps": st, "raw_cells": True} for c, st in sessions], timeout=300)
    nv = 0
    for (c, st), rep in zip(sessions, reps):
        names = sorted(set(t["order"] for t in c["tes"]) | set(t["superfam"] for t in c["tes"]))
        nontriv = sorted(names) != sorted(names, key=str.lower) or any(ord(ch) > 127 for nme in names for ch in nme)
        chk.case_seen({k: c[k] for k in ("genes", "tes", "windows")}, nontriv)
        if rep.get("ok") and not rep["steps"][0].get("error"):
            chk.count("queries", len(rep["steps"][0].get("queries", [])))
            chk.cov["traces_validated_against_impl"] += 1
        fails = failures(c, rep)
        if fails:
            nv += 1
            if nv <= 2:
                chk.violation("axis labels do not label the arrays, or a lookup by name does not return the labelled cell",
                              {"case": {k: c[k] for k in ("genes", "tes", "windows")}, "steps": st, "failures": fails[:6]})
    chk.oblige("every lookup / table answer equals the array cell of its labels and the C01 value (all queries of all files)", nv == 0)
    chk.sample({"group_names": sorted(set(t["order"] for t in sessions[0][0]["tes"])), "tables": sessions[0][1][0]["tables"]})
    return chk.finish(rule=RULE)


def replay(chk, rp):
    rep = pool.run_requests([{"op": "reader.session", "case": rp["case"], "steps": rp["steps"], "raw_cells": True}], timeout=300)[0]
    fails = failures(rp["case"], rep)
    print(json.dumps({"failures": fails[:10]}, indent=1))
    return 1 if fails else 0
