"""C01 - reported density = covered base pairs / region length."""
import json, os
from .. import common, gen, oracle, modelio, pipefam, pool

RULE = ("annotation pairs from harness/vh/gen.py (chains, nesting, identical starts, duplicates, 1-bp and abutting TEs, "
        "TEs straddling region boundaries by -1/0/+1, genes at coordinate 1 / truncated left window, offsets up to 2^31-1, "
        "shuffled rows) x window triples; every fifth pair in an output directory used before for another pair under other file names; non-trivial = at least one same-group overlap AND a TE placed on a region boundary; "
        "distinct = distinct canonical JSON of the case")


def cases_for(chk, n):
    r = chk.rng("cases")
    cases = pipefam.load_corpus("C01")
    for _ in range(n):
        cases.append(gen.gen_pair(r))
    # every fifth pair is processed in an output directory that was used before for the preceding pair, given under other file names
    # (same stem before the first dot) and the same or a longer genome id: the numbers are those of the files given NOW
    for i, c in enumerate(cases):
        if i % 5 == 4 and "before" not in c:
            c["before"] = {"case": {k: cases[i - 1][k] for k in ("genes", "tes", "windows")}, "genome": ["G", "G_v2"][(i // 5) % 2]}
    return cases


def evaluate(chk, cases, tag="c01", cli_every=0):
    reps = pipefam.run_impl(cases)
    try:
        models = modelio.eval_cases(tag, cases)
        chk.oblige("model evaluation (vm_compute) of every case", True)
    except Exception as e:
        models = [("unavailable", str(e))] * len(cases)
        chk.oblige("model evaluation (vm_compute) of every case", False, str(e))
    results = []
    for c, rep, m in zip(cases, reps, models):
        chk.case_seen({k: c[k] for k in ("genes", "tes", "windows")}, pipefam.nontrivial(c))
        for f in c.get("features", []):
            chk.count("feature:" + f)
        chk.count("n_tes<=10" if len(c["tes"]) <= 10 else "n_tes<=40" if len(c["tes"]) <= 40 else "n_tes>40")
        chk.count("n_chrom=%d" % len(set(g["chrom"] for g in c["genes"])))
        pf, diffs = pipefam.check_c01_case(c, rep, m if m[0] != "unavailable" else ("ok", {}))
        if m[0] == "unavailable":
            diffs = []
        else:
            chk.cov["traces_validated_against_impl"] += 1
        results.append((c, rep, pf, diffs))
    return results


def still_fails_factory():
    def still_fails(c):
        rep = pipefam.run_impl([c])[0]
        pf, _ = pipefam.check_c01_case(c, rep, ("ok", {}))
        pf = [p for p in pf if p["kind"] not in ("missing_cells", "extra_cells") or True]
        return bool(pf)
    return still_fails


def report(chk, results, pid="C01"):
    n_v = 0
    diff_only = []
    for c, rep, pf, diffs in results:
        if pf:
            n_v += 1
            if n_v <= 2:
                small = pipefam.shrink(c, still_fails_factory())
                rep2 = pipefam.run_impl([small])[0]
                pf2, _ = pipefam.check_c01_case(small, rep2, ("ok", {}))
                chk.violation("density cell differs from covered-positions/region-length (or run failed / cells missing)",
                              {"case": {k: small[k] for k in ("genes", "tes", "windows", "before") if k in small}, "failures": pf2 or pf,
                               "original_case_size": [len(c["genes"]), len(c["tes"])],
                               "how_to_replay": "./check %s --replay <this file>" % pid},
                              signature=None)
        elif diffs:
            diff_only.append((c, diffs))
    if diff_only and not n_v:
        c, diffs = diff_only[0]
        chk.oblige("correspondence model = implementation on every case", False,
                   json.dumps({"case": {k: c[k] for k in ("genes", "tes", "windows")}, "diffs": diffs})[:3000])
    else:
        chk.oblige("correspondence model = implementation on every case (name-keyed cells, float rule)", not diff_only)
    return n_v


def run(chk):
    pipefam.standard_obligations(chk, "C01.v")
    pipefam.overlap_unit(chk, chk.rng("overlap_unit"))
    pipefam.merge_unit(chk, chk.rng("merge_unit"))
    n = 120 if chk.tier == "quick" else 3000
    cases = cases_for(chk, n)
    results = evaluate(chk, cases)
    report(chk, results)
    for c, rep, pf, diffs in results[:2]:
        chk.sample({"genes": c["genes"][:3], "tes": c["tes"][:5], "windows": c["windows"], "n_genes": len(c["genes"]),
                    "n_tes": len(c["tes"]), "features": c.get("features")})
    return chk.finish(rule=RULE)


def replay(chk, rp):
    c = rp["case"]
    rep = pipefam.run_impl([c])[0]
    pf, _ = pipefam.check_c01_case(c, rep, ("ok", {}))
    print(json.dumps({"failures": pf}, indent=1))
    return 1 if pf else 0
