"""C16 - result files are matched to gene annotations by chromosome, not by file order."""
import json
from .. import common, gen, pool, pipefam, readerfam

RULE = ("sets of 1-8 chromosome names from pools designed around file-name sorting (Chr1..Chr12, prefix families Chr1/Chr10/Chr1_A/Chr1-alt, "
        "punctuation on both sides of '.' and '_', digits, case pairs, stems ending in '5' / 'h' / '.' / '.h5') -> real result directories produced by the library stages -> both "
        "directory-level constructors and the reader example examples/general_read_density_data.py run as a script with DensityData.__init__ wrapped (from the harness) to record which gene annotation each result "
        "file received, the served contents compared with the raw file of the paired chromosome; directories made to mismatch (equal counts incl. one file vs one "
        "annotation, unequal counts, the file without annotation last in the directory, a result file storing two chromosomes; every third name set with plus-strand genes only) must be refused; "
        "unit level: the translated _pair_by_chromosome against the real function on real HDF5 files storing 0-3 identifiers and GeneData lists with duplicates / unknown chromosomes; non-trivial = name set whose sorted .h5 order differs from its sorted _GeneData.tsv order; distinct = name set")
POOLS = [["Chr1.1", "Chr1.2", "Chr1", "Chr1.10", "Chr2.1"], ["scaffold_1.1", "scaffold_1.2", "scaffold_1", "scaffold_11", "scaffold.1"],
         ["Chr%d" % i for i in range(1, 13)], ["Chr1", "Chr10", "Chr1_A", "Chr1-alt", "Chr1.1", "Chr100"], ["A", "A-", "A_", "A.b", "A0", "AA"],
         ["x", "x-1", "x_1", "x.1", "x+1", "x 1"], ["scaf", "Scaf", "SCAF", "scaf_", "scaf2", "scaf_2"], ["1", "10", "2", "007", "1e3", "01"],
         # stems ending in the characters of the extension: a sloppy way of cutting ".h5" off makes two files share a derived name
         ["Chr1", "Chr15", "Chr5", "Chr55", "Chr155", "Chr1h"], ["Ch", "Chh", "Ch5", "Ch.", "Ch.h5", "C"], ["a.h", "a.h5", "a", "a5", "a.", "a.h5.h5"]]


def order_differs(names):
    a = sorted("G_%s.h5" % n for n in names); b = sorted("G_%s_GeneData.tsv" % n for n in names)
    return [x[2:-3] for x in a] != [x[2:-16] for x in b]


def pair_failures(case, rep, steps):
    fails = []
    if not rep.get("ok"):
        return [{"kind": "session_failed", "exc": rep.get("exc"), "msg": rep.get("msg")}]
    for st, so in zip(steps, rep["steps"]):
        how = st["how"]
        mismatch = bool(st.get("tamper")) and (sorted(st["tamper"].get("drop_results", [])) != sorted(st["tamper"].get("drop_genedata", [])) or bool(st["tamper"].get("multi_id")))
        if so.get("error"):
            # the regex constructor and the example script apply the CALLER's pattern "<genome>_(.*?).h5" to the file names: with names such as
            # "Ch.h5" it extracts other identifiers and refuses - an explicit error, nothing C16 forbids
            if how == "dir" and not mismatch:
                fails.append({"kind": "valid_directory_refused", "constructor": how, "error": so["error"]})
            continue
        if mismatch:
            fails.append({"kind": "mismatching_directory_accepted", "constructor": how, "tamper": st["tamper"], "pairs": so["pairs"]})
        for h5name, gchrom in so["pairs"]:
            if h5name[2:-3] != gchrom:
                fails.append({"kind": "combined_different_chromosomes", "constructor": how, "result_file": h5name, "gene_annotation_of": gchrom})
        # what was actually served: the stored chromosome id and the contents must be those of the paired chromosome
        if not mismatch and how != "example":
            if sorted(l["chrom"] for l in so["loaded"]) != sorted(p[1] for p in so["pairs"]):
                fails.append({"kind": "served_chromosomes_differ_from_paired", "constructor": how, "served": [l["chrom"] for l in so["loaded"]],
                              "paired": [p[1] for p in so["pairs"]]})
            for f_ in readerfam.view_failures(case, so["loaded"]):
                f_["constructor"] = how
                fails.append(f_)
    return fails


def pair_unit(chk, n):
    """the translated _pair_by_chromosome (Gen/GenPair.v, set iteration = first distinct element) against the real function"""
    r = chk.rng("pair_unit")
    cases = []
    for i in range(n):
        k = r.randint(1, 5)
        gds = [r.randint(1, 6) for _ in range(k)] if r.random() < 0.25 else r.sample(range(1, 7), k)
        h5s = []
        for _ in range(r.randint(0, 5)):
            x = r.random()
            c = r.choice(gds) if r.random() < 0.8 else r.randint(1, 8)
            if x < 0.55:
                h5s.append([c])
            elif x < 0.7:
                h5s.append([c] * r.randint(2, 3))
            elif x < 0.8:
                h5s.append([])
            else:
                h5s.append([c, r.randint(1, 8)] + ([c] if r.random() < 0.3 else []))
        cases.append({"h5s": h5s, "gds": gds})
    req = {"op": "reader.pair_unit", "cases": [{"h5s": [["Chr%d" % x for x in st] for st in c["h5s"]], "gds": ["Chr%d" % x for x in c["gds"]]} for c in cases]}
    rep = pool.run_requests([req], timeout=300)[0]
    def nl(l):
        return "[" + "; ".join("%d%%N" % x for x in l) + "]"
    exprs = ["match gen_pair_by_chromosome (fun s => hd 0%%N s) [%s] %s with Some ps => 0%%Z :: flat_map (fun p => [Z.of_nat (fst p); Z.of_nat (snd p)]) ps | None => [(-1)%%Z] end"
             % ("; ".join(nl(st) for st in c["h5s"]), nl(c["gds"])) for c in cases]
    try:
        flats = common.coq_eval("c16u", "From Coq Require Import ZArith.\nFrom TEV Require Import Model.Reader Model.Pair Gen.GenPair.", "", exprs, chunk=200)
    except Exception as e:
        chk.oblige("unit differential: translated _pair_by_chromosome = the real function", False, str(e)[-1500:])
        return
    if not rep.get("ok"):
        chk.oblige("unit differential: translated _pair_by_chromosome = the real function", False, json.dumps(rep)[:1500])
        return
    first, nd, nacc, nbad = None, 0, 0, 0
    for c, m, im in zip(cases, flats, rep["results"]):
        mp = None if m[0] == -1 else [[m[i], m[i + 1]] for i in range(1, len(m), 2)]
        ip = im["pairs"] if im["ok"] else None
        nacc += mp is not None
        chk.count("pair_unit:" + ("accepted" if mp is not None else "refused"))
        if mp != ip:
            nd += 1
            first = first or {"case": c, "translated": mp, "real": ip if im["ok"] else im.get("exc")}
        # the statement itself on the real function's answer: every pair joins a file storing exactly one chromosome with the GeneData of it
        if ip is not None:
            bad = [pr for pr in ip if len(set(c["h5s"][pr[0]])) != 1 or c["gds"][pr[1]] != c["h5s"][pr[0]][0]] or len(ip) != len(c["h5s"]) or len(set(c["gds"])) != len(c["gds"])
            if bad:
                nbad += 1
            if bad and nbad <= 2:
                chk.violation("_pair_by_chromosome combined a result file with the gene annotation of another chromosome (or accepted an ambiguous list)",
                              {"unit": True, "h5_files_store": c["h5s"], "gene_data_chromosomes": c["gds"], "pairs": ip})
    chk.cov["traces_validated_against_impl"] += len(cases)
    chk.oblige("unit differential: translated _pair_by_chromosome = the real function on %d generated lists (%d accepted)" % (len(cases), nacc), nd == 0, json.dumps(first)[:1500] if first else "")


def run(chk):
    pipefam.standard_obligations(chk, "C16.v")
    n = 14 if chk.tier == "quick" else 200
    r = chk.rng("names")
    sessions = []
    for i in range(n):
        pl = POOLS[i % len(POOLS)]
        k = r.randint(2, min(8, len(pl)))
        names = r.sample(pl, k)
        # every third name set with all genes on the plus strand: nothing after the pairing can then refuse a wrong pair by accident
        c = readerfam.strand_case(r, "all_plus" if i % 3 == 1 else "mixed", max_chrom=k, names=names, min_chrom=k)
        sessions.append((c, names))
    steps_of = []
    for c, names in sessions:
        chs = sorted(set(g["chrom"] for g in c["genes"]))
        steps = [{"how": "dir"}, {"how": "regex"}, {"how": "example"}]      # "example": examples/general_read_density_data.py run as a script
        # mismatching directories: equal counts with different sets (incl. exactly one file / one annotation), unequal counts
        if len(chs) >= 2:
            a, b = r.sample(chs, 2)
            rest = [x for x in chs if x not in (a, b)]
            steps.append({"how": "dir", "tamper": {"drop_results": [a], "drop_genedata": [b]}})
            steps.append({"how": "dir", "tamper": {"drop_results": [a] + rest, "drop_genedata": [b] + rest}})    # n = 1 on both sides
            steps.append({"how": "regex", "tamper": {"drop_results": [a], "drop_genedata": [b]}})
            steps.append({"how": "dir", "tamper": {"drop_results": [a], "drop_genedata": [a]}})                    # a valid subset
            steps.append({"how": "dir", "tamper": {"drop_results": [], "drop_genedata": [b]}})
            # the file without an annotation is the LAST of the sorted directory (equal counts), for both constructors
            last = sorted(chs, key=lambda x: "G_%s.h5" % x)[-1]
            a2 = r.choice([x for x in chs if x != last])
            steps.append({"how": "dir", "tamper": {"drop_results": [a2], "drop_genedata": [last]}})
            steps.append({"how": "regex", "tamper": {"drop_results": [a2], "drop_genedata": [last]}})
            # a result file that stores two chromosomes, next to ordinary files
            steps.append({"how": "dir", "tamper": {"multi_id": [a, b]}})
            steps.append({"how": "regex", "tamper": {"multi_id": [b, a]}})
            steps.append({"how": "example", "tamper": {"drop_results": [a]}})      # fewer result files than chromosomes in the annotation
        steps_of.append(steps)
    reps = pool.run_requests([{"op": "reader.session", "case": c, "steps": st} for (c, _), st in zip(sessions, steps_of)], timeout=300)
    # model: ids = rank of the chromosome name; pair_by_id on the ids
    exprs = []
    for c, names in sessions:
        ids = sorted(set(g["chrom"] for g in c["genes"]))
        l = "[" + "; ".join("%d%%N" % (ids.index(x) + 1) for x in ids) + "]"
        exprs.append("match pair_by_id %s %s with Some ps => flat_map (fun p => [Z.of_N (fst p); Z.of_N (snd p)]) ps | None => [(-1)%%Z] end" % (l, l))
    try:
        flats = common.coq_eval("c16", "From TEV Require Import Model.Reader.", "", exprs, chunk=100)
        chk.oblige("model evaluation (vm_compute) of every name set", True)
    except Exception as e:
        flats = None
        chk.oblige("model evaluation (vm_compute) of every name set", False, str(e))
    nv, ndiff, first = 0, 0, None
    for si, ((c, names), rep) in enumerate(zip(sessions, reps)):
        chk.case_seen(sorted(names), order_differs(names))
        chk.count("pool%d" % (si % len(POOLS)))
        fails = pair_failures(c, rep, steps_of[si])
        if flats is not None and rep.get("ok"):
            chk.cov["traces_validated_against_impl"] += 1
            ids = sorted(set(g["chrom"] for g in c["genes"]))
            m = flats[si]
            mp = sorted((ids[m[i] - 1], ids[m[i + 1] - 1]) for i in range(0, len(m), 2)) if m[0] != -1 else None
            so = rep["steps"][0]
            rp_ = sorted((a[2:-3], b) for a, b in so["pairs"]) if not so.get("error") else None
            if mp != rp_ and not fails:
                ndiff += 1; first = first or {"names": names, "model": mp, "implementation": rp_}
        if fails:
            nv += 1
            if nv <= 2:
                chk.violation("a result file was combined with the gene annotation of another chromosome (or a valid directory was refused)",
                              {"case": {k: c[k] for k in ("genes", "tes", "windows")}, "chromosome_names": names, "steps": steps_of[si], "failures": fails[:6]})
    chk.oblige("correspondence model = implementation (pairs formed by the directory constructor)", ndiff == 0, json.dumps(first)[:2000] if first else "")
    pair_unit(chk, 300 if chk.tier == "quick" else 4000)
    chk.sample({"chromosome_names": sessions[0][1]}); chk.sample({"chromosome_names": sessions[1][1]})
    return chk.finish(rule=RULE)


def replay(chk, rp):
    if rp.get("unit"):
        c = {"h5s": [["Chr%d" % x for x in st] for st in rp["h5_files_store"]], "gds": ["Chr%d" % x for x in rp["gene_data_chromosomes"]]}
        im = pool.run_requests([{"op": "reader.pair_unit", "cases": [c]}], timeout=300)[0]["results"][0]
        print(json.dumps({"h5_files_store": c["h5s"], "gene_data_chromosomes": c["gds"], "real_function": im}, indent=1))
        if not im["ok"]:
            return 0
        ip = im["pairs"]
        bad = [pr for pr in ip if len(set(c["h5s"][pr[0]])) != 1 or c["gds"][pr[1]] != c["h5s"][pr[0]][0]] or len(ip) != len(c["h5s"]) or len(set(c["gds"])) != len(c["gds"])
        return 1 if bad else 0
    steps = rp.get("steps") or [{"how": "dir"}, {"how": "regex"}]
    rep = pool.run_requests([{"op": "reader.session", "case": rp["case"], "steps": steps}], timeout=300)[0]
    fails = pair_failures(rp["case"], rep, steps)
    print(json.dumps({"failures": fails}, indent=1))
    return 1 if fails else 0
