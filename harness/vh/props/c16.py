"""C16 - result files are matched to gene annotations by chromosome, not by file order."""
import json
from .. import common, gen, pool, pipefam, readerfam

RULE = ("sets of 1-8 chromosome names from pools designed around file-name sorting (Chr1..Chr12, prefix families Chr1/Chr10/Chr1_A/Chr1-alt, "
        "punctuation on both sides of '.' and '_', digits, case pairs, stems ending in '5' / 'h' / '.' / '.h5') -> real result directories produced by the library stages -> both "
        "directory-level constructors with DensityData.__init__ wrapped (from the harness) to record which gene annotation each result "
        "file received, the served contents compared with the raw file of the paired chromosome; directories made to mismatch (equal counts incl. one file vs one "
        "annotation, unequal counts) must be refused; non-trivial = name set whose sorted .h5 order differs from its sorted _GeneData.tsv order; distinct = name set")
POOLS = [["Chr1.1", "Chr1.2", "Chr1", "Chr1.10", "Chr2.1"], ["scaffold_1.1", "scaffold_1.2", "scaffold_1", "scaffold_11", "scaffold.1"],
         ["Chr%d" % i for i in range(1, 13)], ["Chr1", "Chr10", "Chr1_A", "Chr1-alt", "Chr1.1", "Chr100"], ["A", "A-", "A_", "A.b", "A0", "AA"],
         ["x", "x-1", "x_1", "x.1", "x+1", "x 1"], ["scaf", "Scaf", "SCAF", "scaf_", "scaf2", "scaf_2"], ["1", "10", "2", "007", "1e3", "01"],
         # stems ending in the characters of the extension: a sloppy way of cutting ".h5" off makes two files share a derived name
         ["Chr1", "Chr15", "Chr5", "Chr55", "Chr155", "Chr1h"], ["Ch", "Chh", "Ch5", "Ch.", "Ch.h5", "C"], ["a.h", "a.h5", "a", "a5", "a.", "a.h5.h5"]]


def order_differs(names):
    a = sorted("G_%s.h5" % n for n in names); b = sorted("G_%s_GeneData.tsv" % n for n in names)
    return [x[2:-3] for x in a] != [x[2:-16] for x in b]


def pair_failures(case, rep, steps):
    fails = []
    if not rep.get("ok"):
        return [{"kind": "session_failed", "exc": rep.get("exc"), "msg": rep.get("msg")}]
    for st, so in zip(steps, rep["steps"]):
        how = st["how"]
        mismatch = bool(st.get("tamper")) and sorted(st["tamper"].get("drop_results", [])) != sorted(st["tamper"].get("drop_genedata", []))
        if so.get("error"):
            if how == "dir" and not mismatch:
                fails.append({"kind": "valid_directory_refused", "constructor": how, "error": so["error"]})
            continue
        if mismatch:
            fails.append({"kind": "mismatching_directory_accepted", "constructor": how, "tamper": st["tamper"], "pairs": so["pairs"]})
        for h5name, gchrom in so["pairs"]:
            if h5name[2:-3] != gchrom:
                fails.append({"kind": "combined_different_chromosomes", "constructor": how, "result_file": h5name, "gene_annotation_of": gchrom})
        # what was actually served: the stored chromosome id and the contents must be those of the paired chromosome
        if not mismatch:
            if sorted(l["chrom"] for l in so["loaded"]) != sorted(p[1] for p in so["pairs"]):
                fails.append({"kind": "served_chromosomes_differ_from_paired", "constructor": how, "served": [l["chrom"] for l in so["loaded"]],
                              "paired": [p[1] for p in so["pairs"]]})
            for f_ in readerfam.view_failures(case, so["loaded"]):
                f_["constructor"] = how
                fails.append(f_)
    return fails


def run(chk):
    pipefam.standard_obligations(chk, "C16.v")
    n = 14 if chk.tier == "quick" else 200
    r = chk.rng("names")
    sessions = []
    for i in range(n):
        pl = POOLS[i % len(POOLS)]
        k = r.randint(2, min(8, len(pl)))
        names = r.sample(pl, k)
        c = readerfam.strand_case(r, "mixed", max_chrom=k, names=names, min_chrom=k)
        sessions.append((c, names))
    steps_of = []
    for c, names in sessions:
        chs = sorted(set(g["chrom"] for g in c["genes"]))
        steps = [{"how": "dir"}, {"how": "regex"}]
        # mismatching directories: equal counts with different sets (incl. exactly one file / one annotation), unequal counts
        if len(chs) >= 2:
            a, b = r.sample(chs, 2)
            rest = [x for x in chs if x not in (a, b)]
            steps.append({"how": "dir", "tamper": {"drop_results": [a], "drop_genedata": [b]}})
            steps.append({"how": "dir", "tamper": {"drop_results": [a] + rest, "drop_genedata": [b] + rest}})    # n = 1 on both sides
            steps.append({"how": "regex", "tamper": {"drop_results": [a], "drop_genedata": [b]}})
            steps.append({"how": "dir", "tamper": {"drop_results": [a], "drop_genedata": [a]}})                    # a valid subset
            steps.append({"how": "dir", "tamper": {"drop_results": [], "drop_genedata": [b]}})
        steps_of.append(steps)
    reps = pool.run_requests([{"op": "reader.session", "case": c, "steps": st} for (c, _), st in zip(sessions, steps_of)], timeout=300)
    # model: ids = rank of the chromosome name; pair_by_id on the ids
    exprs = []
    for c, names in sessions:
        ids = sorted(set(g["chrom"] for g in c["genes"]))
        l = "[" + "; ".join("%d%%N" % (ids.index(x) + 1) for x in ids) + "]"
        exprs.append("match pair_by_id %s %s with Some ps => flat_map (fun p => [Z.of_N (fst p); Z.of_N (snd p)]) ps | None => [(-1)%%Z] end" % (l, l))
    try:
        flats = common.coq_eval("c16", "From TEV Require Import Model.Reader.", "", exprs, chunk=100)
        chk.oblige("model evaluation (vm_compute) of every name set", True)
    except Exception as e:
        flats = None
        chk.oblige("model evaluation (vm_compute) of every name set", False, str(e))
    nv, ndiff, first = 0, 0, None
    for si, ((c, names), rep) in enumerate(zip(sessions, reps)):
        chk.case_seen(sorted(names), order_differs(names))
        chk.count("pool%d" % (si % len(POOLS)))
        fails = pair_failures(c, rep, steps_of[si])
        if flats is not None and rep.get("ok"):
            chk.cov["traces_validated_against_impl"] += 1
            ids = sorted(set(g["chrom"] for g in c["genes"]))
            m = flats[si]
            mp = sorted((ids[m[i] - 1], ids[m[i + 1] - 1]) for i in range(0, len(m), 2)) if m[0] != -1 else None
            so = rep["steps"][0]
            rp_ = sorted((a[2:-3], b) for a, b in so["pairs"]) if not so.get("error") else None
            if mp != rp_ and not fails:
                ndiff += 1; first = first or {"names": names, "model": mp, "implementation": rp_}
        if fails:
            nv += 1
            if nv <= 2:
                chk.violation("a result file was combined with the gene annotation of another chromosome (or a valid directory was refused)",
                              {"case": {k: c[k] for k in ("genes", "tes", "windows")}, "chromosome_names": names, "steps": steps_of[si], "failures": fails[:6]})
    chk.oblige("correspondence model = implementation (pairs formed by the directory constructor)", ndiff == 0, json.dumps(first)[:2000] if first else "")
    chk.sample({"chromosome_names": sessions[0][1]}); chk.sample({"chromosome_names": sessions[1][1]})
    return chk.finish(rule=RULE)


def replay(chk, rp):
    steps = rp.get("steps") or [{"how": "dir"}, {"how": "regex"}]
    rep = pool.run_requests([{"op": "reader.session", "case": rp["case"], "steps": steps}], timeout=300)[0]
    fails = pair_failures(rp["case"], rep, steps)
    print(json.dumps({"failures": fails}, indent=1))
    return 1 if fails else 0
