"""C15 - loading results is idempotent and never trusts a half-made swapped copy."""
import itertools, json
from .. import common, gen, pool, pipefam, readerfam

RULE = ("histories of loads of the same result files through DensityData(...), verify_h5_cache and the two directory-level constructors: "
        "exhaustive sequences up to length 3 (quick: 2) over the four constructors x strand mixtures, two-load histories in which the first or the second load is given a GeneData in another row order than the result file, plus histories whose first load is "
        "killed (forked child, os._exit) before the copy / mid-copy / after the copy / after j exchanged genes / before publishing, with "
        "and without an HDF5 flush, or interrupted by an exception (Ctrl-C) at the j-th gene of the swap loop, or hit by ONE transient I/O error at the k-th dataset write of the exchange, followed by 1-2 loads (the exception-interrupted and the two-load histories also by a caller that hands the SAME GeneData object to every load); plus two loads of two different files of one directory interleaved (5 orders of their start / copy / publish steps) followed by loads of both; every completed load is compared column by column with the raw file and with "
        "the model; non-trivial = history with >= 2 loads or a crash, and a minus-strand gene; distinct = (case, history)")
HOWS = ["ctor", "verify", "dir", "regex"]
COQ_HOW = {"ctor": "ByCtor", "verify": "ByVerify", "dir": "ByVerify", "regex": "ByCtor", "ctor_shuffled": "ByCtor"}


def histories(tier, nminus):
    hs = []
    L = 2 if tier == "quick" else 3
    for n in range(1, L + 1):
        for seq in itertools.product(HOWS, repeat=n):
            hs.append([{"how": h} for h in seq])
    # the FIRST load (the one that makes the copy every later load trusts) by a caller whose GeneData lists the same genes in another
    # row order than the result file, then any constructor; and the other way round
    for h in HOWS:
        hs.append([{"how": "ctor_shuffled"}, {"how": h}])
        hs.append([{"how": h}, {"how": "ctor_shuffled"}])
    for j in range(1, nminus + 1):        # interrupted by an exception (Ctrl-C) at the j-th gene of the swap loop
        for first in ["ctor", "verify"]:
            for after in [["ctor"], ["verify", "dir"]]:
                hs.append([{"how": first, "crash": {"k": j, "mode": "raise"}}] + [{"how": a} for a in after])
    for k in range(1, 4 * nminus + 1):    # one transient I/O error at the k-th dataset write of the exchange (4 writes per minus gene)
        for first, after in ((("ctor", ["verify", "ctor"]), ("verify", ["ctor"])) if tier == "quick" else
                             (("ctor", ["verify", "ctor"]), ("verify", ["ctor"]), ("dir", ["dir", "ctor"]), ("regex", ["verify"]))):
            hs.append([{"how": first, "crash": {"k": k, "mode": "eio"}}] + [{"how": a} for a in after])
    ks = list(range(0, 4 + nminus))
    for k in ks:
        for flush in (True, False):
            for first in (["ctor", "verify"] if tier == "quick" else HOWS):
                for after in ([["ctor"], ["verify", "dir"]] if tier == "quick" else [["ctor"], ["verify"], ["dir", "ctor"], ["regex", "verify"]]):
                    hs.append([{"how": first, "crash": {"k": k, "flush": flush}}] + [{"how": a} for a in after])
    return hs


def run(chk):
    pipefam.standard_obligations(chk, "C15.v")
    r = chk.rng("cases")
    ncase = 2 if chk.tier == "quick" else 8
    sessions = []
    for i in range(ncase):
        c = readerfam.strand_case(r, ["mixed", "all_minus", "with_dot", "mixed"][i % 4], max_chrom=1)
        chrom = c["genes"][0]["chrom"]
        nminus = sum(1 for g in c["genes"] if g["strand"] == "-")
        for h in histories(chk.tier, min(nminus, 3)):
            steps = [dict(s, chrom=chrom) if s.get("crash") is not None else s for s in h]
            sessions.append((c, steps))
            # the same history by a caller that HOLDS its GeneData objects and hands the same object to every load (a retry after
            # Ctrl-C or an I/O error in one interpreter session; a notebook cell run twice): interruptions by an exception, and
            # the plain histories of two loads
            if (steps[0].get("crash") or {}).get("mode") in ("raise", "eio") or (len(steps) == 2 and not any(s.get("crash") for s in steps) and "dir" not in [s["how"] for s in steps]):
                sessions.append((c, [dict(s, same_gene_data_object=True) for s in steps]))
    reps = pool.run_requests([{"op": "reader.session", "case": c, "steps": steps, "keep_gene_data": bool(steps[0].get("same_gene_data_object"))} for c, steps in sessions], timeout=300)
    exprs, meta = [], []
    for si, ((c, steps), rep) in enumerate(zip(sessions, reps)):
        if rep.get("ok") and rep["raw_genes"]:
            fn, order = sorted(rep["raw_genes"].items())[0]
            g, raw, idx = readerfam.model_genes_raw(c, fn[2:-3], order)
            ops = "[" + "; ".join(("Crash %d" % ((s["crash"]["k"] - 1) // 4 + 2 if s["crash"].get("mode") == "eio" else s["crash"]["k"] + (1 if s["crash"].get("mode") == "raise" else 0))) if s.get("crash") is not None else "Load " + COQ_HOW[s["how"]] for s in steps) + "]"
            exprs.append("flat_history %s %s %s" % (g, ops, raw)); meta.append((si, idx))
    try:
        flats = common.coq_eval("c15", "From TEV Require Import Model.Reader.", "", exprs, chunk=150)
        chk.oblige("model evaluation (vm_compute) of every history", True)
    except Exception as e:
        flats = None
        chk.oblige("model evaluation (vm_compute) of every history", False, str(e))
    model = {}
    if flats is not None:
        for (si, idx), f in zip(meta, flats):
            views, cur = [], None
            parts = []
            for x in f:
                if x == -9:
                    parts.append([])
                else:
                    parts[-1].append(x)
            model[si] = [readerfam.decode_cols(p, idx) for p in parts]
    nv, ndiff, first = 0, 0, None
    for si, ((c, steps), rep) in enumerate(zip(sessions, reps)):
        has_crash = any(s.get("crash") is not None for s in steps)
        chk.case_seen([c["genes"], steps], (len(steps) >= 2) and any(g["strand"] == "-" for g in c["genes"]))
        chk.count("crash_history" if has_crash else "load_history_len%d" % len(steps))
        if steps[0].get("same_gene_data_object"):
            chk.count("caller_keeps_its_GeneData_objects")
        fails = []
        if not rep.get("ok"):
            fails.append({"kind": "session_failed", "exc": rep.get("exc"), "msg": rep.get("msg")})
        else:
            li = 0
            for s, so in zip(steps, rep["steps"]):
                if s.get("crash") is not None:
                    continue
                if so.get("error"):
                    # after an interrupted load an explicit error is allowed; without a crash it is not
                    if not has_crash:
                        fails.append({"kind": "load_raised", "how": s["how"], "error": so["error"]})
                    li += 1
                    continue
                vf = readerfam.view_failures(c, so["loaded"])
                for f_ in vf:
                    f_["load_number"] = li; f_["how"] = s["how"]
                fails += vf
                if flats is not None and si in model and li < len(model[si]) and so["loaded"]:
                    chk.cov["traces_validated_against_impl"] += 1
                    m = model[si][li]; got = so["loaded"][0]["cols"]
                    if (m is None or any(not readerfam.codes_match(m[g], got[g]) for g in m if g in got)) and not vf:
                        ndiff += 1; first = first or {"history": steps, "load": li, "model": m, "implementation": got}
                li += 1
            if not rep["raw_unchanged"]:
                fails.append({"kind": "raw_result_file_modified"})
        if fails:
            nv += 1
            if nv <= 2:
                chk.violation("a later load served raw / twice-exchanged / partial values (or the raw file changed)",
                              {"case": {k: c[k] for k in ("genes", "tes", "windows")}, "history": steps, "failures": fails[:6]})
    chk.oblige("correspondence model = implementation (values served by every completed load)", ndiff == 0, json.dumps(first)[:2500] if first else "")
    # two loads of two DIFFERENT result files of one directory, interleaved at the points where each makes its copy and
    # publishes it: afterwards every file must still serve its own chromosome's view (or raise)
    P, Q = 0, 1
    ORDERS = [[[P, "start"], [P, "copied"], [P, "publish"], [Q, "start"], [Q, "copied"], [Q, "publish"]],
              [[P, "start"], [P, "copied"], [Q, "start"], [Q, "copied"], [P, "publish"], [Q, "publish"]],
              [[P, "start"], [Q, "start"], [P, "copied"], [Q, "copied"], [Q, "publish"], [P, "publish"]],
              [[Q, "start"], [P, "start"], [Q, "copied"], [P, "copied"], [P, "publish"], [Q, "publish"]],
              [[P, "start"], [P, "copied"], [Q, "start"], [P, "publish"], [Q, "copied"], [Q, "publish"]]]
    isessions = []
    for i in range(1 if chk.tier == "quick" else 4):
        c2 = readerfam.strand_case(r, "mixed", max_chrom=2, min_chrom=2)
        chs = sorted(set(g["chrom"] for g in c2["genes"]))
        for o in ORDERS:
            isessions.append((c2, [{"interleave": chs[:2], "order": o}, {"how": "dir"}, {"how": "ctor"}]))
    ireps = pool.run_requests([{"op": "reader.session", "case": c2, "steps": st} for c2, st in isessions], timeout=300)
    for (c2, st), rep in zip(isessions, ireps):
        chk.case_seen([c2["genes"], st], True)
        chk.count("interleaved_loads_of_two_files")
        fails = []
        if not rep.get("ok"):
            fails.append({"kind": "session_failed", "exc": rep.get("exc"), "msg": rep.get("msg")})
        else:
            for s_, so in zip(st[1:], rep["steps"][1:]):
                if so.get("error"):
                    continue            # an explicit error after interleaved loads is allowed
                for f_ in readerfam.view_failures(c2, so["loaded"]):
                    f_["how"] = s_["how"]; f_["interleaved_outcomes"] = rep["steps"][0]["outcomes"]
                    fails.append(f_)
            if not rep["raw_unchanged"]:
                fails.append({"kind": "raw_result_file_modified"})
        if fails:
            nv += 1
            chk.violation("after two interleaved loads of different result files a load served another file's / partial values",
                          {"case": {k: c2[k] for k in ("genes", "tes", "windows")}, "history": st, "failures": fails[:6]})
    chk.sample({"genes": [(g["name"], g["strand"]) for g in sessions[0][0]["genes"]], "history": sessions[0][1]})
    chk.sample({"history": sessions[-1][1]})
    return chk.finish(rule=RULE)


def replay(chk, rp):
    rep = pool.run_requests([{"op": "reader.session", "case": rp["case"], "steps": rp["history"], "keep_gene_data": bool(rp["history"] and rp["history"][0].get("same_gene_data_object"))}], timeout=300)[0]
    fails = []
    if not rep.get("ok"):
        fails.append({"kind": "session_failed", "msg": rep.get("msg")})
    else:
        for s, so in zip(rp["history"], rep["steps"]):
            if s.get("crash") is None and s.get("interleave") is None and not so.get("error"):
                fails += readerfam.view_failures(rp["case"], so["loaded"])
        if not rep["raw_unchanged"]:
            fails.append({"kind": "raw_result_file_modified"})
    print(json.dumps({"failures": fails}, indent=1))
    return 1 if fails else 0
