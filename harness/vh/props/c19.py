"""C19 - re-opening a density store validates it against the expected layout."""
import copy, json
from .. import common, pool, pipefam

RULE = ("histories of open/write/re-open on real scratch HDF5 files for 1-3 groups (prefixes); re-open configurations equal to the stored "
        "ones or differing in length (+-1), in one element, or in order, or equal to the layout of another group of the same file, for each of the gene, TE-name and window lists, incl. large "
        "windows differing by 1; one history in 15 has a group with 1025-3000 gene names, re-opened with one name changed or two swapped among the last ones / at a block boundary; about a third of the re-opens through a file handle opened read-only; a third of the writes mark only every second entry of the validity bitmap; after every open the group's datasets are digested (shape, dtype, bytes) before/after; non-trivial = "
        "a history with a write followed by at least one mismatching and one matching re-open; distinct = the history")
PREFIXES = ["superfamily", "order", "other"]


def base_cfg(r, large=False):
    ng, nt, nw = r.randint(1, 5), r.randint(1, 4), r.randint(1, 4)
    if large:          # a chromosome's worth of genes: more than any block a comparison might be cut into
        ng = r.choice([1025, 1100, 1500, 2049, 3000])
    start = r.choice([0, 500, 250000, 10**9])
    return {"genes": ["gene_%d" % i for i in range(ng)], "tes": r.sample(["LTR", "TIR", "Gypsy", "Copia", "hAT", "Héli", "ltr"], nt),
            "windows": [start + i * r.choice([1, 500, 1000]) for i in range(nw)]}


def mutate_cfg(r, c):
    c = copy.deepcopy(c)
    field = r.choice(["genes", "tes", "windows"])
    kind = r.choice(["shorter", "longer", "element", "order", "order", "element"])
    l = c[field]
    if kind == "shorter" and len(l) > 1:
        l.pop(r.randrange(len(l)))
    elif kind == "longer":
        l.append(l[-1] + 7 if field == "windows" else "extra_" + field)
    elif kind == "element":
        i = r.randrange(len(l))
        if len(l) > 64:     # large list: the last elements, the start of the last block of 2^k, anywhere
            i = r.choice([len(l) - 1, len(l) - 2, r.randrange(len(l)), (len(l) // 1024) * 1024, min(len(l) - 1, (len(l) // 512) * 512 + 1), len(l) - 1 - r.randrange(40)])
        l[i] = l[i] + r.choice([1, 2, -1 if l[i] > 0 else 1]) if field == "windows" else l[i] + "x"
    else:
        if len(l) > 1:
            i = r.randrange(len(l) - 1)
            if len(l) > 64 and r.random() < 0.6:
                i = len(l) - 2 - r.randrange(20)
            l[i], l[i + 1] = l[i + 1], l[i]
            if l[i] == l[i + 1]:
                l.reverse()
        else:
            l.append(l[0] + 1 if field == "windows" else l[0] + "_2")
    return c, "%s:%s" % (field, kind)


def gen_history(r, large=False):
    npref = r.randint(1, 3)
    prefs = PREFIXES[:npref]
    base = {p: base_cfg(r, large and p == prefs[0]) for p in prefs}
    ops, tags = [], []
    for p in prefs:
        ops.append(["open", p, base[p]]); tags.append("first")
    v = 1
    for _ in range(r.randint(3, 10)):
        p = r.choice(prefs)
        x = r.random()
        if x < 0.25:
            ops.append(["write", p, v]); tags.append("write"); v += 1
        elif x < 0.45:
            ops.append(["open", p, base[p]]); tags.append("same")
        elif x < 0.6 and len(prefs) > 1:
            q = r.choice([y for y in prefs if y != p])       # the layout of ANOTHER group of the same file
            ops.append(["open", p, base[q]]); tags.append("other_group_layout")
        else:
            c, tag = mutate_cfg(r, base[p])
            if len(base[p]["genes"]) > 64 and r.random() < 0.7:      # large lists: mostly a change of ONE gene name or a swap of two
                c = copy.deepcopy(base[p])
                kind = r.choice(["element", "order"])
                l = c["genes"]
                if kind == "element":
                    i = r.choice([len(l) - 1, len(l) - 2, r.randrange(len(l)), (len(l) // 1024) * 1024, (len(l) // 512) * 512 + 1, len(l) - 1 - r.randrange(40)])
                    i = max(0, min(len(l) - 1, i))
                    l[i] = l[i] + "x"
                else:
                    i = max(0, len(l) - 2 - r.randrange(20)); l[i], l[i + 1] = l[i + 1], l[i]
                tag = "genes:%s_large" % kind
            ops.append(["open", p, c]); tags.append(tag)
    # some of the re-opens go through a file handle opened for reading only (what a plotting or summary script does)
    for o in ops[npref:]:
        if o[0] == "open" and r.random() < 0.3:
            o.append("r")
    return ops, tags


def to_coq(ops):
    names = {}
    def nm(s):
        if s not in names:
            names[s] = len(names) + 1
        return names[s]
    pref = {}
    out = []
    for o in ops:
        p = pref.setdefault(o[1], len(pref))
        if o[0] == "open":
            c = o[2]
            out.append("OOpen %d%%N (mkC [%s] [%s] [%s])" % (p, "; ".join("%d%%N" % nm("g:" + g) for g in c["genes"]),
                                                           "; ".join("%d%%N" % nm("t:" + t) for t in c["tes"]),
                                                           "; ".join(common.zlit(w) + "%Z" for w in c["windows"])))
        else:
            out.append("OWrite %d%%N %d" % (p, o[2]))
    return "[" + "; ".join(out) + "]", "[" + "; ".join("%d%%N" % i for i in range(len(pref))) + "]", list(pref)


def holds_data(tr):
    b, lab = tr["before"], tr["labels_before"]
    return (b is not None and all(k in b for k in ("GENE_NAMES", "TE_NAMES", "WINDOWS", "_LEFT", "_INTRA", "_RIGHT", "_BITMAP"))
            and "" not in lab["genes"] and "" not in lab["tes"])


def property_failures(ops, run_):
    fails = []
    for o, tr in zip(ops, run_["trace"]):
        if o[0] != "open" or not holds_data(tr):
            continue
        lab, c = tr["labels_before"], o[2]
        equal = lab["genes"] == c["genes"] and lab["tes"] == c["tes"] and lab["windows"] == c["windows"]
        if equal and tr["outcome"] != "ok":
            fails.append({"kind": "matching_reopen_refused", "outcome": tr["outcome"], "prefix": o[1]})
        if not equal and tr["outcome"] == "ok":
            fails.append({"kind": "mismatching_reopen_accepted", "prefix": o[1], "stored": lab, "expected": c})
        if not equal and not (tr["outcome"] in ("TypeError", "ValueError")) and tr["outcome"] != "ok":
            fails.append({"kind": "mismatch_raises_unexpected_exception", "outcome": tr["outcome"]})
        if tr["before"] != tr["after"]:
            fails.append({"kind": "stored_data_modified_by_open", "prefix": o[1], "outcome": tr["outcome"],
                          "changed": [k for k in tr["after"] if tr["before"].get(k) != tr["after"][k]]})
    return fails


def run(chk):
    pipefam.standard_obligations(chk, "C19.v")
    n = 150 if chk.tier == "quick" else 4000
    r = chk.rng("histories")
    hs = [gen_history(r, large=(i % 15 == 7)) for i in range(n)]
    chunks = [hs[i:i + 15] for i in range(0, len(hs), 15)]
    reps = pool.run_requests([{"op": "store.histories", "histories": [h[0] for h in c]} for c in chunks], timeout=240)
    runs = []
    for rep, c in zip(reps, chunks):
        if not rep.get("ok"):
            chk.oblige("histories executed on real HDF5 files", False, json.dumps(rep)[:1500]); runs += [None] * len(c)
        else:
            runs += rep["runs"]
    exprs, prefl = [], []
    for ops, tags in hs:
        o, p, pl = to_coq(ops)
        exprs.append("flat_history %s %s" % (o, p)); prefl.append(pl)
    try:
        flats = common.coq_eval("c19", "From TEV Require Import Model.Store2.", "", exprs, chunk=100)
        chk.oblige("model evaluation (vm_compute) of every history", True)
    except Exception as e:
        flats = None
        chk.oblige("model evaluation (vm_compute) of every history", False, str(e))
    nv, ndiff, first = 0, 0, None
    for i, ((ops, tags), rr) in enumerate(zip(hs, runs)):
        if rr is None:
            continue
        nontriv = "write" in tags and "same" in tags and any(":" in t for t in tags)
        chk.case_seen(ops, nontriv)
        for t in tags:
            chk.count("op:" + t)
        for o in ops:
            if o[0] == "open" and len(o) > 3:
                chk.count("open_through_read_only_handle")
            if o[0] == "write" and o[2] % 3 == 2:
                chk.count("write_marking_half_of_the_bitmap")
        pf = property_failures(ops, rr)
        if pf:
            nv += 1
            if nv <= 2:
                chk.violation("re-opening a density store accepted a mismatch, refused a match, or modified stored data",
                              {"history": ops, "failures": pf[:5]})
        if flats is not None:
            chk.cov["traces_validated_against_impl"] += 1
            f = flats[i]
            k = f.index(-7)
            mo = f[:k]; mc = f[k + 1:]
            ro = [{"ok": 0, "TypeError": 1, "ValueError": 2}.get(t["outcome"], 9) for t in rr["trace"] if t["op"] == "open"]
            rc = [(rr["final"][p]["content"] if rr["final"][p] and rr["final"][p]["content"] is not None else -1) for p in prefl[i]]
            if (mo != ro or mc != rc) and not pf:
                ndiff += 1
                first = first or {"history": ops, "model_outcomes": mo, "impl_outcomes": ro, "model_content": mc, "impl_content": rc}
    chk.oblige("correspondence model = implementation on every history (outcome of each open, final contents)", ndiff == 0,
               json.dumps(first)[:3000] if first else "")
    chk.sample({"history": hs[0][0], "tags": hs[0][1]})
    return chk.finish(rule=RULE)


def replay(chk, rp):
    rep = pool.run_requests([{"op": "store.histories", "histories": [rp["history"]]}])[0]
    pf = property_failures(rp["history"], rep["runs"][0])
    print(json.dumps({"failures": pf}, indent=1))
    return 1 if pf else 0
