"""C10 - results are deterministic and independent of how the work is parallelised."""
import json, os, signal, subprocess, sys
from .. import common, gen, oracle, modelio, pipefam, pool, cli

RULE = ("(a) library stages: each generated input (1-6 chromosomes incl. prefix families Chr1/Chr10, names used on both group axes; group names equal up to case for the inputs that also go through the CLI) is run "
        "with the merge jobs in sorted / reversed / shuffled order and with several seeds of Python's random (the summation tasks are "
        "shuffled); (b) the real CLI with -n 1/2/4/16, --single_process, PYTHONHASHSEED 0/1/random, under 16 busy-loop processes; a large input (hundreds of genes per chromosome) also with -n 48; all "
        "runs of one input must exit 0 and give identical file names, axis labels (in order) and values; the first run is compared with the "
        "model; (c) one input with hundreds of genes through the CLI while the MAIN process alone is stopped (SIGSTOP) for 3 s (thorough: 3-6 s) as soon as a density worker has begun to write, compared with the undisturbed run; non-trivial = >= 2 chromosomes and a same-group overlap; distinct = (input, configuration). OS scheduling itself cannot be "
        "exhibited by the model: part (b) is exploration")
NAMESETS = [["Chr1", "Chr10", "Chr2", "Chr100", "Chr11", "Chr3"], ["c1", "c2", "c3", "c4", "c5", "c6"], ["A", "B", "AB", "A_1", "B1", "A1"]]


def summarize(rep, genome="G"):
    """everything C10 says must be identical between runs (file names without the genome id, which some runs vary)"""
    if not rep.get("ok"):
        return {"failed": rep.get("exc") or rep.get("log", "")[-300:]}
    out = {}
    for f in sorted(rep["files"], key=lambda f: f["file"]):
        name = f["file"][len(genome) + 1:] if f["file"].startswith(genome + "_") else f["file"]
        out["G_" + name] = {"genes": f["genes"], "windows": f["windows"], "orders": f["orders"], "supers": f["supers"],
                          "cells": sorted((tuple(c[:6]), c[6]) for c in f["cells"])}
    return out


def diff_runs(base, other):
    if "failed" in base or "failed" in other:
        return {"kind": "run_failed", "detail": [base.get("failed"), other.get("failed")]}
    if sorted(base) != sorted(other):
        return {"kind": "result_files_differ", "files": [sorted(base), sorted(other)]}
    for fn in base:
        for k in ("genes", "windows", "orders", "supers"):
            if base[fn][k] != other[fn][k]:
                return {"kind": "axis_labels_differ", "file": fn, "axis": k, "values": [base[fn][k], other[fn][k]]}
        if base[fn]["cells"] != other[fn]["cells"]:
            d = [(a, b) for a, b in zip(base[fn]["cells"], other[fn]["cells"]) if a != b][:1]
            return {"kind": "values_differ", "file": fn, "first": [list(map(str, x)) for x in d[0]] if d else "length"}
    return None


def stalled_cli_run(case, stall=3.0, nproc=2, timeout=300):
    """The real command line on `case`; as soon as a density worker has started to (re)write a result file, the MAIN process alone is
    stopped (SIGSTOP) for `stall` seconds - the operating system not scheduling it - and then continued. Returns the usual report
    plus whether the stall took place."""
    import shutil, tempfile, time
    d = tempfile.mkdtemp(prefix="vhc10_")
    try:
        g, t, c = os.path.join(d, "genes.tsv"), os.path.join(d, "tes.tsv"), os.path.join(d, "cfg.ini")
        gen.write_pair(case, g, t, c)
        out = os.path.join(d, "out")
        cmd = [common.PY, os.path.join(common.REPO, "process_genome.py"), g, t, "G", "-c", c, "-o", out, "-n", str(nproc)]
        p = subprocess.Popen(cmd, cwd=d, env=common.child_env(), stdin=subprocess.DEVNULL, stdout=subprocess.PIPE, stderr=subprocess.STDOUT, start_new_session=True)
        stalled = False
        try:
            seen = {}
            t0 = time.time()
            while p.poll() is None and time.time() - t0 < timeout and not stalled:
                try:
                    for fn in os.listdir(out):
                        if fn.endswith(".h5"):
                            st = os.stat(os.path.join(out, fn))
                            key = (st.st_mtime_ns, st.st_size)
                            hist = seen.setdefault(fn, [])
                            if not hist or hist[-1] != key:
                                hist.append(key)
                            # created by the counting pass, then rewritten by the summation worker: the second rewrite has begun
                            if len(hist) >= 3 and hist[-1][1] < max(h[1] for h in hist[:-1]):
                                os.kill(p.pid, signal.SIGSTOP)
                                time.sleep(stall)
                                os.kill(p.pid, signal.SIGCONT)
                                stalled = True
                                break
                except FileNotFoundError:
                    pass
                time.sleep(0.002)
            try:
                outb, _ = p.communicate(timeout=timeout)
            except subprocess.TimeoutExpired:
                outb = b"TIMEOUT"
            rc = p.returncode if p.returncode is not None else -999
        finally:
            try:
                os.killpg(p.pid, signal.SIGKILL)
            except (ProcessLookupError, PermissionError):
                pass
        files = cli.read_results(out) if os.path.isdir(out) else []
        return {"rc": rc, "log": outb.decode("utf-8", "replace")[-3000:], "files": files, "ok": rc == 0, "stalled": stalled}
    finally:
        shutil.rmtree(d, ignore_errors=True)


def lib_configs(tier):
    cf = [{"merge_order": "sorted", "random_seed": 0}, {"merge_order": "reversed", "random_seed": 1, "two_phase": True},
          {"merge_order": 7, "random_seed": 2, "two_phase": True}, {"merge_order": "sorted", "random_seed": 3},
          {"merge_order": "reversed", "random_seed": 4}, {"merge_order": 3, "random_seed": 5, "two_phase": True}]
    return cf if tier == "quick" else cf + [{"merge_order": i, "random_seed": 10 + i, "two_phase": bool(i % 2)} for i in range(10, 20)]


def cli_configs(tier):
    cf = [{"nproc": 1}, {"nproc": 4, "env": {"PYTHONHASHSEED": "1"}}, {"nproc": 16, "env": {"PYTHONHASHSEED": "random"}},
          {"nproc": None, "flags": ["--single_process"], "env": {"PYTHONHASHSEED": "2"}}, {"nproc": 2, "env": {"PYTHONHASHSEED": "3"}}]
    if tier != "quick":
        cf += [{"nproc": 2, "env": {"PYTHONHASHSEED": "random"}}, {"nproc": 8}, {"nproc": 3, "env": {"PYTHONHASHSEED": "12345"}},
               {"nproc": 16}, {"nproc": None, "flags": ["--single_process"], "env": {"PYTHONHASHSEED": "random"}}]
    return cf


def run(chk):
    pipefam.standard_obligations(chk, "C10.v")
    r = chk.rng("cases")
    n = 10 if chk.tier == "quick" else 120
    cases = []
    for i in range(n):
        names = list(NAMESETS[i % len(NAMESETS)])
        k = r.randint(2, 6)
        cases.append(gen.gen_pair(r, max_chrom=k, max_genes=3, max_tes=14, chrom_names=names, min_chrom=k))
    # the inputs that also go through the command line under several hash seeds get group names that a sloppy sort key would
    # tie (equal up to case): their relative order must not depend on set iteration order
    TIE_S = ["Unknown", "unknown", "UNKNOWN", "Gypsy", "gypsy", "GYPSY", "hAT", "HAT", "hat", "Copia", "copia", "COPIA"]
    TIE_O = ["LTR", "ltr", "Ltr", "DNA", "dna", "Dna", "LINE", "line"]
    for c in cases[:(2 if chk.tier == "quick" else 8)]:
        sm = {n: TIE_S[i % len(TIE_S)] + ("" if i < len(TIE_S) else str(i)) for i, n in enumerate(sorted(set(t["superfam"] for t in c["tes"])))}
        om = {n: TIE_O[i % len(TIE_O)] + ("" if i < len(TIE_O) else str(i)) for i, n in enumerate(sorted(set(t["order"] for t in c["tes"])))}
        for t in c["tes"]:
            t["superfam"], t["order"] = sm[t["superfam"]], om[t["order"]]
    lc = lib_configs(chk.tier)
    reqs = []
    for c in cases:
        for cfg in lc:
            reqs.append(dict({"op": "pipeline", "case": c}, **cfg))
    reps = pool.run_requests(reqs, timeout=240)
    try:
        models = modelio.eval_cases("c10", cases)
        chk.oblige("model evaluation (vm_compute) of every input", True)
    except Exception as e:
        models = None
        chk.oblige("model evaluation (vm_compute) of every input", False, str(e))
    nv, diffs = 0, []
    for ci, c in enumerate(cases):
        rr = reps[ci * len(lc):(ci + 1) * len(lc)]
        sums = [summarize(x) for x in rr]
        nontriv = len(set(g["chrom"] for g in c["genes"])) >= 2 and gen.has_same_group_overlap(c["tes"])
        for cfg in lc:
            chk.case_seen([c["genes"], c["tes"], c["windows"], cfg], nontriv)
        chk.count("library_configurations", len(lc))
        fails = []
        want_files = sorted("G_%s.h5" % ch for ch in set(g["chrom"] for g in c["genes"]))
        for cfg, s_ in zip(lc, sums):
            if "failed" in s_:
                fails.append({"kind": "run_did_not_complete", "configuration": cfg, "detail": s_["failed"]})
            elif sorted(s_) != want_files:
                fails.append({"kind": "result_files", "configuration": cfg, "expected": want_files, "got": sorted(s_)})
        for cfg, s_ in zip(lc[1:], sums[1:]):
            d = diff_runs(sums[0], s_)
            if d:
                d["configurations"] = [lc[0], cfg]; fails.append(d)
        if models is not None:
            chk.cov["traces_validated_against_impl"] += 1
            pf, d = pipefam.check_c01_case(c, rr[0], models[ci])
            if d and not fails:
                diffs.append(d)
        if fails:
            nv += 1
            if nv <= 2:
                chk.violation("runs of the same input differ (or do not complete) depending on job order / random state",
                              {"case": {k: c[k] for k in ("genes", "tes", "windows")}, "failures": fails[:4]})
    chk.oblige("correspondence model = implementation (first configuration of every input)", not diffs, json.dumps(diffs[:1])[:2000])
    # (b) CLI exploration, under load
    load = [subprocess.Popen([sys.executable, "-c", "while True: pass"], start_new_session=True) for _ in range(16)]
    try:
        ncli = 2 if chk.tier == "quick" else 8
        for ci_, c in enumerate(cases[:ncli]):
            runs = []
            # every second input under a genome id with dots and underscores of its own (it is part of every file name)
            gid = "G" if ci_ % 2 == 0 else "Gen_v1.0"
            for cfg in cli_configs(chk.tier):
                rep = cli.run_case_cli(c, nproc=cfg.get("nproc"), flags=cfg.get("flags", ()), env=cfg.get("env"), genome=gid, timeout=300)
                chk.cov["evaluations"] += 1
                chk.count("cli_runs")
                chk.count("cli_genome_id:" + gid)
                runs.append((dict(cfg, genome=gid), rep, summarize(rep, gid)))
            fails = []
            for cfg, rep, s_ in runs:
                if rep["rc"] != 0:
                    fails.append({"kind": "cli_exit_status", "configuration": cfg, "rc": rep["rc"], "log": rep["log"][-400:]})
            for cfg, rep, s_ in runs[1:]:
                d = diff_runs(runs[0][2], s_)
                if d:
                    d["configurations"] = [runs[0][0], cfg]; fails.append(d)
            d = diff_runs(summarize(reps[cases.index(c) * len(lc)]), runs[0][2])
            if d:
                d["configurations"] = ["library stages", runs[0][0]]; fails.append(d)
            if fails:
                nv += 1
                chk.violation("CLI runs of the same input differ (or fail) across worker counts / single-process mode / hash seeds / load",
                              {"case": {k: c[k] for k in ("genes", "tes", "windows")}, "genome": gid, "failures": fails[:4]})
    finally:
        for p in load:
            try:
                os.killpg(p.pid, signal.SIGKILL)
            except Exception:
                pass
    # (c) the main process not scheduled for a few seconds while the density workers run (hundreds of genes per chromosome)
    big = gen.gen_big_files(chk.rng("stall"))
    ref = cli.run_case_cli(big, nproc=2, timeout=300)
    for k in range(1 if chk.tier == "quick" else 4):
        rep = stalled_cli_run(big, stall=3.0 + k)
        chk.cov["evaluations"] += 1
        chk.count("cli_runs_main_process_stalled" if rep["stalled"] else "cli_runs_stall_not_placed")
        fails = []
        if ref["rc"] != 0 or rep["rc"] != 0:
            fails.append({"kind": "cli_exit_status", "undisturbed": ref["rc"], "main_process_stalled": rep["rc"], "log": rep["log"][-500:]})
        else:
            d = diff_runs(summarize(ref), summarize(rep))
            if d:
                fails.append(d)
        if fails:
            nv += 1
            chk.violation("CLI run with the main process stopped for %.0f s during the density stage differs from the undisturbed run (or fails)" % (3.0 + k),
                          {"stalled_big_files": {"stall": 3.0 + k, "rng": "stall"}, "failures": fails[:3]})
    # (d) the same large input with far more workers than chromosomes (any share of a resource that is divided by the number of
    # workers becomes small) and with one worker
    for npr in ([48] if chk.tier == "quick" else [1, 48, 96]):
        rep = cli.run_case_cli(big, nproc=npr, timeout=400)
        chk.cov["evaluations"] += 1
        chk.count("cli_runs_large_input_n%d" % npr)
        fails = []
        if ref["rc"] != 0 or rep["rc"] != 0:
            fails.append({"kind": "cli_exit_status", "n2": ref["rc"], "n%d" % npr: rep["rc"], "log": rep["log"][-500:]})
        else:
            d = diff_runs(summarize(ref), summarize(rep))
            if d:
                fails.append(d)
        if fails:
            nv += 1
            chk.violation("CLI run of a large input with -n %d differs from the run with -n 2 (or fails)" % npr, {"many_workers_big_files": {"nproc": npr, "rng": "stall"}, "failures": fails[:3]})
    chk.sample({"chromosomes": sorted(set(g["chrom"] for g in cases[0]["genes"])), "library_configurations": lc[:3], "cli_configurations": cli_configs(chk.tier)[:2]})
    return chk.finish(rule=RULE)


def replay(chk, rp):
    if "many_workers_big_files" in rp:
        big = gen.gen_big_files(chk.rng("stall"))
        ref = cli.run_case_cli(big, nproc=2, timeout=300)
        rep = cli.run_case_cli(big, nproc=rp["many_workers_big_files"]["nproc"], timeout=400)
        bad = ref["rc"] != 0 or rep["rc"] != 0 or bool(diff_runs(summarize(ref), summarize(rep)))
        print(json.dumps({"n2_exit": ref["rc"], "many_workers_exit": rep["rc"], "differs": bad}, indent=1))
        return 1 if bad else 0
    if "stalled_big_files" in rp:
        big = gen.gen_big_files(chk.rng("stall"))
        ref = cli.run_case_cli(big, nproc=2, timeout=300)
        rep = stalled_cli_run(big, stall=rp["stalled_big_files"]["stall"])
        bad = ref["rc"] != 0 or rep["rc"] != 0 or bool(diff_runs(summarize(ref), summarize(rep)))
        print(json.dumps({"undisturbed_exit": ref["rc"], "stalled_exit": rep["rc"], "stall_placed": rep["stalled"], "log": rep["log"][-400:]}, indent=1))
        return 1 if bad else 0
    c = rp["case"]
    lc = lib_configs("quick")
    reps = pool.run_requests([dict({"op": "pipeline", "case": c}, **cfg) for cfg in lc], timeout=240)
    sums = [summarize(x) for x in reps]
    fails = [d for d in (diff_runs(sums[0], s_) for s_ in sums[1:]) if d]
    fails += [{"kind": "failed", "detail": s_["failed"]} for s_ in sums if "failed" in s_]
    if not fails:       # found through the command line: worker counts / hash seeds
        gid = rp.get("genome", "Gen_v1.0")
        runs = [summarize(cli.run_case_cli(c, nproc=cfg.get("nproc"), flags=cfg.get("flags", ()), env=cfg.get("env"), genome=gid, timeout=300), gid)
                for cfg in cli_configs("thorough")]
        fails = [d for d in (diff_runs(runs[0], s_) for s_ in runs[1:]) if d] + [{"kind": "failed", "detail": s_["failed"]} for s_ in runs if "failed" in s_]
    print(json.dumps({"failures": fails[:5]}, indent=1, default=str))
    return 1 if fails else 0
