"""C07 - densities of nested TE groupings are mutually consistent."""
import json
from .. import common, gen, oracle, modelio, pipefam, pool, cli
from . import c01

RULE = ("C01 mixture with orders carrying several superfamilies, superfamilies shared between orders, and names used on both axes; "
        "oracle-free consistency pass over EVERY cell of every output on counts round(v*D): total >= each group, total <= sum of orders, "
        "order <= sum of its superfamilies, superfamily within one order <= that order; non-trivial = same-group overlap and >= 2 orders "
        "on a chromosome; distinct = canonical JSON")


def consistency_failures(case, rep):
    if not rep.get("ok"):
        return [{"kind": "run_failed", "exc": rep.get("exc"), "msg": rep.get("msg")}]
    cells, files, _ = pipefam.impl_cells(rep)
    ws = gen.windows_list(*case["windows"])
    fails = []
    for ch in files:
        tes = [t for t in case["tes"] if t["chrom"] == ch]
        orders = sorted(set(t["order"] for t in tes)); supers = sorted(set(t["superfam"] for t in tes))
        sup_of = {o: sorted(set(t["superfam"] for t in tes if t["order"] == o)) for o in orders}
        ord_of = {s: sorted(set(t["order"] for t in tes if t["superfam"] == s)) for s in supers}
        for g in [g for g in case["genes"] if g["chrom"] == ch]:
            for sd in (0, 1, 2):
                for w in ([-1] if sd == 1 else ws):
                    lo, hi = oracle.region(sd, g["start"], g["stop"], w)
                    D = hi - lo + 1
                    def N(lv, name):
                        v = cells.get((ch, lv, name, sd, w, g["name"]))
                        return None if v is None else round(v * D)
                    tot = N(0, "Total_TE_Density")
                    if tot is None:
                        fails.append({"kind": "missing_total", "chrom": ch}); continue
                    no = {o: N(0, o) for o in orders}; ns = {s: N(1, s) for s in supers}
                    if None in no.values() or None in ns.values():
                        fails.append({"kind": "missing_group", "chrom": ch}); continue
                    where = {"chrom": ch, "gene": g["name"], "side": sd, "window": w}
                    for nm, v in list(no.items()) + list(ns.items()):
                        if v > tot:
                            fails.append(dict(where, kind="group_exceeds_total", group=nm, group_count=v, total=tot))
                    if tot > sum(no.values()):
                        fails.append(dict(where, kind="total_exceeds_sum_of_orders", total=tot, orders=no))
                    for o in orders:
                        if no[o] > sum(ns[s] for s in sup_of[o]):
                            fails.append(dict(where, kind="order_exceeds_sum_of_superfamilies", order=o, count=no[o], supers={s: ns[s] for s in sup_of[o]}))
                    for s in supers:
                        if len(ord_of[s]) == 1 and ns[s] > no[ord_of[s][0]]:
                            fails.append(dict(where, kind="superfamily_exceeds_its_order", superfamily=s, order=ord_of[s][0], counts=[ns[s], no[ord_of[s][0]]]))
                    if len(fails) > 20:
                        return fails
    return fails


def run(chk):
    pipefam.standard_obligations(chk, "C07.v")
    pipefam.merge_unit(chk, chk.rng("merge_unit"))
    n = 100 if chk.tier == "quick" else 2500
    r = chk.rng("cases")
    cases = pipefam.load_corpus("C07") + [gen.gen_pair(r, max_chrom=3, max_genes=5, max_tes=35) for _ in range(n)]
    # one order of thousands of elements made of two superfamilies of about half that size each: whatever a pass does to a group
    # beyond some size, it then does to the order and not to its superfamilies
    cases += [gen.gen_large_group(r, sz, supers=("Gypsy", "Copia")) for sz in ([2300] if chk.tier == "quick" else [1100, 2300, 4200])]
    results = c01.evaluate(chk, cases, tag="c07")
    nv, diff_only = 0, []
    for c, rep, pf, diffs in results:
        cf = consistency_failures(c, rep)
        if cf:
            nv += 1
            if nv <= 2:
                small = pipefam.shrink(c, lambda cc: bool(consistency_failures(cc, pipefam.run_impl([cc])[0])))
                chk.violation("densities of nested groupings are inconsistent",
                              {"case": {k: small[k] for k in ("genes", "tes", "windows")},
                               "failures": consistency_failures(small, pipefam.run_impl([small])[0])[:5] or cf[:5]})
        elif diffs:
            diff_only.append(diffs)
    chk.oblige("correspondence model = implementation on every case (name-keyed cells, float rule)", not diff_only, json.dumps(diff_only[:1])[:2000])
    for c in cases[:2]:
        chk.sample({"n_genes": len(c["genes"]), "n_tes": len(c["tes"]), "windows": c["windows"],
                    "groups": sorted(set((t["order"], t["superfam"]) for t in c["tes"]))})
    return chk.finish(rule=RULE)


def replay(chk, rp):
    c = rp["case"]
    cf = consistency_failures(c, pipefam.run_impl([c])[0])
    print(json.dumps({"failures": cf[:10]}, indent=1))
    return 1 if cf else 0
