"""C06 - left/right geometry: mirror symmetry, shift invariance, monotone in window."""
import copy, json
from .. import common, gen, oracle, modelio, pipefam, pool

RULE = ("triples (input, shifted by k up to 2^31-1-span - two shifts in seven put the largest coordinate at or within one window of 2^31-1, so that right windows run past it -, mirrored about M) whose left windows are not truncated, through the real "
        "library stages; the implementation's own outputs are compared with each other (shift: every cell equal; mirror: left<->right "
        "exchanged, intra equal) and the base run with the model; monotonicity of round(v*D) over window lists with >= 3 windows, also for every third input pushed against coordinate 1 (left windows cut); "
        "non-trivial = same-group overlap and a TE on a region boundary; distinct = canonical JSON")
MAXC = 2**31 - 1


def untruncate(case):
    """move everything right so that no left window is cut at 0"""
    ws = gen.windows_list(*case["windows"])
    need = ws[-1] + 2
    lo = min([g["start"] for g in case["genes"]] + [t["start"] for t in case["tes"]])
    hi = max([g["stop"] for g in case["genes"]] + [t["stop"] for t in case["tes"]])
    d = 0
    if lo - need < 1:
        d = need - lo + 1
    if hi + d + need > MAXC:
        d = MAXC - need - hi
    return shifted(case, d), ws


def shifted(case, k):
    c = copy.deepcopy(case)
    for g in c["genes"]:
        g["start"] += k; g["stop"] += k
    for t in c["tes"]:
        t["start"] += k; t["stop"] += k
    return c


def mirrored(case, M):
    c = copy.deepcopy(case)
    for g in c["genes"]:
        g["start"], g["stop"] = M - g["stop"], M - g["start"]
    for t in c["tes"]:
        t["start"], t["stop"] = M - t["stop"], M - t["start"]
    return c


def real_cells(case, rep):
    cells, files, _ = pipefam.impl_cells(rep)
    onames, snames = pipefam.real_names(case)
    return {k: v for k, v in cells.items() if pipefam.is_real_key(k, onames, snames)}


def triple_failures(base, ws, k, M, reps):
    fails = []
    for rep, tag in zip(reps, ("base", "shifted", "mirrored")):
        if not rep.get("ok"):
            fails.append({"kind": "run_failed", "variant": tag, "exc": rep.get("exc"), "msg": rep.get("msg")})
    if fails:
        return fails
    b, s, m = (real_cells(base, r) for r in reps)
    if set(b) != set(s):
        fails.append({"kind": "shift_keys", "n": len(set(b) ^ set(s))})
    bad = [key for key in b if key in s and abs(b[key] - s[key]) > 2.0 ** -22]
    if bad:
        fails.append({"kind": "shift_value", "shift": k, "n": len(bad), "key": list(bad[0]), "values": [b[bad[0]], s[bad[0]]]})
    badm = []
    for (c, lv, name, sd, w, g), v in b.items():
        km = (c, lv, name, 2 - sd, w, g)
        if km not in m:
            fails.append({"kind": "mirror_keys", "key": list(km)}); break
        if abs(m[km] - v) > 2.0 ** -22:
            badm.append(((c, lv, name, sd, w, g), v, m[km]))
    if badm:
        fails.append({"kind": "mirror_value", "about": M, "n": len(badm), "key": list(badm[0][0]), "values": [badm[0][1], badm[0][2]]})
    # monotone in the window: counts = round(v * (w+1)) (untruncated, so D = w+1)
    if len(ws) >= 2:
        for (c, lv, name, sd, w, g), v in b.items():
            if sd == 1:
                continue
            i = ws.index(w)
            if i + 1 < len(ws):
                w2 = ws[i + 1]
                v2 = b.get((c, lv, name, sd, w2, g))
                if v2 is not None and round(v2 * (w2 + 1)) < round(v * (w + 1)):
                    fails.append({"kind": "not_monotone", "key": [c, lv, name, sd, g], "windows": [w, w2],
                                  "counts": [round(v * (w + 1)), round(v2 * (w2 + 1))]}); break
    return fails


def near_origin_failures(case, rep):
    """monotone in the window also where left windows are cut at coordinate 0: counts = round(v * region length), the left region
    of a gene starting at s being min(w + 1, s) positions long"""
    if not rep.get("ok"):
        return [{"kind": "run_failed", "variant": "near_origin", "exc": rep.get("exc"), "msg": rep.get("msg")}]
    ws = gen.windows_list(*case["windows"])
    b = real_cells(case, rep)
    start = {g["name"]: g["start"] for g in case["genes"]}
    def count(sd, w, g, v):
        return round(v * (min(w + 1, start[g]) if sd == 0 else w + 1))
    for (c, lv, name, sd, w, g), v in b.items():
        if sd == 1:
            continue
        i = ws.index(w)
        if i + 1 < len(ws):
            v2 = b.get((c, lv, name, sd, ws[i + 1], g))
            if v2 is not None and count(sd, ws[i + 1], g, v2) < count(sd, w, g, v):
                return [{"kind": "not_monotone_near_origin", "key": [c, lv, name, sd, g], "gene_start": start[g], "windows": [w, ws[i + 1]],
                         "counts": [count(sd, w, g, v), count(sd, ws[i + 1], g, v2)]}]
    return []


def near_origin(case):
    lo = min([g["start"] for g in case["genes"]] + [t["start"] for t in case["tes"]])
    return shifted(case, 1 - lo)


def make_triple(r, raw):
    base, ws = untruncate(raw)
    hi = max([g["stop"] for g in base["genes"]] + [t["stop"] for t in base["tes"]])
    lo = min([g["start"] for g in base["genes"]] + [t["start"] for t in base["tes"]])
    room = MAXC - (hi + ws[-1] + 2)
    room2 = MAXC - hi          # every coordinate still <= 2^31-1, the right windows of the last genes run past it
    k = r.choice([1, 1000, room, r.randint(0, max(0, room)), max(0, room - 1), room2, room2 - r.randint(0, ws[-1] + 1)])
    k = max(0, min(k, room2))
    # mirror about M: p -> M - p ; keep coordinates >= 1 and left windows untruncated
    M = hi + lo + r.choice([0, 1, 17, ws[-1] + 5])
    M = max(M, hi + ws[-1] + 3)
    if M - lo > MAXC:
        M = hi + ws[-1] + 3
    return base, ws, k, M


def run(chk):
    pipefam.standard_obligations(chk, "C06.v")
    n = 50 if chk.tier == "quick" else 900
    r = chk.rng("cases")
    triples, reqs = [], []
    for i in range(n):
        raw = gen.gen_pair(r, max_chrom=2, max_genes=4, max_tes=22)
        if r.random() < 0.6:   # window lists with >= 3 windows for monotonicity
            f = r.choice([0, 50, 300]); d = r.choice([1, 100, 333]); raw["windows"] = [f, d, f + d * r.randint(2, 4)]
        base, ws, k, M = make_triple(r, raw)
        triples.append((base, ws, k, M, len(reqs)))
        reqs += [base, shifted(base, k), mirrored(base, M)]
    reps = pipefam.run_impl(reqs)
    # every third input also pushed against coordinate 1, where the left windows are cut
    nears = [near_origin(t[0]) for i, t in enumerate(triples) if i % 3 == 0 and len(t[1]) >= 2]
    nreps = pipefam.run_impl(nears)
    near_bad = []
    for c_, rep_ in zip(nears, nreps):
        chk.count("near_origin_variants")
        chk.cov["evaluations"] += 1
        f_ = near_origin_failures(c_, rep_)
        if f_:
            near_bad.append((c_, f_))
    try:
        models = modelio.eval_cases("c06", [t[0] for t in triples])
        chk.oblige("model evaluation (vm_compute) of every case", True)
    except Exception as e:
        models = None
        chk.oblige("model evaluation (vm_compute) of every case", False, str(e))
    nv, diffs_all = 0, []
    for ti, (base, ws, k, M, i0) in enumerate(triples):
        chk.case_seen({x: base[x] for x in ("genes", "tes", "windows")}, pipefam.nontrivial(base))
        chk.count("shift>=2^30" if k >= 2**30 else "shift<2^30")
        chk.count("windows>=3" if len(ws) >= 3 else "windows<3")
        fails = triple_failures(base, ws, k, M, reps[i0:i0 + 3])
        if models is not None:
            chk.cov["traces_validated_against_impl"] += 1
            pf, d = pipefam.check_c01_case(base, reps[i0], models[ti])
            if d and not fails:
                diffs_all.append(d)
        if fails:
            nv += 1
            if nv <= 2:
                def still(cc):
                    b2, ws2 = untruncate(cc)
                    hi = max([g["stop"] for g in b2["genes"]] + [t["stop"] for t in b2["tes"]])
                    k2 = max(0, min(k, MAXC - hi))
                    lo = min([g["start"] for g in b2["genes"]] + [t["start"] for t in b2["tes"]])
                    M2 = max(hi + lo, hi + ws2[-1] + 3)
                    return bool(triple_failures(b2, ws2, k2, M2, pipefam.run_impl([b2, shifted(b2, k2), mirrored(b2, M2)])))
                small = pipefam.shrink(base, still, budget=40)
                chk.violation("shift invariance / mirror symmetry / window monotonicity broken",
                              {"case": {x: small[x] for x in ("genes", "tes", "windows")}, "shift": k, "mirror_about": M,
                               "failures": fails[:5], "note": "replay re-derives shift and mirror point from the case"})
    for c_, f_ in near_bad[:2]:
        nv += 1
        chk.violation("window monotonicity broken where the left window is cut at coordinate 0",
                      {"case": {x: c_[x] for x in ("genes", "tes", "windows")}, "near_origin": True, "failures": f_})
    chk.oblige("correspondence model = implementation (base run of every triple)", not diffs_all, json.dumps(diffs_all[:1])[:2000])
    for t in triples[:2]:
        chk.sample({"n_genes": len(t[0]["genes"]), "n_tes": len(t[0]["tes"]), "windows": t[0]["windows"], "shift": t[2], "mirror_about": t[3]})
    return chk.finish(rule=RULE)


def replay(chk, rp):
    if rp.get("near_origin"):
        f_ = near_origin_failures(rp["case"], pipefam.run_impl([rp["case"]])[0])
        print(json.dumps({"failures": f_}, indent=1))
        return 1 if f_ else 0
    r = chk.rng("replay")
    base, ws, k, M = make_triple(r, rp["case"])
    k = min(rp.get("shift", k), k) if rp.get("shift") is not None else k
    fails = triple_failures(base, ws, k, M, pipefam.run_impl([base, shifted(base, k), mirrored(base, M)]))
    print(json.dumps({"failures": fails}, indent=1))
    return 1 if fails else 0
