"""C03 - every density of a real TE group is a finite number in [0,1]."""
import json, math
from .. import common, gen, oracle, modelio, pipefam, pool, cli
from . import c01

RULE = ("pile-up generator (20-45 extra TEs of one group stacked on one gene's flanks and body, on top of the C01 mixture); "
        "plus one group of 700 elements (thorough: 300 to 2600) with ~100 fragments nested in single long elements; every fourth case in an output directory used before (same / extended / other genome id); EVERY cell of every result file is range-checked (finite, 0 <= v <= 1) for real groups and Total_TE_Density; "
        "non-trivial = same-group overlap present; distinct = canonical JSON of the case")


def range_failures(case, rep):
    if not rep.get("ok"):
        return [{"kind": "run_failed", "exc": rep.get("exc"), "msg": rep.get("msg")}]
    cells, files, problems = pipefam.impl_cells(rep)
    onames, snames = pipefam.real_names(case)
    out = []
    for k, v in cells.items():
        if pipefam.is_real_key(k, onames, snames) and not (math.isfinite(v) and 0.0 <= v <= 1.0):
            out.append({"kind": "out_of_range", "key": list(k), "value": v})
    return out


def bitexact_failures(case, rep):
    """stored cell == binary32(N / D) for the brute-force pair (N, D) of the statement, D < 2^24 (both operands exact in binary32;
    rounding the binary64 quotient to binary32 is the correctly rounded quotient, 53 >= 2*24+2)"""
    import numpy as np
    if not rep.get("ok"):
        return 0, 0, None
    cells, _files, _p = pipefam.impl_cells(rep)
    spec = oracle.spec_cells(case, gen.windows_list(*case["windows"]))
    n_checked = n_bad = 0
    first = None
    for k, (n, d) in spec.items():
        if k in cells and 0 < d < 2 ** 24:
            n_checked += 1
            want = float(np.float32(n / d))
            # the correctly rounded quotient in the storage format: binary32 as the code stores now, binary64 if it ever stores doubles
            if cells[k] != want and cells[k] != n / d:
                n_bad += 1
                first = first or {"key": list(k), "N": n, "D": d, "stored": cells[k], "binary32(N/D)": want}
    return n_checked, n_bad, first


def run(chk):
    pipefam.standard_obligations(chk, "C03.v")
    n = 100 if chk.tier == "quick" else 2500
    r = chk.rng("cases")
    cases = pipefam.load_corpus("C03") + [gen.gen_pileup(r) for _ in range(n)]
    # groups far larger than any pile-up: hundreds of same-group elements, scans with ~100 hits
    cases += [gen.gen_large_group(r, sz) for sz in ([700, 2300] if chk.tier == "quick" else [300, 700, 1500, 2300, 2600, 4200])]
    # every fourth case runs in an output directory already used for another pair (same chromosome names) under the same
    # genome id, an id that extends it, or an unrelated one
    for i, c in enumerate(cases):
        if i % 4 == 3 and "before" not in c:
            c["before"] = {"case": {k: cases[i - 1][k] for k in ("genes", "tes", "windows")}, "genome": ["G", "G_v2", "H"][(i // 4) % 3]}
    results = c01.evaluate(chk, cases, tag="c03")
    nv = 0
    ncells = 0
    for c, rep, pf, diffs in results:
        rf = range_failures(c, rep)
        if rep.get("ok"):
            ncells += sum(len(f["cells"]) for f in rep["files"])
        if rf:
            nv += 1
            if nv <= 2:
                small = pipefam.shrink(c, lambda cc: bool(range_failures(cc, pipefam.run_impl([cc])[0])))
                chk.violation("a density of a real group is not a finite number in [0,1]",
                              {"case": {k: small[k] for k in ("genes", "tes", "windows", "before") if k in small},
                               "failures": range_failures(small, pipefam.run_impl([small])[0])[:5] or rf[:5]})
    nb_checked = nb_bad = 0
    nb_first = None
    for c, rep, pf, diffs in results:
        a, b, f = bitexact_failures(c, rep)
        nb_checked += a; nb_bad += b; nb_first = nb_first or f
    chk.oblige("every stored cell of a real group is exactly binary32(N/D) for the statement's (N, D) (%d cells, %d differ): ties Props/C03float.v to the stored numbers" % (nb_checked, nb_bad),
               nb_bad == 0, json.dumps(nb_first))
    chk.cov["cells_bit_exact"] = nb_checked
    diff_only = [(c, d) for c, rep, pf, d in results if d and not range_failures(c, rep)]
    chk.oblige("correspondence model = implementation on every case (name-keyed cells, float rule)", not diff_only,
               json.dumps(diff_only[0][1])[:2000] if diff_only else "")
    chk.cov["cells_range_checked"] = ncells
    if chk.tier == "thorough":
        arabidopsis(chk)
    for c in cases[:2]:
        chk.sample({"n_genes": len(c["genes"]), "n_tes": len(c["tes"]), "windows": c["windows"], "features": c.get("features")})
    return chk.finish(rule=RULE)


def arabidopsis(chk):
    """slice of tests/system_test_input_data through the CLI; every cell range-checked"""
    import os, csv
    base = os.path.join(common.REPO, "tests", "system_test_input_data")
    gf = [f for f in os.listdir(base) if "Gene" in f or "gene" in f]
    tf = [f for f in os.listdir(base) if "TE" in f]
    if not gf or not tf:
        chk.notes.append("system test data not found; Arabidopsis slice skipped")
        return
    def rows(p):
        with open(p, newline="") as f:
            return list(csv.DictReader(f, delimiter="\t"))
    genes = rows(os.path.join(base, gf[0])); tes = rows(os.path.join(base, tf[0]))
    chroms = sorted(set(g["Chromosome"] for g in genes))[:2]
    case = {"genes": [], "tes": [], "windows": [500, 1000, 2500]}
    for c in chroms:
        for g in [g for g in genes if g["Chromosome"] == c][:40]:
            case["genes"].append({"name": g["Gene_Name"], "chrom": c, "start": int(float(g["Start"])), "stop": int(float(g["Stop"])), "strand": g["Strand"]})
        for t in [t for t in tes if t["Chromosome"] == c][:3000]:
            case["tes"].append({"chrom": c, "start": int(float(t["Start"])), "stop": int(float(t["Stop"])), "order": t["Order"], "superfam": t["SuperFamily"], "strand": "+"})
    rep = cli.run_case_cli(case, nproc=4, timeout=1200)
    rf = range_failures(case, rep) if rep["ok"] else [{"kind": "run_failed", "log": rep["log"][-500:]}]
    chk.cov["arabidopsis_slice"] = {"genes": len(case["genes"]), "tes": len(case["tes"]), "cells": sum(len(f["cells"]) for f in rep["files"]), "failures": len(rf)}
    if rf:
        chk.violation("Arabidopsis slice: density outside [0,1] or run failed", {"failures": rf[:5], "slice": "first 40 genes / 3000 TEs of 2 chromosomes"})


def replay(chk, rp):
    c = rp["case"]
    rf = range_failures(c, pipefam.run_impl([c])[0])
    print(json.dumps({"failures": rf[:10]}, indent=1))
    return 1 if rf else 0
