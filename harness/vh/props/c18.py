"""C18 - uninterpretable annotations are rejected before any result is written."""
import copy, json
from .. import common, gen, modelio, pipefam, pool, cli

RULE = ("malformed stream: one defect inserted into an otherwise valid generated pair -- duplicate gene identifier (same / other "
        "chromosome, at first / last / random row positions), strand symbol outside + - . (at first / last / random rows), each required "
        "column dropped in turn (also: present under another header; dropped while a column of notes is present), chromosome sets differing with equal and unequal cardinality (also in an output directory used before for the valid pair under other file names with the same stem before the first dot); strand symbols include the tokens table readers take for missing (NA, empty, null, ...); every fifth variant with a defect of the gene annotation, and every missing-column variant (either file) a second time, in an output directory where the valid pair "
        "was processed before, with older modification times; gene files of 10400 rows (thorough: up to 70000) with the duplicate identifier on rows far apart or adjacent across a round row count; every variant through the real library "
        "stages (must raise, no <genome>_<chrom>.h5 left) and a sample through the CLI (exit status non-zero, no result file); "
        "non-trivial = defect not in the first row; distinct = canonical JSON of the variant")
BAD_STRANDS = ["*", "x", "++", "0", "plus", "?", "+-", "-.", "+-.", "-+", ".+", "+ ", " -", "\uff0b", "\u2013", "..",
               # tokens a table reader takes for "missing": a row with such a strand is still a row with a strand outside + - .
               "NA", "", "N/A", "null", "NaN", "None", "<NA>", "n/a"]
_bad_i = [0]
G_REQUIRED = ["Gene_Name", "Chromosome", "Start", "Stop", "Strand", "Length"]
T_REQUIRED = ["Chromosome", "Start", "Stop", "Order", "SuperFamily"]
GCOL = {"Gene_Name": "GName", "Chromosome": "GChrom", "Start": "GStart", "Stop": "GStop", "Strand": "GStrand", "Length": "GLength", "Feature": "GFeature"}
TCOL = {"Chromosome": "TChrom", "Start": "TStart", "Stop": "TStop", "Order": "TOrder", "SuperFamily": "TSuper", "Strand": "TStrand", "Length": "TLength"}


def positions(r, n, all_positions):
    if all_positions or n <= 3:
        return list(range(n))
    return sorted(set([0, n - 1, r.randrange(n), r.randrange(n)]))


def variants(r, base, all_positions):
    out = []
    ng = len(base["genes"])
    for i in positions(r, ng, all_positions):          # duplicate of gene i inserted at position j
        for j in positions(r, ng + 1, all_positions)[:4]:
            c = copy.deepcopy(base)
            g = dict(c["genes"][i])
            if r.random() < 0.5:
                others = [x["chrom"] for x in c["genes"] if x["chrom"] != g["chrom"]]
                if others:
                    g["chrom"] = r.choice(others)
            g["start"] += 3; g["stop"] += 3
            c["genes"].insert(j, g)
            c["defect"] = "duplicate gene id %s (row %d) inserted at row %d" % (g["name"], i, j); c["pos"] = max(i, j)
            out.append(c)
    for i in positions(r, ng, all_positions):
        c = copy.deepcopy(base)
        c["genes"][i]["strand"] = BAD_STRANDS[_bad_i[0] % len(BAD_STRANDS)]; _bad_i[0] += 1     # every symbol in turn
        c["defect"] = "strand %r at gene row %d" % (c["genes"][i]["strand"], i); c["pos"] = i
        out.append(c)
    ALIAS = {"Gene_Name": "ID", "Chromosome": "Chr", "Start": "Begin", "Stop": "End", "Strand": "Sense", "Length": "Len", "Order": "Class", "SuperFamily": "Family"}
    for col in G_REQUIRED:
        c = copy.deepcopy(base); c["drop_gene_cols"] = [col]; c["defect"] = "gene column %s missing" % col; c["pos"] = 1
        out.append(c)
        # the column is missing while the file has columns the pipeline does not know: its data under another header, or a column of notes
        c = copy.deepcopy(base); c["rename_gene_cols"] = {col: ALIAS[col]}; c["missing_gene_cols"] = [col]
        c["defect"] = "gene column %s missing (present under the header %s)" % (col, ALIAS[col]); c["pos"] = 1
        out.append(c)
        c = copy.deepcopy(base); c["drop_gene_cols"] = [col]; c["extra_gene_cols"] = ["Note"]; c["defect"] = "gene column %s missing (and a column Note present)" % col; c["pos"] = 1
        out.append(c)
    for col in T_REQUIRED:
        c = copy.deepcopy(base); c["drop_te_cols"] = [col]; c["defect"] = "TE column %s missing" % col; c["pos"] = 1
        out.append(c)
        c = copy.deepcopy(base); c["rename_te_cols"] = {col: ALIAS[col]}; c["missing_te_cols"] = [col]
        c["defect"] = "TE column %s missing (present under the header %s)" % (col, ALIAS[col]); c["pos"] = 1
        out.append(c)
        c = copy.deepcopy(base); c["drop_te_cols"] = [col]; c["extra_te_cols"] = ["Note"]; c["defect"] = "TE column %s missing (and a column Note present)" % col; c["pos"] = 1
        out.append(c)
    from .c05 import mismatch_cases
    for m in mismatch_cases(r, base):
        m["defect"] = "chromosome sets differ: " + m["variant"]; m["pos"] = 1
        out.append(m)
    return out


def large_dup_case(n, i, j):
    """a gene annotation of n rows on two chromosomes (more rows than any block a reader might split the file into) in which row j
    carries the gene identifier of row i; deterministic, so that a replay names it by (n, i, j)"""
    genes = []
    for k in range(n):
        ch = "Chr1" if k % 2 == 0 else "Chr2"
        s = 1000 + 700 * (k // 2)
        genes.append({"name": "gene_%05d" % k, "chrom": ch, "start": s, "stop": s + 300 + (k % 7) * 20, "strand": "+-."[k % 3]})
    genes[j]["name"] = genes[i]["name"]
    tes = [{"chrom": ch, "start": 500 + 9000 * q, "stop": 900 + 9000 * q + 100 * (q % 3), "order": "LTR" if q % 2 else "DNA",
            "superfam": "Gypsy" if q % 2 else "hAT", "strand": "+"} for ch in ("Chr1", "Chr2") for q in range(12)]
    return {"genes": genes, "tes": tes, "windows": [500, 500, 1000], "defect": "duplicate gene identifier: rows %d and %d of %d" % (i, j, n), "pos": j}


def large_dup_run(chk, spec):
    c = large_dup_case(**spec)
    rep = pipefam.run_impl([c], timeout=600)[0]
    bad = None
    if rep.get("ok"):
        bad = {"kind": "accepted", "result_files": [f["file"] for f in rep["files"]][:4]}
    elif rep.get("result_files"):
        bad = {"kind": "rejected_after_result_written", "result_files": rep["result_files"], "exc": rep.get("exc")}
    elif rep.get("exc") in ("Timeout", "WorkerDied"):
        bad = {"kind": "no_clean_error", "exc": rep.get("exc")}
    return c, rep, bad


def model_expr(c):
    rk, order = modelio.ranks(c)
    gl, tl, res = modelio.lits(c, rk)
    f, d, l = c["windows"]
    gh = "[" + "; ".join(v for k, v in GCOL.items() if k not in c.get("drop_gene_cols", []) + c.get("missing_gene_cols", [])) + "]"
    th = "[" + "; ".join(v for k, v in TCOL.items() if k not in c.get("drop_te_cols", []) + c.get("missing_te_cols", [])) + "]"
    return ("match run_files %s %s %s %s %s %s %s %s with inl MissingColumn => [-5] | inl (Rejected e) => [err_code e] | inr _ => [0] end"
            % (res, gh, th, common.zlit(f), common.zlit(d), common.zlit(l), gl, tl))


def run(chk):
    pipefam.standard_obligations(chk, "C18.v")
    nb = 10 if chk.tier == "quick" else 120
    r = chk.rng("cases")
    vs = []
    for _ in range(nb):
        base = gen.gen_pair(r, max_chrom=3, max_genes=4, max_tes=10, min_chrom=1)
        new = variants(r, base, chk.tier != "quick")
        for c in new:
            c["_base"] = base
        vs += new
    # every fifth variant arrives in an output directory in which the valid pair has already been processed, its files carrying
    # modification times older than the intermediates of that run: it must be rejected all the same
    extra = []
    for i, c in enumerate(vs):
        # a missing column of either file is noticed when the file is imported, whatever the directory holds
        dropped = (c.get("drop_gene_cols") or c.get("drop_te_cols")) and not (c.get("extra_gene_cols") or c.get("extra_te_cols"))
        # only defects of the GENE annotation: without --revise_anno an existing revised TE annotation is reused and an edited TE
        # file is not read at all (the caching that C13 describes), so a defect put into it is invisible by design
        gene_side = c["tes"] == c["_base"]["tes"] and not c.get("drop_te_cols")
        if (i % 5 == 4 or dropped) and (gene_side or c.get("drop_te_cols")):
            base_of = {k: c["_base"][k] for k in ("genes", "tes", "windows")}
            cc = copy.deepcopy(c) if dropped else c         # a missing column: both in a fresh and in a used directory
            cc["before"] = {"case": base_of, "genome": "G", "backdate_inputs": True, "same_names": True}
            if dropped:
                extra.append(cc)
    vs += extra
    # chromosome sets that differ, in an output directory where the VALID pair was processed under OTHER file names (same stem before the
    # first dot, e.g. two releases of one annotation): nothing of that earlier run may stand in for the files given now
    extra = []
    for c in vs:
        if c["defect"].startswith("chromosome sets differ") and not c.get("before"):
            cc = copy.deepcopy(c)
            cc["before"] = {"case": {k: c["_base"][k] for k in ("genes", "tes", "windows")}, "genome": "G"}
            cc["defect"] += " (directory used for the valid pair under other file names)"
            extra.append(cc)
    vs += extra
    for c in vs:
        c.pop("_base", None)
    reps = pipefam.run_impl(vs)
    try:
        flats = common.coq_eval("c18", "From TEV Require Import Model.Pipeline Proofs.C18P.", "", [model_expr(c) for c in vs], chunk=40)
        chk.oblige("model evaluation (vm_compute) of every variant", True)
    except Exception as e:
        flats = None
        chk.oblige("model evaluation (vm_compute) of every variant", False, str(e))
    nv, ndiff, first = 0, 0, None
    for i, (c, rep) in enumerate(zip(vs, reps)):
        chk.case_seen({k: c.get(k) for k in ("genes", "tes", "drop_gene_cols", "drop_te_cols")}, c["pos"] > 0)
        chk.count("defect:" + c["defect"].split(" ")[0] + " " + c["defect"].split(" ")[1])
        chk.count("output_directory:" + ("used_before_older_inputs" if c.get("before") else "fresh"))
        bad = None
        if rep.get("ok"):
            bad = {"kind": "accepted", "result_files": [f["file"] for f in rep["files"]]}
        elif rep.get("result_files"):
            bad = {"kind": "rejected_after_result_written", "result_files": rep["result_files"], "exc": rep.get("exc")}
        elif rep.get("exc") in ("Timeout", "WorkerDied"):
            bad = {"kind": "no_clean_error", "exc": rep.get("exc")}
        if bad:
            nv += 1
            if nv <= 2:
                chk.violation("malformed annotation pair not rejected before a result was written: " + c["defect"],
                              {"case": {k: c[k] for k in ("genes", "tes", "windows", "before", "rename_gene_cols", "rename_te_cols", "extra_gene_cols", "extra_te_cols") if k in c}, "drop_gene_cols": c.get("drop_gene_cols", []),
                               "drop_te_cols": c.get("drop_te_cols", []), "defect": c["defect"], "failure": bad})
        if flats is not None:
            chk.cov["traces_validated_against_impl"] += 1
            if (flats[i][0] == 0) != bool(rep.get("ok")) and not bad:
                ndiff += 1
                first = first or {"defect": c["defect"], "model": flats[i], "implementation_ok": rep.get("ok"), "exc": rep.get("exc")}
    chk.oblige("correspondence model = implementation on every variant (accept / reject)", ndiff == 0, json.dumps(first)[:2000] if first else "")
    # large files: the two rows carrying one identifier far apart / first and last / adjacent across a round row count
    specs = [{"n": 10400, "i": 10, "j": 10200}, {"n": 10400, "i": 9999, "j": 10000}] if chk.tier == "quick" else \
            [{"n": 10400, "i": 10, "j": 10200}, {"n": 10400, "i": 9999, "j": 10000}, {"n": 10400, "i": 0, "j": 10399}, {"n": 70000, "i": 65535, "j": 65536},
             {"n": 20500, "i": 4095, "j": 16384}, {"n": 5000, "i": 1023, "j": 1024}]
    for spec in specs:
        c, rep, bad = large_dup_run(chk, spec)
        chk.cov["evaluations"] += 1
        chk.count("defect:duplicate gene (large file)")
        if bad:
            chk.violation("malformed annotation pair not rejected before a result was written: " + c["defect"],
                          {"large_dup": spec, "defect": c["defect"], "failure": bad})
    # CLI sample: exit status and absence of result files
    ncli = 8 if chk.tier == "quick" else 60
    step = max(1, len(vs) // ncli)
    for c in vs[::step][:ncli]:
        rep = cli.run_case_cli(c, nproc=2)
        chk.cov["evaluations"] += 1
        chk.count("cli_runs")
        if rep["rc"] == 0 or rep["files"]:
            chk.violation("CLI: malformed pair not rejected (exit %s, result files %s): %s" % (rep["rc"], [f["file"] for f in rep["files"]], c["defect"]),
                          {"case": {k: c[k] for k in ("genes", "tes", "windows", "before", "rename_gene_cols", "rename_te_cols", "extra_gene_cols", "extra_te_cols") if k in c}, "drop_gene_cols": c.get("drop_gene_cols", []),
                           "drop_te_cols": c.get("drop_te_cols", []), "defect": c["defect"], "log": rep["log"][-600:]})
    from .. import guardunit
    guardunit.run(chk, chk.rng("guards"), {"split", "strand"})
    for c in vs[:2]:
        chk.sample({"defect": c["defect"], "n_genes": len(c["genes"]), "n_tes": len(c["tes"])})
    return chk.finish(rule=RULE)


def replay(chk, rp):
    if "large_dup" in rp:
        c, rep, bad = large_dup_run(chk, rp["large_dup"])
        print(json.dumps({"library_ok": rep.get("ok"), "exc": rep.get("exc"), "failure": bad}, indent=1))
        return 1 if bad else 0
    c = dict(rp["case"]); c["drop_gene_cols"] = rp.get("drop_gene_cols", []); c["drop_te_cols"] = rp.get("drop_te_cols", [])
    rep = pipefam.run_impl([c])[0]
    bad = rep.get("ok") or rep.get("result_files")
    rc = cli.run_case_cli(c, nproc=2)
    print(json.dumps({"library_ok": rep.get("ok"), "exc": rep.get("exc"), "result_files": rep.get("result_files"), "cli_rc": rc["rc"],
                      "cli_files": [f["file"] for f in rc["files"]]}, indent=1))
    return 1 if (bad or rc["rc"] == 0 or rc["files"]) else 0
