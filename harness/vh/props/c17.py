"""C17 - a failed computation is reported and cannot be mistaken for a result."""
from .. import interrupt

RULE = ("as C12, with failures instead of kills: OSError(ENOSPC) - at creations, renames and closes also PermissionError(EACCES) and OSError(EIO) - raised by DataFrame.to_csv (at creation and after a partial write), os.replace, "
        "h5py File create / create_dataset / Dataset.__setitem__ / flush / close of overlap and result files, RuntimeError in the k-th per-gene "
        "overlap step of a worker and in the k-th summation task of the merge, in the main process and in pool workers; single faults and "
        "pairs (two failed runs in a row). Each faulted run must exit non-zero (C17's first sentence: a theorem about the translated control flow, Props/C17code.v, and checked here on the real command line); "
        "the directory left behind must be a crash state of Model.Cache with atomic intermediates; the clean re-run is compared with the model "
        "and must give the uninterrupted run's result files or exit non-zero. non-trivial = scenario with a history; distinct = (scenario, fault points)")


def run(chk):
    return interrupt.run_family(chk, "fault", "C17.v", RULE)


def replay(chk, rp):
    return interrupt.replay_family(chk, rp, "fault")
