"""C20 - the generic worker process delivers exactly one result per job."""
import itertools, json
from .. import common, pool, pipefam

RULE = ("scripts of environment answers (stop? -> bool, get -> job|empty|sentinel, put -> ok|full; job identifiers from 0, every fourth result a falsy non-None value) executed on the real "
        "WorkerProcess.run() in-thread with stub queues and on the Coq model; exhaustive over well-typed scripts up to length L "
        "(L=10 quick, 13 thorough) plus random scripts up to length 40 with ill-typed answers; plus two real WorkerProcess objects sharing queues and stop signal, the sibling run to its end while the first is inside execute_job (15 schedules); "
        "plus a real WorkerProcess with real multiprocessing queues (large results, late consumer, bounded output queue); non-trivial = at least one job taken "
        "and one queue-full or queue-empty answer; distinct = the script")


def to_coq(script):
    out = []
    for a in script:
        if a[0] == "stop":
            out.append("AStop %s" % ("true" if a[1] else "false"))
        elif a[0] == "put":
            out.append("APut %s" % ("true" if a[1] else "false"))
        elif a[1] == "empty":
            out.append("AGet GEmpty")
        elif a[1] == "sentinel":
            out.append("AGet GSentinel")
        else:
            out.append("AGet (GJob %d)" % a[2])
    return "[" + "; ".join(out) + "]"


def sim_kind(script):
    """python mirror of which kind the worker asks next (only used to GENERATE well-typed scripts)"""
    pc, pending = "top", False
    for a in script:
        if pc == "top" and a[0] == "stop":
            if a[1]:
                return None
            pc = "send" if pending else "get"
        elif pc == "send" and a[0] == "put":
            if a[1]:
                pending = False; pc = "get"
            else:
                pc = "top"
        elif pc == "get" and a[0] == "get":
            if a[1] == "sentinel":
                return None
            if a[1] == "job":
                pending = True
            pc = "top"
    return {"top": "stop", "send": "put", "get": "get"}[pc]


def well_typed(maxlen):
    out = []
    def rec(script, jobn):
        out.append(list(script))
        if len(script) >= maxlen:
            return
        k = sim_kind(script)
        if k is None:
            return
        if k == "stop":
            opts = [("stop", False), ("stop", True)]
        elif k == "put":
            opts = [("put", True), ("put", False)]
        else:
            opts = [("get", "job", jobn), ("get", "empty"), ("get", "sentinel")]
        for o in opts:
            rec(script + [o], jobn + (1 if o[:2] == ("get", "job") else 0))
    rec([], 0)
    return out


def random_script(r, n):
    s, job = [], 0
    for _ in range(n):
        k = sim_kind(s) or r.choice(["stop", "put", "get"])
        if r.random() < 0.12:
            k = r.choice(["stop", "put", "get"])
        if k == "stop":
            s.append(("stop", r.random() < 0.04))
        elif k == "put":
            s.append(("put", r.random() < 0.6))
        else:
            x = r.random()
            if x < 0.55:
                s.append(("get", "job", job)); job += 1
            elif x < 0.9:
                s.append(("get", "empty"))
            else:
                s.append(("get", "sentinel"))
    return s


def decode(flat):
    pcc, sb, pend, nt = flat[0], flat[1], flat[2], flat[3]
    taken = flat[4:4 + nt]
    na = flat[4 + nt]
    acc = flat[5 + nt:5 + nt + na]
    return {"pc": pcc, "sentinel_back": sb, "pending": pend, "taken": taken, "accepted": acc}


def EXEC(j):
    """execute_job of the scripted worker (implops_worker.run_worker_script) and of the model run: a falsy, non-None result for every fourth job"""
    return 0 if j % 4 == 3 else j + 100


def property_failures(script, tr):
    """the statement of C20 evaluated on the real trace"""
    fails = []
    want = [EXEC(j) for j in tr["taken"]]
    acc = tr["accepted"]
    if acc != want[:len(acc)]:
        fails.append({"kind": "accepted_not_prefix_in_order", "taken": tr["taken"], "accepted": acc})
    if tr["exited"] == "sentinel" and acc != want:
        fails.append({"kind": "exit_by_sentinel_with_undelivered_results", "taken": tr["taken"], "accepted": acc})
    if len(want) - len(acc) > 1:
        fails.append({"kind": "more_than_one_result_missing", "taken": tr["taken"], "accepted": acc})
    if tr["exited"] == "sentinel" and tr["sentinel_back"] != 1:
        fails.append({"kind": "sentinel_not_put_back_once", "n": tr["sentinel_back"]})
    if tr["exited"] == "exception":
        fails.append({"kind": "worker_died_with_uncaught_exception", "exception": tr.get("exception"), "taken": tr["taken"], "accepted": acc})
    if tr["exited"] == "stop" and not any(a[0] == "stop" and a[1] for a in script):
        fails.append({"kind": "exit_without_stop_or_sentinel"})
    return fails


def sibling_failures(case, tr):
    """two workers, nobody signals stop: every job taken by either gives exactly one result, each worker's results in the order
    it took the jobs, both return, the sentinel stays in the job queue for further siblings"""
    fails = []
    want = sorted(j + 100 for who in ("A", "B") for j in tr["taken"][who])
    if sorted(tr["accepted"]) != want:
        fails.append({"kind": "siblings_results_not_one_per_job_taken", "taken": tr["taken"], "accepted": tr["accepted"]})
    for who in ("A", "B"):
        mine = [x for x in tr["accepted"] if x - 100 in tr["taken"][who]]
        if mine != [j + 100 for j in tr["taken"][who]][:len(mine)]:
            fails.append({"kind": "sibling_results_out_of_order", "worker": who, "taken": tr["taken"][who], "accepted": mine})
    for who in ("A", "B"):
        if who in tr["exited"] and tr["exited"][who] != "returned":
            fails.append({"kind": "sibling_died", "worker": who, "how": tr["exited"][who]})
    if tr["sentinels_left"] != 1:
        fails.append({"kind": "sentinel_not_left_for_siblings", "n": tr["sentinels_left"]})
    if tr["stop_set"]:
        fails.append({"kind": "a_worker_set_the_shared_stop_signal"})
    if tr.get("jobs_left"):
        fails.append({"kind": "jobs_left_although_no_stop_was_signalled", "jobs": tr["jobs_left"]})
    return fails


def run(chk):
    pipefam.standard_obligations(chk, "C20.v")
    L = 10 if chk.tier == "quick" else 13
    r = chk.rng("scripts")
    scripts = well_typed(L)
    n_ex = len(scripts)
    nrand = 300 if chk.tier == "quick" else 5000
    scripts += [random_script(r, r.randint(5, 40)) for _ in range(nrand)]
    # the D13 witness first
    scripts.insert(0, [("stop", False), ("get", "job", 1), ("stop", False), ("put", False), ("stop", False), ("put", True),
                       ("get", "job", 2), ("stop", False), ("put", True), ("get", "sentinel")])
    chunks = [scripts[i:i + 200] for i in range(0, len(scripts), 200)]
    reps = pool.run_requests([{"op": "worker.scripts", "scripts": c} for c in chunks], timeout=120)
    traces = []
    for rep, c in zip(reps, chunks):
        if not rep.get("ok"):
            chk.oblige("scripts executed on the real WorkerProcess.run()", False, json.dumps(rep)[:1500])
            traces += [None] * len(c)
        else:
            traces += rep["traces"]
    try:
        flats = common.coq_eval("c20", "From TEV Require Import Model.Worker.", "",
                                ["flat_state (run (fun j => if Nat.eqb (Nat.modulo j 4) 3 then 0 else j + 100)%%nat true %s)" % to_coq(s) for s in scripts], chunk=250)
        chk.oblige("model evaluation (vm_compute) of every script", True)
    except Exception as e:
        flats = None
        chk.oblige("model evaluation (vm_compute) of every script", False, str(e))
    nv, ndiff = 0, 0
    first_diff = None
    for i, (s, tr) in enumerate(zip(scripts, traces)):
        if tr is None:
            continue
        nontriv = bool(tr["taken"]) and any((a[0] == "put" and not a[1]) or (a[0] == "get" and a[1] == "empty") for a in s)
        chk.case_seen(s, nontriv)
        chk.count("len<=%d" % (10 * ((len(s) + 9) // 10)))
        chk.count("exit:%s" % tr["exited"])
        pf = property_failures(s, tr)
        if pf:
            nv += 1
            if nv <= 2:
                chk.violation("worker loses, duplicates or reorders a result / exits wrongly",
                              {"script": s, "trace": tr, "failures": pf})
        if flats is not None:
            chk.cov["traces_validated_against_impl"] += 1
            m = decode(flats[i])
            pcr = {None: None, "stop": 3, "sentinel": 4, "exception": 99}[tr["exited"]]
            same = (m["taken"] == tr["taken"] and m["accepted"] == tr["accepted"] and m["sentinel_back"] == tr["sentinel_back"]
                    and ((pcr is None and m["pc"] in (0, 1, 2)) or pcr == m["pc"]))
            if not same and not pf:
                ndiff += 1
                first_diff = first_diff or {"script": s, "model": m, "implementation": tr}
    chk.oblige("correspondence model = implementation on every script (jobs taken, results accepted, sentinel, exit)", ndiff == 0,
               json.dumps(first_diff)[:2500] if first_diff else "")
    # the runtime the model cannot exhibit: a real process and real multiprocessing queues, results larger than a pipe buffer,
    # a consumer that is late (exploration, stated as such)
    rreqs = [{"op": "worker.realproc", "n": 6, "size": 300000, "delay": 1.2}, {"op": "worker.realproc", "n": 40, "size": 10, "delay": 0.0, "maxsize": 2}]
    if chk.tier != "quick":
        rreqs += [{"op": "worker.realproc", "n": 200, "size": 5000, "delay": 0.5, "maxsize": 3}, {"op": "worker.realproc", "n": 12, "size": 2000000, "delay": 2.0}]
    for rq_, rep in zip(rreqs, pool.run_requests(rreqs, timeout=60)):
        chk.cov["evaluations"] += 1
        chk.count("real_process_runs")
        good = rep.get("ok") and rep["got"] == list(range(rq_["n"])) and rep["exitcode"] == 0 and rep["sentinel_back"] and not rep["still_alive"]
        if not good:
            nv += 1
            chk.violation("real WorkerProcess with real queues: not exactly one result per job in order / sentinel not put back / worker did not exit",
                          {"real_process": rq_, "outcome": {k: rep.get(k) for k in ("ok", "exc", "msg", "got", "exitcode", "still_alive", "sentinel_back", "seconds")}})
    # two workers sharing the queues and the stop signal: the sibling runs while this worker is inside execute_job
    scases = [{"jobs": list(range(1, n + 1)), "when": w} for n in range(1, 6) for w in range(1, n + 1)]
    rep = pool.run_requests([{"op": "worker.siblings", "cases": scases}], timeout=60)[0]
    chk.oblige("sibling schedules executed on two real WorkerProcess objects", bool(rep.get("ok")), json.dumps(rep)[:1500] if not rep.get("ok") else "")
    for c, tr in zip(scases, rep.get("traces", []) if rep.get("ok") else []):
        chk.cov["evaluations"] += 1
        chk.count("sibling_schedules")
        sf = sibling_failures(c, tr)
        if sf:
            nv += 1
            if nv <= 3:
                chk.violation("two workers sharing queues and stop signal: a job taken has no result / wrong order / sentinel not left",
                              {"siblings": c, "trace": tr, "failures": sf})
    chk.cov["exhaustive_well_typed_scripts_up_to_length"] = L
    chk.cov["exhaustive_count"] = n_ex
    chk.sample({"script": scripts[0], "trace": traces[0]})
    chk.sample({"script": scripts[-1], "trace": traces[-1]})
    return chk.finish(rule=RULE)


def replay(chk, rp):
    if "real_process" in rp:
        rep = pool.run_requests([rp["real_process"]], timeout=60)[0]
        print(json.dumps(rep, indent=1, default=str))
        n = rp["real_process"]["n"]
        return 0 if (rep.get("ok") and rep["got"] == list(range(n)) and rep["exitcode"] == 0 and rep["sentinel_back"]) else 1
    if "siblings" in rp:
        rep = pool.run_requests([{"op": "worker.siblings", "cases": [rp["siblings"]]}])[0]
        sf = sibling_failures(rp["siblings"], rep["traces"][0])
        print(json.dumps({"trace": rep["traces"][0], "failures": sf}, indent=1))
        return 1 if sf else 0
    rep = pool.run_requests([{"op": "worker.scripts", "scripts": [rp["script"]]}])[0]
    pf = property_failures(rp["script"], rep["traces"][0])
    print(json.dumps({"trace": rep["traces"][0], "failures": pf}, indent=1))
    return 1 if pf else 0
