"""C05 - chromosomes are processed independently and paired by name."""
import copy, json
from .. import common, gen, oracle, modelio, pipefam, pool, cli

RULE = ("(a) locality: base pair with 2-4 chromosomes vs variants in which OTHER chromosomes are removed, added or altered "
        "(TEs moved, group relabelled, genes added); the untouched chromosome's labelled cells and gene list must be identical; "
        "(b) refusal: chromosome sets made to differ with equal and unequal cardinality, incl. names whose sort order interleaves "
        "('10' vs '2', case pairs) -> run must raise before any result file; non-trivial = >= 2 chromosomes; distinct = canonical JSON")

NAMESETS = [["Chr1", "Chr2", "Chr3", "Chr4"], ["chrA", "ChrA", "chrB", "ChrB"], ["Chr1", "Chr10", "Chr1_A", "Chr1-alt"],
            ["scaf.1", "scaf.10", "scaf.2", "scaf_1"], ["A", "B", "a", "b"],
            # names that a normalisation of digits would merge: leading and inner zeros, zero-padded twins
            ["scaffold_10", "scaffold_100", "scaffold_101", "scaffold_11"], ["Chr01", "Chr1", "Chr010", "Chr10"], ["c100", "c10", "c1", "c1000"]]


def variants_other(r, case, keep):
    """variants of [case] that differ only on chromosomes != keep"""
    out = []
    others = sorted(set(g["chrom"] for g in case["genes"]) - {keep})
    # remove one other chromosome
    if len(others) >= 1:
        o = r.choice(others)
        c = copy.deepcopy(case)
        c["genes"] = [g for g in c["genes"] if g["chrom"] != o]; c["tes"] = [t for t in c["tes"] if t["chrom"] != o]
        c["variant"] = "removed " + o; out.append(c)
    # alter TEs on the others: move, relabel
    c = copy.deepcopy(case)
    for t in c["tes"]:
        if t["chrom"] != keep:
            d = r.randint(-50, 500); t["start"] = min(gen.MAXC, max(1, t["start"] + d)); t["stop"] = min(gen.MAXC, max(t["start"], t["stop"] + d + r.randint(0, 100)))
            if r.random() < 0.3:
                t["order"], t["superfam"] = "ZZ_new_order", "ZZ_new_super"
    c["variant"] = "other chromosomes' TEs moved/relabelled"; out.append(c)
    # add a whole new chromosome (sorting before and after keep)
    for nm in ("0_new", "zz_new"):
        c = copy.deepcopy(case)
        c["genes"].append({"name": nm + "_g", "chrom": nm, "start": 500, "stop": 900, "strand": "-"})
        c["tes"].append({"chrom": nm, "start": 100, "stop": 700, "order": r.choice(case["tes"])["order"], "superfam": "X_super", "strand": "+"})
        c["variant"] = "added chromosome " + nm; out.append(c)
    # a TE of another chromosome altered into a degenerate record (Stop before Start): whatever is made of it there, not here
    if others:
        c = copy.deepcopy(case)
        cand = [t for t in c["tes"] if t["chrom"] != keep]
        if cand:
            t = r.choice(cand)
            t["stop"] = max(1, t["start"] - r.randint(1, 40))
            c["variant"] = "a TE of another chromosome altered into a record with Stop < Start"; out.append(c)
    # add genes to other chromosomes
    if others:
        c = copy.deepcopy(case)
        o = r.choice(others)
        c["genes"].append({"name": o + "_extra", "chrom": o, "start": 77, "stop": 99, "strand": "+"})
        c["variant"] = "gene added on " + o; out.append(c)
    return out


def cells_of_chrom(case, rep, ch):
    cells, files, _ = pipefam.impl_cells(rep)
    onames, snames = pipefam.real_names(case)
    return ({k: v for k, v in cells.items() if k[0] == ch and pipefam.is_real_key(k, onames, snames)},
            sorted(files[ch]["genes"]) if ch in files else None)


def locality_failures(case, keep, variants, reps):
    fails = []
    if not reps[0].get("ok"):
        return [{"kind": "run_failed", "variant": "base", "exc": reps[0].get("exc"), "msg": reps[0].get("msg")}]
    base, bg = cells_of_chrom(case, reps[0], keep)
    want_genes = sorted(g["name"] for g in case["genes"] if g["chrom"] == keep)
    if bg != want_genes:
        fails.append({"kind": "file_genes", "chrom": keep, "expected": want_genes, "got": bg})
    for v, rep in zip(variants, reps[1:]):
        if not rep.get("ok"):
            fails.append({"kind": "run_failed", "variant": v["variant"], "exc": rep.get("exc"), "msg": rep.get("msg")}); continue
        cs, gs = cells_of_chrom(v, rep, keep)
        if gs != bg:
            fails.append({"kind": "gene_list_changed", "variant": v["variant"]})
        if set(cs) != set(base):
            fails.append({"kind": "key_set_changed", "variant": v["variant"], "n": len(set(cs) ^ set(base))})
        bad = [k for k in cs if k in base and abs(cs[k] - base[k]) > 2.0 ** -22]
        if bad:
            fails.append({"kind": "value_changed", "variant": v["variant"], "n": len(bad), "key": list(bad[0]), "values": [base[bad[0]], cs[bad[0]]]})
    return fails


def mismatch_cases(r, base):
    """chromosome sets differing: unequal count, equal count"""
    out = []
    chs = sorted(set(g["chrom"] for g in base["genes"]))
    c = copy.deepcopy(base); c["tes"] = [t for t in c["tes"] if t["chrom"] != chs[-1]] or c["tes"][:0]
    if c["tes"]:
        c["variant"] = "TE annotation lacks " + chs[-1]; out.append(c)
    c = copy.deepcopy(base); c["genes"] = [g for g in c["genes"] if g["chrom"] != chs[0]]
    if c["genes"]:
        c["variant"] = "gene annotation lacks " + chs[0]; out.append(c)
    for victim in (chs[0], chs[-1]):
        import re
        inner0 = re.sub(r"(\d)", r"\g<1>0", victim, count=1) if re.search(r"\d", victim) else victim + "0"     # a zero after the first digit
        for newname in (victim + "x", "0" + victim, victim.swapcase() if victim.swapcase() != victim else victim + "_", inner0):
            if newname in chs:
                continue
            c = copy.deepcopy(base)
            for t in c["tes"]:
                if t["chrom"] == victim:
                    t["chrom"] = newname
            c["variant"] = "equal count: TE chromosome %s renamed %s" % (victim, newname); out.append(c)
    return out


def run(chk):
    pipefam.standard_obligations(chk, "C05.v")
    n = 24 if chk.tier == "quick" else 400
    r = chk.rng("cases")
    nv = 0
    reqs, plan = [], []
    for i in range(n):
        names = list(r.choice(NAMESETS)); r.shuffle(names)
        nch = r.randint(2, 4)
        base = gen.gen_pair(r, max_chrom=nch, max_genes=4, max_tes=18, chrom_names=names, min_chrom=2)
        chs = sorted(set(g["chrom"] for g in base["genes"]))
        keep = r.choice(chs)
        vs = variants_other(r, base, keep)
        mm = mismatch_cases(r, base)
        # the mismatching gene annotation also in an output directory where the matching pair was processed before, the edited file
        # carrying a modification time older than every intermediate of that run
        for m in list(mm):
            if m["tes"] == base["tes"]:
                m2 = copy.deepcopy(m)
                m2["before"] = {"case": {k: base[k] for k in ("genes", "tes", "windows")}, "genome": "G", "backdate_inputs": True, "same_names": True}
                m2["variant"] += " (directory used for the matching pair, older modification time)"
                mm.append(m2)
        plan.append((base, keep, vs, mm, len(reqs)))
        reqs += [base] + vs + mm
    reps = pipefam.run_impl(reqs)
    try:
        models = modelio.eval_cases("c05", [p[0] for p in plan] + [m for p in plan for m in p[3]])
        chk.oblige("model evaluation (vm_compute) of every case", True)
    except Exception as e:
        models = None
        chk.oblige("model evaluation (vm_compute) of every case", False, str(e))
    diffs_all = []
    mi = len(plan)
    for pi, (base, keep, vs, mm, i0) in enumerate(plan):
        chk.case_seen({x: base[x] for x in ("genes", "tes", "windows")}, len(set(g["chrom"] for g in base["genes"])) >= 2)
        chk.count("locality_variants", len(vs)); chk.count("mismatch_variants", len(mm))
        rr = reps[i0:i0 + 1 + len(vs)]
        fails = locality_failures(base, keep, vs, rr)
        for m, rep in zip(mm, reps[i0 + 1 + len(vs):i0 + 1 + len(vs) + len(mm)]):
            chk.cov["evaluations"] += 1
            if rep.get("ok"):
                fails.append({"kind": "mismatch_accepted", "variant": m["variant"], "result_files": [f["file"] for f in rep["files"]]})
            if models is not None:
                mres = models[mi]
                if mres[0] != "err" and not rep.get("ok") or (mres[0] == "err" and rep.get("ok")):
                    diffs_all.append("model %s vs implementation ok=%s on %s" % (mres[:1], rep.get("ok"), m["variant"]))
            mi += 1
        if models is not None:
            chk.cov["traces_validated_against_impl"] += 1
            pf, d = pipefam.check_c01_case(base, reps[i0], models[pi])
            if d:
                diffs_all.append(d)
        if fails:
            nv += 1
            if nv <= 2:
                chk.violation("a chromosome's results depend on other chromosomes, or a chromosome-set mismatch was accepted",
                              {"case": {x: base[x] for x in ("genes", "tes", "windows")}, "kept_chromosome": keep, "failures": fails[:6],
                               "variants": [v["variant"] for v in vs + mm]})
    chk.oblige("correspondence model = implementation (base runs; accept/refuse decisions)", not diffs_all, json.dumps(diffs_all[:2])[:2000])
    # a few CLI runs for the exit status and absence of result files on refusal
    ncli = 2 if chk.tier == "quick" else 12
    for (base, keep, vs, mm, i0) in plan[:ncli]:
        if not mm:
            continue
        rep = cli.run_case_cli(mm[-1], nproc=2)
        chk.cov["evaluations"] += 1
        chk.count("cli_refusal_runs")
        if rep["rc"] == 0 or rep["files"]:
            chk.violation("CLI: chromosome-set mismatch not refused (exit %s, result files %s)" % (rep["rc"], [f["file"] for f in rep["files"]]),
                          {"case": {x: mm[-1][x] for x in ("genes", "tes", "windows")}, "variant": mm[-1]["variant"], "log": rep["log"][-800:]})
    for p in plan[:2]:
        chk.sample({"chromosomes": sorted(set(g["chrom"] for g in p[0]["genes"])), "kept": p[1], "variants": [v["variant"] for v in p[2] + p[3]]})
    return chk.finish(rule=RULE)


def replay(chk, rp):
    base = rp["case"]; keep = rp.get("kept_chromosome") or sorted(set(g["chrom"] for g in base["genes"]))[0]
    r = chk.rng("replay")
    vs = variants_other(r, base, keep); mm = mismatch_cases(r, base)
    reps = pipefam.run_impl([base] + vs + mm)
    fails = locality_failures(base, keep, vs, reps[:1 + len(vs)])
    for m, rep in zip(mm, reps[1 + len(vs):]):
        if rep.get("ok"):
            fails.append({"kind": "mismatch_accepted", "variant": m["variant"]})
    print(json.dumps({"failures": fails}, indent=1))
    return 1 if fails else 0
