"""C02 - revised annotation keeps each group's coverage and removes its self-overlap."""
import json
from .. import common, gen, oracle, modelio, pipefam, pool

RULE = ("TE annotations from harness/vh/gen.py (chains whose last link is nested, identical starts, duplicates, 1-bp TEs, abutment, "
        "shuffled rows, groups whose highest row label is their left-most element, elements of different orders overlapping while no order overlaps itself, one group of 700 elements with ~100 fragments nested in single long ones); every fourth table is revised in an output directory "
        "already used for another annotation pair (other file names; the same genome id, one that extends it, or another); observed at Revised_<file>.tsv and at the "
        "per-chromosome *_TEData.tsv; non-trivial = some same-group overlap; distinct = canonical JSON of the TE table")


def classify(rows, onames, snames):
    """rows of a revised table -> ({(chrom, lv, name): [(s, e, length)]}, unclassifiable rows)"""
    groups, odd = {}, []
    for r in rows:
        try:
            s, e, ln = int(float(r["Start"])), int(float(r["Stop"])), int(float(r["Length"]))
        except (KeyError, ValueError):
            odd.append(r); continue
        o, sf, c = r.get("Order"), r.get("SuperFamily"), r.get("Chromosome")
        if o == "Total_TE_Density" and sf == "Total_TE_Density":
            k = [(c, 0, "Total_TE_Density")]
        elif o in onames and sf not in snames:
            k = [(c, 0, o)]
        elif sf in snames and o not in onames:
            k = [(c, 1, sf)]
        elif o in onames and sf in snames:
            odd.append(r); continue       # an un-revised row (both labels real)
        else:
            odd.append(r); continue
        for kk in k:
            groups.setdefault(kk, []).append((s, e, ln))
    return groups, odd


def input_groups(case):
    g = {}
    for t in case["tes"]:
        iv = (t["start"], t["stop"])
        g.setdefault((t["chrom"], 0, t["order"]), []).append(iv)
        g.setdefault((t["chrom"], 1, t["superfam"]), []).append(iv)
        g.setdefault((t["chrom"], 0, "Total_TE_Density"), []).append(iv)
    return g


def abstract(groups):
    out = {}
    for k, l in groups.items():
        ivs = sorted((s, e) for s, e, _ in l)
        disjoint = all(b[0] > a[1] for a, b in zip(ivs, ivs[1:]))
        lens_ok = all(ln == e - s + 1 and s <= e for s, e, ln in l)
        out[k] = (oracle.merged(ivs), disjoint, lens_ok)
    return out


def check_table(case, rows, where):
    onames = set(t["order"] for t in case["tes"]); snames = set(t["superfam"] for t in case["tes"])
    groups, odd = classify(rows, onames, snames)
    fails = []
    if odd:
        fails.append({"kind": "unclassifiable_rows", "where": where, "n": len(odd), "first": odd[0]})
    ab = abstract(groups)
    want = {k: oracle.merged(v) for k, v in input_groups(case).items()}
    for k in sorted(set(want) - set(ab)):
        fails.append({"kind": "group_missing", "where": where, "group": list(k)})
    for k in sorted(set(ab) - set(want)):
        fails.append({"kind": "group_introduced", "where": where, "group": list(k)})
    for k, (runs, disjoint, lens_ok) in ab.items():
        if k in want and runs != want[k]:
            fails.append({"kind": "coverage_changed", "where": where, "group": list(k), "input_cover": want[k][:6], "revised_cover": runs[:6]})
        if not disjoint:
            fails.append({"kind": "self_overlap", "where": where, "group": list(k)})
        if not lens_ok:
            fails.append({"kind": "length", "where": where, "group": list(k)})
    return fails, ab


def check_case(case, rep, model_rows):
    if not rep.get("ok"):
        return [{"kind": "run_failed", "exc": rep.get("exc"), "msg": rep.get("msg")}], []
    fails, ab = check_table(case, rep["revised"], "Revised_*.tsv")
    allc = []
    for fn, rows in rep["te_caches"].items():
        allc += rows
    f2, ab2 = check_table(case, allc, "*_TEData.tsv")
    fails += f2
    diffs = []
    if model_rows is not None:
        onames = set(t["order"] for t in case["tes"]); snames = set(t["superfam"] for t in case["tes"])
        mrows = [{"Chromosome": r["chrom"], "Start": r["start"], "Stop": r["stop"], "Order": r["order"], "SuperFamily": r["superfam"],
                  "Length": r["length"]} for r in model_rows]
        mg, modd = classify(mrows, onames, snames)
        mab = abstract(mg)
        if mab != ab:
            diffs.append("abstracted revision differs between model and Revised_*.tsv")
        if mab != ab2:
            diffs.append("abstracted revision differs between model and *_TEData.tsv")
    return fails, diffs


def run(chk):
    pipefam.standard_obligations(chk, "C02.v")
    n = 200 if chk.tier == "quick" else 6000
    r = chk.rng("cases")
    cases = pipefam.load_corpus("C02")
    for i in range(n):
        cases.append(gen.gen_pair(r, max_chrom=2, max_genes=2, max_tes=40))
    cases += [gen.gen_large_group(r, sz) for sz in ([700, 2300] if chk.tier == "quick" else [300, 700, 1500, 2300, 2600, 4200])]
    # every fourth case is revised in an output directory that an earlier annotation pair (other file names; the same genome id, one that extends it, or another)
    # has been through: the revision must be that of the input given, whatever intermediates the directory holds
    befores = [cases[i - 1] if (i % 4 == 3 and i > 0) else None for i in range(len(cases))]
    reps = pool.run_requests([{"op": "preprocess", "case": c, "before": b, "before_genome": ["G", "G_v2", "H"][(i // 4) % 3]}
                              for i, (c, b) in enumerate(zip(cases, befores))], timeout=180)
    try:
        models = modelio.eval_cases("c02", cases, what="revised")
        chk.oblige("model evaluation (vm_compute) of every case", True)
    except Exception as e:
        models = [None] * len(cases)
        chk.oblige("model evaluation (vm_compute) of every case", False, str(e))
    nv, diff_only = 0, []
    for c, rep, m, b in zip(cases, reps, models, befores):
        chk.case_seen(c["tes"], gen.has_same_group_overlap(c["tes"]))
        chk.count("output_directory:%s" % ("used_before" if b is not None else "fresh"))
        for f in c.get("features", []):
            chk.count("feature:" + f)
        fails, diffs = check_case(c, rep, m)
        if m is not None:
            chk.cov["traces_validated_against_impl"] += 1
        if fails:
            nv += 1
            if nv <= 2:
                def still(cc):
                    rp = pool.run_requests([{"op": "preprocess", "case": cc, "before": b, "before_genome": bg}])[0]
                    return bool(check_case(cc, rp, None)[0])
                bg = ["G", "G_v2", "H"][(cases.index(c) // 4) % 3]
                small = pipefam.shrink(c, still)
                rp = pool.run_requests([{"op": "preprocess", "case": small, "before": b, "before_genome": bg}])[0]
                chk.violation("revised annotation changes a group's coverage / keeps self-overlap / drops or invents a group",
                              {"case": {k: small[k] for k in ("genes", "tes", "windows")}, "failures": check_case(small, rp, None)[0] or fails,
                               "before": None if b is None else {k: b[k] for k in ("genes", "tes", "windows")}, "before_genome": bg},
                              signature=None)
        elif diffs:
            diff_only.append((c, diffs))
    if diff_only and not nv:
        c, diffs = diff_only[0]
        chk.oblige("correspondence model = implementation (abstracted revision)", False,
                   json.dumps({"case": {k: c[k] for k in ("tes",)}, "diffs": diffs})[:3000])
    else:
        chk.oblige("correspondence model = implementation (per-group covered sets, disjointness, lengths)", not diff_only)
    unit_translated(chk, r)
    for c in cases[:2]:
        chk.sample({"tes": c["tes"][:6], "n_tes": len(c["tes"]), "features": c.get("features")})
    return chk.finish(rule=RULE)


def unit_translated(chk, r):
    """The translator's reading of the pandas idioms, exercised: single groups with index labels in an order of their own through the real
    ReviseAnno.call_merge() and through the TRANSLATED gen_call_merge (vm_compute); output rows compared one by one, labels included."""
    n = 150 if chk.tier == "quick" else 3000
    groups = []
    for _ in range(n):
        c = gen.gen_pair(r, max_chrom=1, max_genes=2, max_tes=24)
        ivs = [(t["start"], t["stop"]) for t in c["tes"]][:r.randint(1, 24)]
        labels = r.sample(range(5 * len(ivs) + 3), len(ivs))
        groups.append([[l, s, e] for l, (s, e) in zip(labels, ivs)])
    reps = pool.run_requests([{"op": "revise.unit", "groups": groups[i:i + 50]} for i in range(0, len(groups), 50)], timeout=240)
    real = []
    for rep in reps:
        real += rep["results"] if rep.get("ok") else [None] * 50
    real = real[:len(groups)]
    def frame(rows):
        return "[" + "; ".join("(%s, (%s, %s))" % (common.zlit(l), common.zlit(s), common.zlit(e)) for l, s, e in rows) + "]"
    exprs = []
    for g, rr in zip(groups, real):
        S = frame(rr["sorted"]) if rr else "[]"
        exprs.append("match gen_call_merge (2 * %d + 1) (mkR %s %s []) with Ok st => 0 :: Z.of_nat (length (seed st)) :: Z.of_nat (length (search st)) :: "
                     "flat_map (fun r => [row_label r; row_start r; row_stop r]) (out st) | Raised => [1] | OutOfFuel => [2] end" % (len(g), S, S))
    try:
        flats = common.coq_eval("c02unit", "From TEV Require Import Model.Frame Gen.GenRevise.", "", exprs, chunk=50)
        chk.oblige("translated recursion evaluated (vm_compute) on every single-group frame", True)
    except Exception as e:
        chk.oblige("translated recursion evaluated (vm_compute) on every single-group frame", False, str(e)[-1500:])
        return
    nd, first = 0, None
    for g, rr, f in zip(groups, real, flats):
        if rr is None:
            continue
        chk.cov["evaluations"] += 1
        chk.count("unit_frames_rows<=%d" % (8 * ((len(g) + 7) // 8)))
        if rr["outcome"] == "ok":
            want = [0, rr["seed_left"], rr["search_left"]] + [x for row in rr["rows"] for x in row]
        else:
            want = [1]
        if f != want:
            nd += 1
            first = first or {"group_sorted": rr["sorted"], "real": rr, "translated": f}
    chk.oblige("translated recursion = real ReviseAnno.call_merge on every single-group frame, row by row with labels (%d frames, %d differ)" % (len(groups), nd),
               nd == 0, json.dumps(first)[:2500] if first else "")


def replay(chk, rp):
    c = rp["case"]
    rep = pool.run_requests([{"op": "preprocess", "case": c, "before": rp.get("before"), "before_genome": rp.get("before_genome", "G")}])[0]
    fails, _ = check_case(c, rep, None)
    print(json.dumps({"failures": fails}, indent=1))
    return 1 if fails else 0
