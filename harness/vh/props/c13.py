"""C13 - cached intermediates never make a successful run report stale numbers."""
import json, os, time, threading
from concurrent.futures import ThreadPoolExecutor
from .. import common, gen, pipefam, cachefam

RULE = ("histories over {run with any subset of --reset_h5/--revise_anno, edit genes, edit TEs (move/add/remove), change windows (to a superset, a subset, the same number of windows, the same first and last window, a shifted list), touch "
        "an input, edit an input while keeping its old mtime, backdate a cache file, a run killed while the revised annotation or one of its three passes is being written} on one output directory, through the "
        "real command line under the launcher (observe mode). Every run is one correspondence case: the directory BEFORE the run is "
        "abstracted into Model/Cache.v's state (contents identified against fresh-directory references, freshness flags from "
        "os.path.getmtime as the code compares them), the model's run is evaluated in Coq (vm_compute), and the files rewritten, the "
        "contents afterwards, the exit status and every result cell are compared. Property oracles, independent of the model: same "
        "command twice with nothing in between -> same exit class and identical result files; --reset_h5 --revise_anno -> exit 0 and "
        "result files identical to a fresh directory on the current inputs; after a window change -> fresh results or non-zero exit. "
        "non-trivial = the run reuses at least one intermediate and rewrites at least one other, or follows an edit; distinct = (pre-state, flags)")

FLAGS = [(False, False), (True, False), (False, True), (True, True)]
# directed histories, run first in every check (the reproductions of D9 and friends)
DIRECTED = [
    [("run", False, False), ("editT", 1), ("run", True, True)],                       # D9: stale overlap after refresh
    [("run", False, False), ("editG", 2), ("run", True, True)],                       # D9: added gene, refresh must finish
    [("run", False, False), ("editW", 1), ("run", False, False), ("run", False, False), ("run", True, True)],   # window error, twice, then refresh
    [("run", False, False), ("editG", 1), ("run", False, False), ("run", False, False)],
    [("run", False, False), ("editT", 1), ("run", False, False), ("run", False, True), ("run", False, True)],   # stale revised file until --revise_anno
    [("run", True, True), ("editG", 1), ("editT", 2), ("editW", 1), ("run", False, True)],
    [("run", False, False), ("editT_keep_mtime", 2), ("run", False, False), ("run", True, True)],
    [("run", False, False), ("backdate", "O", 0), ("editT", 1), ("run", False, True), ("run", True, True)],
    [("run", False, False), ("editW", 2), ("run", False, False), ("editW", 1), ("run", False, True), ("run", True, False)],
    [("run", False, False), ("editW", 1), ("run", False, False), ("editW", 2), ("run", False, False), ("run", False, True)],
    [("run", False, False), ("editW", 2), ("run", False, False), ("editW", 0), ("run", False, False)],
    # a killed run between edits: the refresh must still give the results of a fresh directory (c13_refresh holds from ANY disk)
    [("run", False, False), ("editT", 1), ("killrun", False, True, "replace", "G_order_revision_cache.tsv", "before"), ("editT", 2), ("run", True, True)],
    [("run", False, False), ("editT", 2), ("killrun", True, True, "replace", "G_nameless_revision_cache.tsv", "after"), ("editT", 1), ("editG", 1), ("run", True, True), ("run", True, True)],
    [("run", False, False), ("editW", 1), ("run", True, False), ("editW", 2), ("run", False, False), ("editW", 0), ("run", False, False)],
    # the very first run killed during the revision (some pass files in place, no revised annotation yet), the TE annotation corrected,
    # then the plain command: nothing of the killed revision may stand in for the annotation given now
    [("killrun", False, False, "replace", "G_order_revision_cache.tsv", "before"), ("editT", 1), ("run", False, False)],
    [("killrun", False, False, "replace", "Revised_tes.tsv", "before"), ("editT", 2), ("run", False, False), ("run", False, False)],
]


def gen_history(r, nmax):
    """a list of ops; always starts with a run so that there is something to be stale"""
    h = [("run",) + r.choice(FLAGS)]
    n = r.randint(2, nmax)
    while len(h) < n:
        k = r.random()
        if k < 0.40:
            h.append(("run",) + r.choice(FLAGS))
        elif k < 0.52:
            h.append(("editT", r.randint(0, 2)))
        elif k < 0.64:
            h.append(("editG", r.randint(0, 2)))
        elif k < 0.74:
            h.append(("editW", r.randint(0, 2)))
        elif k < 0.80:
            h.append(("touchG",))
        elif k < 0.86:
            h.append(("touchT",))
        elif k < 0.92:
            h.append(("editT_keep_mtime", r.randint(0, 2)))
        elif k < 0.96:
            h.append(("backdate", r.choice(["G", "T", "O"]), r.randint(0, 1)))
        else:
            base = r.choice(["G_superfam_revision_cache.tsv", "G_order_revision_cache.tsv", "G_nameless_revision_cache.tsv", "Revised_tes.tsv"])
            h.append(("killrun",) + r.choice(FLAGS[2:]) + ("replace", base, r.choice(["before", "after"])))
    if h[-1][0] != "run":
        h.append(("run",) + r.choice(FLAGS + [(True, True)]))
    return h


def apply_edit(w, op):
    time.sleep(0.015)
    k = op[0]
    if k == "editG":
        w.write_inputs(g=op[1])
    elif k == "editT":
        w.write_inputs(t=op[1])
    elif k == "editW":
        w.write_inputs(w=op[1])
    elif k == "touchG":
        os.utime(w.genes_in, None)
    elif k == "touchT":
        os.utime(w.tes_in, None)
    elif k == "editT_keep_mtime":
        st = os.stat(w.tes_in)
        w.write_inputs(t=op[1])
        os.utime(w.tes_in, ns=(st.st_atime_ns, st.st_mtime_ns))
    elif k in ("backdate", "futuredate"):
        ch = w.chroms[op[2] % len(w.chroms)]
        p = {"G": w.p_g, "T": w.p_t, "O": w.p_o}[op[1]](ch)
        if os.path.exists(p):
            st = os.stat(p)
            d = -3600 * 10**9 if k == "backdate" else 3600 * 10**9
            os.utime(p, ns=(st.st_atime_ns, st.st_mtime_ns + d))
    time.sleep(0.015)


def play(w, hist):
    """execute a history on world w; returns list of run records"""
    recs = []
    since = []      # ops since the previous run
    for op in hist:
        if op[0] == "killrun":
            # the command is started and the whole process group is killed at the given file operation (if it is reached)
            _, reset, revise, tkind, tbase, variant = op
            w.run(reset=reset, revise=revise, spec={"mode": "crash", "target": {"kind": tkind, "base": tbase, "n": 0}, "variant": variant})
            since.append(op)
            time.sleep(0.015)
            continue
        if op[0] != "run":
            apply_edit(w, op)
            since.append(op)
            continue
        _, reset, revise = op
        pre = w.abstract()
        run = w.run(reset=reset, revise=revise)
        post = w.abstract()
        res = w.results() if run["rc"] == 0 else {}
        recs.append({"op": op, "pre": pre, "post": post, "rc": run["rc"], "log": run["log"], "run": run, "results": res,
                     "since": list(since), "versions": (w.gv, w.tv, w.wv)})
        since = []
    return recs


def oracles(w, recs):
    """property statements evaluated on the implementation's own outputs"""
    fails = []
    synced = None     # versions at the last run known to equal a fresh run
    for i, rc_ in enumerate(recs):
        g, t, wv = rc_["versions"]
        _, reset, revise = rc_["op"]
        fresh = w.ref(g, t, wv)
        if i > 0 and not rc_["since"] and recs[i - 1]["op"] == rc_["op"]:
            p = recs[i - 1]
            if (p["rc"] == 0) != (rc_["rc"] == 0) or (p["rc"] == 0 and p["results"] != rc_["results"]):
                fails.append({"kind": "rerun_differs", "run": i, "command": rc_["op"], "exit": [p["rc"], rc_["rc"]],
                              "log": rc_["log"][-300:]})
        if reset and revise:
            if rc_["rc"] != 0:
                fails.append({"kind": "refresh_failed", "run": i, "exit": rc_["rc"], "log": rc_["log"][-400:]})
            elif rc_["results"] != fresh["results"]:
                bad = [f for f in fresh["results"] if rc_["results"].get(f) != fresh["results"][f]]
                fails.append({"kind": "refresh_not_fresh", "run": i, "files": bad, "extra": sorted(set(rc_["results"]) - set(fresh["results"]))})
        # a directory that holds no finished intermediate at all (only what a killed revision left under other names): the run has nothing
        # it may reuse, its results are those of a fresh directory for the files given now
        pre = rc_["pre"]
        if pre.get("R") is None and all(c.get("GC") is None and c.get("TC") is None and c.get("OV") is None for c in pre.get("chroms", [])) \
                and rc_["rc"] == 0 and rc_["results"] != fresh["results"]:
            bad = [f for f in fresh["results"] if rc_["results"].get(f) != fresh["results"][f]]
            fails.append({"kind": "run_with_nothing_to_reuse_not_fresh", "run": i, "files": bad})
        only_w = bool(rc_["since"]) and all(o[0] == "editW" for o in rc_["since"])
        if only_w and synced is not None and synced[:2] == (g, t):
            if rc_["rc"] == 0 and rc_["results"] != fresh["results"]:
                fails.append({"kind": "windows_changed_stale_success", "run": i})
        if rc_["rc"] == 0 and rc_["results"] == fresh["results"]:
            synced = (g, t, wv)
        elif rc_["since"] and not only_w:
            synced = None
    return fails


def run_world(args):
    chk_seed, wi, tier, nhist, nmax = args
    import random
    r = random.Random(chk_seed * 1000 + wi)
    case = gen.gen_pair(r, max_chrom=2, max_genes=3, max_tes=10, min_chrom=1 + (wi % 2))
    if wi < 2:
        f, d, l = case["windows"]
        if len(range(f, l + 1, d)) < 3:       # the directed window histories need a list that has proper sub-lists
            case["windows"] = [f, d, f + 2 * d]
    # the worlds that play the directed histories get the window changes a sloppy guard would accept (version 1)
    base = cachefam.World(case, r, wkinds={0: ("superset", "same_count"), 1: ("drop_first", "subset")}.get(wi))
    out = []
    try:
        base.all_refs()
        bad = [k for k, v in base.refs.items() if v["rc"] != 0]
        if bad:
            return {"world": wi, "error": "reference run failed for versions %s: %s" % (bad[0], base.refs[bad[0]]["log"][-300:]), "hists": []}
        hists = [DIRECTED[i] for i in range(len(DIRECTED)) if i % 2 == wi % 2] if wi < 2 else []
        hists += [gen_history(r, nmax) for _ in range(nhist)]
        for hist in hists:
            w = cachefam.World(case, versions=base.versions())     # same versions, own directory
            w.refs = base.refs
            try:
                recs = play(w, hist)
                fails = oracles(w, recs)
                for rc_ in recs:
                    rc_["written"] = [w.written(rc_["run"]["ops"])[0], [sorted(x) for x in w.written(rc_["run"]["ops"])[1]]]
                out.append({"hist": hist, "recs": recs, "fails": fails, "chroms": w.chroms})
            finally:
                w.close()
    finally:
        base.close()
    return {"world": wi, "hists": out, "refs": base.refs, "case": case, "versions": base.versions()}


def run(chk):
    pipefam.standard_obligations(chk, "C13.v")
    nworlds, nhist, nmax = (6, 3, 6) if chk.tier == "quick" else (16, 10, 8)
    jobs = [(chk.seed, wi, chk.tier, nhist, nmax) for wi in range(nworlds)]
    with ThreadPoolExecutor(max_workers=8) as ex:
        worlds = list(ex.map(run_world, jobs))
    # model evaluation of every run step
    exprs, index = [], []
    for wr in worlds:
        if wr.get("error"):
            chk.oblige("reference runs in fresh directories succeed", False, wr["error"])
            continue
        for hi, h in enumerate(wr["hists"]):
            for ri, rc_ in enumerate(h["recs"]):
                _, reset, revise = rc_["op"]
                exprs.append(cachefam.step_expr(rc_["pre"], reset, revise))
                index.append((wr, h, rc_))
    try:
        flats = common.coq_eval("c13", cachefam.IMPORTS, "", exprs, chunk=40) if exprs else []
        chk.oblige("model evaluation (vm_compute) of every run step", True)
    except Exception as e:
        flats = None
        chk.oblige("model evaluation (vm_compute) of every run step", False, str(e)[-1500:])
    ndiff, first_diff = 0, None
    if flats is not None:
        for flat, (wr, h, rc_) in zip(flats, index):
            n = len(h["chroms"])
            model = cachefam.decode_step(flat, n)
            w = cachefam.shell_world(h["chroms"], wr["refs"])
            d = cachefam.compare_step(w, rc_["pre"], rc_["op"], rc_["run"], rc_["post"], rc_["results"], model)
            chk.cov["traces_validated_against_impl"] += 1
            reused = any(len(c["kinds"]) < 3 for c in model["chroms"])
            rewrote = any(c["kinds"] for c in model["chroms"]) or model["revises"]
            chk.case_seen([rc_["pre"], rc_["op"]], (reused and rewrote) or bool(rc_["since"]))
            chk.count("run:reset=%s,revise=%s" % rc_["op"][1:])
            for o in rc_["since"]:
                chk.count("op:" + o[0])
            chk.count("outcome:" + ",".join(sorted(set(c["outcome"][0] for c in model["chroms"]))))
            if d:
                ndiff += 1
                if first_diff is None:
                    first_diff = {"history": h["hist"], "run": rc_["op"], "pre": rc_["pre"], "post": rc_["post"], "differences": d[:6],
                                  "exit": rc_["rc"], "log": rc_["log"][-500:]}
    nviol = 0
    for wr in worlds:
        for h in wr.get("hists", []):
            if h["fails"]:
                nviol += 1
                if nviol <= 3:
                    chk.violation("cached intermediates: " + h["fails"][0]["kind"],
                                  {"case": wr["case"], "versions": wr["versions"], "history": h["hist"], "failures": h["fails"][:4]})
    chk.oblige("correspondence: every run step of every history = Model.Cache.run on the observed pre-state (%d differ)" % ndiff,
               ndiff == 0, json.dumps(first_diff, default=str)[:3000] if first_diff else "")
    if first_diff and not nviol:
        chk.notes.append("first model/implementation difference: " + json.dumps(first_diff, default=str)[:1500])
    from .. import guardunit
    guardunit.run(chk, chk.rng("guards"), {"merge"})
    if worlds and worlds[0].get("hists"):
        chk.sample({"history": worlds[0]["hists"][0]["hist"], "chromosomes": worlds[0]["hists"][0]["chroms"]})
    return chk.finish(rule=RULE)


def replay(chk, rp):
    import random
    case, hist = rp["case"], [tuple(o) for o in rp["history"]]
    w = cachefam.World(case, versions=rp["versions"])
    try:
        recs = play(w, hist)
        fails = oracles(w, recs)
    finally:
        w.close()
    print(json.dumps({"failures": fails[:5], "exits": [r_["rc"] for r_ in recs]}, indent=1, default=str))
    return 1 if fails else 0
