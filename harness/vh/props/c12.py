"""C12 - an interrupted run never poisons a later run."""
from .. import interrupt

RULE = ("scenarios (fresh directory; edits of either / both annotations or the windows followed by each flag subset; unchanged re-run) are "
        "built on the real command line; the uninterrupted run is observed under the launcher, which yields every file operation it performs: "
        "DataFrame.to_csv (killed before creation and at byte offsets: quick 0/1/third/half/last/full, thorough ~40 offsets per file), os.replace "
        "(before/after), h5py File create / create_dataset / Dataset.__setitem__ / flush / close (with and without a preceding flush), per-gene "
        "overlap steps, per-task merge steps - in the main process and in pool workers. Each point: SIGKILL to the whole process group on a copy "
        "of the scenario directory, then (a) every final-named intermediate must be byte-identical to its old or its complete new content, "
        "(b) the directory must be one of Model.Cache's crash states, (c) the same command is run again and compared with the model's run from "
        "the observed state and (d) with the uninterrupted run: identical result files or non-zero exit. non-trivial = the scenario has a "
        "history before the interrupted command; distinct = (scenario, point). Not covered: torn HDF5 pages, power-loss write reordering")


def run(chk):
    return interrupt.run_family(chk, "crash", "C12.v", RULE)


def replay(chk, rp):
    return interrupt.replay_family(chk, rp, "crash")
