"""C04 - results do not depend on the row order of the input annotations."""
import json
from .. import common, gen, oracle, modelio, pipefam, pool

RULE = ("each generated annotation pair is run in 4 (quick) / 6 (thorough) row orders -- sorted, reversed, last row first, "
        "chromosome-interleaved, random -- through the real library stages; all runs compared with each other name-keyed "
        "(and the sorted one with the model); non-trivial = same-group overlap present and >= 3 TE rows; distinct = canonical JSON")


def compare_runs(case, reps, tags):
    """property oracle: every pair of row orders gives the same labelled cells"""
    fails = []
    base = None
    onames, snames = pipefam.real_names(case)
    for rep, tag in zip(reps, tags):
        if not rep.get("ok"):
            fails.append({"kind": "run_failed", "order": tag, "exc": rep.get("exc"), "msg": rep.get("msg")})
            continue
        cells, files, problems = pipefam.impl_cells(rep)
        cells = {k: v for k, v in cells.items() if pipefam.is_real_key(k, onames, snames)}
        genes = {ch: sorted(f["genes"]) for ch, f in files.items()}
        if base is None:
            base = (tag, cells, genes)
            continue
        if genes != base[2]:
            fails.append({"kind": "gene_axis_differs", "orders": [base[0], tag]})
        if set(cells) != set(base[1]):
            fails.append({"kind": "key_set_differs", "orders": [base[0], tag], "n": len(set(cells) ^ set(base[1]))})
        bad = [k for k in cells if k in base[1] and abs(cells[k] - base[1][k]) > 2.0 ** -22]
        if bad:
            fails.append({"kind": "value_differs", "orders": [base[0], tag], "n": len(bad), "key": list(bad[0]),
                          "values": [base[1][bad[0]], cells[bad[0]]]})
    return fails


def run_orders(r, case, k):
    variants = gen.permutations_of(r, case, k)
    reps = pipefam.run_impl(variants)
    return variants, reps


def run(chk):
    pipefam.standard_obligations(chk, "C04.v")
    n = 40 if chk.tier == "quick" else 700
    k = 4 if chk.tier == "quick" else 6
    r = chk.rng("cases")
    cases = pipefam.load_corpus("C04") + [gen.gen_pair(r, max_chrom=3, max_genes=5, max_tes=25) for _ in range(n)]
    allv, idx = [], []
    for c in cases:
        vs = gen.permutations_of(r, c, k)
        idx.append((len(allv), len(vs)))
        allv += vs
    reps = pipefam.run_impl(allv)
    try:
        models = modelio.eval_cases("c04", [allv[i] for i, _ in idx])
        chk.oblige("model evaluation (vm_compute) of every case", True)
    except Exception as e:
        models = None
        chk.oblige("model evaluation (vm_compute) of every case", False, str(e))
    nv, diff_only = 0, []
    for ci, (c, (i0, kk)) in enumerate(zip(cases, idx)):
        chk.case_seen({x: c[x] for x in ("genes", "tes", "windows")}, gen.has_same_group_overlap(c["tes"]) and len(c["tes"]) >= 3)
        chk.count("row_orders", kk)
        fails = compare_runs(c, reps[i0:i0 + kk], [v["order_tag"] for v in allv[i0:i0 + kk]])
        if models is not None:
            chk.cov["traces_validated_against_impl"] += 1
            pf, diffs = pipefam.check_c01_case(allv[i0], reps[i0], models[ci])
            if diffs and not fails:
                diff_only.append(diffs)
        if fails:
            nv += 1
            if nv <= 2:
                def still(cc, rr=chk.rng("shrink", ci)):
                    vs = gen.permutations_of(rr, cc, 4)
                    return bool(compare_runs(cc, pipefam.run_impl(vs), [v["order_tag"] for v in vs]))
                small = pipefam.shrink(c, still, budget=40)
                vs = gen.permutations_of(chk.rng("final", ci), small, 4)
                f2 = compare_runs(small, pipefam.run_impl(vs), [v["order_tag"] for v in vs])
                chk.violation("stored densities depend on the row order of the annotation files",
                              {"case": {x: small[x] for x in ("genes", "tes", "windows")}, "row_orders": [v["order_tag"] for v in vs],
                               "variants": [{"genes": v["genes"], "tes": v["tes"]} for v in vs] if len(small["tes"]) <= 12 else "regenerate with gen.permutations_of",
                               "failures": f2 or fails})
    chk.oblige("correspondence model = implementation (sorted row order of every pair)", not diff_only, json.dumps(diff_only[:1])[:2000])
    for c in cases[:2]:
        chk.sample({"n_genes": len(c["genes"]), "n_tes": len(c["tes"]), "windows": c["windows"], "row_orders": k})
    return chk.finish(rule=RULE)


def replay(chk, rp):
    c = rp["case"]
    vs = gen.permutations_of(chk.rng("replay"), c, 6)
    fails = compare_runs(c, pipefam.run_impl(vs), [v["order_tag"] for v in vs])
    print(json.dumps({"failures": fails}, indent=1))
    return 1 if fails else 0
