"""C14 - identifiers are opaque text and a first run behaves like a re-run."""
import copy, json, os, shutil, tempfile
from concurrent.futures import ThreadPoolExecutor
from .. import common, gen, cli, modelio, pipefam, oracle, cachefam

RULE = ("each generated annotation pair is renamed by injective maps drawn from pools (numeric-looking '1','2','10','007','7','1e3','1E3','0x1A',"
        "'-5','1.0'; names differing only in case; non-ASCII letters; long names (17-70 characters, UTF-8 length up to 3x the character count, pairs differing only in the last character); blanks, punctuation, quotes, '#', boolean-looking 'True'/'false'; prefixes "
        "of one another) applied to chromosomes, genes, orders and superfamilies separately and together (one plan with non-ASCII gene and group names runs under LC_ALL=C without UTF-8 mode); the renamed pair is run through the real "
        "command line twice in one directory (first run: revision in memory; second run: intermediates re-read) and compared (a) first run vs "
        "re-run: exit status, every label, every value; (b) renamed vs un-renamed run cell by cell through the inverse renaming; (c) stored gene "
        "names, chromosome id, order and superfamily names verbatim; (d) with the model evaluated on the renamed pair. non-trivial = the renaming "
        "changes the sort order of some axis or contains numeric-looking names; distinct = (input, renaming)")

POOLS = {
    "numeric": ["1", "2", "10", "007", "7", "1e3", "1E3", "0x1A", "-5", "1.0", "+3", "1_0", "00", "3.", ".5", "1e-2", "Inf", "123456789012345678901"],
    "case": ["chra", "ChrA", "CHRA", "chrA", "cHRa", "Abc", "abc", "ABC", "aBC", "abC", "AbC", "ABc", "aBc", "zz", "ZZ", "Zz", "zZ", "Mm"],
    "nonascii": ["染色体1", "Chr_é", "Ωmega", "ñandú", "Ångström", "ß", "ΑΒΓ", "日本", "çà", "Ж1", "é", "É", "ü2", "Œ", "ǆ", "İ", "ı", "µ"],
    "punct": ["Chr 1", "chr-1", "chr.1", " lead", "trail ", "a,b", "a;b", 'q"uote', "#hash", "per%cent", "a'b", "x|y", "(p)", "[b]", "a=b", "a&b", "@at", "~t"],
    "wordy": ["True", "False", "true", "NAME", "NAx", "None1", "nul", "nanx", "Total", "S_Revision1", "O_Rev", "Total_TE", "infinity", "NaN1", "N/A1", "null0", "yes", "no"],
    # lengths around and beyond 16 / 32 / 64 characters, byte length well above character length, names that agree on a long prefix
    "long": ["Retrotransposon_Gypsy_element", "Retrotransposon_Gypsy_elemenu", "Transposable_Element_Family_Alpha", "Transposable_Element_Family_Alphb",
             "L" * 70, "L" * 69 + "M", "Sixteen_chars_xy", "Sixteen_chars_xyz", "Seventeen_chars_é", "x" * 31 + "é", "x" * 32 + "é", "x" * 63 + "y",
             "x" * 64 + "y", "Élément_transposable_à_ADN_ç", "a" * 15, "a" * 16, "a" * 17, "b" * 33],
    # every name needs more UTF-8 bytes than the longest name of the pool has characters
    "longutf": ["超長い転移因子の名前です超長い転移因子", "超長い転移因子の名前です超長い転移因孑", "ÀÉÎÕÜàéîõüÀÉÎÕÜàé", "ÀÉÎÕÜàéîõüÀÉÎÕÜàè", "Ω" * 17, "Ω" * 18,
                "Ж" * 19, "Rétrotransposon_élément", "日本語の染色体の名前はこれです一二三", "Ångström_Ünïcödé_ñame", "éèêëēėęéèêëēėęéèê", "ßßßßßßßßßßßßßßßßß",
                "Ελληνικό_όνομα_μεταθετού", "Название_транспозона_1", "Название_транспозона_2", "𝔘𝔫𝔦𝔠𝔬𝔡𝔢_𝔫𝔞𝔪𝔢_𝔬𝔲𝔱𝔰𝔦𝔡𝔢_𝔅𝔐𝔓", "İstanbul_ılık_ğöçşü", "ǅǈǋǲǅǈǋǲǅǈǋǲǅǈǋǲǅ"],
    "prefix": ["A", "AA", "A_", "A_1", "A1", "A10", "A.1", "A-", "A.", "A_GeneData", "A_TEData", "A.h5", "Aoverlap", "A_overlap", "AAA", "A__", "A1_", "A_10"],
}
# characters that cannot be part of a file name component: chromosome ids are embedded in file names
UNSAFE_FOR_CHROM = set('/\0')


def make_maps(r, case, pool_name, which):
    """injective renaming of the identifiers of `case` for the categories in `which`"""
    pool = list(POOLS[pool_name])
    maps = {}
    for cat in ("chrom", "gene", "order", "superfam"):
        names = sorted(set(g["chrom"] for g in case["genes"]) | set(t["chrom"] for t in case["tes"])) if cat == "chrom" else \
            sorted(set(g["name"] for g in case["genes"])) if cat == "gene" else sorted(set(t[cat] for t in case["tes"]))
        if cat not in which:
            maps[cat] = {n: n for n in names}
            continue
        cand = [p for p in pool if cat != "chrom" or (not (set(p) & UNSAFE_FOR_CHROM) and len(p.encode()) <= 80)]
        r.shuffle(cand)
        m = {}
        for i, n in enumerate(names):
            m[n] = cand[i] if i < len(cand) else cand[i % len(cand)] + "_%d" % i
        maps[cat] = m
    # order and superfamily axes may share a name only if they did before (keeps the model's reading identical)
    return maps


def rename_case(case, maps):
    c = copy.deepcopy(case)
    for g in c["genes"]:
        g["chrom"] = maps["chrom"][g["chrom"]]; g["name"] = maps["gene"][g["name"]]
    for t in c["tes"]:
        t["chrom"] = maps["chrom"][t["chrom"]]; t["order"] = maps["order"][t["order"]]; t["superfam"] = maps["superfam"][t["superfam"]]
    return c


C_LOCALE = {"LC_ALL": "C", "LANG": "C", "PYTHONUTF8": "0", "PYTHONCOERCECLOCALE": "0"}


def two_runs(case, env=None):
    """first run and identical re-run in one directory; returns (rep1, rep2)"""
    d = tempfile.mkdtemp(prefix="vh14_")
    try:
        g, t, c = os.path.join(d, "genes.tsv"), os.path.join(d, "tes.tsv"), os.path.join(d, "cfg.ini")
        gen.write_pair(case, g, t, c)
        out = os.path.join(d, "out")
        reps = []
        for _ in range(2):
            rc, log = cli.run_cli(d, g, t, c, out, genome="G", nproc=2, env=env)
            files = cli.read_results(out) if os.path.isdir(out) else []
            reps.append({"rc": rc, "log": log[-1200:], "files": files, "ok": rc == 0,
                         "listing": sorted(fn for fn in os.listdir(out) if fn.endswith(".h5")) if os.path.isdir(out) else []})
        return reps
    finally:
        shutil.rmtree(d, ignore_errors=True)


def cells_of(rep):
    out = {}
    for f in rep["files"]:
        for ch, lv, name, side, w, g, v in f.get("cells", []):
            out[(ch, lv, name, side, w, g)] = v
    return out


def labels_of(rep):
    return {f["file"]: (f.get("chrom"), f.get("genes"), f.get("windows"), f.get("orders"), f.get("supers")) for f in rep["files"]}


def check_one(case, maps, base_rep, reps):
    fails = []
    r1, r2 = reps
    if r1["rc"] != r2["rc"]:
        fails.append({"kind": "first_run_and_rerun_exit_differ", "exit": [r1["rc"], r2["rc"]], "log1": r1["log"][-300:], "log2": r2["log"][-300:]})
    if (r1["rc"] == 0) != (base_rep["rc"] == 0):
        fails.append({"kind": "outcome_depends_on_naming", "exit_renamed": r1["rc"], "exit_original": base_rep["rc"], "log": r1["log"][-400:]})
    if r1["rc"] == 0 and r2["rc"] == 0:
        if labels_of(r1) != labels_of(r2):
            fails.append({"kind": "first_run_and_rerun_labels_differ"})
        c1, c2 = cells_of(r1), cells_of(r2)
        if set(c1) != set(c2) or any(c1[k] != c2[k] and not (c1[k] != c1[k] and c2[k] != c2[k]) for k in c1):
            bad = [k for k in c1 if k in c2 and c1[k] != c2[k]][:2]
            fails.append({"kind": "first_run_and_rerun_values_differ", "first": [list(map(str, k)) for k in bad]})
    if r1["rc"] == 0 and base_rep["rc"] == 0:
        ren = rename_case(case, maps)
        # verbatim labels
        want_files = sorted("G_%s.h5" % c for c in set(g["chrom"] for g in ren["genes"]))
        if r1["listing"] != want_files:
            fails.append({"kind": "result_file_names", "expected": want_files, "got": r1["listing"]})
        for f in r1["files"]:
            ch = f.get("chrom")
            gn = sorted(g["name"] for g in ren["genes"] if g["chrom"] == ch)
            if sorted(f.get("genes", [])) != gn:
                fails.append({"kind": "gene_names_not_verbatim", "chrom": ch, "expected": gn[:6], "got": sorted(f.get("genes", []))[:6]})
            on = set(t["order"] for t in ren["tes"] if t["chrom"] == ch)
            sn = set(t["superfam"] for t in ren["tes"] if t["chrom"] == ch)
            if not on <= set(f.get("orders", [])) or not sn <= set(f.get("supers", [])):
                fails.append({"kind": "group_names_not_verbatim", "chrom": ch, "orders": [sorted(on), f.get("orders")], "supers": [sorted(sn), f.get("supers")]})
        # same numbers through the inverse renaming
        cb = cells_of(base_rep)
        c1 = cells_of(r1)
        onames = set(t["order"] for t in case["tes"]); snames = set(t["superfam"] for t in case["tes"])
        nbad, first = 0, None
        for (ch, lv, name, side, w, g), v in cb.items():
            if name == "Total_TE_Density":
                n2 = name
            elif name in (onames if lv == 0 else snames):
                n2 = maps["order" if lv == 0 else "superfam"][name]
            else:
                continue        # bookkeeping rows
            k2 = (maps["chrom"][ch], lv, n2, side, w, maps["gene"][g])
            v2 = c1.get(k2)
            if v2 is None or abs(v2 - v) > 1e-7:
                nbad += 1
                first = first or {"original_key": [ch, lv, name, side, w, g], "original": v, "renamed_key": list(map(str, k2)), "renamed": v2}
        if nbad:
            fails.append({"kind": "values_depend_on_naming", "n": nbad, "first": first})
    return fails


def run(chk):
    pipefam.standard_obligations(chk, "C14.v")
    r = chk.rng("cases")
    quick = chk.tier == "quick"
    ncases = 4 if quick else 16
    plans = []
    combos = [("numeric", ("chrom",)), ("numeric", ("gene",)), ("numeric", ("order", "superfam")), ("numeric", ("chrom", "gene", "order", "superfam")),
              ("case", ("chrom", "gene", "order", "superfam")), ("nonascii", ("chrom", "gene", "order", "superfam")),
              ("punct", ("gene", "order", "superfam")), ("punct", ("chrom",)), ("wordy", ("chrom", "gene", "order", "superfam")),
              ("prefix", ("chrom", "gene")), ("prefix", ("order", "superfam")),
              ("long", ("chrom", "gene", "order", "superfam")), ("longutf", ("order", "superfam")),
              ("longutf", ("chrom", "gene", "order", "superfam")),
              # non-ASCII gene and group names by a process whose locale is not UTF-8 (LC_ALL=C, no UTF-8 mode): identifiers are text in
              # the files, whatever the terminal's encoding (chromosome names stay ASCII here: they are part of file names)
              ("nonascii_C_locale", ("gene", "order", "superfam"))]
    cases = []
    for ci in range(ncases):
        case = gen.gen_pair(r, max_chrom=3, max_genes=3, max_tes=10, min_chrom=2)
        cases.append(case)
        sel = combos if not quick else [combos[(ci * 6 + k) % len(combos)] for k in range(6)]
        if quick and ci == 0 and combos[-1] not in sel:
            sel = sel + [combos[-1]]
        for pool, which in sel:
            plans.append((ci, pool, which, make_maps(r, case, pool.replace("_C_locale", ""), which)))
    with ThreadPoolExecutor(max_workers=12) as ex:
        base_reps = list(ex.map(lambda c: two_runs(c)[0], cases))
        ren_cases = [rename_case(cases[ci], maps) for ci, _p, _w, maps in plans]
        ren_reps = list(ex.map(lambda ce: two_runs(ce[0], ce[1]), [(rc_, C_LOCALE if pl[1].endswith("_C_locale") else None) for rc_, pl in zip(ren_cases, plans)]))
    try:
        models = modelio.eval_cases("c14", ren_cases)
        chk.oblige("model evaluation (vm_compute) of every renamed input", True)
    except Exception as e:
        models = None
        chk.oblige("model evaluation (vm_compute) of every renamed input", False, str(e)[-1500:])
    nviol, diffs = 0, []
    for (ci, pool, which, maps), rcase, reps in zip(plans, ren_cases, ren_reps):
        chk.count("pool:%s" % pool)
        for wch in which:
            chk.count("renamed:%s" % wch)
        reorder = any(sorted(m, key=lambda n: m[n]) != sorted(m) for m in maps.values())
        chk.case_seen([rcase["genes"], rcase["tes"], rcase["windows"]], reorder or pool == "numeric")
        chk.cov["traces_validated_against_impl"] += 1
        fails = check_one(cases[ci], maps, base_reps[ci], reps)
        if models is not None and reps[0]["rc"] == 0:
            rep = {"ok": True, "files": reps[0]["files"]}
            pf, d = pipefam.check_c01_case(rcase, rep, models[plans.index((ci, pool, which, maps))])
            if d:
                diffs.append({"pool": pool, "renamed": which, "differences": d[:3]})
        if fails:
            nviol += 1
            if nviol <= 3:
                chk.violation("identifiers / first run vs re-run: " + fails[0]["kind"],
                              {"case": {k: cases[ci][k] for k in ("genes", "tes", "windows")}, "maps": maps, "pool": pool, "renamed": list(which),
                               "failures": fails[:4]})
    chk.oblige("correspondence model = implementation on every renamed input (%d differ)" % len(diffs), not diffs, json.dumps(diffs[:1], default=str)[:2500])
    if plans:
        chk.sample({"pool": plans[0][1], "renamed": plans[0][2], "maps": {k: dict(list(v.items())[:3]) for k, v in plans[0][3].items()}})
    return chk.finish(rule=RULE)


def replay(chk, rp):
    case, maps = rp["case"], rp["maps"]
    base = two_runs(case)[0]
    reps = two_runs(rename_case(case, maps), C_LOCALE if str(rp.get("pool", "")).endswith("_C_locale") else None)
    fails = check_one(case, maps, base, reps)
    print(json.dumps({"failures": fails[:5], "exits": [base["rc"], reps[0]["rc"], reps[1]["rc"]]}, indent=1, default=str))
    return 1 if fails else 0
