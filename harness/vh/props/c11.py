"""C11 - no chromosome's overlap result is lost when workers finish."""
import json
from .. import common, pool, pipefam, cli, gen

RULE = ("interleavings of k worker puts, collector steps (flag test / pop) and the main thread's stop request, enumerated from the "
        "model's transition system (all maximal interleavings with at most one idle collector cycle, k <= 2 quick / k <= 3 thorough) "
        "plus random schedules up to k = 6 (quick) / 8, plus two schedules in which the collector thread is starved for 1.4 s / 2.3 s after the stop request; each schedule is replayed on the real _ProgressBars with instrumented "
        "queue/event objects under a deterministic scheduler and evaluated in the Coq model; non-trivial = the stop request falls "
        "while a result is still queued or un-popped; distinct = the schedule; end to end: 24 (quick) / 64 one-gene chromosomes through the CLI with 16 workers, "
        "and 8 chromosomes in an output directory that holds partial overlap files of a killed run: one result file per chromosome whenever the exit status is 0; the hand-over: the real _process_overlap_job on generated pairs with a result queue whose put works or fails with EPIPE / ECONNRESET / EOF - a job that ends normally has put its result")


def mirror_step(s, a):
    """tiny mirror of Model/Collector.step (fixed=true), only used to ENUMERATE enabled interleavings"""
    unput, q, col, pc, stop = s
    if a[0] == "W":
        if a[1] >= len(unput):
            return None
        r = unput[a[1]]
        return (unput[:a[1]] + unput[a[1] + 1:], q + (r,), col, pc, stop)
    if a[0] == "M":
        if unput or stop:
            return None
        return (unput, q, col, pc, True)
    if pc == 0:
        return (unput, q, col, 2 if stop else 1, stop)
    if pc == 1:
        return (unput, q[1:], col + q[:1], 0, stop) if q else (unput, q, col, 0, stop)
    if pc == 2:
        return (unput, q[1:], col + q[:1], 2, stop) if q else (unput, q, col, 3, stop)
    return None


def enumerate_schedules(k, idle_budget=1, limit=4000):
    out = []
    def rec(s, sched, idle):
        if len(out) >= limit:
            return
        unput, q, col, pc, stop = s
        if pc == 3 and stop:
            out.append(sched); return
        acts = [["W", 0]] if unput else []      # results are symmetric: always the first un-put one ...
        if len(unput) > 1:
            acts.append(["W", len(unput) - 1])  # ... or the last (changes queue order)
        acts += [["C"], ["M"]]
        for a in acts:
            t = mirror_step(s, a)
            if t is None:
                continue
            nid = idle
            if a[0] == "C" and pc == 1 and not q and not stop:
                nid += 1                         # an idle pop (timeout)
                if nid > idle_budget:
                    continue
            rec(t, sched + [a], nid)
    rec((tuple(range(k)), (), (), 0, False), [], 0)
    return out


def random_schedule(r, k):
    n = r.randint(k + 3, 4 * k + 12)
    s = []
    for _ in range(n):
        x = r.random()
        if x < 0.3:
            s.append(["W", r.randint(0, k - 1)])
        elif x < 0.85:
            s.append(["C"])
        else:
            s.append(["M"])
    return s


def complete(s, k):
    return s + [["W", 0]] * k + [["M"]] + [["C"]] * (k + 4)


def to_coq(s):
    return "[" + "; ".join("W %d" % a[1] if a[0] == "W" else a[0] for a in s if a[0] != "S") + "]"


def e2e_case(nchr):
    case = {"genes": [], "tes": [], "windows": [100, 100, 200]}
    for i in range(nchr):
        # half of the ids are scaffold-like: several underscore-separated tokens, the last one shared
        c = "c%02d" % i if i % 2 == 0 else "c%02d_KI2707%02dv1_random" % (i // 2 % 3, i)
        case["genes"].append({"name": c + "_g", "chrom": c, "start": 500, "stop": 700, "strand": "+"})
        case["tes"].append({"chrom": c, "start": 300 + i, "stop": 450 + i, "order": "LTR", "superfam": "Gypsy", "strand": "+"})
    return case


def leftover_run(nchr, left_idx):
    """CLI run in an output directory that already holds partial overlap files (a run killed while overlap workers were writing)"""
    import os, shutil, tempfile
    small = e2e_case(nchr)
    chroms = [g["chrom"] for g in small["genes"]]
    left = [chroms[i] for i in left_idx]
    d = tempfile.mkdtemp(prefix="vhc11_")
    try:
        ov = os.path.join(d, "out", "tmp", "overlap")
        os.makedirs(ov)
        for c in left:
            with open(os.path.join(ov, "partial_G_%s_overlap.h5" % c), "wb") as f:
                f.write(b"\x89HDF\r\n\x1a\n" + b"\0" * 600)
        rep = cli.run_case_cli(small, nproc=4, keep=d, timeout=300)
        got = sorted(f["chrom"] for f in rep["files"] if f.get("chrom"))
        return rep, got, sorted(chroms), left
    finally:
        shutil.rmtree(d, ignore_errors=True)


def run(chk):
    pipefam.standard_obligations(chk, "C11.v")
    r = chk.rng("schedules")
    jobs = []
    kmax_ex = 2 if chk.tier == "quick" else 3
    for k in range(1, kmax_ex + 1):
        for s in enumerate_schedules(k, limit=250 if chk.tier == "quick" else 4000):
            jobs.append((k, s))
    n_ex = len(jobs)
    # the D12 witness
    jobs.insert(0, (2, [["W", 0], ["W", 0], ["C"], ["C"], ["M"], ["C"]]))
    nrand = 120 if chk.tier == "quick" else 3000
    kr = 6 if chk.tier == "quick" else 8
    for _ in range(nrand):
        k = r.randint(1, kr)
        jobs.append((k, random_schedule(r, k)))
    jobs = [(k, complete(s, k)) for k, s in jobs]
    # the collector thread starved (not scheduled) for a while after the stop request: the main thread must still wait for it
    jobs.append((3, complete([["W", 0], ["W", 0], ["W", 0], ["C"], ["M"], ["S", 1.4]], 3)))
    jobs.append((2, complete([["W", 0], ["C"], ["C"], ["W", 0], ["M"], ["S", 2.3], ["C"]], 2)))
    byk = {}
    for i, (k, s) in enumerate(jobs):
        byk.setdefault(k, []).append(i)
    reqs, owners = [], []
    for k, idxs in byk.items():
        for j in range(0, len(idxs), 12):
            part = idxs[j:j + 12]
            reqs.append({"op": "collector.replay", "k": k, "schedules": [jobs[i][1] for i in part]})
            owners.append(part)
    reps = pool.run_requests(reqs, timeout=240)
    real = [None] * len(jobs)
    for rep, part in zip(reps, owners):
        if not rep.get("ok"):
            chk.oblige("schedules replayed on the real _ProgressBars", False, json.dumps(rep)[:1500])
            continue
        for i, run_ in zip(part, rep["runs"]):
            real[i] = run_
    try:
        flats = common.coq_eval("c11", "From TEV Require Import Model.Collector.", "",
                                ["flat_state (run true %s (init (seq 0 %d)))" % (to_coq(s), k) for k, s in jobs], chunk=200)
        chk.oblige("model evaluation (vm_compute) of every schedule", True)
    except Exception as e:
        flats = None
        chk.oblige("model evaluation (vm_compute) of every schedule", False, str(e))
    nv, ndiff, first = 0, 0, None
    for i, ((k, s), rr) in enumerate(zip(jobs, real)):
        if rr is None:
            continue
        # non-trivial: M occurs while something is queued (by the mirror)
        st = (tuple(range(k)), (), (), 0, False); nontriv = False
        for a in s:
            t = mirror_step(st, a)
            if t is None:
                continue
            if a[0] == "M" and st[1]:
                nontriv = True
            st = t
        chk.case_seen(s, nontriv)
        chk.count("k=%d" % k)
        bad = sorted(rr["collected"]) != list(range(k)) or not rr["terminated"]
        if bad:
            nv += 1
            if nv <= 2:
                chk.violation("a completed overlap result was lost / duplicated by the collector (or the collector did not terminate)",
                              {"k": k, "schedule": s, "collected": rr["collected"], "expected": list(range(k)), "terminated": rr["terminated"],
                               "executed": rr["executed"]})
        if flats is not None:
            chk.cov["traces_validated_against_impl"] += 1
            f = flats[i]
            mcol = f[5:5 + f[4]]
            if (f[0] != 3 or mcol != rr["collected"]) and not bad:
                ndiff += 1
                first = first or {"k": k, "schedule": s, "model_pc": f[0], "model_collected": mcol, "implementation": rr}
    chk.oblige("correspondence model = implementation on every schedule (collected list, in order)", ndiff == 0, json.dumps(first)[:2500] if first else "")
    chk.cov["exhaustive_k_up_to"] = kmax_ex
    chk.cov["enumerated_interleavings"] = n_ex
    # end-to-end: many one-gene chromosomes through the CLI; one result file per chromosome
    nchr = 24 if chk.tier == "quick" else 64
    case = e2e_case(nchr)
    for rnd in range(1 if chk.tier == "quick" else 4):
        rep = cli.run_case_cli(case, nproc=16, timeout=300)
        chk.cov["evaluations"] += 1
        chk.count("cli_runs_%d_chromosomes" % nchr)
        got = sorted(f["chrom"] for f in rep["files"] if f.get("chrom"))
        if rep["rc"] == 0 and got != sorted(set(g["chrom"] for g in case["genes"])):
            chk.violation("CLI exit 0 but %d result files for %d chromosomes" % (len(got), nchr), {"e2e_nchr": nchr, "files": got})
        if rep["rc"] != 0:
            chk.violation("CLI run with %d chromosomes failed (exit %s)" % (nchr, rep["rc"]), {"e2e_nchr": nchr, "log": rep["log"][-1500:]})
    # an output directory in which an earlier run was killed while overlap workers were writing: their partial files are still there
    for left_idx in ([1], [2, 3, 4, 5]):
        rep, got, want, left = leftover_run(8, left_idx)
        chk.cov["evaluations"] += 1
        chk.count("cli_runs_with_leftover_partial_overlap_files")
        if rep["rc"] == 0 and got != want:
            chk.violation("CLI exit 0 but %d result files for %d chromosomes in a directory holding partial overlap files of a killed run" % (len(got), len(want)),
                          {"leftover": {"nchr": 8, "left_idx": left_idx}, "leftover_partial_for": left, "files": got})
    # the hand-over of a finished chromosome: the real _process_overlap_job of every chromosome of a generated pair, with a result queue
    # whose put works or fails (the connection to the manager process is gone). A job that ends normally has handed its result over.
    pr = chk.rng("putfault")
    pcases = [gen.gen_pair(pr, max_chrom=3, max_genes=3, max_tes=6, min_chrom=2) for _ in range(3 if chk.tier == "quick" else 20)]
    preqs = [{"op": "overlap.putfault", "case": {k_: c[k_] for k_ in ("genes", "tes", "windows")}, "faults": f_}
             for c in pcases for f_ in (["none", "EPIPE", "EOF"], ["ECONNRESET", "none", "EPIPE"])]
    for rq_, rep in zip(preqs, pool.run_requests(preqs, timeout=300)):
        if not rep.get("ok"):
            chk.oblige("hand-over of finished chromosomes executed on the real _process_overlap_job", False, json.dumps(rep)[:1500]); continue
        for j in rep["jobs"]:
            chk.cov["evaluations"] += 1
            chk.count("handover:" + j["fault"])
            if j["ended"] == "normally" and j["results_received"] != 1:
                chk.violation("an overlap job ended normally although its result never reached the result queue (fault %s at the hand-over)" % j["fault"],
                              {"putfault": {"case": rq_["case"], "faults": rq_["faults"]}, "job": j})
    chk.sample({"k": jobs[0][0], "schedule": jobs[0][1], "collected": real[0] and real[0]["collected"]})
    chk.sample({"k": jobs[-1][0], "schedule": jobs[-1][1], "collected": real[-1] and real[-1]["collected"]})
    return chk.finish(rule=RULE)


def replay(chk, rp):
    if "putfault" in rp:
        rep = pool.run_requests([{"op": "overlap.putfault", "case": rp["putfault"]["case"], "faults": rp["putfault"]["faults"]}], timeout=300)[0]
        print(json.dumps(rep, indent=1)[:3000])
        return 1 if any(j["ended"] == "normally" and j["results_received"] != 1 for j in rep.get("jobs", [])) else 0
    if "leftover" in rp:
        rep, got, want, left = leftover_run(rp["leftover"]["nchr"], rp["leftover"]["left_idx"])
        print(json.dumps({"rc": rep["rc"], "result_files_for": got, "chromosomes": want, "partial_files_left_for": left}, indent=1))
        return 1 if (rep["rc"] == 0 and got != want) else 0
    if "e2e_nchr" in rp:
        rep = cli.run_case_cli(e2e_case(rp["e2e_nchr"]), nproc=16, timeout=300)
        got = sorted(f["chrom"] for f in rep["files"] if f.get("chrom"))
        print(json.dumps({"rc": rep["rc"], "result_files": len(got), "chromosomes": rp["e2e_nchr"]}, indent=1))
        return 1 if (rep["rc"] != 0 or len(got) != rp["e2e_nchr"]) else 0
    rep = pool.run_requests([{"op": "collector.replay", "k": rp["k"], "schedules": [rp["schedule"]]}])[0]
    rr = rep["runs"][0]
    bad = sorted(rr["collected"]) != list(range(rp["k"]))
    print(json.dumps(rr, indent=1))
    return 1 if bad else 0
