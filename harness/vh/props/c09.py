"""C09 - strand-aware view swaps upstream/downstream for minus-strand genes only."""
import copy, json
from .. import common, gen, pool, pipefam, readerfam

RULE = ("result files produced by the real library stages from generated pairs with every strand mixture (all +, all -, with '.', mixed; "
        "gene rows shuffled; every fourth pair on three chromosomes whose result-file names differ only by trailing characters of the extension, e.g. Chr1 / Chr15), loaded through every provided constructor (DensityData(...) with the cached GeneData and with a GeneData in a row order of its own, verify_h5_cache, the two "
        "directory-level constructors) in a fresh directory each, and - every third pair - in a directory where the pipeline had first run on the same genes with other strands before the gene file was corrected and the command repeated; every gene column (both TE levels, all groups and windows) compared with the raw arrays; "
        "raw file hashed before/after; plus synthetic result files in the code's layout with up to 10^7 values per array (2 files quick, 6 thorough), a few per cent minus genes, one of them among the last genes; non-trivial = at least one minus and one non-minus gene; distinct = (case, constructor)")
HOWS = ["ctor", "ctor_shuffled", "verify", "dir", "regex"]


def run(chk):
    pipefam.standard_obligations(chk, "C09.v")
    n = 12 if chk.tier == "quick" else 150
    r = chk.rng("cases")
    sessions = []
    for i in range(n):
        mix = readerfam.STRAND_MIXES[i % len(readerfam.STRAND_MIXES)]
        # every fourth pair on chromosomes whose file names differ only by trailing characters of the file extension
        fam = [["Chr1", "Chr15", "Chr5"], ["c.h", "c", "c5"], ["Sc5", "Sc", "Sc55"]][(i // 4) % 3] if i % 4 == 1 else None
        c = readerfam.strand_case(r, mix, max_chrom=3, names=fam, min_chrom=3) if fam else readerfam.strand_case(r, mix)
        for how in HOWS:
            sessions.append((c, how))
        if i % 3 == 0:
            # history: the pipeline first ran on the same genes with other strands; the strands were then corrected in the gene file and
            # the command repeated in the same output directory (no refresh option: the caches follow the file's modification time)
            before = copy.deepcopy(c)
            for g in before["genes"]:
                g["strand"] = {"+": "-", "-": "+", ".": "-"}[g["strand"]] if r.random() < 0.7 else g["strand"]
            c2 = dict(c); c2["_before"] = before; c2["mix"] = c["mix"]
            for how in ("dir", "ctor", "verify"):
                sessions.append((c2, how))
    reps = pool.run_requests([dict({"op": "reader.session", "case": {k: v for k, v in c.items() if k != "_before"}, "steps": [{"how": how}]},
                                   **({"case_before": c["_before"]} if c.get("_before") else {})) for c, how in sessions], timeout=240)
    exprs, meta = [], []
    for si, ((c, how), rep) in enumerate(zip(sessions, reps)):
        if rep.get("ok"):
            for fn, order in rep["raw_genes"].items():
                chrom = fn[2:-3]
                g, raw, idx = readerfam.model_genes_raw(c, chrom, order)
                exprs.append("flat_cols (swapped_copy %s %s)" % (g, raw)); meta.append((si, chrom, idx))
    try:
        flats = common.coq_eval("c09", "From TEV Require Import Model.Reader.", "", exprs, chunk=100)
        chk.oblige("model evaluation (vm_compute) of every file", True)
    except Exception as e:
        flats = None
        chk.oblige("model evaluation (vm_compute) of every file", False, str(e))
    model = {}
    if flats is not None:
        for (si, chrom, idx), f in zip(meta, flats):
            model[(si, chrom)] = readerfam.decode_cols(f, idx)
    nv, ndiff, first = 0, 0, None
    for si, ((c, how), rep) in enumerate(zip(sessions, reps)):
        strands = set(g["strand"] for g in c["genes"])
        chk.case_seen([c["genes"], c["tes"], how, bool(c.get("_before"))], "-" in strands and len(strands) > 1)
        chk.count("mix:" + c["mix"]); chk.count("constructor:" + how)
        if c.get("_before"):
            chk.count("history:strands_corrected_then_rerun")
        fails = []
        if not rep.get("ok"):
            fails.append({"kind": "session_failed", "exc": rep.get("exc"), "msg": rep.get("msg")})
        else:
            st = rep["steps"][0]
            if st.get("error"):
                fails.append({"kind": "load_raised", "error": st["error"]})
            else:
                fails += readerfam.view_failures(c, st["loaded"])
                want = sorted(set(g["chrom"] for g in c["genes"]))
                if sorted(l["chrom"] for l in st["loaded"]) != want:
                    fails.append({"kind": "chromosomes_loaded", "expected": want, "got": sorted(l["chrom"] for l in st["loaded"])})
                for l in st["loaded"]:
                    m = model.get((si, l["chrom"]))
                    if flats is not None:
                        chk.cov["traces_validated_against_impl"] += 1
                        if m is None or any(not readerfam.codes_match(m[g], l["cols"][g]) for g in m if l["cols"] and g in l["cols"]):
                            if not fails:
                                ndiff += 1; first = first or {"constructor": how, "chrom": l["chrom"], "model": m, "implementation": l["cols"]}
            if not rep["raw_unchanged"]:
                fails.append({"kind": "raw_result_file_modified"})
        if fails:
            nv += 1
            if nv <= 2:
                chk.violation("strand-aware reader does not exchange upstream/downstream exactly for the minus-strand genes (or modifies the raw file)",
                              dict({"case": {k: c[k] for k in ("genes", "tes", "windows")}, "constructor": how, "failures": fails[:6]},
                                   **({"case_before": {k: c["_before"][k] for k in ("genes", "tes", "windows")}} if c.get("_before") else {})))
    chk.oblige("correspondence model = implementation (per gene column: raw / exchanged)", ndiff == 0, json.dumps(first)[:2000] if first else "")
    # size: result files far larger than any generated pair gives (the exchange must not depend on how much there is to exchange)
    shapes = [(6, 9, 8, 3000), (2, 60, 200, 700)] if chk.tier == "quick" else \
        [(6, 9, 8, 3000), (2, 60, 200, 700), (12, 48, 40, 2600), (30, 64, 30, 2400), (4, 6, 200, 1500), (2, 100, 100, 900)]
    sreqs = [{"op": "reader.synthetic", "shape": sh, "seed": chk.seed + i, "minus": 0.04, "minus_tail": True, "shuffle_genes": i % 2 == 1}
             for i, sh in enumerate(shapes)]
    for rq, rep in zip(sreqs, pool.run_requests(sreqs, timeout=900)):
        chk.count("synthetic_result_file_values_per_array<=%d" % (10 ** len(str(rq["shape"][1] * rq["shape"][2] * rq["shape"][3]))))
        bad = (not rep.get("ok")) or rep.get("n_bad_genes") or not rep.get("raw_unchanged")
        chk.case_seen(["synthetic", rq["shape"], rq["seed"]], True)
        if bad:
            nv += 1
            chk.violation("strand-aware reader on a large result file: gene columns not exchanged exactly for the minus-strand genes",
                          {"synthetic": rq, "outcome": {k: rep.get(k) for k in ("ok", "exc", "msg", "n_bad_genes", "first_bad", "raw_unchanged", "n_minus", "values_per_array")}})
    chk.sample({"genes": [(g["name"], g["strand"]) for g in sessions[0][0]["genes"]], "constructor": sessions[0][1]})
    return chk.finish(rule=RULE)


def replay(chk, rp):
    if "synthetic" in rp:
        rep = pool.run_requests([rp["synthetic"]], timeout=900)[0]
        print(json.dumps(rep, indent=1))
        return 1 if (not rep.get("ok")) or rep.get("n_bad_genes") or not rep.get("raw_unchanged") else 0
    rep = pool.run_requests([dict({"op": "reader.session", "case": rp["case"], "steps": [{"how": rp["constructor"]}]},
                                  **({"case_before": rp["case_before"]} if rp.get("case_before") else {}))])[0]
    fails = []
    if not rep.get("ok") or rep["steps"][0].get("error"):
        fails.append({"kind": "failed", "detail": rep.get("msg") or rep["steps"][0].get("error")})
    else:
        fails = readerfam.view_failures(rp["case"], rep["steps"][0]["loaded"])
        if not rep["raw_unchanged"]:
            fails.append({"kind": "raw_result_file_modified"})
    print(json.dumps({"failures": fails}, indent=1))
    return 1 if fails else 0
