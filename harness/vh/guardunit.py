"""The translator's reading of the guard functions, exercised: the real functions of /repo and the TRANSLATED Gallina
functions (Gen/GenGuards.v, vm_compute) on the same arguments."""
import json
from . import common, pool


def merge_guard_cases(r, n):
    cases = []
    for _ in range(n):
        kind = r.choice(["windows", "gene_names", "chromosome"])
        if kind == "windows":
            a = sorted(r.sample(range(0, 5000, 50), r.randint(0, 5)))
            b = r.choice([list(a), a[1:], a[:-1], a + [a[-1] + 50] if a else [50], list(reversed(a)), [x + 1 for x in a], None])
            if r.random() < 0.07:
                a = None
        elif kind == "gene_names":
            a = ["g%d" % i for i in r.sample(range(20), r.randint(0, 5))]
            b = r.choice([list(a), a[1:], a[:-1], a + ["extra"], list(reversed(a)), [x.upper() for x in a], None])
            if r.random() < 0.07:
                a = None
        else:
            a = r.choice(["Chr1", "Chr10", "chr1", "1", None])
            b = r.choice(["Chr1", "Chr10", "chr1", "1", None])
        cases.append([kind, a, b])
    return cases


def split_cases(r, n):
    pool_ = ["Chr1", "Chr2", "Chr10", "chr1", "A", "B", "10", "2"]
    out = []
    for _ in range(n):
        g = sorted(r.sample(pool_, r.randint(1, 5)))
        t = r.choice([list(g), g[1:], g[:-1], sorted(g[:-1] + [r.choice(pool_)]), list(reversed(g)), sorted(r.sample(pool_, len(g)))])
        out.append([g, t])
    return out


def strand_cases(r, n):
    syms = ["+", "-", ".", "+", "-", "?", "+-", "", "plus"]
    return [[r.choice(syms[:5]) if r.random() < 0.8 else r.choice(syms) for _ in range(r.randint(1, 6))] for _ in range(n)]


def run(chk, r, which):
    """which: subset of {"merge", "split", "strand"}"""
    n = 120 if chk.tier == "quick" else 2000
    req = {"op": "guards.unit", "merge": merge_guard_cases(r, n) if "merge" in which else [],
           "split": split_cases(r, n) if "split" in which else [], "strand": strand_cases(r, n) if "strand" in which else []}
    rep = pool.run_requests([req], timeout=240)[0]
    if not rep.get("ok"):
        chk.oblige("guards executed on the real functions", False, json.dumps(rep)[:1500])
        return
    names = {}

    def nm(s):
        return names.setdefault(s, len(names) + 1)
    exprs, want, what = [], [], []
    for (kind, a, b), acc in zip(req["merge"], rep["merge"]):
        if kind == "windows":
            lit = lambda x: "None" if x is None else "(Some [%s]%%Z)" % "; ".join(common.zlit(v) for v in x)
            exprs.append("[if gen_validate_windows %s %s then 1 else 0]" % (lit(a), lit(b)))
        elif kind == "gene_names":
            lit = lambda x: "None" if x is None else "(Some [%s]%%N)" % "; ".join("%d" % nm("g:" + v) for v in x)
            exprs.append("[if gen_validate_gene_names %s %s then 1 else 0]" % (lit(a), lit(b)))
        else:
            lit = lambda x: "None" if x is None else "(Some %d%%N)" % nm("c:" + x)
            exprs.append("[if gen_validate_chromosome %s %s then 1 else 0]" % (lit(a), lit(b)))
        want.append(acc); what.append([kind, a, b])
    for (g, t), acc in zip(req["split"], rep["split"]):
        lit = lambda x: "[%s]%%N" % "; ".join("%d" % nm("c:" + v) for v in x)
        exprs.append("[if gen_validate_split %s %s then 1 else 0]" % (lit(g), lit(t)))
        want.append(acc); what.append(["split", g, t])
    code = {"+": 0, "-": 1, ".": 2}
    for s, acc in zip(req["strand"], rep["strand"]):
        exprs.append("[if gen_check_strand [%s]%%N then 1 else 0]" % "; ".join("%d" % code.get(x, 3) for x in s))
        want.append(acc); what.append(["strand", s])
    try:
        flats = common.coq_eval(chk.pid.lower() + "guards", "From TEV Require Import Model.Guards Gen.GenGuards.", "", exprs, chunk=200)
    except Exception as e:
        chk.oblige("translated guards evaluated (vm_compute)", False, str(e)[-1500:])
        return
    bad = [(w, a, f) for w, a, f in zip(what, want, flats) if [1 if a else 0] != f]
    chk.cov["evaluations"] += len(exprs)
    chk.count("guard_unit_cases", len(exprs))
    chk.oblige("translated guards = the real guard functions on every argument tried (%d cases, %d differ)" % (len(exprs), len(bad)),
               not bad, json.dumps([{"case": w, "real_accepts": a, "translated": f} for w, a, f in bad[:2]])[:2000])
