"""Readers shared by the implementation worker and the CLI driver."""
import h5py


def read_result_h5(path):
    """All labelled cells of one result file -> list of [chrom, level, name, side, window, gene, value]."""
    cells = []
    with h5py.File(path, "r") as f:
        dec = lambda a: [x.decode("utf-8") if isinstance(x, bytes) else str(x) for x in a]
        genes = dec(f["GENE_NAMES"][:])
        chrom = dec(f["CHROMOSOME_ID"][:])[0]
        windows = [int(x) for x in dec(f["WINDOWS"][:])]
        names = {0: dec(f["ORDER_NAMES"][:]), 1: dec(f["SUPERFAMILY_NAMES"][:])}
        keys = {0: "RHO_ORDERS", 1: "RHO_SUPERFAMILIES"}
        shapes = {}
        for lv in (0, 1):
            for side, suffix in ((0, "_LEFT"), (1, "_INTRA"), (2, "_RIGHT")):
                arr = f[keys[lv] + suffix][()]
                shapes[keys[lv] + suffix] = list(arr.shape)
                ws = [-1] if side == 1 else windows
                if arr.shape != (len(names[lv]), len(ws), len(genes)):
                    cells.append([chrom, lv, "__SHAPE__", side, -1, "", float("nan")])
                    continue
                for ni, name in enumerate(names[lv]):
                    for wi, w in enumerate(ws):
                        for gi, g in enumerate(genes):
                            cells.append([chrom, lv, name, side, w, g, float(arr[ni, wi, gi])])
    return {"chrom": chrom, "genes": genes, "windows": windows, "orders": names[0], "supers": names[1],
            "cells": cells, "shapes": shapes}


def read_tsv(path):
    import csv
    with open(path, newline="") as f:
        rd = csv.DictReader(f, delimiter="\t")
        return [dict(r) for r in rd]


